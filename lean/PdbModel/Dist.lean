/-
C14: distances, bounding box, chains in contact, wrapped distance in an orthogonal cell, overlap
predicates. Coordinates are exact decimals (`Int`, units of 10⁻⁶ Å); square roots are avoided by comparing
squares (`d < c ⟺ d² < c²` for `c > 0`).
-/
import PdbModel.Hier
import PdbModel.Gen.Elements
namespace PdbModel

def sq (x : Int) : Int := x * x

/-- squared `Atom::distance` -/
def Atom.d2 (a b : Atom) : Int := sq (b.x - a.x) + sq (b.y - a.y) + sq (b.z - a.z)

/-- `PDB::bounding_box`: running minimum / maximum per axis; `none` = no atom seen
(the code starts from `f64::MAX` / `f64::MIN`, below / above which no finite coordinate lies) -/
structure Box where
  minX : Int
  minY : Int
  minZ : Int
  maxX : Int
  maxY : Int
  maxZ : Int
  deriving Repr, DecidableEq

def Box.add (b : Box) (a : Atom) : Box :=
  { minX := if a.x < b.minX then a.x else b.minX, minY := if a.y < b.minY then a.y else b.minY,
    minZ := if a.z < b.minZ then a.z else b.minZ, maxX := if a.x > b.maxX then a.x else b.maxX,
    maxY := if a.y > b.maxY then a.y else b.maxY, maxZ := if a.z > b.maxZ then a.z else b.maxZ }

def boundingBox : List Atom → Option Box
  | [] => none
  | a :: as => some (as.foldl Box.add ⟨a.x, a.y, a.z, a.x, a.y, a.z⟩)

/-- `PDB::chains_in_contact` (cut-off `c` in the same units; the code compares `distance < c`) -/
def inContact (c : Int) (c1 c2 : Chain) : Bool :=
  c > 0 && c1.atoms.any fun a1 => c2.atoms.any fun a2 => decide (a1.d2 a2 < sq c)

/-- insertion-ordered association list: first chain id → ids of the chains in contact (no duplicates) -/
def addContact (m : List (String × List String)) (k v : String) : List (String × List String) :=
  match m with
  | [] => [(k, [v])]
  | (k', vs) :: rest => if k' = k then (k', if vs.contains v then vs else vs ++ [v]) :: rest
                        else (k', vs) :: addContact rest k v

def chainsInContact (p : PDB) (c : Int) : List (String × List String) :=
  p.chains.foldl (fun m c1 =>
    p.chains.foldl (fun m c2 =>
      if c1.id = c2.id then m
      else
        -- one entry per atom of chain1 that has a partner (the `break` only leaves the inner loop)
        c1.atoms.foldl (fun m a1 =>
          if c > 0 && c2.atoms.any (fun a2 => decide (a1.d2 a2 < sq c)) then addContact m c1.id c2.id else m) m) m) []

/-- per-axis image choice of `distance_wrapping`: `s` own coordinate, `o` the other's, `e` the cell edge -/
def wrapCoord (s o e : Int) : Int :=
  if 2 * (if s - o < 0 then o - s else s - o) > e then (if s > o then o + e else o - e) else o

def Atom.d2Wrapping (a b : Atom) (ea eb ec : Int) : Int :=
  sq (wrapCoord a.x b.x ea - a.x) + sq (wrapCoord a.y b.y eb - a.y) + sq (wrapCoord a.z b.z ec - a.z)

def unboundRadius (element : Nat) : Option Int :=
  if element = 0 then none else (Gen.radiiUnbound[element - 1]?).bind (·.map Int.ofNat)
def covalentRadius (element : Nat) : Option Int :=
  if element = 0 then none else (Gen.radiiCovalentSingle[element - 1]?).map Int.ofNat

/-- `overlaps` / `overlaps_bound` (and the wrapping variants through `d2`) -/
def overlapsWith (radius : Nat → Option Int) (d2 : Int) (a b : Atom) : Option Bool :=
  match radius a.element, radius b.element with
  | some ra, some rb => some (decide (d2 ≤ sq (ra + rb)))
  | _, _ => none

end PdbModel
