import PdbModel.Add
namespace PdbModel

/-- op: `<chain|-> <resnum|-> <icode opt|-> <name> <alt opt> A …` -/
def parseRawMOp : List String → Option (RawMOp × List String)
  | ch :: rn :: ic :: nm :: alt :: rest => do
      let (a, rest) ← parseAtom rest
      let chain ← if ch == "-" then some "" else decStr ch
      let rnum ← if rn == "-" then some 0 else rn.toInt?
      let icode ← if ic == "-" then some none else decOpt ic
      pure ((chain, (rnum, icode), (← decStr nm, ← decOpt alt), a), rest)
  | _ => none

def c08Run (level : String) (ops : List RawMOp) : Option String :=
  match level with
  | "model" =>
      match ops.foldlM Model.addAtom { serial := 1, chains := [] } with
      | some m => some (unwords m.toks)
      | none => some "PANIC"
  | "chain" =>
      match (ops.map (·.2)).foldlM Chain.addAtom (Chain.empty "X") with
      | some c => some (unwords c.toks)
      | none => some "PANIC"
  | "residue" =>
      match (ops.map (·.2.2)).foldlM Residue.addAtom (Residue.empty (7, none)) with
      | some r => some (unwords r.toks)
      | none => some "PANIC"
  | _ => none

def handleC08 : List String → Option String
  | "hist" :: level :: n :: rest => do
      let (ops, _) ← parseMany parseRawMOp (← n.toNat?) rest
      c08Run level ops
  | _ => none

end PdbModel
