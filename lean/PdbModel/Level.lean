/-
C07: error levels, strictness levels, the `fails` table and the accept/reject gate
used by both readers (`parser.rs`: `errors.iter().any(|e| e.fails(level))`) and by the
validating save entry points.
-/
import PdbModel.Basic
namespace PdbModel

inductive ErrorLevel | breaking | invalidating | strictWarning | looseWarning | generalWarning
  deriving DecidableEq, Repr, Inhabited

inductive Strictness | strict | medium | loose
  deriving DecidableEq, Repr, Inhabited

/-- `ErrorLevel::fails` -/
def ErrorLevel.fails (e : ErrorLevel) : Strictness → Bool
  | .strict => true
  | .medium => e != .generalWarning
  | .loose => e != .generalWarning && e != .looseWarning

def ErrorLevel.all : List ErrorLevel :=
  [.breaking, .invalidating, .strictWarning, .looseWarning, .generalWarning]
def Strictness.all : List Strictness := [.strict, .medium, .loose]

def ErrorLevel.ofString? : String → Option ErrorLevel
  | "BreakingError" => some .breaking
  | "InvalidatingError" => some .invalidating
  | "StrictWarning" => some .strictWarning
  | "LooseWarning" => some .looseWarning
  | "GeneralWarning" => some .generalWarning
  | _ => none

def ErrorLevel.name : ErrorLevel → String
  | .breaking => "BreakingError"
  | .invalidating => "InvalidatingError"
  | .strictWarning => "StrictWarning"
  | .looseWarning => "LooseWarning"
  | .generalWarning => "GeneralWarning"

def Strictness.ofString? : String → Option Strictness
  | "Strict" => some .strict
  | "Medium" => some .medium
  | "Loose" => some .loose
  | _ => none

def Strictness.name : Strictness → String
  | .strict => "Strict" | .medium => "Medium" | .loose => "Loose"

/-- Outcome of a gated operation: either the value together with the diagnostics, or the diagnostics alone. -/
inductive Gated (α δ : Type) where
  | ok : α → List δ → Gated α δ
  | err : List δ → Gated α δ
  deriving Repr, DecidableEq

/-- The gate at the end of both readers and inside the validating savers. -/
def gate {α δ} (lvl : δ → ErrorLevel) (s : Strictness) (v : α) (ds : List δ) : Gated α δ :=
  if ds.any (fun d => (lvl d).fails s) then .err ds else .ok v ds

def Gated.isOk {α δ} : Gated α δ → Bool | .ok .. => true | .err .. => false

/-- `save_*`: validate, gate, and only then touch the file system. `FS` is a path-indexed store. -/
abbrev FS := String → Option (List Nat)

def FS.write (fs : FS) (p : String) (bytes : List Nat) : FS :=
  fun q => if q = p then some bytes else fs q

/-- Model of `save_pdb` / `save_mmcif` (and of `save`, `save_gz` after extension dispatch):
`diags` are the validation diagnostics of the structure, `bytes` what the raw writer produces. -/
def saveGated (fs : FS) (path : String) (s : Strictness) (diags : List ErrorLevel)
    (bytes : List Nat) : FS × Bool :=
  match gate id s () diags with
  | .err _ => (fs, false)
  | .ok _ _ => (fs.write path bytes, true)

end PdbModel
