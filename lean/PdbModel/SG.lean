/-
C17: space-group operators. An operator is a 3x4 matrix (integer rotation, translation in twelfths of
the cell edges modulo whole cells), stored as one `Nat` with 12 base-16 digits (row major: r r r t per
row); all digits are residues modulo 12, so −1 is stored as 11. Arithmetic is `Nat` arithmetic modulo 12,
which the kernel evaluates with GMP; `Lemmas/SG.lean` relates it to integer matrices.
-/
import PdbModel.Basic
namespace PdbModel

/-- the 12 digits, first entry of the first row first -/
def decode12 (o : Nat) : List Nat :=
  [o / 17592186044416 % 16, o / 1099511627776 % 16, o / 68719476736 % 16, o / 4294967296 % 16,
   o / 268435456 % 16, o / 16777216 % 16, o / 1048576 % 16, o / 65536 % 16,
   o / 4096 % 16, o / 256 % 16, o / 16 % 16, o % 16]

def encode12 (d : List Nat) : Nat := d.foldl (fun n x => n * 16 + x) 0

def identity12 : Nat := encode12 [1, 0, 0, 0, 0, 1, 0, 0, 0, 0, 1, 0]

/-! digit accessors (no list patterns: the kernel evaluates plain `Nat` arithmetic fastest) -/
def e0 (o : Nat) := o / 17592186044416 % 16
def e1 (o : Nat) := o / 1099511627776 % 16
def e2 (o : Nat) := o / 68719476736 % 16
def e3 (o : Nat) := o / 4294967296 % 16
def e4 (o : Nat) := o / 268435456 % 16
def e5 (o : Nat) := o / 16777216 % 16
def e6 (o : Nat) := o / 1048576 % 16
def e7 (o : Nat) := o / 65536 % 16
def e8 (o : Nat) := o / 4096 % 16
def e9 (o : Nat) := o / 256 % 16
def e10 (o : Nat) := o / 16 % 16
def e11 (o : Nat) := o % 16

/-- composition `a ∘ b` (apply `b` first): rotation `A·B`, translation `A·t_b + t_a`, modulo 12 -/
def compose12 (a b : Nat) : Nat :=
  ((e0 a * e0 b + e1 a * e4 b + e2 a * e8 b) % 12) * 17592186044416 +
  ((e0 a * e1 b + e1 a * e5 b + e2 a * e9 b) % 12) * 1099511627776 +
  ((e0 a * e2 b + e1 a * e6 b + e2 a * e10 b) % 12) * 68719476736 +
  ((e0 a * e3 b + e1 a * e7 b + e2 a * e11 b + e3 a) % 12) * 4294967296 +
  ((e4 a * e0 b + e5 a * e4 b + e6 a * e8 b) % 12) * 268435456 +
  ((e4 a * e1 b + e5 a * e5 b + e6 a * e9 b) % 12) * 16777216 +
  ((e4 a * e2 b + e5 a * e6 b + e6 a * e10 b) % 12) * 1048576 +
  ((e4 a * e3 b + e5 a * e7 b + e6 a * e11 b + e7 a) % 12) * 65536 +
  ((e8 a * e0 b + e9 a * e4 b + e10 a * e8 b) % 12) * 4096 +
  ((e8 a * e1 b + e9 a * e5 b + e10 a * e9 b) % 12) * 256 +
  ((e8 a * e2 b + e9 a * e6 b + e10 a * e10 b) % 12) * 16 +
  ((e8 a * e3 b + e9 a * e7 b + e10 a * e11 b + e11 a) % 12)

/-- all operators of a group: the identity first, then the table's -/
def allOps (ops : List Nat) : List Nat := identity12 :: ops

def rotEntryOk (d : Nat) : Bool := d == 0 || d == 1 || d == 11

/-- determinant modulo 12 (−x is 11·x) -/
def det12 (o : Nat) : Nat :=
  (e0 o * (e5 o * e10 o + 11 * (e6 o * e9 o)) + 11 * (e1 o * (e4 o * e10 o + 11 * (e6 o * e8 o))) +
    e2 o * (e4 o * e9 o + 11 * (e5 o * e8 o))) % 12

/-- rotation entries are −1, 0 or 1, translations are proper residues, determinant is ±1, and the
number has no further digits -/
def opOk (o : Nat) : Bool :=
  rotEntryOk (e0 o) && rotEntryOk (e1 o) && rotEntryOk (e2 o) && rotEntryOk (e4 o) && rotEntryOk (e5 o) &&
  rotEntryOk (e6 o) && rotEntryOk (e8 o) && rotEntryOk (e9 o) && rotEntryOk (e10 o) &&
  decide (e3 o < 12) && decide (e7 o < 12) && decide (e11 o < 12) &&
  (det12 o == 1 || det12 o == 11) && decide (o < 281474976710656)

/-- search tree over encoded operators (emitted by the translator); used only to make membership cheap
for the kernel — its soundness does not depend on the tree being ordered -/
inductive OpTree where
  | leaf : OpTree
  | node : OpTree → Nat → OpTree → OpTree

def OpTree.mem : OpTree → Nat → Bool
  | .leaf, _ => false
  | .node l v r, x => if x == v then true else if x < v then l.mem x else r.mem x

def OpTree.toList : OpTree → List Nat
  | .leaf => []
  | .node l v r => l.toList ++ v :: r.toList

def closed12 (t : OpTree) (g : List Nat) : Bool :=
  g.all fun a => g.all fun b => t.mem (compose12 a b)

def distinct12 : List Nat → Bool
  | [] => true
  | x :: xs => !xs.contains x && distinct12 xs

/-- everything the property asks of one group's operator list -/
def groupOk (t : OpTree) (ops : List Nat) : Bool :=
  let g := allOps ops
  g.all opOk && distinct12 g && t.toList.all g.contains && closed12 t g

end PdbModel
