/-
File-name decisions of the path based API: `guess_format` (src/read/read_options.rs, on top of
`Path::extension` / `Path::file_stem` for a plain file name) and `check_extension` (src/lib.rs) as used by
`save` / `save_gz`.  Core Lean only.
-/
import PdbModel.PdbText
namespace PdbModel

inductive FileFormat | pdb | mmcif
  deriving DecidableEq, Repr

/-- split at the last `.`: (text before, text after) -/
def rsplitDot (name : List Char) : Option (List Char × List Char) :=
  let rev := name.reverse
  let ext := (rev.takeWhile (· != '.')).reverse
  match rev.dropWhile (· != '.') with
  | [] => none
  | _ :: stemRev => some (stemRev.reverse, ext)

/-- `Path::new(name).extension()` for a file name without directory separators: the text after the last dot,
unless there is no dot or the only dot is the first character -/
def pathExtension (name : List Char) : Option (List Char) :=
  match rsplitDot name with
  | some (stem, ext) => if stem.isEmpty then none else some ext
  | none => none

/-- `Path::file_stem` -/
def pathStem (name : List Char) : List Char :=
  match rsplitDot name with
  | some (stem, _) => if stem.isEmpty then name else stem
  | none => name

def formatOfExt (e : List Char) : Option FileFormat :=
  if e == "pdb".toList || e == "pdb1".toList then some .pdb
  else if e == "cif".toList || e == "mmcif".toList then some .mmcif
  else none

/-- `guess_format`: format and "is gzip" -/
def guessFormat (name : List Char) : Option (FileFormat × Bool) :=
  match pathExtension name with
  | none => none
  | some e =>
    if e == "gz".toList then
      match pathExtension (pathStem name) with
      | some e2 => (formatOfExt e2).map fun f => (f, true)
      | none => none
    else (formatOfExt e).map fun f => (f, false)

/-- `check_extension` (after the repair: a name without a dot has no extension) -/
def checkExtension (name ext : List Char) : Bool :=
  match rsplitDot name with
  | some (_, e) => e.map lowerAscii == ext.map lowerAscii
  | none => false

/-- the writer `save` picks -/
def saveFormat (name : List Char) : Option FileFormat :=
  if checkExtension name "pdb".toList then some .pdb
  else if checkExtension name "cif".toList then some .mmcif
  else none

/-- the writer `save_gz` picks -/
def saveGzFormat (name : List Char) : Option FileFormat :=
  if checkExtension name "gz".toList then
    if name.length < 3 then none
    else
      let inner := name.take (name.length - 3)
      if checkExtension inner "pdb".toList then some .pdb
      else if checkExtension inner "cif".toList then some .mmcif
      else none
  else none

end PdbModel
