import PdbModel.Validate
namespace PdbModel

def showDiags (ds : List Diag) : String :=
  if ds.isEmpty then "-"
  else unwords (ds.map fun d => d.1.name ++ ":" ++ String.ofList (d.2.toList.map fun c => if c == ' ' then '_' else c))

def handleC18 : List String → Option String
  | "validate" :: st => do
      let (p, _) ← parsePDB st
      pure (showDiags (validate p))
  | "validate_pdb" :: st => do
      let (p, _) ← parsePDB st
      pure (showDiags (validatePdb p))
  | _ => none

end PdbModel
