/-
C18: `validate`, `validate_models`, `validate_pdb` mirrored push by push (diagnostics are
`(level, short description)`), and the declarative specification they are proved equal to.
Numeric limits in units of 10⁻⁶.
-/
import PdbModel.Hier
import PdbModel.Level
namespace PdbModel

abbrev Diag := ErrorLevel × String

/-- `Atom::corresponds` -/
def Atom.corresponds (a b : Atom) : Bool :=
  a.serial == b.serial && a.name == b.name && a.element == b.element && a.charge == b.charge &&
  ((a.atf.isNone && b.atf.isNone) || (a.atf.isSome && b.atf.isSome))

/-- the index loop `for index in 0..model.atom_count()` of `validate_models` -/
def correspondLoop (first cur : List Atom) : Nat → Nat → List Diag
  | 0, _ => []
  | fuel + 1, i =>
    match cur[i]?, first[i]? with
    | some c, some s =>
      (if !s.corresponds c then [(ErrorLevel.strictWarning, "Atoms in Models not corresponding")] else []) ++
        correspondLoop first cur fuel (i + 1)
    | _, _ => []   -- `unwrap` on a missing atom: unreachable, both lists have `atom_count` elements

def validateModels (p : PDB) : List Diag :=
  match p.models with
  | [] => []
  | first :: rest =>
    let total := first.atomCount
    let normal := (first.atoms.filter (fun a => !a.hetero)).length
    rest.flatMap fun m =>
      if m.atomCount != total then [(ErrorLevel.looseWarning, "Invalid Model")]
      else if (m.atoms.filter (fun a => !a.hetero)).length != normal then [(ErrorLevel.strictWarning, "Invalid Model")]
      else correspondLoop first.atoms m.atoms m.atomCount 0

def validate (p : PDB) : List Diag :=
  (if p.modelCount > 1 then validateModels p else []) ++
  (if p.atoms.isEmpty then [(ErrorLevel.breaking, "No Atoms")] else [])

def L (s : String) : List Diag := [(ErrorLevel.looseWarning, s)]
def whenD (c : Bool) (s : String) : List Diag := if c then L s else []

def atomColumnDiags (a : Atom) : List Diag :=
  whenD (a.name.length > 4) "Atom name too long" ++
  whenD (a.serial > 99999) "Atom serial number too high" ++
  whenD (a.charge > 9 || a.charge < -9) "Atom charge out of bounds" ++
  whenD (a.occ > 999990000 || a.occ < -99990000) "Atom occupancy out of bounds" ++
  whenD (a.b > 999990000 || a.b < -99990000) "Atom b factor out of bounds" ++
  whenD (a.x > 9999999000 || a.x < -999999000) "Atom x position out of bounds" ++
  whenD (a.y > 9999999000 || a.y < -999999000) "Atom y position out of bounds" ++
  whenD (a.z > 9999999000 || a.z < -999999000) "Atom z position out of bounds"

def conformerColumnDiags (c : Conformer) : List Diag :=
  whenD (c.name.length > 3) "Conformer name too long" ++
  (match c.alt with | some a => whenD (a.length > 1) "Conformer alternative location too long" | none => []) ++
  (match c.modification with
   | some (n, comment) =>
     whenD (n.length > 3) "Residue modification name too long" ++
     whenD (comment.length > 41) "Residue modification comment too long"
   | none => []) ++
  c.atoms.flatMap atomColumnDiags

def residueColumnDiags (r : Residue) : List Diag :=
  whenD (r.serial > 9999) "Residue serial number too high" ++
  whenD (r.serial < -999) "Residue serial number too low" ++
  (match r.icode with | some ic => whenD (ic.length > 1) "Residue insertion code too long" | none => []) ++
  r.conformers.flatMap conformerColumnDiags

def chainColumnDiags (c : Chain) : List Diag :=
  whenD (c.id.length > 1) "Chain id too long" ++ c.residues.flatMap residueColumnDiags

def modelColumnDiags (m : Model) : List Diag :=
  whenD (m.serial > 9999) "Model serial number too high" ++ m.chains.flatMap chainColumnDiags

/-- `validate_pdb` = general validation followed by the column diagnostics in traversal order -/
def validatePdb (p : PDB) : List Diag := validate p ++ p.models.flatMap modelColumnDiags

/-! ## declarative specification -/

/-- positions whose atom does not correspond to the first model's -/
def mismatches (first cur : List Atom) : List Diag :=
  (List.zip first cur).flatMap fun (s, c) =>
    if s.corresponds c then [] else [(ErrorLevel.strictWarning, "Atoms in Models not corresponding")]

def specValidate (p : PDB) : List Diag :=
  (match p.models with
   | first :: second :: rest =>
     (second :: rest).flatMap fun m =>
       if m.atoms.length ≠ first.atoms.length then [(ErrorLevel.looseWarning, "Invalid Model")]
       else if (m.atoms.filter (fun a => !a.hetero)).length ≠ (first.atoms.filter (fun a => !a.hetero)).length
         then [(ErrorLevel.strictWarning, "Invalid Model")]
       else mismatches first.atoms m.atoms
   | _ => []) ++
  (if p.atoms = [] then [(ErrorLevel.breaking, "No Atoms")] else [])

/-- the documented PDB column ranges -/
def atomFits (a : Atom) : Bool :=
  a.name.length ≤ 4 && a.serial ≤ 99999 && (-9 ≤ a.charge && a.charge ≤ 9) &&
  (-99990000 ≤ a.occ && a.occ ≤ 999990000) && (-99990000 ≤ a.b && a.b ≤ 999990000) &&
  (-999999000 ≤ a.x && a.x ≤ 9999999000) && (-999999000 ≤ a.y && a.y ≤ 9999999000) &&
  (-999999000 ≤ a.z && a.z ≤ 9999999000)

def conformerFits (c : Conformer) : Bool :=
  c.name.length ≤ 3 && (match c.alt with | some a => a.length ≤ 1 | none => true) &&
  (match c.modification with | some (n, cm) => n.length ≤ 3 && cm.length ≤ 41 | none => true)

def residueFits (r : Residue) : Bool :=
  (-999 ≤ r.serial && r.serial ≤ 9999) && (match r.icode with | some ic => ic.length ≤ 1 | none => true)

def fitsPdbColumns (p : PDB) : Bool :=
  p.models.all (fun m => m.serial ≤ 9999) && p.chains.all (fun c => c.id.length ≤ 1) &&
  p.residues.all residueFits && p.conformers.all conformerFits && p.atoms.all atomFits

end PdbModel
