import PdbModel.Dist
namespace PdbModel

/-- positions in eighths of an Å (the tie uses k/8 coordinates so that squares are exact in f64) -/
def eighths (a : Atom) : Atom := { a with x := a.x / 125000, y := a.y / 125000, z := a.z / 125000 }

def showContacts (m : List (String × List String)) : String :=
  let sortS (l : List String) := l.mergeSort (fun a b => decide (a ≤ b))
  let entries := (m.map fun (k, vs) => encStr k ++ ":" ++ ",".intercalate ((sortS vs).map encStr))
  if entries.isEmpty then "-" else unwords (sortS entries)

def handleC14 : List String → Option String
  | "d2" :: rest => do
      let (a, rest) ← parseAtom rest
      let (b, _) ← parseAtom rest
      pure (toString ((eighths a).d2 (eighths b)))
  | "wrap" :: ea :: eb :: ec :: rest => do
      let (a, rest) ← parseAtom rest
      let (b, _) ← parseAtom rest
      pure (toString ((eighths a).d2Wrapping (eighths b) (← ea.toInt?) (← eb.toInt?) (← ec.toInt?)))
  | "bbox" :: st => do
      let (p, _) ← parsePDB st
      match boundingBox p.atoms with
      | none => pure "EMPTY"
      | some b => pure s!"{b.minX} {b.minY} {b.minZ} {b.maxX} {b.maxY} {b.maxZ}"
  | "contacts" :: c :: st => do
      let (p, _) ← parsePDB st
      pure (showContacts (chainsInContact p (← c.toInt?)))
  | "overlaps" :: kind :: ea :: eb :: ec :: rest => do
      let (a, rest) ← parseAtom rest
      let (b, _) ← parseAtom rest
      -- radii are in 1e-6 Å, so use micro-unit coordinates here
      let (ea, eb, ec) := (← ea.toInt?, ← eb.toInt?, ← ec.toInt?)
      let d2 := if kind == "plain" || kind == "bound" then a.d2 b else a.d2Wrapping b ea eb ec
      let radius := if kind == "plain" || kind == "wrap" then unboundRadius else covalentRadius
      match overlapsWith radius d2 a b with
      | none => pure "none"
      | some v => pure (boolTok v)
  | _ => none

end PdbModel
