import PdbModel.Edit
import PdbModel.Add
namespace PdbModel

/-- generic predicate over (serial, name, hetero) views of an element -/
def evalPred (pred : String) (serial : Int) (name : String) (het : Bool) : Option Bool :=
  if pred == "all" then some true
  else if pred == "het" then some het
  else if pred.startsWith "s=" then (pred.drop 2).toString.toInt?.map (fun n => serial == n)
  else if pred.startsWith "s<" then (pred.drop 2).toString.toInt?.map (fun n => decide (serial < n))
  else if pred.startsWith "n=" then (decStr (pred.drop 2).toString).map (fun n => name == n)
  else none

def predOk (pred : String) : Bool := (evalPred pred 0 "" false).isSome
def pA (pred : String) (a : Atom) : Bool := (evalPred pred a.serial a.name a.hetero).getD false
def pF (pred : String) (c : Conformer) : Bool := (evalPred pred 0 c.name false).getD false
def pR (pred : String) (r : Residue) : Bool := (evalPred pred r.serial "" false).getD false
def pC (pred : String) (c : Chain) : Bool := (evalPred pred 0 c.id false).getD false
def pM (pred : String) (m : Model) : Bool := (evalPred pred m.serial "" false).getD false

def parseNum (t : String) : Option Num :=
  if t == "nan" || t == "inf" || t == "-inf" then some .notFinite else t.toInt?.map .fin

/-- result of one step: `none` = panic -/
abbrev Step := Option (PDB × String)

def withModel (p : PDB) (im : Nat) (f : Model → Option (Model × String)) : Step :=
  match p.models[im]? with
  | none => some (p, "NOTARGET")
  | some m => (f m).map fun (m', out) => ({ p with models := p.models.set im m' }, out)

def withChain (p : PDB) (im ic : Nat) (f : Chain → Option (Chain × String)) : Step :=
  match p.models[im]? with
  | none => some (p, "NOTARGET")
  | some m => match m.chains[ic]? with
    | none => some (p, "NOTARGET")
    | some c => (f c).map fun (c', out) =>
        let m' : Model := { m with chains := m.chains.set ic c' }
        ({ p with models := p.models.set im m' }, out)

def withResidue (p : PDB) (im ic ir : Nat) (f : Residue → Option (Residue × String)) : Step :=
  match p.models[im]? with
  | none => some (p, "NOTARGET")
  | some m => match m.chains[ic]? with
    | none => some (p, "NOTARGET")
    | some c => match c.residues[ir]? with
      | none => some (p, "NOTARGET")
      | some r => (f r).map fun (r', out) =>
          let c' : Chain := { c with residues := c.residues.set ir r' }
          let m' : Model := { m with chains := m.chains.set ic c' }
          ({ p with models := p.models.set im m' }, out)

def withConformer (p : PDB) (im ic ir jf : Nat) (f : Conformer → Option (Conformer × String)) : Step :=
  withResidue p im ic ir fun r =>
    match r.conformers[jf]? with
    | none => some (r, "NOTARGET")
    | some c => (f c).map fun (c', out) => ({ r with conformers := r.conformers.set jf c' }, out)

def withAtom (p : PDB) (im ic ir jf ia : Nat) (f : Atom → Option (Atom × String)) : Step :=
  withConformer p im ic ir jf fun c =>
    match c.atoms[ia]? with
    | none => some (c, "NOTARGET")
    | some a => (f a).map fun (a', out) => ({ c with atoms := c.atoms.set ia a' }, out)

/-- setter result: accepted value stored, rejected value leaves the element unchanged -/
def setRes {α} (x : α) (r : Option α) (okTok errTok : String) : Option (α × String) :=
  match r with
  | some x' => some (x', okTok)
  | none => some (x, errTok)

def parseIdxList (t : String) : Option (List Nat) :=
  if t == "-" then some [] else (t.splitOn ",").mapM (·.toNat?)

def n? (t : String) : Option Nat := t.toNat?

def applyOp (p : PDB) : List String → Step
  -- PDB level
  | "p.add_model" :: rest => do
      let (m, _) ← parseModel rest
      pure ({ p with models := p.models ++ [m] }, "-")
  | ["p.remove_model", i] => do
      let l ← removeIdx? p.models (← n? i)
      pure ({ p with models := l }, "-")
  | ["p.remove_models_by", pr] => some (p.removeModelsBy (pM pr), "-")
  | ["p.remove_models_except", l] => do
      let (q, r) := p.removeModelsExcept (← parseIdxList l)
      pure (q, match r with | some k => s!"S{k}" | none => "N")
  | ["p.remove_all_models_except_first"] =>
      let (q, r) := p.removeModelsExcept [0]
      some (q, match r with | some k => s!"S{k}" | none => "N")
  | ["p.remove_model_serial_number", n] => do
      let n ← n? n
      let (l, b) := removeFirst (fun m : Model => m.serial == n) p.models
      pure ({ p with models := l }, boolTok b)
  | ["p.remove_chains_by", pr] => some (p.removeChainsBy (pC pr), "-")
  | ["p.remove_residues_by", pr] => some (p.removeResiduesBy (pR pr), "-")
  | ["p.remove_conformers_by", pr] => some (p.removeConformersBy (pF pr), "-")
  | ["p.remove_atoms_by", pr] => some (p.removeAtomsBy (pA pr), "-")
  | ["p.remove_empty"] => some (p.removeEmpty, "-")
  | "p.join" :: rest => do
      let (o, _) ← parsePDB rest
      pure (p.join o, "-")
  -- `PDB::from_iter(models)`: the models, collected again, are the same models
  | ["p.collect"] => some (p, "-")
  | "p.extend" :: n :: rest => do
      let (ms, _) ← parseMany parseModel (← n? n) rest
      pure ({ p with models := p.models ++ ms }, "-")
  -- Model level
  | "m.add_atom" :: im :: ch :: num :: ic :: nm :: alt :: rest => do
      -- `Model::add_atom`: the first chain with the id takes the atom, a new chain is appended otherwise
      let (a, _) ← parseAtom rest
      let op : RawMOp := (← decStr ch, ((← num.toInt?, ← decOpt ic), ((← decStr nm, ← decOpt alt), a)))
      withModel p (← n? im) fun m => (m.addAtom op).map fun m' => (m', "-")
  | "c.add_atom" :: im :: jc :: num :: ic :: nm :: alt :: rest => do
      let (a, _) ← parseAtom rest
      let op : RawCOp := ((← num.toInt?, ← decOpt ic), ((← decStr nm, ← decOpt alt), a))
      withChain p (← n? im) (← n? jc) fun c => (c.addAtom op).map fun c' => (c', "-")
  | "m.add_chain" :: im :: rest => do
      let (c, _) ← parseChain rest
      withModel p (← n? im) fun m => some ({ m with chains := m.chains ++ [c] }, "-")
  | ["m.remove_chain", im, i] => do
      let i ← n? i
      withModel p (← n? im) fun m => (removeIdx? m.chains i).map fun l => ({ m with chains := l }, "-")
  | ["m.remove_chain_by_id", im, s] => do
      let s ← decStr s
      withModel p (← n? im) fun m =>
        let (l, b) := removeFirst (fun c : Chain => c.id == s) m.chains
        some ({ m with chains := l }, boolTok b)
  | ["m.remove_chains_by", im, pr] => do withModel p (← n? im) fun m => some (m.removeChainsBy (pC pr), "-")
  | ["m.remove_residues_by", im, pr] => do withModel p (← n? im) fun m => some (m.removeResiduesBy (pR pr), "-")
  | ["m.remove_conformers_by", im, pr] => do withModel p (← n? im) fun m => some (m.removeConformersBy (pF pr), "-")
  | ["m.remove_atoms_by", im, pr] => do withModel p (← n? im) fun m => some (m.removeAtomsBy (pA pr), "-")
  | ["m.remove_empty", im] => do withModel p (← n? im) fun m => some (m.removeEmpty, "-")
  | "m.join" :: im :: rest => do
      let (o, _) ← parseModel rest
      withModel p (← n? im) fun m => some (m.join o, "-")
  | "m.extend" :: im :: n :: rest => do
      let (cs, _) ← parseMany parseChain (← n? n) rest
      withModel p (← n? im) fun m => some ({ m with chains := m.chains ++ cs }, "-")
  | ["m.set_serial_number", im, n] => do
      let n ← n? n
      withModel p (← n? im) fun m => some ({ m with serial := n }, "-")
  -- Chain level
  | "c.add_residue" :: im :: ic :: rest => do
      let (r, _) ← parseResidue rest
      withChain p (← n? im) (← n? ic) fun c => some ({ c with residues := c.residues ++ [r] }, "-")
  | "c.insert_residue" :: im :: ic :: i :: rest => do
      let (r, _) ← parseResidue rest
      let i ← n? i
      withChain p (← n? im) (← n? ic) fun c => (insertIdx? c.residues i r).map fun l => ({ c with residues := l }, "-")
  | ["c.remove_residue", im, ic, i] => do
      let i ← n? i
      withChain p (← n? im) (← n? ic) fun c => (removeIdx? c.residues i).map fun l => ({ c with residues := l }, "-")
  | ["c.remove_residue_by_id", im, ic, n, o] => do
      let n ← n.toInt?
      let o ← decOpt o
      withChain p (← n? im) (← n? ic) fun c =>
        let (l, b) := removeFirst (fun r : Residue => r.serial == n && r.icode == o) c.residues
        some ({ c with residues := l }, boolTok b)
  | ["c.remove_residues_by", im, ic, pr] => do withChain p (← n? im) (← n? ic) fun c => some (c.removeResiduesBy (pR pr), "-")
  | ["c.remove_conformers_by", im, ic, pr] => do withChain p (← n? im) (← n? ic) fun c => some (c.removeConformersBy (pF pr), "-")
  | ["c.remove_atoms_by", im, ic, pr] => do withChain p (← n? im) (← n? ic) fun c => some (c.removeAtomsBy (pA pr), "-")
  | ["c.remove_empty", im, ic] => do withChain p (← n? im) (← n? ic) fun c => some (c.removeEmpty, "-")
  | "c.join" :: im :: ic :: rest => do
      let (o, _) ← parseChain rest
      withChain p (← n? im) (← n? ic) fun c => some (c.join o, "-")
  | "c.extend" :: im :: ic :: n :: rest => do
      let (rs, _) ← parseMany parseResidue (← n? n) rest
      withChain p (← n? im) (← n? ic) fun c => some ({ c with residues := c.residues ++ rs }, "-")
  | ["c.set_id", im, ic, raw] => do
      let raw ← decStr raw
      withChain p (← n? im) (← n? ic) fun c => setRes c (c.setId raw) "1" "0"
  -- Residue level
  | "r.add_conformer" :: im :: ic :: ir :: rest => do
      let (f, _) ← parseConformer rest
      withResidue p (← n? im) (← n? ic) (← n? ir) fun r => some ({ r with conformers := r.conformers ++ [f] }, "-")
  | ["r.remove_conformer", im, ic, ir, i] => do
      let i ← n? i
      withResidue p (← n? im) (← n? ic) (← n? ir) fun r =>
        (removeIdx? r.conformers i).map fun l => ({ r with conformers := l }, "-")
  | ["r.remove_conformer_by_id", im, ic, ir, s, o] => do
      let s ← decStr s
      let o ← decOpt o
      withResidue p (← n? im) (← n? ic) (← n? ir) fun r =>
        let (l, b) := removeFirst (fun c : Conformer => c.name == s && c.alt == o) r.conformers
        some ({ r with conformers := l }, boolTok b)
  | ["r.remove_conformers_by", im, ic, ir, pr] => do
      withResidue p (← n? im) (← n? ic) (← n? ir) fun r => some (r.removeConformersBy (pF pr), "-")
  | ["r.remove_atoms_by", im, ic, ir, pr] => do
      withResidue p (← n? im) (← n? ic) (← n? ir) fun r => some (r.removeAtomsBy (pA pr), "-")
  | ["r.remove_empty", im, ic, ir] => do
      withResidue p (← n? im) (← n? ic) (← n? ir) fun r => some (r.removeEmpty, "-")
  | "r.join" :: im :: ic :: ir :: rest => do
      let (o, _) ← parseResidue rest
      withResidue p (← n? im) (← n? ic) (← n? ir) fun r => some (r.join o, "-")
  | "r.extend" :: im :: ic :: ir :: n :: rest => do
      let (fs, _) ← parseMany parseConformer (← n? n) rest
      withResidue p (← n? im) (← n? ic) (← n? ir) fun r => some ({ r with conformers := r.conformers ++ fs }, "-")
  | ["r.set_serial_number", im, ic, ir, n] => do
      let n ← n.toInt?
      withResidue p (← n? im) (← n? ic) (← n? ir) fun r => some ({ r with serial := n }, "-")
  | ["r.set_insertion_code", im, ic, ir, raw] => do
      let raw ← decStr raw
      withResidue p (← n? im) (← n? ic) (← n? ir) fun r => setRes r (r.setIcode raw) "1" "0"
  | ["r.remove_insertion_code", im, ic, ir] => do
      withResidue p (← n? im) (← n? ic) (← n? ir) fun r => some ({ r with icode := none }, "-")
  -- Conformer level
  | "f.add_atom" :: im :: ic :: ir :: jf :: rest => do
      let (a, _) ← parseAtom rest
      withConformer p (← n? im) (← n? ic) (← n? ir) (← n? jf) fun c => some ({ c with atoms := c.atoms ++ [a] }, "-")
  | ["f.remove_atom", im, ic, ir, jf, i] => do
      let i ← n? i
      withConformer p (← n? im) (← n? ic) (← n? ir) (← n? jf) fun c =>
        (removeIdx? c.atoms i).map fun l => ({ c with atoms := l }, "-")
  | ["f.remove_atom_by_serial_number", im, ic, ir, jf, n] => do
      let n ← n? n
      withConformer p (← n? im) (← n? ic) (← n? ir) (← n? jf) fun c =>
        let (l, b) := removeFirst (fun a : Atom => a.serial == n) c.atoms
        some ({ c with atoms := l }, boolTok b)
  | ["f.remove_atom_by_name", im, ic, ir, jf, s] => do
      let s ← decStr s
      withConformer p (← n? im) (← n? ic) (← n? ir) (← n? jf) fun c =>
        let (l, b) := removeFirst (fun a : Atom => a.name == s) c.atoms
        some ({ c with atoms := l }, boolTok b)
  | ["f.remove_atoms_by", im, ic, ir, jf, pr] => do
      withConformer p (← n? im) (← n? ic) (← n? ir) (← n? jf) fun c => some (c.removeAtomsBy (pA pr), "-")
  | "f.join" :: im :: ic :: ir :: jf :: rest => do
      let (o, _) ← parseConformer rest
      withConformer p (← n? im) (← n? ic) (← n? ir) (← n? jf) fun c => some (c.join o, "-")
  | "f.extend" :: im :: ic :: ir :: jf :: n :: rest => do
      let (as, _) ← parseMany parseAtom (← n? n) rest
      withConformer p (← n? im) (← n? ic) (← n? ir) (← n? jf) fun c => some ({ c with atoms := c.atoms ++ as }, "-")
  | ["f.set_name", im, ic, ir, jf, raw] => do
      let raw ← decStr raw
      withConformer p (← n? im) (← n? ic) (← n? ir) (← n? jf) fun c => setRes c (c.setName raw) "1" "0"
  | ["f.set_alternative_location", im, ic, ir, jf, raw] => do
      let raw ← decStr raw
      withConformer p (← n? im) (← n? ic) (← n? ir) (← n? jf) fun c => setRes c (c.setAlt raw) "1" "0"
  | ["f.remove_alternative_location", im, ic, ir, jf] => do
      withConformer p (← n? im) (← n? ic) (← n? ir) (← n? jf) fun c => some ({ c with alt := none }, "-")
  | ["f.set_modification", im, ic, ir, jf, a, b] => do
      let a ← decStr a
      let b ← decStr b
      withConformer p (← n? im) (← n? ic) (← n? ir) (← n? jf) fun c => setRes c (c.setModification a b) "ok" "err"
  -- Atom level
  | ["a.set_hetero", im, ic, ir, jf, ia, b] => do
      let b ← tokBool b
      withAtom p (← n? im) (← n? ic) (← n? ir) (← n? jf) (← n? ia) fun a => some ({ a with hetero := b }, "-")
  | ["a.set_x", im, ic, ir, jf, ia, v] => do
      let v ← parseNum v
      withAtom p (← n? im) (← n? ic) (← n? ir) (← n? jf) (← n? ia) fun a => setRes a (a.setX v) "ok" "err"
  | ["a.set_y", im, ic, ir, jf, ia, v] => do
      let v ← parseNum v
      withAtom p (← n? im) (← n? ic) (← n? ir) (← n? jf) (← n? ia) fun a => setRes a (a.setY v) "ok" "err"
  | ["a.set_z", im, ic, ir, jf, ia, v] => do
      let v ← parseNum v
      withAtom p (← n? im) (← n? ic) (← n? ir) (← n? jf) (← n? ia) fun a => setRes a (a.setZ v) "ok" "err"
  | ["a.set_pos", im, ic, ir, jf, ia, x, y, z] => do
      let x ← parseNum x
      let y ← parseNum y
      let z ← parseNum z
      withAtom p (← n? im) (← n? ic) (← n? ir) (← n? jf) (← n? ia) fun a => setRes a (a.setPos x y z) "ok" "err"
  | ["a.set_serial_number", im, ic, ir, jf, ia, n] => do
      let n ← n? n
      withAtom p (← n? im) (← n? ic) (← n? ir) (← n? jf) (← n? ia) fun a => some ({ a with serial := n }, "-")
  | ["a.set_id", im, ic, ir, jf, ia, raw] => do
      let raw ← decStr raw
      withAtom p (← n? im) (← n? ic) (← n? ir) (← n? jf) (← n? ia) fun a => setRes a (a.setId raw) "ok" "err"
  | ["a.set_name", im, ic, ir, jf, ia, raw] => do
      let raw ← decStr raw
      withAtom p (← n? im) (← n? ic) (← n? ir) (← n? jf) (← n? ia) fun a => setRes a (a.setName raw) "ok" "err"
  | ["a.set_occupancy", im, ic, ir, jf, ia, v] => do
      let v ← parseNum v
      withAtom p (← n? im) (← n? ic) (← n? ir) (← n? jf) (← n? ia) fun a => setRes a (a.setOccupancy v) "ok" "err"
  | ["a.set_b_factor", im, ic, ir, jf, ia, v] => do
      let v ← parseNum v
      withAtom p (← n? im) (← n? ic) (← n? ir) (← n? jf) (← n? ia) fun a => setRes a (a.setBFactor v) "ok" "err"
  | ["a.set_element", im, ic, ir, jf, ia, n] => do
      let n ← n? n
      withAtom p (← n? im) (← n? ic) (← n? ir) (← n? jf) (← n? ia) fun a => some ({ a with element := n }, "-")
  | ["a.set_charge", im, ic, ir, jf, ia, n] => do
      let n ← n.toInt?
      withAtom p (← n? im) (← n? ic) (← n? ir) (← n? jf) (← n? ia) fun a => some ({ a with charge := n }, "-")
  | ["a.set_atf", im, ic, ir, jf, ia, t] => do
      let t ← parseAtf t
      withAtom p (← n? im) (← n? ic) (← n? ir) (← n? jf) (← n? ia) fun a => some ({ a with atf := t }, "-")
  | _ => some (p, "BAD-OP")

def fingerprint (p : PDB) : String :=
  s!"{p.models.length},{p.chains.length},{p.residues.length},{p.conformers.length},{p.atoms.length},{(p.atoms.map (·.serial)).sum}"

/-- split a token list at the `;` separators -/
def splitOps (ts : List String) : List (List String) :=
  let (acc, cur) := ts.foldl (fun (st : List (List String) × List String) t =>
    if t == ";" then (st.1 ++ [st.2], []) else (st.1, st.2 ++ [t])) ([], [])
  if cur.isEmpty then acc else acc ++ [cur]

def runOps : PDB → List (List String) → List String → List String × PDB
  | p, [], acc => (acc, p)
  | p, op :: ops, acc =>
    match applyOp p op with
    | none => (acc ++ ["PANIC"], p)
    | some (q, out) => runOps q ops (acc ++ [out ++ ":" ++ fingerprint q])

def handleC10 : List String → Option String
  | "hist" :: rest => do
      let (p, rest) ← parsePDB rest
      let ops := splitOps rest
      let (outs, q) := runOps p ops []
      pure (unwords (outs ++ ["|"] ++ q.toks))
  | _ => none

end PdbModel
