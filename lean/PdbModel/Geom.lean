/-
C13 / C14: the 3x4 affine algebra of `transformation.rs`, polymorphic in the scalar type so that the
driver instantiates it at `Int` (Mathlib-free) and the theorems hold in every commutative ring.
`mulAdd a b c = a * b + c` is `f64::mul_add` without rounding.
-/
import PdbModel.Hier
namespace PdbModel

structure Mat (R : Type) where
  a00 : R
  a01 : R
  a02 : R
  a03 : R
  a10 : R
  a11 : R
  a12 : R
  a13 : R
  a20 : R
  a21 : R
  a22 : R
  a23 : R
  deriving Repr, DecidableEq

section
variable {R : Type} [Add R] [Mul R] [Neg R]

def mulAdd (a b c : R) : R := a * b + c

/-- `TransformationMatrix::apply` -/
def Mat.apply (m : Mat R) (p : R × R × R) : R × R × R :=
  ( mulAdd p.2.2 m.a02 (mulAdd p.1 m.a00 (p.2.1 * m.a01)) + m.a03,
    mulAdd p.2.2 m.a12 (mulAdd p.1 m.a10 (p.2.1 * m.a11)) + m.a13,
    mulAdd p.2.2 m.a22 (mulAdd p.1 m.a20 (p.2.1 * m.a21)) + m.a23 )

/-- `TransformationMatrix::combine`: `self` is applied first, then `other` -/
def Mat.combine (s o : Mat R) : Mat R :=
  { a00 := mulAdd o.a02 s.a20 (mulAdd o.a00 s.a00 (o.a01 * s.a10))
    a01 := mulAdd o.a02 s.a21 (mulAdd o.a00 s.a01 (o.a01 * s.a11))
    a02 := mulAdd o.a02 s.a22 (mulAdd o.a00 s.a02 (o.a01 * s.a12))
    a03 := mulAdd o.a02 s.a23 (mulAdd o.a00 s.a03 (o.a01 * s.a13)) + o.a03
    a10 := mulAdd o.a12 s.a20 (mulAdd o.a10 s.a00 (o.a11 * s.a10))
    a11 := mulAdd o.a12 s.a21 (mulAdd o.a10 s.a01 (o.a11 * s.a11))
    a12 := mulAdd o.a12 s.a22 (mulAdd o.a10 s.a02 (o.a11 * s.a12))
    a13 := mulAdd o.a12 s.a23 (mulAdd o.a10 s.a03 (o.a11 * s.a13)) + o.a13
    a20 := mulAdd o.a22 s.a20 (mulAdd o.a20 s.a00 (o.a21 * s.a10))
    a21 := mulAdd o.a22 s.a21 (mulAdd o.a20 s.a01 (o.a21 * s.a11))
    a22 := mulAdd o.a22 s.a22 (mulAdd o.a20 s.a02 (o.a21 * s.a12))
    a23 := mulAdd o.a22 s.a23 (mulAdd o.a20 s.a03 (o.a21 * s.a13)) + o.a23 }

/-- `multiply_translation` -/
def Mat.multiplyTranslation (m : Mat R) (f : R × R × R) : Mat R :=
  { m with a03 := m.a03 * f.1, a13 := m.a13 * f.2.1, a23 := m.a23 * f.2.2 }

variable (zero one : R)
def Mat.identity : Mat R := ⟨one, zero, zero, zero, zero, one, zero, zero, zero, zero, one, zero⟩
/-- rotations with `(s, c) = sin_cos(angle)` -/
def Mat.rotX (s c : R) : Mat R := ⟨one, zero, zero, zero, zero, c, -s, zero, zero, s, c, zero⟩
def Mat.rotY (s c : R) : Mat R := ⟨c, zero, s, zero, zero, one, zero, zero, -s, zero, c, zero⟩
def Mat.rotZ (s c : R) : Mat R := ⟨c, -s, zero, zero, s, c, zero, zero, zero, zero, one, zero⟩
def Mat.translation (x y z : R) : Mat R := ⟨one, zero, zero, x, zero, one, zero, y, zero, zero, one, z⟩
def Mat.magnify (f : R) : Mat R := ⟨f, zero, zero, zero, zero, f, zero, zero, zero, zero, f, zero⟩
def Mat.scale (x y z : R) : Mat R := ⟨x, zero, zero, zero, zero, y, zero, zero, zero, zero, z, zero⟩
end

/-! applying a transformation to a structure: every level moves every contained atom, nothing else -/

def Atom.move (m : Mat Int) (a : Atom) : Atom :=
  let p := m.apply (a.x, a.y, a.z)
  { a with x := p.1, y := p.2.1, z := p.2.2 }

def Conformer.applyT (m : Mat Int) (c : Conformer) : Conformer := { c with atoms := c.atoms.map (Atom.move m) }
def Residue.applyT (m : Mat Int) (r : Residue) : Residue := { r with conformers := r.conformers.map (Conformer.applyT m) }
def Chain.applyT (m : Mat Int) (c : Chain) : Chain := { c with residues := c.residues.map (Residue.applyT m) }
def Model.applyT (m : Mat Int) (x : Model) : Model := { x with chains := x.chains.map (Chain.applyT m) }
def PDB.applyT (m : Mat Int) (p : PDB) : PDB := { p with models := p.models.map (Model.applyT m) }

end PdbModel
