/-
C10: the public mutators of PDB / Model / Chain / Residue / Conformer / Atom as pure functions.
Index operations that panic in Rust (`Vec::remove`, `Vec::insert`) return `none`.
-/
import PdbModel.Hier
namespace PdbModel

/-! ## predicate removals (`retain(|x| !pred(x))`) -/

def Conformer.removeAtomsBy (p : Atom → Bool) (c : Conformer) : Conformer :=
  { c with atoms := c.atoms.filter (fun a => !p a) }
def Residue.removeAtomsBy (p : Atom → Bool) (r : Residue) : Residue :=
  { r with conformers := r.conformers.map (Conformer.removeAtomsBy p) }
def Chain.removeAtomsBy (p : Atom → Bool) (c : Chain) : Chain :=
  { c with residues := c.residues.map (Residue.removeAtomsBy p) }
def Model.removeAtomsBy (p : Atom → Bool) (m : Model) : Model :=
  { m with chains := m.chains.map (Chain.removeAtomsBy p) }
def PDB.removeAtomsBy (p : Atom → Bool) (s : PDB) : PDB :=
  { s with models := s.models.map (Model.removeAtomsBy p) }

def Residue.removeConformersBy (p : Conformer → Bool) (r : Residue) : Residue :=
  { r with conformers := r.conformers.filter (fun c => !p c) }
def Chain.removeConformersBy (p : Conformer → Bool) (c : Chain) : Chain :=
  { c with residues := c.residues.map (Residue.removeConformersBy p) }
def Model.removeConformersBy (p : Conformer → Bool) (m : Model) : Model :=
  { m with chains := m.chains.map (Chain.removeConformersBy p) }
def PDB.removeConformersBy (p : Conformer → Bool) (s : PDB) : PDB :=
  { s with models := s.models.map (Model.removeConformersBy p) }

def Chain.removeResiduesBy (p : Residue → Bool) (c : Chain) : Chain :=
  { c with residues := c.residues.filter (fun r => !p r) }
def Model.removeResiduesBy (p : Residue → Bool) (m : Model) : Model :=
  { m with chains := m.chains.map (Chain.removeResiduesBy p) }
def PDB.removeResiduesBy (p : Residue → Bool) (s : PDB) : PDB :=
  { s with models := s.models.map (Model.removeResiduesBy p) }

def Model.removeChainsBy (p : Chain → Bool) (m : Model) : Model :=
  { m with chains := m.chains.filter (fun c => !p c) }
def PDB.removeChainsBy (p : Chain → Bool) (s : PDB) : PDB :=
  { s with models := s.models.map (Model.removeChainsBy p) }
def PDB.removeModelsBy (p : Model → Bool) (s : PDB) : PDB :=
  { s with models := s.models.filter (fun m => !p m) }

/-! ## removal by index (panics when out of range) and by identifier (first match, reports) -/

def removeIdx? {α} (l : List α) (i : Nat) : Option (List α) :=
  if i < l.length then some (l.eraseIdx i) else none

/-- remove the first element satisfying `p`; reports whether one existed -/
def removeFirst {α} (p : α → Bool) (l : List α) : List α × Bool :=
  match l.findIdx? p with
  | some i => (l.eraseIdx i, true)
  | none => (l, false)

def insertIdx? {α} (l : List α) (i : Nat) (x : α) : Option (List α) :=
  if i ≤ l.length then some (l.take i ++ x :: l.drop i) else none

/-! ## remove_empty cascades -/

def Residue.removeEmpty (r : Residue) : Residue :=
  { r with conformers := r.conformers.filter (fun c => c.atomCount > 0) }
def Chain.removeEmpty (c : Chain) : Chain :=
  { c with residues := (c.residues.map Residue.removeEmpty).filter (fun r => r.conformerCount > 0) }
def Model.removeEmpty (m : Model) : Model :=
  { m with chains := (m.chains.map Chain.removeEmpty).filter (fun c => c.residueCount > 0) }
def PDB.removeEmpty (s : PDB) : PDB :=
  { s with models := (s.models.map Model.removeEmpty).filter (fun m => m.chainCount > 0) }

/-! ## keeping selected models -/

/-- `remove_models_except`: `none` (and no change) when there are no models, the index list is empty or
an index is out of range; otherwise keeps the models at the listed indices in their original order -/
def PDB.removeModelsExcept (s : PDB) (idxs : List Nat) : PDB × Option Nat :=
  if s.models.isEmpty then (s, none)
  else match idxs.max? with
    | none => (s, none)
    | some mx =>
      if mx ≥ s.models.length then (s, none)
      else
        let kept := (s.models.zipIdx.filter (fun mi => idxs.contains mi.2)).map (·.1)
        ({ s with models := kept }, some (s.models.length - kept.length))

/-! ## join / extend -/

def Conformer.join (c o : Conformer) : Conformer := { c with atoms := c.atoms ++ o.atoms }
def Residue.join (r o : Residue) : Residue := { r with conformers := r.conformers ++ o.conformers }
def Chain.join (c o : Chain) : Chain := { c with residues := c.residues ++ o.residues }
def Model.join (m o : Model) : Model := { m with chains := m.chains ++ o.chains }

def PDB.join (s o : PDB) : PDB :=
  if s.models.length > 1 || o.models.length > 1 then { s with models := s.models ++ o.models }
  else match s.models, o.models with
    | [], _ => { s with models := o.models }
    | _, [] => s
    | m :: ms, om :: _ => { s with models := m.join om :: ms }

/-! ## setters with their validators (`none` = rejected, structure unchanged) -/

/-- a number argument: a finite value in units of 10⁻⁶, or not finite (`nan`, `inf`) -/
inductive Num | fin (v : Int) | notFinite deriving DecidableEq, Repr

def Atom.setX (a : Atom) : Num → Option Atom | .fin v => some { a with x := v } | .notFinite => none
def Atom.setY (a : Atom) : Num → Option Atom | .fin v => some { a with y := v } | .notFinite => none
def Atom.setZ (a : Atom) : Num → Option Atom | .fin v => some { a with z := v } | .notFinite => none
def Atom.setPos (a : Atom) : Num → Num → Num → Option Atom
  | .fin x, .fin y, .fin z => some { a with x := x, y := y, z := z }
  | _, _, _ => none
def Atom.setOccupancy (a : Atom) : Num → Option Atom
  | .fin v => if v ≥ 0 then some { a with occ := v } else none
  | .notFinite => none
def Atom.setBFactor (a : Atom) : Num → Option Atom
  | .fin v => if v ≥ 0 then some { a with b := v } else none
  | .notFinite => none
def Atom.setId (a : Atom) (raw : String) : Option Atom :=
  if !validText raw.toList then none
  else if raw.toList.isEmpty then none
  else some { a with id := String.ofList (trim raw.toList) }
def Atom.setName (a : Atom) (raw : String) : Option Atom :=
  if validText raw.toList then some { a with name := String.ofList ((trim raw.toList).map upperAscii) } else none

def Conformer.setName (c : Conformer) (raw : String) : Option Conformer :=
  (prepIdUpS raw).map fun n => { c with name := n }
def Conformer.setAlt (c : Conformer) (raw : String) : Option Conformer :=
  (prepIdUpS raw).map fun n => { c with alt := some n }
def Conformer.setModification (c : Conformer) (std comment : String) : Option Conformer :=
  if validText std.toList && validText comment.toList then some { c with modification := some (std, comment) } else none
def Residue.setIcode (r : Residue) (raw : String) : Option Residue :=
  (prepIdUpS raw).map fun n => { r with icode := some n }
def Chain.setId (c : Chain) (raw : String) : Option Chain :=
  (prepIdS raw).map fun n => { c with id := n }

/-- `Atom::new` acceptance: identifiers valid after trimming, numbers finite -/
def atomNewAccepts (id name element : String) (nums : List Num) : Bool :=
  validText (trim id.toList) && validText (trim name.toList) && validText (trim element.toList) &&
  nums.all (fun n => n != .notFinite)

end PdbModel
