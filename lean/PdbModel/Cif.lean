/-
The CIF lexer of pdbtbx (`src/read/mmcif/lexer.rs`) as total functions on `List Char`.

Positions (line / column) are not modelled: they only feed the contexts of diagnostics, which the mmCIF
properties do not speak about.  Every loop of the Rust code is a recursion here whose termination Lean checks
(`termination_by … decreasing_by`): the termination proofs are the "never loops" part of C06.

Core Lean only.
-/
import PdbModel.PdbText
namespace PdbModel

/-- white space of `trim_whitespace`: blank, tab and the two line-break characters -/
def isCifWs (c : Char) : Bool := c == ' ' || c == '\t' || c == '\n' || c == '\r'

/-- `char::is_ascii_whitespace` (ends an identifier): the above plus form feed -/
def isAsciiWs (c : Char) : Bool := c == ' ' || c == '\t' || c == '\n' || c == '\r' || c.toNat == 12

/-- `trim_comments_and_whitespace`; the flag says "inside a comment".  (`skip_to_eol` also swallows the second
character of a CRLF / LFCR pair — which is white space and would be trimmed anyway.) -/
def trimCW : Bool → List Char → List Char
  | _, [] => []
  | true, c :: r => if c == '\n' || c == '\r' then trimCW false r else trimCW true r
  | false, c :: r => if isCifWs c then trimCW false r else if c == '#' then trimCW true r else c :: r

/-- `start_with`: case-insensitive prefix test, returns the rest -/
def startWith (pat : List Char) (s : List Char) : Option (List Char) :=
  if (s.take pat.length).map lowerAscii == pat then some (s.drop pat.length) else none

/-- `parse_identifier`: everything up to the next ASCII white space -/
def identOf (s : List Char) : List Char := s.takeWhile (fun c => !isAsciiWs c)
def afterIdent (s : List Char) : List Char := s.dropWhile (fun c => !isAsciiWs c)

/-! ## values -/

inductive CifValue where
  | inapplicable
  | unknown
  /-- exact decimal value, number of significant mantissa digits, the token -/
  | num (f : Flt) (sig : Nat) (tok : List Char)
  | numU (f : Flt) (sig : Nat) (tok : List Char) (u : Nat)
  | text (s : List Char)
  deriving Repr, DecidableEq, Inhabited

def i32Max : Nat := 2147483647
def u32Max : Nat := 4294967295

/-- `parse_numeric` (after the repairs: exponent and uncertainty saturate, the value is the correctly rounded
`f64` of the literal).  The value is kept as an exact decimal. -/
def parseNumeric (t : List Char) : Option CifValue :=
  let (neg, b) := match t with | '-' :: r => (true, r) | '+' :: r => (false, r) | r => (false, r)
  let ip := b.takeWhile isDigit
  let r1 := b.dropWhile isDigit
  let (fp, r2) := match r1 with
    | '.' :: r => (r.takeWhile isDigit, r.dropWhile isDigit)
    | r => ([], r)
  -- exponent: `none` = the whole token is not a number
  let expo : Option (Option Int × List Char) :=
    match r2 with
    | e :: r =>
      if e == 'e' || e == 'E' then
        (match r with
         | [] => none
         | _ =>
           let (eneg, q) := match r with | '-' :: q => (true, q) | '+' :: q => (false, q) | q => (false, q)
           let ed := q.takeWhile isDigit
           let ev : Nat := min (digitsVal ed) i32Max
           some (if ed.isEmpty then none else some (if eneg then -(ev : Int) else (ev : Int)), q.dropWhile isDigit))
      else some (none, r2)
    | [] => some (none, [])
  match expo with
  | none => none
  | some (ex, r3) =>
    let unc : Option (Option Nat × List Char) :=
      match r3 with
      | '(' :: r =>
        let ud := r.takeWhile isDigit
        (match r.dropWhile isDigit with
         | ')' :: r4 => some (some (min (digitsVal ud) u32Max), r4)
         | _ => none)
      | r => some (none, r)
    match unc with
    | none => none
    | some (u, r4) =>
      if (ip.isEmpty && fp.isEmpty) || !r4.isEmpty then none
      else
        let mantN : Nat := digitsVal (ip ++ fp)
        let mant : Int := if neg then -(mantN : Int) else mantN
        let sig := ((ip ++ fp).dropWhile (· == '0')).length
        -- the literal is handed to `str::parse::<f64>`: correctly rounded, infinite beyond the `f64` range,
        -- zero below it
        let e : Int := (match ex with | some e => e | none => 0) - (fp.length : Int)
        let f : Flt :=
          if mantN = 0 then .fin 0 0
          else if (sig : Int) + e < -330 then .fin 0 0
          else if (Flt.fin mant e).isFinite then .fin mant e
          else .inf neg
        match u with
        | none => some (.num f sig t)
        | some u => some (.numU f sig t u)

/-- `is_ordinary` -/
def isOrdinary (c : Char) : Bool :=
  !(c == '#' || c == '$' || c == '\'' || c == '"' || c == '_' || c == '[' || c == ']' || c == ';' ||
    c == ' ' || c == '\t') && (33 ≤ c.toNat && c.toNat ≤ 126)

def reservedStart (s : List Char) : Bool :=
  (startWith "data_".toList s).isSome || (startWith "global_".toList s).isSome ||
  (startWith "loop_".toList s).isSome || (startWith "save_".toList s).isSome ||
  (startWith "stop_".toList s).isSome

/-- `parse_enclosed` on the text after the opening quote: the text up to the first `pat`, refused when a
line break comes first or the text ends -/
def parseEnclosed (pat : Char) (s : List Char) : Option (List Char × List Char) :=
  let stop := fun (c : Char) => c == pat || c == '\n' || c == '\r'
  match s.dropWhile (fun c => !stop c) with
  | c :: r => if c == pat then some (s.takeWhile (fun c => !stop c), r) else none
  | [] => none

/-- `parse_multiline_string` on the text after the opening `;`: everything (line breaks included) up to the
first `;` that directly follows a line break -/
def scanMulti : Bool → List Char → List Char → Option (List Char × List Char)
  | _, _, [] => none
  | eol, acc, c :: r =>
    if eol && c == ';' then some (acc.reverse, r)
    else scanMulti (c == '\n' || c == '\r') (c :: acc) r

/-- `parse_value`.  An error leaves the input at the trimmed position (`trimCW false s`). -/
def parseValue (s : List Char) : Except String (CifValue × List Char) :=
  match trimCW false s with
  | [] => .error "Empty value"
  | c :: r =>
    let t := c :: r
    if reservedStart t then .error "Use of reserved word"
    else if c == '.' then
      match parseNumeric (identOf t) with
      | some v => .ok (v, afterIdent t)
      | none => .ok (.inapplicable, r)
    else if c == '?' then .ok (.unknown, r)
    else if c == '\'' || c == '"' then
      match parseEnclosed c r with
      | some (txt, rest) => .ok (.text txt, rest)
      | none => .error "Invalid enclosing"
    else if c == ';' then
      match scanMulti false [] r with
      | some (txt, rest) => .ok (.text txt, rest)
      | none => .error "Multiline string not finished"
    else if isOrdinary c then
      match parseNumeric (identOf t) with
      | some v => .ok (v, afterIdent t)
      | none => .ok (.text (identOf t), afterIdent t)
    else .error "Invalid value"

/-! ### lengths: every successful step consumes input -/

theorem trimCW_length (b : Bool) (s : List Char) : (trimCW b s).length ≤ s.length := by
  induction s generalizing b with
  | nil => cases b <;> simp [trimCW]
  | cons c r ih =>
    cases b
    · simp only [trimCW]
      split
      · exact Nat.le_succ_of_le (ih false)
      · split
        · exact Nat.le_succ_of_le (ih true)
        · exact Nat.le_refl _
    · simp only [trimCW]
      split
      · exact Nat.le_succ_of_le (ih false)
      · exact Nat.le_succ_of_le (ih true)

theorem afterIdent_length (s : List Char) : (afterIdent s).length ≤ s.length :=
  List.Sublist.length_le (List.dropWhile_sublist _)

theorem startWith_length {pat s r : List Char} (h : startWith pat s = some r) :
    r.length + pat.length = s.length := by
  unfold startWith at h
  split at h
  · next hp =>
    cases h
    have hl : (s.take pat.length).length = pat.length := by
      have := congrArg List.length (of_decide_eq_true (by simpa using hp) : List.map lowerAscii (List.take pat.length s) = pat)
      simpa using this
    simp only [List.length_take] at hl
    simp only [List.length_drop]
    omega
  · cases h

theorem scanMulti_length (eol : Bool) (acc s : List Char) {txt rest : List Char}
    (h : scanMulti eol acc s = some (txt, rest)) : rest.length < s.length := by
  induction s generalizing eol acc with
  | nil => simp [scanMulti] at h
  | cons c r ih =>
    simp only [scanMulti] at h
    split at h
    · cases h; simp
    · exact Nat.lt_succ_of_lt (ih _ _ h)

theorem parseEnclosed_length (pat : Char) (s : List Char) {txt rest : List Char}
    (h : parseEnclosed pat s = some (txt, rest)) : rest.length < s.length := by
  unfold parseEnclosed at h
  simp only at h
  split at h
  · next c r heq =>
    split at h
    · cases h
      have := List.Sublist.length_le (List.dropWhile_sublist (fun c => !(c == pat || c == '\n' || c == '\r')) (l := s))
      rw [heq] at this
      simp only [List.length_cons] at this
      omega
    · cases h
  · cases h

/-- the identifier of a text that starts with a non-blank character is not empty, so the rest is shorter -/
theorem afterIdent_lt (c : Char) (r : List Char) (hc : isAsciiWs c = false) :
    (afterIdent (c :: r)).length < (c :: r).length := by
  unfold afterIdent
  rw [List.dropWhile_cons]
  simp only [hc, Bool.not_false, if_true]
  exact Nat.lt_succ_of_le (List.Sublist.length_le (List.dropWhile_sublist _))

theorem isOrdinary_not_ws (c : Char) (h : isOrdinary c = true) : isAsciiWs c = false := by
  unfold isOrdinary at h
  unfold isAsciiWs
  simp only [Bool.and_eq_true, Bool.not_eq_true', Bool.or_eq_false_iff, decide_eq_true_eq, beq_eq_false_iff_ne] at h ⊢
  obtain ⟨⟨⟨⟨⟨⟨⟨⟨⟨⟨_, _⟩, _⟩, _⟩, _⟩, _⟩, _⟩, _⟩, hsp⟩, htab⟩, hlo, hhi⟩ := h
  refine ⟨⟨⟨⟨hsp, htab⟩, ?_⟩, ?_⟩, ?_⟩
  · intro hc; subst hc; revert hlo; decide
  · intro hc; subst hc; revert hlo; decide
  · omega

/-- **every value consumes input** — the `while let Ok(value) = parse_value(input)` loop terminates -/
theorem parseValue_length {s : List Char} {v : CifValue} {rest : List Char}
    (h : parseValue s = .ok (v, rest)) : rest.length < s.length := by
  unfold parseValue at h
  have ht := trimCW_length false s
  split at h
  · cases h
  · next c r heq =>
    rw [heq] at ht
    simp only [List.length_cons] at ht
    simp only at h
    split at h
    · cases h
    · split at h
      · next hdot =>
        have hws : isAsciiWs c = false := by
          have : c = '.' := by simpa using hdot
          subst this; decide
        split at h
        · cases h
          have := afterIdent_lt c r hws
          simp only [List.length_cons] at this; omega
        · cases h; omega
      · split at h
        · cases h; omega
        · split at h
          · split at h
            · next txt rest' he => cases h; have := parseEnclosed_length c r he; omega
            · cases h
          · split at h
            · split at h
              · next txt rest' he => cases h; have := scanMulti_length false [] r he; omega
              · cases h
            · split at h
              · next hord =>
                have hws := isOrdinary_not_ws c hord
                have := afterIdent_lt c r hws
                simp only [List.length_cons] at this
                split at h <;> (cases h; omega)
              · cases h

/-! ## data items -/

inductive DataItem where
  | single (name : List Char) (v : CifValue)
  | loop (header : List (List Char)) (rows : List (List CifValue))
  deriving Repr, DecidableEq, Inhabited

inductive Item where
  | data (d : DataItem)
  | frame (name : List Char) (items : List DataItem)
  deriving Repr, Inhabited

structure DataBlock where
  name : List Char
  items : List Item
  deriving Repr, Inhabited

/-- `while let Ok(value) = parse_value(input)`: the values and the position the loop stops at -/
def collectValues (s : List Char) : List CifValue × List Char :=
  match h : parseValue s with
  | .ok (v, rest) =>
    let p := collectValues rest
    (v :: p.1, p.2)
  | .error _ => ([], trimCW false s)
termination_by s.length
decreasing_by exact parseValue_length h

/-- the header loop `while let Some(()) = start_with(input, "_")` (input already trimmed) -/
def collectHeader (s : List Char) : List (List Char) × List Char :=
  match h : startWith ['_'] s with
  | some r =>
    let p := collectHeader (trimCW false (afterIdent r))
    (identOf r :: p.1, p.2)
  | none => ([], s)
termination_by s.length
decreasing_by
  have h1 := startWith_length h
  have h2 := afterIdent_length r
  have h3 := trimCW_length false (afterIdent r)
  simp only [List.length_cons, List.length_nil] at h1
  omega

def chunk (n : Nat) (l : List CifValue) : List (List CifValue) :=
  if hn : n = 0 then [] else
  match hl : l with
  | [] => []
  | _ :: _ => l.take n :: chunk n (l.drop n)
termination_by l.length
decreasing_by subst hl; simp only [List.length_drop, List.length_cons]; omega

/-- `parse_data_item`: result and the position afterwards (the position matters after a failure inside a
save frame, where the caller goes on to look for the closing `save_`) -/
def parseDataItem (s : List Char) : Except String DataItem × List Char :=
  let t := trimCW false s
  match startWith "loop_".toList t with
  | some r =>
    let (header, r1) := collectHeader (trimCW false r)
    let (values, r2) := collectValues r1
    if header.length = 0 then (.error "Loop has no header", r2)
    else if values.length % header.length = 0 then (.ok (.loop header (chunk header.length values)), r2)
    else (.error "Loop has incorrect number of data items", r2)
  | none =>
    match startWith ['_'] t with
    | some r =>
      (match parseValue (afterIdent r) with
       | .ok (v, r1) => (.ok (.single (identOf r) v), r1)
       | .error _ => (.error "No valid Value", trimCW false (afterIdent r)))
    | none => (.error "No valid DataItem", t)

theorem collectValues_length (s : List Char) : (collectValues s).2.length ≤ s.length := by
  fun_induction collectValues s with
  | case1 s v rest h p ih =>
    have := parseValue_length h
    change (collectValues rest).2.length ≤ s.length
    omega
  | case2 s e h => exact trimCW_length false s

theorem collectHeader_length (s : List Char) : (collectHeader s).2.length ≤ s.length := by
  fun_induction collectHeader s with
  | case1 s r h p ih =>
    have h1 := startWith_length h
    have h2 := afterIdent_length r
    have h3 := trimCW_length false (afterIdent r)
    simp only [List.length_cons, List.length_nil] at h1
    change (collectHeader (trimCW false (afterIdent r))).2.length ≤ s.length
    omega
  | case2 s h => exact Nat.le_refl _

/-- **a parsed data item consumes input** — the item loops of the data block and of save frames terminate -/
theorem parseDataItem_length {s : List Char} {d : DataItem} (h : (parseDataItem s).1 = .ok d) :
    (parseDataItem s).2.length < s.length := by
  unfold parseDataItem at h ⊢
  have ht := trimCW_length false s
  simp only at h ⊢
  split
  · next r hr =>
    have h1 := startWith_length hr
    have hlen : "loop_".toList.length = 5 := by decide
    rw [hlen] at h1
    have h2 := trimCW_length false r
    have h3 := collectHeader_length (trimCW false r)
    have h4 := collectValues_length (collectHeader (trimCW false r)).2
    have : (collectValues (collectHeader (trimCW false r)).2).2.length < s.length := by omega
    split <;> (try split) <;> exact this
  · next hn =>
    split
    · next r hr =>
      have h1 := startWith_length hr
      simp only [List.length_cons, List.length_nil] at h1
      have h2 := afterIdent_length r
      split
      · next v r1 hv =>
        have := parseValue_length hv
        simp only; omega
      · next e hv =>
        have := trimCW_length false (afterIdent r)
        simp only; omega
    · next hn2 =>
      rw [hn] at h
      simp only [hn2] at h
      cases h

/-- items of a save frame: `while let Ok(item) = parse_data_item(input)` -/
def collectItems (s : List Char) : List DataItem × List Char :=
  match h : (parseDataItem s).1 with
  | .ok d =>
    let p := collectItems (parseDataItem s).2
    (d :: p.1, p.2)
  | .error _ => ([], (parseDataItem s).2)
termination_by s.length
decreasing_by exact parseDataItem_length h

theorem collectItems_length (s : List Char) : (collectItems s).2.length ≤ s.length := by
  fun_induction collectItems s with
  | case1 s d h p ih =>
    have := parseDataItem_length h
    change (collectItems (parseDataItem s).2).2.length ≤ s.length
    omega
  | case2 s e h =>
    simp only
    unfold parseDataItem
    have ht := trimCW_length false s
    simp only
    split
    · next r hr =>
      have h1 := startWith_length hr
      have h2 := trimCW_length false r
      have h3 := collectHeader_length (trimCW false r)
      have h4 := collectValues_length (collectHeader (trimCW false r)).2
      have : (collectValues (collectHeader (trimCW false r)).2).2.length ≤ s.length := by omega
      split <;> (try split) <;> exact this
    · split
      · next r hr =>
        have h1 := startWith_length hr
        have h2 := afterIdent_length r
        split
        · next v r1 hv => have := parseValue_length hv; simp only; omega
        · have := trimCW_length false (afterIdent r); simp only; omega
      · exact ht

/-- `parse_data_item_or_save_frame` (input already trimmed) -/
def parseItem (s : List Char) : Except String Item × List Char :=
  match startWith "save_".toList s with
  | some r =>
    let (items, r1) := collectItems (afterIdent r)
    (match startWith "save_".toList r1 with
     | some r2 => (.ok (.frame (identOf r) items), r2)
     | none => (.error "No matching 'save_' found", r1))
  | none =>
    match parseDataItem s with
    | (.ok d, r) => (.ok (.data d), r)
    | (.error e, r) => (.error e, r)

theorem parseItem_length {s : List Char} {i : Item} (h : (parseItem s).1 = .ok i) :
    (parseItem s).2.length < s.length := by
  unfold parseItem at h ⊢
  split
  · next r hr =>
    have h1 := startWith_length hr
    have hlen : "save_".toList.length = 5 := by decide
    rw [hlen] at h1
    have h2 := afterIdent_length r
    have h3 := collectItems_length (afterIdent r)
    simp only
    split
    · next r2 hr2 =>
      have h4 := startWith_length hr2
      simp only; omega
    · simp only; omega
  · next hn =>
    rw [hn] at h
    simp only at h ⊢
    split
    · next d r heq =>
      have hd : (parseDataItem s).1 = .ok d := by rw [heq]
      have := parseDataItem_length hd
      rw [heq] at this
      exact this
    · next e r heq =>
      rw [heq] at h
      cases h

/-- the item loop of `parse_data_block` -/
def blockItems (s : List Char) : Except String (List Item) :=
  match ht : trimCW false s with
  | [] => .ok []
  | c :: r =>
    match h : (parseItem (c :: r)).1 with
    | .ok i => (blockItems (parseItem (c :: r)).2).map (i :: ·)
    | .error e => .error e
termination_by s.length
decreasing_by
  have h1 := parseItem_length h
  have h2 := trimCW_length false s
  rw [ht] at h2
  omega

/-- `lex_cif` -/
def lexCif (text : List Char) : Except String DataBlock :=
  match startWith "data_".toList (trimCW false text) with
  | none => .error "Data Block not opened"
  | some r =>
    match blockItems (afterIdent r) with
    | .ok items => .ok { name := identOf r, items := items }
    | .error e => .error e

end PdbModel
