/-
The PDB parser (`read/pdb/parser.rs`, `read/pdb/validate.rs::reshuffle`, `validate.rs`) as a fold over
lexed lines, followed by the post-processing steps and the strictness gate.
SEQRES records are collected per chain and checked against the chains afterwards (`read/pdb/validate.rs::
validate_seqres`, below as `validateSeqres`).
-/
import PdbModel.PdbLex
import PdbModel.Hier
import PdbModel.Validate
import PdbModel.Gen.Elements
import PdbModel.SGSym
import PdbModel.Add
import PdbModel.Sort
namespace PdbModel

structure SeqPos where
  start : Int
  startIns : Option String
  stop : Int
  stopIns : Option String
  deriving Repr, DecidableEq

def SeqPos.new (s : Int) (si : Char) (e : Int) (ei : Char) : SeqPos :=
  ⟨s, if si == ' ' then none else some (String.singleton si), e, if ei == ' ' then none else some (String.singleton ei)⟩

structure SeqDiff where
  resName : String
  seqNum : Int
  insert : Option String
  dbRes : Option (String × Int)
  comment : String
  deriving Repr, DecidableEq

structure DbRef where
  db : String
  acc : String
  id : String
  pdbPos : SeqPos
  dbPos : SeqPos
  differences : List SeqDiff
  deriving Repr, DecidableEq

/-- everything `PDB` carries besides the hierarchy -/
structure Meta where
  identifier : Option String := none
  remarks : List (Nat × String) := []
  cell : Option (List Flt) := none          -- a b c alpha beta gamma
  symmetry : Option Nat := none
  scale : Option (List Flt) := none         -- 12 entries, row major
  origx : Option (List Flt) := none
  mtrix : List (Nat × List Flt × Bool) := []
  /-- database reference per chain, by position of the chain in `pdb.chains()` -/
  dbrefs : List (Nat × DbRef) := []
  /-- bonds as (position, position) of the two atoms in `pdb.atoms()` -/
  bonds : List (Nat × Nat) := []
  deriving Repr

structure PdbFile where
  pdb : PDB
  info : Meta
  /-- false when some numeric value is not an exact multiple of 10⁻⁶ (then values are not compared) -/
  exact : Bool := true
  deriving Repr

structure ReadOpts where
  level : Strictness := .medium
  discardHydrogens : Bool := false
  onlyFirstModel : Bool := false
  onlyAtomicCoords : Bool := false
  deriving Repr

/-! ### `Atom::new` -/

def elementOfSymbol (s : List Char) : Option Nat :=
  let up := String.ofList (s.map upperAscii)
  match Gen.elementSymbols.findIdx? (· == up) with
  | some i => some (i + 1)
  | none => none

/-- `Atom::new`: `none` = refused. The second component says whether every number was exact. -/
def atomNew (het : Bool) (serial : Nat) (id name : List Char) (x y z occ b : Flt) (element : List Char)
    (charge : Int) : Option (Atom × Bool) :=
  let id := trim id
  let name := trim name
  let element := trim element
  if validText id && validText name && validText element && x.isFinite && y.isFinite && z.isFinite &&
      occ.isFinite && b.isFinite then
    let el : Nat :=
      match elementOfSymbol element with
      | some e => e
      | none => match elementOfSymbol name with
        | some e => e
        | none => match name with
          | c :: _ => if "CHNOS".toList.contains c then (elementOfSymbol [c]).getD 0 else 0
          | [] => 0
    let v (f : Flt) : Int × Bool := match f.micro? with | some k => (k, true) | none => (0, false)
    let (vx, ex) := v x; let (vy, ey) := v y; let (vz, ez) := v z; let (vo, eo) := v occ; let (vb, eb) := v b
    some ({ hetero := het, serial := serial, id := String.ofList id, name := String.ofList (name.map upperAscii),
            x := vx, y := vy, z := vz, occ := vo, b := vb, element := el, charge := charge, atf := none },
          ex && ey && ez && eo && eb)
  else none

/-! ### parser state -/

abbrev ChainMap := List (String × List (ResId × Residue))

structure PState where
  errors : List PDiag := []
  models : List Model := []
  info : Meta := {}
  curNumber : Nat := 0
  cur : ChainMap := []
  dbrefs : List (String × DbRef × Bool) := []
  modifications : List ((Nat × List Char) × LexItem) := []
  bonds : List ((Nat × List Char) × LexItem) := []
  scale : List (Option (List Flt)) := [none, none, none]
  origx : List (Option (List Flt)) := [none, none, none]
  mtrix : List (Nat × List (Option (List Flt)) × Bool) := []
  lastRes : Int := 0
  resAdd : Int := 0
  lastAtom : Nat := 0
  atomAdd : Nat := 0
  chainLetter : Nat := 0          -- index into A..Z of `chain_id_new`
  nextId : Nat := 0
  exact : Bool := true
  /-- SEQRES data per chain id in order of first appearance: (serial number, residue total, names) per record -/
  seqres : List (Char × List (Nat × Nat × List (List Char))) := []
  /-- every SEQRES line with its line number -/
  seqresLines : List (Nat × List Char) := []
  stopped : Bool := false
  deriving Repr

def letterOf (n : Nat) : String := String.singleton (Char.ofNat (65 + n % 26))

def setRow (rows : List (Option (List Flt))) (i : Nat) (v : List Flt) : List (Option (List Flt)) := rows.set i (some v)
def rowsFull (rows : List (Option (List Flt))) : Option (List Flt) :=
  match rows with
  | [some a, some b, some c] => some (a ++ b ++ c)
  | _ => none
def rowsPartly (rows : List (Option (List Flt))) : Bool := rows.any (·.isSome)

/-- `Residue::add_atom` on the stored (normalised) identifiers, as used by the reader -/
def Residue.addAtomRaw (r : Residue) (a : Atom) (name : String) (alt : Option String) : Residue :=
  let nm := (prepIdUpS name).getD name
  let al := alt.bind prepIdUpS
  r.addAtomN ((nm, al), a)

def chainsOfMap (m : ChainMap) : List Chain :=
  m.map fun (id, rs) => { id := String.ofList (trim id.toList), residues := rs.map (·.2) }

def flushModel (s : PState) : PState :=
  if s.cur.isEmpty then s
  else { s with models := s.models ++ [{ serial := s.curNumber, chains := chainsOfMap s.cur }], cur := [] }

/-- `IndexMap` entry API as the reader uses it: the value under `k` is replaced by `g (some old)`, a missing key
is appended with `g none` (insertion order = order of first appearance) -/
def assocUpsert {K V : Type} [BEq K] (l : List (K × V)) (k : K) (g : Option V → V) : List (K × V) :=
  match l with
  | [] => [(k, g none)]
  | (a, v) :: r => if a == k then (a, g (some v)) :: r else (a, v) :: assocUpsert r k g

def upsertChain (m : ChainMap) (cid : String) (key : ResId) (f : Option Residue → Residue) : ChainMap :=
  assocUpsert m cid fun rs? => assocUpsert (rs?.getD []) key f

def setAtf (m : ChainMap) (serial : Nat) (t : List Int) : ChainMap :=
  -- chains in reverse order, the first atom (in traversal order within that chain) with the serial number
  let idxs := (List.range m.length).reverse
  let rec go : List Nat → Option ChainMap
    | [] => none
    | ci :: rest =>
      match m[ci]? with
      | none => go rest
      | some (id, rs) =>
        let atoms := rs.flatMap fun (_, r) => r.atoms
        if atoms.any (·.serial == serial) then
          -- set on the first matching atom of this chain
          let (rs', _) := rs.foldl (fun (acc : List (ResId × Residue) × Bool) (kr : ResId × Residue) =>
            let (k, r) := kr
            if acc.2 then (acc.1 ++ [(k, r)], true)
            else
              let (cs', done) := r.conformers.foldl (fun (a : List Conformer × Bool) (c : Conformer) =>
                if a.2 then (a.1 ++ [c], true)
                else match c.atoms.findIdx? (·.serial == serial) with
                  | some j => (a.1 ++ [{ c with atoms := c.atoms.modify j fun x => { x with atf := some t } }], true)
                  | none => (a.1 ++ [c], false)) ([], false)
              (acc.1 ++ [(k, { r with conformers := cs' })], done)) ([], false)
          some (m.set ci (id, rs'))
        else go rest
  (go idxs).getD m

def fltList (l : List Flt) : List Flt := l

/-- the wrap convention: a number 0 right after the largest number the column can hold means the count went
on; the offset grows by the column's modulus -/
def wrapAddN (top last add serial : Nat) : Nat := if serial == 0 && last == top then add + (top + 1) else add
def wrapAddI (top : Int) (last add serial : Int) : Int := if serial == 0 && last == top then add + (top + 1) else add

/-- what one lexed item does to the parser state; the diagnostics it raises all belong to the current line,
which `stepLine` attaches -/
def stepItem (o : ReadOpts) (s : PState) (ctx : Nat × List Char) (item : LexItem) : PState × List LDiag :=
    match item with
    | .header id => ({ s with info := { s.info with identifier := some (String.ofList id) } }, [])
    | .remark num text =>
      -- `add_remark`: refused for an invalid type number or invalid characters (the result is ignored)
      if Gen.remarkTypes.contains num && validText text then
        ({ s with info := { s.info with remarks := s.info.remarks ++ [(num, String.ofList text)] } }, [])
      else (s, [])
    | .atom het serial name alt resName chain resSeq icode x y z occ b element charge =>
      if o.discardHydrogens && element == ['H'] then (s, []) else
      let atomAdd := wrapAddN 99999 s.lastAtom s.atomAdd serial
      let resAdd := wrapAddI 9999 s.lastRes s.resAdd resSeq
      let s := { s with atomAdd := atomAdd, resAdd := resAdd }
      let cid : String := if (trim chain).isEmpty then letterOf s.chainLetter else String.ofList chain
      let resNameS := String.ofList resName
      let icodeS := icode.map String.ofList
      if !validText cid.toList || (prepIdUpS resNameS).isNone || (icodeS.any fun ic => (prepIdUpS ic).isNone) then
        (s, [(.invalidating, "Invalid identifier")])
      else
        let idTxt := (toString s.nextId).toList
        let s := { s with nextId := s.nextId + 1 }
        match atomNew het (serial + atomAdd) idTxt name x y z occ b element charge with
        | none => (s, [(.invalidating, "Invalid atom")])
        | some (a, ex) =>
          let key : ResId := (resSeq + resAdd, icodeS)
          let altS := alt.map String.ofList
          let cur := upsertChain s.cur cid key fun
            | some r => r.addAtomRaw a resNameS altS
            | none => { serial := resSeq + resAdd, icode := icodeS.bind prepIdUpS,
                        conformers := [{ name := (prepIdUpS resNameS).getD resNameS, alt := altS.bind prepIdUpS, atoms := [a] }] }
          ({ s with cur := cur, lastRes := resSeq, lastAtom := serial, exact := s.exact && ex }, [])
    | .anisou serial u =>
      match u with
      | [a, b, c, d, e, f] =>
        let m := [a, d, e, d, b, f, e, f, c].map (· * 100)
        ({ s with cur := setAtf s.cur (serial + s.atomAdd) m }, [])
      | _ => (s, [])
    | .model n =>
      if !s.cur.isEmpty then
        let s := flushModel s
        if o.onlyFirstModel then ({ s with stopped := true }, [])
        else ({ s with curNumber := n }, [])
      else ({ s with curNumber := n }, [])
    | .scale r v => ({ s with scale := setRow s.scale r v }, [])
    | .origx r v => ({ s with origx := setRow s.origx r v }, [])
    | .mtrix r ser v given =>
      match s.mtrix.findIdx? (·.1 == ser) with
      | some i => ({ s with mtrix := s.mtrix.modify i fun (k, rows, _) => (k, setRow rows r v, given) }, [])
      | none => ({ s with mtrix := s.mtrix ++ [(ser, setRow [none, none, none] r v, given)] }, [])
    | .crystal a b c al be ga sg =>
      let s := { s with info := { s.info with cell := some [a, b, c, al, be, ga] } }
      match symmetryNew (sg.map Char.toNat) with
      | some i => ({ s with info := { s.info with symmetry := some i } }, [])
      | none => (s, [(.invalidating, "Invalid space group")])
    | .seqres serNum chain numRes values =>
      ({ s with seqres := assocUpsert s.seqres chain (fun old => old.getD [] ++ [(serNum, numRes, values)]),
                seqresLines := s.seqresLines ++ [ctx] }, [])
    | .dbref chain lb li le lei db acc id d0 di0 d1 di1 =>
      ({ s with dbrefs := s.dbrefs ++ [(String.ofList chain,
          { db := String.ofList db, acc := String.ofList acc, id := String.ofList id,
            pdbPos := SeqPos.new lb li le lei, dbPos := SeqPos.new d0 di0 d1 di1, differences := [] }, true)] }, [])
    | .dbref1 chain lb li le lei db id =>
      ({ s with dbrefs := s.dbrefs ++ [(String.ofList chain,
          { db := String.ofList db, acc := "", id := String.ofList id,
            pdbPos := SeqPos.new lb li le lei, dbPos := SeqPos.new 0 ' ' 0 ' ', differences := [] }, false)] }, [])
    | .dbref2 chain acc b e =>
      match s.dbrefs.findIdx? (·.1 == String.ofList chain) with
      | some i => ({ s with dbrefs := s.dbrefs.modify i fun (c, r, _) =>
          (c, { r with acc := String.ofList acc, dbPos := SeqPos.new b ' ' e ' ' }, true) }, [])
      | none => (s, [(.breaking, "Solitary DBREF2")])
    | .seqadv chain resName seqNum insert dbPos comment =>
      match s.dbrefs.findIdx? (·.1 == String.ofList chain) with
      | some i => ({ s with dbrefs := s.dbrefs.modify i fun (c, r, k) =>
          (c, { r with differences := r.differences ++ [⟨String.ofList resName, seqNum, insert.map String.ofList,
                 dbPos.map fun (n, k) => (String.ofList n, k), String.ofList comment⟩] }, k) }, [])
      | none => (s, [(.strictWarning, "Sequence Difference Database not found")])
    | .modres .. => ({ s with modifications := s.modifications ++ [(ctx, item)] }, [])
    | .ssbond .. => ({ s with bonds := s.bonds ++ [(ctx, item)] }, [])
    | .master numRemark numEmpty numXform numCoord =>
      let s := flushModel s
      let e1 : List LDiag := if numRemark != s.info.remarks.length then [(.strictWarning, "MASTER checksum failed")] else []
      let e2 : List LDiag := if numEmpty != 0 then [(.looseWarning, "MASTER checksum failed")] else []
      let xform := (if (rowsFull s.origx).isSome then 3 else 0) + (if (rowsFull s.scale).isSome then 3 else 0) +
        (s.mtrix.filter fun (_, rows, _) => (rowsFull rows).isSome).length * 3
      let e3 : List LDiag := if numXform != xform then [(.strictWarning, "MASTER checksum failed")] else []
      let total := (s.models.map (·.atoms.length)).sum
      let e4 : List LDiag := if numCoord != total then [(.looseWarning, "MASTER checksum failed")] else []
      (s, e1 ++ e2 ++ e3 ++ e4)
    | .ter => ({ s with chainLetter := s.chainLetter + 1 }, [])
    | .endModel => (s, [])
    | .endd => (s, [])
    | .empty => (s, [])

/-- one line of input. `stepItem` never touches `errors`; every diagnostic raised for this line quotes it. -/
def stepLine (o : ReadOpts) (s : PState) (ln : Nat) (line : List Char) : PState :=
  if s.stopped then s else
  match lexLine line ln o.level o.onlyAtomicCoords with
  | .error e => { s with errors := s.errors ++ [e] }
  | .ok (item, errs) =>
    let r := stepItem o { s with errors := [] } (ln, line) item
    { r.1 with errors := s.errors ++ errs ++ attachLine ln line r.2 }

/-! ### post-processing -/

/-- `reshuffle_conformers` on one residue -/
def reshuffleResidue (r : Residue) : Residue × Bool :=
  let count := r.conformers.length
  if count > 1 then
    -- the LAST conformer without alternate location
    match ((List.range count).reverse.find? fun i => (r.conformers[i]?.map (·.alt.isNone)).getD false) with
    | some i =>
      match r.conformers[i]? with
      | some blank =>
        let k : Int := (count - 1 : Nat)
        let exact := blank.atoms.all fun a => a.occ % k == 0
        let shared := blank.atoms.map fun a => { a with occ := a.occ / k }
        ({ r with conformers := (r.conformers.eraseIdx i).map fun c => { c with atoms := c.atoms ++ shared } }, exact)
      | none => (r, true)
    | none => (r, true)
  else (r, true)

def reshufflePDB (p : PDB) : PDB × Bool :=
  let step (acc : Bool) (r : Residue) : Residue × Bool := let (r', e) := reshuffleResidue r; (r', acc && e)
  let ms := p.models.map fun m => { m with chains := m.chains.map fun c =>
    { c with residues := c.residues.map fun r => (reshuffleResidue r).1 } }
  let ex := p.residues.all fun r => (step true r).2
  ({ models := ms }, ex)

/-- `merge_long_remark_warnings`: consecutive over-long REMARK lines become one general warning quoting them -/
def mergeRemarkWarnings (errs : List PDiag) : List PDiag :=
  let long := errs.filter (·.short == "Remark too long")
  let rest := errs.filter (·.short != "Remark too long")
  if long.isEmpty then rest
  else rest ++ [⟨.generalWarning, "Remark too long", long.flatMap (·.quoted)⟩]

/-- `add_modifications`: a MODRES record is applied to every chain with that id (all models), every residue
with that id and every conformer with that name -/
def addModifications (p : PDB) (mods : List ((Nat × List Char) × LexItem)) : PDB × List PDiag :=
  mods.foldl (fun (acc : PDB × List PDiag) (m : (Nat × List Char) × LexItem) =>
    let (p, errs) := acc
    match m.2 with
    | .modres resName chain seqNum insert std comment =>
      let cid := String.ofList chain
      let rname := String.ofList resName
      let ic := insert.map String.ofList
      let chains := p.chains.filter (·.id == cid)
      let residues := chains.flatMap fun c => c.residues.filter fun r => r.serial == seqNum && r.icode == ic
      let confs := residues.flatMap fun r => r.conformers.filter (·.name == rname)
      let valid := validText std && validText comment
      if !confs.isEmpty && !valid then (p, errs ++ [PDiag.mk .invalidating "Invalid characters" [m.1]])
      else if chains.isEmpty || residues.isEmpty || confs.isEmpty then
        (p, errs ++ [PDiag.mk .invalidating "Modified residue could not be found" [m.1]])
      else
        let updC (c : Chain) : Chain := if c.id == cid then
          { c with residues := c.residues.map fun r => if r.serial == seqNum && r.icode == ic then
            { r with conformers := r.conformers.map fun f => if f.name == rname then
              { f with modification := some (String.ofList std, String.ofList comment) } else f } else r } else c
        ({ models := p.models.map fun mm => { mm with chains := mm.chains.map updC } }, errs)
    | _ => (p, errs)) (p, [])

/-- position in `pdb.atoms()` of the SG atom an SSBOND end names -/
def findSG (p : PDB) (resName : List Char) (seq : Int) (icode : Option (List Char)) (chain : List Char) : Option Nat :=
  let chains := p.chains
  match chains.findIdx? (·.id == String.ofList chain) with
  | none => none
  | some gi =>
    match chains[gi]? with
    | none => none
    | some ch =>
      match ch.residues.findIdx? (fun r => r.serial == seq && r.icode == icode.map String.ofList) with
      | none => none
      | some ri =>
        match ch.residues[ri]? with
        | none => none
        | some r =>
          match r.conformers.findIdx? (·.name == String.ofList resName) with
          | none => none
          | some fi =>
            match r.conformers[fi]? with
            | none => none
            | some f =>
              match f.atoms.findIdx? (·.name == "SG") with
              | none => none
              | some ai =>
                let before := ((chains.take gi).map (·.atoms.length)).sum +
                  ((ch.residues.take ri).map (·.atoms.length)).sum + ((r.conformers.take fi).map (·.atoms.length)).sum
                some (before + ai)

def addBonds (p : PDB) (bonds : List ((Nat × List Char) × LexItem)) : List (Nat × Nat) × List PDiag :=
  bonds.foldl (fun (acc : List (Nat × Nat) × List PDiag) (b : (Nat × List Char) × LexItem) =>
    match b.2 with
    | .ssbond r1 s1 i1 c1 r2 s2 i2 c2 =>
      match findSG p r1 s1 i1 c1, findSG p r2 s2 i2 c2 with
      | some x, some y => (acc.1 ++ [(x, y)], acc.2)
      | _, _ => (acc.1, acc.2 ++ [PDiag.mk .invalidating "Could not find a bond partner" [b.1]])
    | _ => acc) ([], [])

/-! ### `validate_seqres` -/

/-- `Residue::name`: the name when all conformers agree on it -/
def Residue.name? (r : Residue) : Option String :=
  match r.conformers with
  | [] => none
  | c :: cs => if cs.all (·.name == c.name) then some c.name else none

/-- `Conformer::new(seq, None, None).and_then(|c| Residue::new(index, None, Some(c)))` -/
def seqresResidue (seq : List Char) (index : Int) : Option Residue :=
  (prepIdUpS (String.ofList seq)).map fun n =>
    { serial := index, icode := none, conformers := [{ name := n, alt := none, atoms := [] }] }

def insertByKey {α} (x : Char × α) : List (Char × α) → List (Char × α)
  | [] => [x]
  | y :: r => if x.1.toNat ≤ y.1.toNat then x :: y :: r else y :: insertByKey x r
/-- the chains of the SEQRES data in the order of their ids (the ids are distinct) -/
def sortByKey {α} (l : List (Char × α)) : List (Char × α) := l.foldr insertByKey []

/-- the walk over the SEQRES names of one chain next to a copy of the chain's residues -/
structure SeqSt where
  residues : List Residue                 -- the chain being edited
  rest : List Residue                     -- what the iterator over the copy still holds
  next : Option Residue
  errs : List PDiag := []
  /-- mismatches: (record of the chain, column in the record, name found in the chain) -/
  incons : List (Nat × Nat × String) := []

def seqStep (st : SeqSt) (index : Int) (seq : List Char) (pos : Nat × Nat) : SeqSt :=
  let insert (st : SeqSt) : SeqSt :=
    match seqresResidue seq index with
    | some r => { st with residues := (st.residues ++ [r]).mergeSort resLe }
    | none => { st with errs := st.errs ++ [⟨.invalidating, "SEQRES residue name invalid", []⟩] }
  match st.next with
  | some n =>
    if index == n.serial then
      let st : SeqSt := match n.name? with
        | some nm => if String.ofList seq != nm then { st with incons := st.incons ++ [(pos.1, pos.2, nm)] } else st
        | none => { st with errs := st.errs ++ [PDiag.mk .strictWarning "Multiple residues in SEQRES validation" []] }
      { st with next := st.rest.head?, rest := st.rest.tail }
    else if index < n.serial then insert st
    else
      let st : SeqSt := { st with errs := st.errs ++ [PDiag.mk .looseWarning "Chain residue invalid" []] }
      match st.rest.dropWhile (fun (r : Residue) => r.serial != index) with
      | _ :: tl => { st with next := tl.head?, rest := tl.tail }
      | [] => { st with rest := [] }
  | none => insert st

/-- the lines a mismatch diagnostic quotes: the records `first ..= last` of the chain, each under the number
of the line it was lexed from -/
def seqresQuoted (lines : List (Nat × List Char)) (chain : Char) (incons : List (Nat × Nat × String)) :
    List (Nat × List Char) :=
  let chainLines := lines.filter fun l => (l.2[11]?).getD ' ' == chain
  let lo := incons.foldl (fun a v => min a v.1) (incons.head?.map (·.1) |>.getD 0)
  let hi := incons.foldl (fun a v => max a v.1) 0
  let first := min lo (chainLines.length - 1)
  let last := min hi (chainLines.length - 1)
  (chainLines.take (last + 1)).drop first

/-- the records one by one: serial numbers count up from one, the total is the one of the first record;
the result is (diagnostics, next serial number, total) -/
def seqresRecords (data : List (Nat × Nat × List (List Char))) : List PDiag × Nat × Nat :=
  data.foldl (fun (acc : List PDiag × Nat × Nat) (d : Nat × Nat × List (List Char)) =>
    let (errs, serial, residues) := acc
    let errs := if serial != d.1 then errs ++ [PDiag.mk .strictWarning "SEQRES serial number invalid" []] else errs
    if residues == 0 then (errs, serial + 1, d.2.1)
    else if residues != d.2.1 then (errs ++ [PDiag.mk .strictWarning "SEQRES residue total invalid" []], serial + 1, residues)
    else (errs, serial + 1, residues)) ([], 1, 0)

/-- all names of the chain with (record, column) -/
def seqresNames (data : List (Nat × Nat × List (List Char))) : List (List Char × Nat × Nat) :=
  ((List.range data.length).zip data).flatMap fun (line, d) =>
    ((List.range d.2.2.length).zip d.2.2).map fun (col, item) => (item, line, col)

/-- the residue number the first SEQRES name stands for: the start of the database reference, moved down
by the sequence differences without database residue in front of it -/
def seqresOffset (db : Option DbRef) : Int :=
  match db with
  | none => 0
  | some r => r.differences.foldl (fun (o : Int) d => if d.dbRes.isNone && d.seqNum < r.pdbPos.start then o - 1 else o)
      r.pdbPos.start

def seqresDbTotal (db : Option DbRef) (residues : Nat) : List PDiag :=
  match db with
  | none => []
  | some r => if r.pdbPos.stop - seqresOffset db + 1 != (residues : Int) then
      [PDiag.mk .looseWarning "SEQRES residue total invalid" []] else []

def seqresWalk (ch : Chain) (offset : Int) (names : List (List Char × Nat × Nat)) : SeqSt :=
  ((List.range names.length).zip names).foldl (fun st (ri : Nat × List Char × Nat × Nat) =>
    seqStep st ((ri.1 : Int) + offset) ri.2.1 ri.2.2)
    { residues := ch.residues, rest := ch.residues.tail, next := ch.residues.head? }

/-- one chain's SEQRES records against the chain with that id -/
def validateSeqresChain (ch : Chain) (db : Option DbRef) (cid : Char) (data : List (Nat × Nat × List (List Char)))
    (lines : List (Nat × List Char)) : Chain × List PDiag :=
  let rec_ := seqresRecords data
  let residues := rec_.2.2
  let names := seqresNames data
  let e2 : List PDiag := if names.length != residues then [PDiag.mk .looseWarning "SEQRES residue total invalid" []] else []
  let st := seqresWalk ch (seqresOffset db) names
  let e5 : List PDiag := if st.incons.isEmpty then []
    else [PDiag.mk .looseWarning "SEQRES inconsistent residues" (seqresQuoted lines cid st.incons)]
  let totalFound := (st.residues.filter fun r => !r.atoms.any (·.hetero)).length
  let e6 : List PDiag := if names.length != totalFound then [PDiag.mk .looseWarning "SEQRES residue total invalid" []] else []
  ({ ch with residues := st.residues }, rec_.1 ++ e2 ++ seqresDbTotal db residues ++ st.errs ++ e5 ++ e6)

/-- replace the chain at position `gi` of `pdb.chains()` -/
def setChainAt (p : PDB) (gi : Nat) (c : Chain) : PDB :=
  let rec go : List Model → Nat → List Model
    | [], _ => []
    | m :: ms, k => if k < m.chains.length then { m with chains := m.chains.set k c } :: ms else m :: go ms (k - m.chains.length)
  { models := go p.models gi }

/-- `validate_seqres`: the chains of the SEQRES data in the order of their ids, each against the first chain
(over all models) with that id -/
def validateSeqres (p : PDB) (dbrefs : List (Nat × DbRef)) (seqres : List (Char × List (Nat × Nat × List (List Char))))
    (lines : List (Nat × List Char)) : PDB × List PDiag :=
  (sortByKey seqres).foldl (fun (acc : PDB × List PDiag) (cd : Char × List (Nat × Nat × List (List Char))) =>
    match acc.1.chains.findIdx? (·.id == String.singleton cd.1) with
    | none => acc
    | some gi =>
      match acc.1.chains[gi]? with
      | none => acc
      | some ch =>
        let (ch', errs) := validateSeqresChain ch ((dbrefs.find? (·.1 == gi)).map (·.2)) cd.1 cd.2 lines
        (setChainAt acc.1 gi ch', acc.2 ++ errs)) (p, [])

inductive Outcome where
  | ok (f : PdbFile) (diags : List PDiag)
  | err (diags : List PDiag)
  deriving Repr

/-- everything up to the gate: the structure and the complete diagnostics list -/
def readPdbCore (o : ReadOpts) (lines : List (List Char)) : PdbFile × List PDiag :=
  let s := (List.range lines.length).zip lines |>.foldl (fun s (il : Nat × List Char) => stepLine o s (il.1 + 1) il.2) ({} : PState)
  let s := flushModel s
  let pdb : PDB := { models := s.models }
  -- database references
  let (dbrefs, e1) := s.dbrefs.foldl (fun (acc : List (Nat × DbRef) × List PDiag) (d : String × DbRef × Bool) =>
    if !d.2.2 then (acc.1, acc.2 ++ [PDiag.mk .strictWarning "Solitary DBREF1 definition" []])
    else match pdb.chains.findIdx? (·.id == d.1) with
      | some gi => ((acc.1.filter (·.1 != gi)) ++ [(gi, d.2.1)], acc.2)
      | none => acc) ([], [])
  let (scale, e2) := match rowsFull s.scale with
    | some m => (some m, [])
    | none => (none, if rowsPartly s.scale then [PDiag.mk .strictWarning "Invalid SCALE definition" []] else [])
  let (origx, e3) := match rowsFull s.origx with
    | some m => (some m, [])
    | none => (none, if rowsPartly s.origx then [PDiag.mk .strictWarning "Invalid ORIGX definition" []] else [])
  let (mtrix, e4) := s.mtrix.foldl (fun (acc : List (Nat × List Flt × Bool) × List PDiag) (m : Nat × List (Option (List Flt)) × Bool) =>
    match rowsFull m.2.1 with
    | some v => (acc.1 ++ [(m.1, v, m.2.2)], acc.2)
    | none => (acc.1, acc.2 ++ [PDiag.mk .strictWarning "Invalid MATRIX definition" []])) ([], [])
  let (pdb, exR) := reshufflePDB pdb
  let errors := mergeRemarkWarnings (s.errors ++ e1 ++ e2 ++ e3 ++ e4)
  let (pdb, eS) := validateSeqres pdb dbrefs s.seqres s.seqresLines
  let errors := errors ++ eS
  let (pdb, e5) := addModifications pdb s.modifications
  let (bonds, e6) := addBonds pdb s.bonds
  let e7 := (validate pdb).map fun d => PDiag.mk d.1 d.2 []
  let errors := errors ++ e5 ++ e6 ++ e7
  let info := { s.info with scale := scale, origx := origx, mtrix := mtrix, dbrefs := dbrefs, bonds := bonds }
  ({ pdb := pdb, info := info, exact := s.exact && exR }, errors)

/-- the whole reader: fold over the lines, post-process, validate, gate -/
def readPdb (o : ReadOpts) (lines : List (List Char)) : Outcome :=
  let (f, errors) := readPdbCore o lines
  if errors.any (fun e => e.level.fails o.level) then .err errors else .ok f errors

end PdbModel
