/-
The mmCIF parser of pdbtbx (`src/read/mmcif/parser.rs`): `parse_mmcif_with_options`, `parse_matrix`,
`parse_atoms`, the `get_*` accessors — on top of the lexer model `Cif.lean`, re-using the hierarchy insertion
(`Model.addAtom`), `Atom::new`, `reshuffle_conformers` and `validate` models shared with the PDB reader.
Core Lean only.
-/
import PdbModel.Cif
import PdbModel.PdbRead
import PdbModel.SGSym
import PdbModel.Add
namespace PdbModel

def fltInt (n : Int) : Flt := .fin n 0
def identity12F : List Flt := ([1, 0, 0, 0, 0, 1, 0, 0, 0, 0, 1, 0] : List Int).map fltInt

/-- the integer a finite decimal denotes, if it is one -/
def Flt.int? : Flt → Option Int
  | .fin m e =>
    if e ≥ 0 then (if e > 400 then (if m = 0 then some 0 else none) else some (m * 10 ^ e.toNat))
    else
      let k := (-e).toNat
      if m = 0 then some 0
      else if k > 400 then none
      else if m % (10 ^ k : Int) = 0 then some (m / (10 ^ k : Int)) else none
  | _ => none

/-- does the decimal denote the given integer? (`UnitCell != UnitCell::default()`) -/
def Flt.isInt (f : Flt) (n : Int) : Bool := f.int? == some n

/-- decimal digits of `m · 10^e` (`m > 0`) the way `Display for f64` prints them: no exponent, no trailing
zeros, `0.` in front of a pure fraction -/
def decimalText (m : Nat) (e : Int) : List Char :=
  if e ≥ 0 then (toString m).toList ++ List.replicate e.toNat '0'
  else
    let k := (-e).toNat
    let d := (toString m).toList
    let d := List.replicate (k + 1 - d.length) '0' ++ d          -- at least one digit before the point
    let ip := d.take (d.length - k)
    let fp := ((d.drop (d.length - k)).reverse.dropWhile (· == '0')).reverse
    if fp.isEmpty then ip else ip ++ '.' :: fp

/-- `format!("{n}")` of the `f64` a numeric token was lexed to.  The lexer hands the literal to the standard
library, so the value is the correctly rounded double; for a decimal of at most 15 significant digits the
shortest-round-trip printer gives back exactly that decimal (second component true).  Longer mantissas are
not predicted: the token stands in and the result is marked inexact. -/
def numText (f : Flt) (tok : List Char) : List Char × Bool :=
  match f with
  | .inf neg => ((if neg then "-inf" else "inf").toList, true)
  | .nan => ("NaN".toList, true)
  | .fin m e =>
    let neg := tok.head? == some '-'
    let body := if m = 0 then ['0'] else decimalText m.natAbs e
    ((if neg then '-' :: body else body), true)

/-- the line break in front of the closing `;` of a text field is not part of the value -/
def stripEol (t : List Char) : List Char :=
  match t.reverse with
  | '\n' :: '\r' :: r => r.reverse
  | '\r' :: '\n' :: r => r.reverse
  | '\n' :: r => r.reverse
  | '\r' :: r => r.reverse
  | _ => t

/-- `get_text` -/
def getText : CifValue → Option (List Char) × Bool
  | .text t => (some (stripEol t), true)
  | .inapplicable => (none, true)
  | .unknown => (none, true)
  | .num f sig tok => let (t, ex) := numText f tok; (some t, ex && sig ≤ 15)
  | .numU f sig tok u =>
    let (t, ex) := numText f (tok.takeWhile (· != '('))
    (some (t ++ ['('] ++ (toString u).toList ++ [')']), ex && sig ≤ 15)

abbrev CDiag := ErrorLevel × String

/-- `get_f64` (the flag: at most 15 significant digits, so the `f64` is the decimal up to rounding noise) -/
def getF64 : CifValue → Except CDiag (Option Flt × Bool)
  | .num f sig _ => .ok (some f, sig ≤ 15)
  | .inapplicable => .ok (none, true)
  | .unknown => .ok (none, true)
  | _ => .error (.invalidating, "Not a number")

/-- `get_usize`: a non-negative integer below 2^64 -/
def getUsize (v : CifValue) : Except CDiag (Option Nat × Bool) :=
  match getF64 v with
  | .error e => .error e
  | .ok (none, ex) => .ok (none, ex)
  | .ok (some f, ex) =>
    match f.int? with
    | some n => if 0 ≤ n ∧ n < 2 ^ 64 then .ok (some n.toNat, ex) else .error (.invalidating, "Not an unsigned integer")
    | none => .error (.invalidating, "Not an unsigned integer")

/-- `get_isize` -/
def getIsize (v : CifValue) : Except CDiag (Option Int × Bool) :=
  match getF64 v with
  | .error e => .error e
  | .ok (none, ex) => .ok (none, ex)
  | .ok (some f, ex) =>
    match f.int? with
    | some n => if -(2 ^ 63 : Int) ≤ n ∧ n < 2 ^ 63 then .ok (some n, ex) else .error (.invalidating, "Not an integer")
    | none => .error (.invalidating, "Not an integer")

/-! ## the atom_site loop -/

def atomColumns : List (String × Bool) :=   -- tag, required
  [("atom_site.label_alt_id", false),
   ("atom_site.aniso_U[1][1]", false), ("atom_site.aniso_U[1][2]", false), ("atom_site.aniso_U[1][3]", false),
   ("atom_site.aniso_U[2][1]", false), ("atom_site.aniso_U[2][2]", false), ("atom_site.aniso_U[2][3]", false),
   ("atom_site.aniso_U[3][1]", false), ("atom_site.aniso_U[3][2]", false), ("atom_site.aniso_U[3][3]", false),
   ("atom_site.label_asym_id", true), ("atom_site.auth_asym_id", false), ("atom_site.B_iso_or_equiv", false),
   ("atom_site.pdbx_formal_charge", false), ("atom_site.label_comp_id", true), ("atom_site.group_PDB", false),
   ("atom_site.id", true), ("atom_site.pdbx_PDB_ins_code", false), ("atom_site.pdbx_PDB_model_num", false),
   ("atom_site.label_atom_id", true), ("atom_site.occupancy", false), ("atom_site.label_seq_id", true),
   ("atom_site.auth_seq_id", false), ("atom_site.type_symbol", true), ("atom_site.Cartn_x", true),
   ("atom_site.Cartn_y", true), ("atom_site.Cartn_z", true)]

/-- state of `parse_atoms` -/
structure AState where
  models : List Model
  errors : List CDiag := []
  exact : Bool := true
  /-- `model_atom_counts` -/
  counts : List (Nat × Nat) := []
  firstModel : Option Nat := none
  ids : List String := []
  dupIds : List String := []
  deriving Repr

def totalResidues (ms : List Model) : Nat := (ms.map (·.residueCount)).sum

/-- outcome of one column access through `parse_column!` -/
structure Col (α : Type) where
  val : Option α
  err : List CDiag := []
  exact : Bool := true

def colText (v : Option CifValue) : Col (List Char) :=
  match v with
  | none => { val := none }
  | some v => let (t, ex) := getText v; { val := t, exact := ex }

def colF64 (v : Option CifValue) : Col Flt :=
  match v with
  | none => { val := none }
  | some v => match getF64 v with
    | .ok (f, ex) => { val := f, exact := ex }
    | .error e => { val := none, err := [e] }

def colUsize (v : Option CifValue) : Col Nat :=
  match v with
  | none => { val := none }
  | some v => match getUsize v with
    | .ok (f, ex) => { val := f, exact := ex }
    | .error e => { val := none, err := [e] }

def colIsize (v : Option CifValue) : Col Int :=
  match v with
  | none => { val := none }
  | some v => match getIsize v with
    | .ok (f, ex) => { val := f, exact := ex }
    | .error e => { val := none, err := [e] }

def missingValue : CDiag := (.invalidating, "Missing value in coordinate atoms data loop")

/-- is the row a hydrogen (`element == "H"`, the test behind `discard_hydrogens`) -/
def isHydrogenRow (vals : List (Option CifValue)) : Bool :=
  ((colText ((vals[23]?).join)).val.getD []) == ['H']

/-- a mandatory column: the value, or the row is abandoned with one more diagnostic -/
def reqCol {α : Type} (c : Col α) (s : AState) : Option α × AState :=
  match c.val, c.err with
  | some v, _ => (some v, { s with exact := s.exact && c.exact })
  | none, [] => (none, { s with errors := s.errors ++ [missingValue] })
  | none, e => (none, { s with errors := s.errors ++ e })

/-- the cells of a row the parser insists on, in the order it asks for them -/
structure RowCells where
  name : List Char
  id : List Char
  resName : List Char
  resNum : Int
  chain : List Char
  x : Flt
  y : Flt
  z : Flt

/-- the residue number of a row: the author's, else the label's, else the number of residues read so far -/
def rowResNum (s : AState) (vals : List (Option CifValue)) : Int × AState :=
  let col (i : Nat) : Option CifValue := (vals[i]?).join
  let cAuthSeq := colIsize (col 22)
  let s := { s with errors := s.errors ++ cAuthSeq.err, exact := s.exact && cAuthSeq.exact }
  match cAuthSeq.val with
  | some n => (n, s)
  | none =>
    let cSeq := colIsize (col 21)
    let s := { s with errors := s.errors ++ cSeq.err, exact := s.exact && cSeq.exact }
    (cSeq.val.getD (totalResidues s.models : Nat), s)

/-- the chain id of a row: the author's, else the (mandatory) label id -/
def rowChain (s : AState) (vals : List (Option CifValue)) : Option (List Char) × AState :=
  let col (i : Nat) : Option CifValue := (vals[i]?).join
  let cAuthAsym := colText (col 11)
  let s := { s with exact := s.exact && cAuthAsym.exact }
  match cAuthAsym.val with
  | some c => (some c, s)
  | none => reqCol (colText (col 10)) s

/-- one mandatory stage after another: a stage that has no value ends the row -/
def bindS {α β : Type} (p : Option α × AState) (k : α → AState → Option β × AState) : Option β × AState :=
  match p with
  | (none, s) => (none, s)
  | (some a, s) => k a s

/-- the mandatory cells of a row (`none`: the row is abandoned; the state has the diagnostic). Only
`errors` and `exact` of the state change. -/
def rowCells (s : AState) (vals : List (Option CifValue)) : Option RowCells × AState :=
  let col (i : Nat) : Option CifValue := (vals[i]?).join
  bindS (reqCol (colText (col 19)) s) fun name s =>
  bindS (reqCol (colText (col 16)) s) fun id s =>
  bindS (reqCol (colText (col 14)) s) fun resName s =>
  bindS (rowChain (rowResNum s vals).2 vals) fun chain s' =>
  bindS (reqCol (colF64 (col 24)) s') fun x s' =>
  bindS (reqCol (colF64 (col 25)) s') fun y s' =>
  bindS (reqCol (colF64 (col 26)) s') fun z s' =>
  (some ⟨name, id, resName, (rowResNum s vals).1, chain, x, y, z⟩, s')

/-- the optional cells of a row -/
structure RowOpt where
  occ : Flt
  b : Flt
  charge : Int
  alt : Option (List Char)
  ins : Option (List Char)
  aniso : Option (List Flt)

/-- the optional cells (occupancy, B-factor, charge, alternate location, insertion code, the nine tensor cells);
only `errors` and `exact` of the state change -/
def rowOptional (s : AState) (vals : List (Option CifValue)) : RowOpt × AState :=
  let col (i : Nat) : Option CifValue := (vals[i]?).join
  let cOcc := colF64 (col 20)
  let cB := colF64 (col 12)
  let cCh := colIsize (col 13)
  let cAlt := colText (col 0)
  let cIns := colText (col 17)
  let an := (List.range 9).map fun i => colF64 (col (i + 1))
  let s := { s with
    errors := s.errors ++ cOcc.err ++ cB.err ++ cCh.err ++ an.flatMap (·.err),
    exact := s.exact && cOcc.exact && cB.exact && cCh.exact && cAlt.exact && cIns.exact && an.all (·.exact) }
  let (aniso, s) : Option (List Flt) × AState :=
    if an.all (·.val.isSome) then (some (an.filterMap (·.val)), s)
    else if an.any (·.val.isSome) then
      (none, { s with errors := s.errors ++ [(.strictWarning, "Atom aniso U definition incomplete")] })
    else (none, s)
  (⟨cOcc.val.getD (fltInt 1), cB.val.getD (fltInt 1), cCh.val.getD 0, cAlt.val, cIns.val, aniso⟩, s)

/-- the model with the row's number: found, or appended empty -/
def rowModel (models : List Model) (modelNumber : Nat) : List Model × Nat :=
  match models.findIdx? (·.serial == modelNumber) with
  | some i => (models, i)
  | none => (models ++ [{ serial := modelNumber, chains := [] }], models.length)

/-- the tensor cells on the atom -/
def withTensor (atom : Atom) (aniso : Option (List Flt)) : Atom × Bool :=
  match aniso with
  | none => (atom, true)
  | some m =>
    match m.mapM (·.micro?) with
    | some ints => ({ atom with atf := some ints }, true)
    | none => ({ atom with atf := some (List.replicate 9 0) }, false)   -- presence matters to `validate`

/-- the record type of the row: hetero flag, and a diagnostic for anything but ATOM / HETATM -/
def atomKind (atomType : List Char) : Bool × List CDiag :=
  if atomType == "ATOM".toList then (false, [])
  else if atomType == "HETATM".toList then (true, [])
  else (false, [(.invalidating, "Atom type not correct")])

/-- `Model::add_atom` on the model at position `mi` (nothing happens when the identifiers are refused) -/
def placeIn (models : List Model) (mi : Nat) (op : RawMOp) : List Model :=
  match models[mi]? with
  | none => models
  | some m =>
    match m.addAtom op with
    | none => models
    | some m' => models.set mi m'

/-- `Atom::new` from the cells and `Model::add_atom` into the row's model -/
def placeAtom (s : AState) (modelNumber : Nat) (atomType element : List Char) (c : RowCells) (o : RowOpt) : AState :=
  let sOf (l : List Char) : String := String.ofList l
  let rm := rowModel s.models modelNumber
  let curCount : Nat :=
    match s.counts.find? (·.1 == modelNumber) with
    | some c => c.2
    | none => ((rm.1[rm.2]?).map (·.atomCount)).getD 0
  let counts := if (s.counts.find? (·.1 == modelNumber)).isSome then s.counts else s.counts ++ [(modelNumber, curCount)]
  let kind := atomKind atomType
  let errors := s.errors ++ kind.2
  match atomNew kind.1 curCount c.id c.name c.x c.y c.z o.occ o.b element o.charge with
  | none => { s with models := rm.1, counts := counts, errors := errors ++ [(.invalidating, "Atom definition incorrect")] }
  | some (atom0, ex) =>
    let wt := withTensor atom0 o.aniso
    { models := placeIn rm.1 rm.2 (sOf c.chain, ((c.resNum, o.ins.map sOf), ((sOf c.resName, o.alt.map sOf), wt.1))),
      errors := errors,
      exact := s.exact && ex && wt.2,
      counts := counts.map fun k => if k.1 == modelNumber then (k.1, curCount + 1) else k,
      firstModel := s.firstModel,
      ids := if s.ids.contains wt.1.id then s.ids else s.ids ++ [wt.1.id],
      dupIds := if s.ids.contains wt.1.id then (if s.dupIds.contains wt.1.id then s.dupIds else s.dupIds ++ [wt.1.id])
        else s.dupIds }

/-- the atom of a row whose mandatory cells are `c`, and its place: optional cells, the identifiers the structs
refuse, the model found or created, `Atom::new`, the tensor, `Model::add_atom` -/
def placeRow (s : AState) (vals : List (Option CifValue)) (modelNumber : Nat) (atomType element : List Char)
    (c : RowCells) : AState :=
  match rowOptional s vals with
  | (o, s) =>
  -- identifiers the structs refuse
  if (prepareIdentifier c.chain).isNone || (prepareIdentifierUpper c.resName).isNone ||
      (match o.ins with | some ic => (prepareIdentifierUpper ic).isNone | none => false) then
    { s with errors := s.errors ++ [(.invalidating, "Invalid identifier")] }
  else placeAtom s modelNumber atomType element c o

/-- `only_first_model`: the first kept row fixes the model number, rows of other models are skipped -/
def firstModelGate (onlyFirstModel : Bool) (s : AState) (modelNumber : Nat) : AState × Bool :=
  if onlyFirstModel then
    match s.firstModel with
    | none => ({ s with firstModel := some modelNumber }, false)
    | some f => (s, modelNumber != f)
  else (s, false)

/-- one kept row of the atom_site loop; `vals` are the 27 looked-up columns in the order of `atomColumns` -/
def atomRowCore (onlyFirstModel : Bool) (s : AState) (vals : List (Option CifValue)) : AState :=
  let col (i : Nat) : Option CifValue := (vals[i]?).join
  let cEl := colText (col 23)
  let element := cEl.val.getD []
  let cMod := colUsize (col 18)
  let s := { s with errors := s.errors ++ cMod.err, exact := s.exact && cEl.exact && cMod.exact }
  let modelNumber := cMod.val.getD 1
  let g := firstModelGate onlyFirstModel s modelNumber
  if g.2 then g.1 else
  let cGroup := colText (col 15)
  let atomType := cGroup.val.getD "ATOM".toList
  let s := { g.1 with exact := g.1.exact && cGroup.exact }
  match rowCells s vals with
  | (none, s) => s
  | (some c, s) => placeRow s vals modelNumber atomType element c

/-- one row of the atom_site loop: hydrogens are dropped first when asked for -/
def atomRow (o : ReadOpts) (s : AState) (vals : List (Option CifValue)) : AState :=
  if o.discardHydrogens && isHydrogenRow vals then s else atomRowCore o.onlyFirstModel s vals

/-- the value of one row in the column with the given tag: `positions[i].map(|x| &row[x])` with
`positions[i] = header.iter().position(|t| t == tag)` -/
def colLookup (header : List (List Char)) (row : List CifValue) (tag : List Char) : Option CifValue :=
  (header.findIdx? (· == tag)).bind (row[·]?)

/-- the 27 looked-up values of a row, in the order of `atomColumns` -/
def rowVals (header : List (List Char)) (row : List CifValue) : List (Option CifValue) :=
  atomColumns.map fun c => colLookup header row c.1.toList

/-- one diagnostic per mandatory column that the header lacks -/
def missingCols (header : List (List Char)) : List CDiag :=
  (atomColumns.filter fun c => c.2 && !header.contains c.1.toList).map fun _ =>
    (ErrorLevel.invalidating, "Missing column in coordinate atoms data loop")

/-- `parse_atoms` -/
def parseAtoms (o : ReadOpts) (models : List Model) (header : List (List Char)) (rows : List (List CifValue)) :
    List Model × List CDiag × Bool :=
  if !(missingCols header).isEmpty then (models, missingCols header, true)
  else
    let s := rows.foldl (fun (s : AState) (row : List CifValue) => atomRow o s (rowVals header row))
      ({ models := models } : AState)
    let errors := if s.dupIds.isEmpty then s.errors else s.errors ++ [(.looseWarning, "Duplicated atom IDs")]
    (s.models, errors, s.exact)

/-! ## single items -/

/-- what the single items write to: everything but the hierarchy -/
structure CMeta where
  info : Meta := {}
  cell : List Flt := ([0, 0, 0, 90, 90, 90] : List Int).map fltInt
  errors : List CDiag := []
  mtrixId : Option Nat := none
  exact : Bool := true
  deriving Repr

structure CState where
  md : CMeta := {}
  models : List Model := []
  deriving Repr

/-- `parse_matrix`: the entry a name points at (`none` + diagnostic when the name has no usable index) -/
def matrixIndex (name : List Char) : Except CDiag Nat :=
  let rev := name.reverse
  let getIndex (n : Nat) : Except CDiag Nat :=
    match rev[n]? with
    | some c =>
      if isDigit c && 1 ≤ digitVal c && digitVal c ≤ 3 then .ok (digitVal c - 1)
      else .error (.invalidating, "Matrix item definition incorrect")
    | none => .error (.invalidating, "Matrix definition too short")
  if (name.filter (· == '[')).length = 2 then
    match getIndex 4 with
    | .error e => .error e
    | .ok r => match getIndex 1 with
      | .error e => .error e
      | .ok c => .ok (4 * r + c)
  else
    match getIndex 1 with
    | .error e => .error e
    | .ok r => .ok (4 * r + 3)

/-- `parse_matrix` on a matrix given as 12 entries -/
def parseMatrix (name : List Char) (v : CifValue) (m : List Flt) : List Flt × List CDiag × Bool :=
  match getF64 v with
  | .error e => (m, [e], true)
  | .ok (none, ex) => (m, [], ex)
  | .ok (some f, ex) =>
    match matrixIndex name with
    | .error e => (m, [e], ex)
    | .ok i => (m.set i f, [], ex)

def cellValue (v : CifValue) (angle : Bool) : Except CDiag (Option Flt × Bool) :=
  match getF64 v with
  | .error e => .error e
  | .ok (none, ex) => .ok (none, ex)
  | .ok (some f, ex) =>
    let inRange : Bool := match f with
      | .fin m e =>
        !angle || (decide (0 ≤ m) &&
          (if e ≥ 0 then (e ≤ 3 && decide (m * 10 ^ e.toNat < 360) || m == 0) else decide (m < 360 * 10 ^ (-e).toNat)))
      | _ => false
    if f.isFinite && inRange then .ok (some f, ex) else .error (.invalidating, "Unit cell value invalid")

def charsToCodes (l : List Char) : List Nat := l.map (·.toNat)

def startsWithL (s pre : List Char) : Bool := s.take pre.length == pre
def endsWithL (s suf : List Char) : Bool := s.drop (s.length - suf.length) == suf && suf.length ≤ s.length

/-- one `DataItem::Single` -/
def stepSingle (s : CMeta) (name : List Char) (v : CifValue) : CMeta :=
  let nm := String.ofList name
  let setCell (i : Nat) (angle : Bool) : CMeta :=
    match cellValue v angle with
    | .error e => { s with errors := s.errors ++ [e] }
    | .ok (none, ex) => { s with exact := s.exact && ex }
    | .ok (some f, ex) => { s with cell := s.cell.set i f, exact := s.exact && ex }
  if nm == "cell.length_a" then setCell 0 false
  else if nm == "cell.length_b" then setCell 1 false
  else if nm == "cell.length_c" then setCell 2 false
  else if nm == "cell.angle_alpha" then setCell 3 true
  else if nm == "cell.angle_beta" then setCell 4 true
  else if nm == "cell.angle_gamma" then setCell 5 true
  else if nm == "symmetry.Int_Tables_number" || nm == "space_group.IT_number" then
    match s.info.symmetry with
    | none =>
      (match getUsize v with
       | .error e => { s with errors := s.errors ++ [e] }
       | .ok (none, ex) => { s with exact := s.exact && ex }
       | .ok (some n, ex) => { s with info := { s.info with symmetry := symmetryFromIndex n }, exact := s.exact && ex })
    | some cur =>
      (match getUsize v with
       | .ok (some n, ex) =>
         if some cur != symmetryFromIndex n then
           { s with errors := s.errors ++ [(.invalidating, "Space group does not match")], exact := s.exact && ex }
         else { s with exact := s.exact && ex }
       | _ => s)
  else if nm == "symmetry.space_group_name_H-M" || nm == "symmetry.space_group_name_Hall" ||
      nm == "space_group.name_H-M_alt" || nm == "space_group.name_Hall" then
    let (t, ex) := getText v
    let s := { s with exact := s.exact && ex }
    match s.info.symmetry, t with
    | none, some t => { s with info := { s.info with symmetry := symmetryNew (charsToCodes t) } }
    | none, none => s
    | some cur, some t =>
      if some cur != symmetryNew (charsToCodes t) then
        { s with errors := s.errors ++ [(.invalidating, "Space group does not match")] }
      else s
    | some _, none => s
  else if startsWithL name "atom_sites.Cartn_transf".toList then
    let m := s.info.scale.getD identity12F
    let (m, e, ex) := parseMatrix name v m
    { s with info := { s.info with scale := some m }, errors := s.errors ++ e, exact := s.exact && ex }
  else if startsWithL name "database_PDB_matrix.origx".toList then
    let m := s.info.origx.getD identity12F
    let (m, e, ex) := parseMatrix name v m
    { s with info := { s.info with origx := some m }, errors := s.errors ++ e, exact := s.exact && ex }
  else if startsWithL name "struct_ncs_oper.".toList then
    if endsWithL name "id".toList then
      match getUsize v with
      | .error e => { s with errors := s.errors ++ [e] }
      | .ok (some id, ex) =>
        { s with mtrixId := some id, info := { s.info with mtrix := s.info.mtrix ++ [(id, identity12F, true)] },
                 exact := s.exact && ex }
      | .ok (none, _) => { s with errors := s.errors ++ [(.invalidating, "MtriX with missing ID")] }
    else
      match s.mtrixId with
      | none => { s with errors := s.errors ++ [(.invalidating, "MtriX matrix given without ID")] }
      | some id =>
        match s.info.mtrix.findIdx? (·.1 == id) with
        | none => s
        | some k =>
          let upd (f : Nat × List Flt × Bool → Nat × List Flt × Bool) : List (Nat × List Flt × Bool) :=
            s.info.mtrix.modify k f
          if endsWithL name "code".toList then
            match getText v with
            | (some t, ex) =>
              if t == "given".toList then
                { s with info := { s.info with mtrix := upd fun m => (m.1, m.2.1, true) }, exact := s.exact && ex }
              else if t == "generate".toList then
                { s with info := { s.info with mtrix := upd fun m => (m.1, m.2.1, false) }, exact := s.exact && ex }
              else { s with errors := s.errors ++ [(.invalidating, "MtriX code invalid")], exact := s.exact && ex }
            | (none, _) => { s with errors := s.errors ++ [(.invalidating, "MtriX code invalid")] }
          else if endsWithL name "details".toList then s
          else
            match s.info.mtrix[k]? with
            | none => s
            | some cur =>
              let (m, e, ex) := parseMatrix name v cur.2.1
              { s with info := { s.info with mtrix := upd fun x => (x.1, m, x.2.2) }, errors := s.errors ++ e,
                       exact := s.exact && ex }
  else s

/-- one item of the data block (`parse_mmcif_with_options`, the body of the `for`) -/
def stepCifItem (o : ReadOpts) (s : CState) (it : Item) : CState :=
  match it with
  | .frame _ _ => s
  | .data (.loop header rows) =>
    if header.contains "atom_site.group_PDB".toList then
      let (ms, e, ex) := parseAtoms o s.models header rows
      { md := { s.md with errors := s.md.errors ++ e, exact := s.md.exact && ex }, models := ms }
    else s
  | .data (.single name v) => if o.onlyAtomicCoords then s else { s with md := stepSingle s.md name v }

def cifDiag (d : CDiag) : PDiag := ⟨d.1, d.2, []⟩

/-- everything up to the gate -/
def readCifCore (o : ReadOpts) (b : DataBlock) : PdbFile × List PDiag :=
  let s0 : CState := { md := { info := { identifier :=
    if o.onlyAtomicCoords || b.name == ['?'] then none else some (String.ofList b.name) } } }
  let s := b.items.foldl (stepCifItem o) s0
  let dflt : Bool := match s.md.cell with
    | [a, b, c, al, be, ga] => a.isInt 0 && b.isInt 0 && c.isInt 0 && al.isInt 90 && be.isInt 90 && ga.isInt 90
    | _ => true
  let info := { s.md.info with cell := if dflt then none else some s.md.cell }
  let (pdb, exR) := reshufflePDB { models := s.models }
  let errors := s.md.errors.map cifDiag ++ (validate pdb).map fun d => PDiag.mk d.1 d.2 []
  ({ pdb := pdb, info := info, exact := s.md.exact && exR }, errors)

/-- Is every number that stands where a text is expected one whose `format!("{n}")` the model reproduces
(an integer below 2^53 with at most 15 digits, or a non-finite value)?  Otherwise the text the code obtains
depends on the rounding noise of `parse_numeric` and on the shortest-round-trip printer, which are not
modelled: such inputs are answered `UNSUPPORTED` by the driver and compared on totality only. -/
def textPredictable (b : DataBlock) : Bool :=
  let okV (v : Option CifValue) : Bool := match v with | some v => (getText v).2 | none => true
  let textCols := ["atom_site.label_alt_id", "atom_site.label_asym_id", "atom_site.auth_asym_id",
    "atom_site.label_comp_id", "atom_site.group_PDB", "atom_site.id", "atom_site.pdbx_PDB_ins_code",
    "atom_site.label_atom_id", "atom_site.type_symbol"]
  b.items.all fun it =>
    match it with
    | .frame _ _ => true
    | .data (.loop header rows) =>
      !header.contains "atom_site.group_PDB".toList ||
        rows.all fun row => textCols.all fun t => okV (colLookup header row t.toList)
    | .data (.single name v) =>
      let nm := String.ofList name
      if nm == "symmetry.space_group_name_H-M" || nm == "symmetry.space_group_name_Hall" ||
          nm == "space_group.name_H-M_alt" || nm == "space_group.name_Hall" ||
          (startsWithL name "struct_ncs_oper.".toList && endsWithL name "code".toList) then okV (some v) else true

/-- the reader on a lexed data block -/
def readCifBlock (o : ReadOpts) (b : DataBlock) : Outcome :=
  let (f, errors) := readCifCore o b
  if errors.any (fun e => e.level.fails o.level) then .err errors else .ok f errors

/-- `open_mmcif_raw_with_options` on decoded text -/
def readCif (o : ReadOpts) (text : List Char) : Outcome :=
  match lexCif text with
  | .error e => .err [⟨.breaking, e, []⟩]
  | .ok b => readCifBlock o b

end PdbModel
