import PdbModel.Identity
namespace PdbModel

def parseNatList (t : String) : Option (List Nat) := if t == "-" then some [] else (t.splitOn ",").mapM (·.toNat?)

def parseBonds (t : String) : Option (List (Nat × Nat × Nat)) :=
  if t == "-" then some []
  else (t.splitOn ",").mapM fun b => match b.splitOn ":" with
    | [a, c, k] => do pure (← a.toNat?, ← c.toNat?, ← k.toNat?)
    | _ => none

def showBonds (l : List (Nat × Nat × Nat)) : String :=
  if l.isEmpty then "-" else ",".intercalate (l.map fun (a, b, k) => s!"{a}:{b}:{k}")

def handleC16 : List String → Option String
  | ["clone", c, uids, bonds] => do
      let p : IPdb := { uids := ← parseNatList uids, bonds := ← parseBonds bonds }
      match (p.clone (← c.toNat?)).1.resolve with
      | none => pure "FAIL"
      | some l => pure (showBonds l)
  | ["resolve", uids, bonds] => do
      let p : IPdb := { uids := ← parseNatList uids, bonds := ← parseBonds bonds }
      match p.resolve with
      | none => pure "FAIL"
      | some l => pure (showBonds l)
  | ["sched", c, sched] => do
      let s ← parseNatList sched
      let (out, cf) := runSchedule (← c.toNat?) s
      let ids := out.map (·.2)
      pure s!"{if ids.eraseDups.length == ids.length then "distinct" else "DUPLICATE"} {ids.length} {cf}"
  | _ => none

end PdbModel
