/-
Request dispatcher of the `pdbmodel` driver: one request line in, one canonical line out.
Every handler calls the very definitions the theorems are about.
-/
import PdbModel.Basic
import PdbModel.Hier
import PdbModel.Level
import PdbModel.DriverC12
import PdbModel.DriverC08
import PdbModel.DriverC09
import PdbModel.DriverC11
import PdbModel.DriverC10
import PdbModel.DriverC18
import PdbModel.DriverC17
import PdbModel.DriverC13
import PdbModel.DriverC14
import PdbModel.DriverC16
import PdbModel.DriverPdb
import PdbModel.DriverCif
import PdbModel.DriverC15
namespace PdbModel

def parseLevels (t : String) : Option (List ErrorLevel) :=
  if t == "-" then some [] else (t.splitOn ",").mapM ErrorLevel.ofString?

/-- `c07 gate <S> <levels> <S> <levels> …` → `OK`/`ERR` per pair -/
def c07Gate : List String → Option (List String)
  | [] => some []
  | s :: ls :: rest => do
      let s ← Strictness.ofString? s
      let ls ← parseLevels ls
      let r ← c07Gate rest
      pure ((if (gate id s () ls).isOk then "OK" else "ERR") :: r)
  | _ => none

def handleC07 : List String → Option String
  | ["fails", e, s] => do
      pure (boolTok ((← ErrorLevel.ofString? e).fails (← Strictness.ofString? s)))
  | "gate" :: rest => (c07Gate rest).map unwords
  | ["save", s, ls] => do
      let s ← Strictness.ofString? s
      let ls ← parseLevels ls
      pure (if (saveGated (fun _ => none) "p" s ls []).2 then "WROTE" else "REFUSED")
  | _ => none

def handle (line : String) : String :=
  match tokens line with
  | [] => ""
  | ["-"] => "-"
  | "c07" :: rest => (handleC07 rest).getD "BAD-REQUEST"
  | "c12" :: rest => (handleC12 rest).getD "BAD-REQUEST"
  | "c08" :: rest => (handleC08 rest).getD "BAD-REQUEST"
  | "c09" :: rest => (handleC09 rest).getD "BAD-REQUEST"
  | "c11" :: rest => (handleC11 rest).getD "BAD-REQUEST"
  | "c10" :: rest => (handleC10 rest).getD "BAD-REQUEST"
  | "c18" :: rest => (handleC18 rest).getD "BAD-REQUEST"
  | "c17" :: rest => (handleC17 rest).getD "BAD-REQUEST"
  | "c13" :: rest => (handleC13 rest).getD "BAD-REQUEST"
  | "c14" :: rest => (handleC14 rest).getD "BAD-REQUEST"
  | "c16" :: rest => (handleC16 rest).getD "BAD-REQUEST"
  | "c15" :: rest => (handleC15 rest).getD "BAD-REQUEST"
  | "cif" :: rest => (handleCif rest).getD "BAD-REQUEST"
  | "pdb" :: rest => ((handlePdb rest).orElse fun _ => handlePdbWrite rest).getD "BAD-REQUEST"
  | _ => "BAD-REQUEST"

end PdbModel
