import PdbModel.Hier
namespace PdbModel

def lst (name : String) (items : List String) : String :=
  name ++ "=" ++ (if items.isEmpty then "-" else ",".intercalate items)

/-- index accessor results for i in 0..=len -/
def idx {α} (name : String) (l : List α) (tag : α → String) : String :=
  lst name ((List.range (l.length + 1)).map fun i => match l[i]? with | some x => tag x | none => "~")

def tA (a : Atom) : String := a.id
def tF (c : Conformer) : String := c.name
def tR (r : Residue) : String := toString r.serial
def tC (c : Chain) : String := c.id
def tM (m : Model) : String := toString m.serial

def nums (l : List Nat) : String := "n=" ++ ",".intercalate (l.map toString)

def walkConformer (f : Conformer) : List String :=
  ["f:" ++ tF f, nums [f.atomCount], lst "A" (f.atoms.map tA), lst "rA" (f.atoms.reverse.map tA),
   idx "iA" f.atoms tA]

def walkResidue (r : Residue) : List String :=
  ["r:" ++ tR r, nums [r.conformerCount, r.atomCount], lst "F" (r.conformers.map tF), lst "A" (r.atoms.map tA),
   lst "H" (r.withHAC.map fun h => s!"{tA h.atom}/{tF h.conformer}"),
   idx "iF" r.conformers tF, idx "iA" r.atoms tA] ++ r.conformers.flatMap walkConformer

def walkChain (c : Chain) : List String :=
  ["c:" ++ tC c, nums [c.residueCount, c.conformerCount, c.atomCount],
   lst "R" (c.residues.map tR), lst "F" (c.conformers.map tF), lst "A" (c.atoms.map tA),
   lst "H" (c.withHACR.map fun h => s!"{tA h.atom}/{tF h.conformer}/{tR h.residue}"),
   idx "iR" c.residues tR, idx "iF" c.conformers tF, idx "iA" c.atoms tA] ++ c.residues.flatMap walkResidue

def walkModel (m : Model) : List String :=
  ["m:" ++ tM m, nums [m.chainCount, m.residueCount, m.conformerCount, m.atomCount],
   lst "C" (m.chains.map tC), lst "R" (m.residues.map tR), lst "F" (m.conformers.map tF), lst "A" (m.atoms.map tA),
   lst "H" (m.withHACRC.map fun h => s!"{tA h.atom}/{tF h.conformer}/{tR h.residue}/{tC h.chain}"),
   idx "iC" m.chains tC, idx "iR" m.residues tR, idx "iF" m.conformers tF, idx "iA" m.atoms tA] ++
  m.chains.flatMap walkChain

def walkPDB (p : PDB) : List String :=
  ["p", nums [p.modelCount, p.chainCount, p.residueCount, p.conformerCount, p.atomCount,
              p.totalChainCount, p.totalResidueCount, p.totalConformerCount, p.totalAtomCount],
   lst "M" (p.models.map tM), lst "C" (p.chains.map tC), lst "R" (p.residues.map tR),
   lst "F" (p.conformers.map tF), lst "A" (p.atoms.map tA), lst "rA" (p.atoms.reverse.map tA),
   lst "H" (p.withH.map fun h => s!"{tA h.atom}/{tF h.conformer}/{tR h.residue}/{tC h.chain}/{tM h.model}"),
   idx "iM" p.models tM, idx "iC" p.chains tC, idx "iR" p.residues tR, idx "iF" p.conformers tF,
   idx "iA" p.atoms tA] ++ p.models.flatMap walkModel

def handleC09 : List String → Option String
  | "walk" :: st => do
      let (p, _) ← parsePDB st
      pure (unwords (walkPDB p))
  | _ => none

end PdbModel
