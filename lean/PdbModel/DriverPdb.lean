import PdbModel.PdbRead
import PdbModel.PdbWrite
namespace PdbModel

def decBytesTok (t : String) : Option (List Nat) :=
  match t.toList with
  | 'b' :: rest =>
    let rec go : List Char → Option (List Nat)
      | [] => some []
      | a :: b :: r => do
          let x ← hexVal a; let y ← hexVal b
          let tl ← go r
          pure ((x * 16 + y) :: tl)
      | _ => none
    go rest
  | _ => none

/-- UTF-8 decoding of the input bytes (`BufRead::lines` fails on invalid UTF-8; such inputs are not sent to
the model) -/
def utf8Decode : List Nat → Option (List Char)
  | [] => some []
  | b :: rest =>
    if b < 0x80 then (utf8Decode rest).map (Char.ofNat b :: ·)
    else if b < 0xC0 then none
    else if b < 0xE0 then
      match rest with
      | c :: r => (utf8Decode r).map (Char.ofNat ((b - 0xC0) * 64 + (c - 0x80)) :: ·)
      | _ => none
    else if b < 0xF0 then
      match rest with
      | c :: d :: r => (utf8Decode r).map (Char.ofNat ((b - 0xE0) * 4096 + (c - 0x80) * 64 + (d - 0x80)) :: ·)
      | _ => none
    else
      match rest with
      | c :: d :: e :: r =>
        (utf8Decode r).map (Char.ofNat ((b - 0xF0) * 262144 + (c - 0x80) * 4096 + (d - 0x80) * 64 + (e - 0x80)) :: ·)
      | _ => none

/-- `BufRead::lines`: split at `\n`, a trailing `\r` of each line is removed, no empty last line -/
def splitLines (s : List Char) : List (List Char) :=
  let rec go (cur : List Char) : List Char → List (List Char)
    | [] => if cur.isEmpty then [] else [cur.reverse]
    | c :: r => if c == '\n' then cur.reverse :: go [] r else go (c :: cur) r
  (go [] s).map fun l => if l.getLast? == some '\r' then l.dropLast else l

def fltTok (f : Flt) : Option String := f.micro?.map toString
def fltsTok (l : List Flt) : Option String := (l.mapM fltTok).map fun ts => ",".intercalate ts

def diagTok (d : PDiag) : String :=
  d.level.name ++ ":" ++ String.ofList (d.short.toList.map fun c => if c == ' ' then '_' else c) ++
    (if d.quoted.isEmpty then "" else "@" ++ "+".intercalate (d.quoted.map fun q => toString q.1))

def diagsTok (ds : List PDiag) : String :=
  if ds.isEmpty then "-" else unwords ((ds.map diagTok).mergeSort (fun a b => decide (a ≤ b)))

def seqPosTok (p : SeqPos) : String := s!"{p.start} {encOpt p.startIns} {p.stop} {encOpt p.stopIns}"

def metaToks (m : Meta) : Option (List String) := do
  let cell ← match m.cell with | none => some "~" | some c => fltsTok c
  let scale ← match m.scale with | none => some "~" | some c => fltsTok c
  let origx ← match m.origx with | none => some "~" | some c => fltsTok c
  let mtrix ← m.mtrix.mapM fun (ser, v, g) => do pure s!"{ser} {boolTok g} {← fltsTok v}"
  let db := m.dbrefs.map fun (gi, d) =>
    s!"{gi} {encStr d.db} {encStr d.acc} {encStr d.id} {seqPosTok d.pdbPos} {seqPosTok d.dbPos} {d.differences.length} " ++
      unwords (d.differences.map fun x => s!"{encStr x.resName} {x.seqNum} {encOpt x.insert} " ++
        (match x.dbRes with | none => "~" | some (n, k) => s!"{encStr n}/{k}") ++ " " ++ encStr x.comment)
  pure (["X", "id=" ++ encOpt m.identifier, s!"rem={m.remarks.length}"] ++ m.remarks.flatMap (fun (n, t) => [toString n, encStr t]) ++
    ["cell=" ++ cell, "sg=" ++ (match m.symmetry with | none => "~" | some i => toString i), "scale=" ++ scale,
     "origx=" ++ origx, s!"mtrix={m.mtrix.length}"] ++ mtrix ++ [s!"db={m.dbrefs.length}"] ++ db ++
    [s!"bonds={m.bonds.length}"] ++ m.bonds.map (fun (a, b) => s!"{a}:{b}"))

def outcomeTok (o : Outcome) : String :=
  match o with
  | .err ds => "ERR " ++ diagsTok ds
  | .ok f ds =>
    match (if f.exact then metaToks f.info else none) with
    | some mt => "OK " ++ unwords (tokens (unwords (mt ++ f.pdb.toks))) ++ " | " ++ diagsTok ds
    | none => "OK INEXACT | " ++ diagsTok ds

def parseLevelFlags (lvl flags : String) : Option ReadOpts := do
  let l ← Strictness.ofString? lvl
  match flags.toList with
  | [h, f, a] => pure { level := l, discardHydrogens := h == '1', onlyFirstModel := f == '1', onlyAtomicCoords := a == '1' }
  | _ => none

def handlePdb : List String → Option String
  | ["read", lvl, flags, bytes] => do
      let o ← parseLevelFlags lvl flags
      let bs ← decBytesTok bytes
      match utf8Decode bs with
      | none => pure "NOT-UTF8"
      | some cs => pure (outcomeTok (readPdb o (splitLines cs)))
  | _ => none

end PdbModel

namespace PdbModel

/-! parsing of the `X …` metadata tokens (inverse of `metaToks`) for the writer requests -/

def parseIntsTok (t : String) : Option (Option (List Int)) :=
  if t == "~" then some none else ((t.splitOn ",").mapM (fun (x : String) => x.toInt?)).map some

def stripPrefix? (t pre : String) : Option String :=
  if t.startsWith pre then some (t.drop pre.length).toString else none

def parseRemarks : Nat → List String → Option (List (Nat × String) × List String)
  | 0, ts => some ([], ts)
  | n + 1, a :: b :: ts => do
      let (r, ts) ← parseRemarks n ts
      pure ((← a.toNat?, ← decStr b) :: r, ts)
  | _, _ => none

def parseMtrix : Nat → List String → Option (List (Nat × List Int × Bool) × List String)
  | 0, ts => some ([], ts)
  | n + 1, a :: g :: v :: ts => do
      let (r, ts) ← parseMtrix n ts
      let vals ← (v.splitOn ",").mapM (fun (x : String) => x.toInt?)
      pure ((← a.toNat?, vals, ← tokBool g) :: r, ts)
  | _, _ => none

def parseSeqPos : List String → Option (SeqPos × List String)
  | a :: b :: c :: d :: ts => do pure (⟨← a.toInt?, ← decOpt b, ← c.toInt?, ← decOpt d⟩, ts)
  | _ => none

def parseDiffs : Nat → List String → Option (List SeqDiff × List String)
  | 0, ts => some ([], ts)
  | n + 1, rn :: sn :: ins :: dbr :: cm :: ts => do
      let (r, ts) ← parseDiffs n ts
      let dbRes ← if dbr == "~" then some none else match dbr.splitOn "/" with
        | [a, k] => do pure (some (← decStr a, ← k.toInt?))
        | _ => none
      pure (⟨← decStr rn, ← sn.toInt?, ← decOpt ins, dbRes, ← decStr cm⟩ :: r, ts)
  | _, _ => none

def parseDbrefs : Nat → List String → Option (List (Nat × DbRef) × List String)
  | 0, ts => some ([], ts)
  | n + 1, gi :: db :: acc :: id :: ts => do
      let (p1, ts) ← parseSeqPos ts
      let (p2, ts) ← parseSeqPos ts
      match ts with
      | nd :: ts => do
        let (diffs, ts) ← parseDiffs (← nd.toNat?) ts
        let (r, ts) ← parseDbrefs n ts
        pure ((← gi.toNat?, ⟨← decStr db, ← decStr acc, ← decStr id, p1, p2, diffs⟩) :: r, ts)
      | _ => none
  | _, _ => none

def parseWMeta : List String → Option (WMeta × List String)
  | "X" :: id :: rem :: ts => do
      let id ← decOpt (← stripPrefix? id "id=")
      let (remarks, ts) ← parseRemarks (← (← stripPrefix? rem "rem=").toNat?) ts
      match ts with
      | cell :: sg :: scale :: origx :: mt :: ts => do
        let cell ← parseIntsTok (← stripPrefix? cell "cell=")
        let sgt ← stripPrefix? sg "sg="
        let sg ← if sgt == "~" then some none else sgt.toNat?.map some
        let scale ← parseIntsTok (← stripPrefix? scale "scale=")
        let origx ← parseIntsTok (← stripPrefix? origx "origx=")
        let (mtrix, ts) ← parseMtrix (← (← stripPrefix? mt "mtrix=").toNat?) ts
        match ts with
        | db :: ts => do
          let (dbrefs, ts) ← parseDbrefs (← (← stripPrefix? db "db=").toNat?) ts
          match ts with
          | bonds :: ts => do
            let nb ← (← stripPrefix? bonds "bonds=").toNat?
            pure (⟨id, remarks, cell, sg, scale, origx, mtrix, dbrefs⟩, ts.drop nb)
          | _ => none
        | _ => none
      | _ => none
  | _ => none

def bytesTok (cs : List Char) : String :=
  String.ofList ('b' :: cs.flatMap fun c =>
    let n := c.toNat
    if n < 128 then [hexDigit (n / 16), hexDigit (n % 16)] else ['3', 'f'])

def handlePdbWrite : List String → Option String
  | "write" :: lvl :: rest => do
      let l ← Strictness.ofString? lvl
      let (m, rest) ← parseWMeta rest
      let (p, _) ← parsePDB rest
      let lines := savePdb l p m
      pure (bytesTok (lines.flatMap fun ln => ln ++ ['\n']))
  | _ => none

end PdbModel
