/-
`cif read <level> <hfa flags> <bytes>` — the mmCIF reader model behind the line protocol (same outcome text
as the PDB reader: `OK <X… P…> | diags`, `OK INEXACT | diags`, `ERR diags`, `NOT-UTF8`).
-/
import PdbModel.DriverPdb
import PdbModel.CifRead
import PdbModel.CifWrite
namespace PdbModel

def handleCif : List String → Option String
  | ["read", lvl, flags, bytes] => do
      let o ← parseLevelFlags lvl flags
      let bs ← decBytesTok bytes
      match utf8Decode bs with
      | none => pure "NOT-UTF8"
      | some cs =>
        -- inputs whose text values depend on unmodelled `f64` printing are not predicted
        match lexCif cs with
        | .ok b => if textPredictable b then pure (outcomeTok (readCif o cs)) else pure "UNSUPPORTED"
        | .error _ => pure (outcomeTok (readCif o cs))
  | "write" :: rest => do
      let (m, rest) ← parseWMeta rest
      let (p, _) ← parsePDB rest
      let (lines, exact) := saveCif p m
      if exact then pure (bytesTok (lines.flatMap fun ln => ln ++ ['\n'])) else pure "INEXACT"
  | _ => none

end PdbModel
