/-
The PDB writer (`save/pdb.rs::save_pdb_raw`): fixed-width cells (`get_line`), padding to 70 columns
(`print_line`), records in the order of the code. Decimal values are exact (`Int`, 10⁻⁶); `{:W.D}` formatting
rounds to `D` decimals (half away from zero here; the tie avoids exact halves since the binary double behind
a decimal half is not exactly a half).
-/
import PdbModel.PdbRead
namespace PdbModel

/-- decimal digits of a natural number, most significant first (what `to_string` / `{}` print) -/
def natDigits (n : Nat) : List Char :=
  if n < 10 then [Char.ofNat (48 + n)] else natDigits (n / 10) ++ [Char.ofNat (48 + n % 10)]
termination_by n
decreasing_by omega

/-- `format!("{:W.D}", v)` for a decimal `v` given in units of 10⁻⁶ -/
def fmtFixed (v : Int) (width dec : Nat) : List Char :=
  let scale : Nat := 10 ^ (6 - dec)
  let a := v.natAbs
  let q := (a + scale / 2) / scale           -- rounded magnitude in units of 10^-dec
  let p : Nat := 10 ^ dec
  let body := natDigits (q / p) ++ (if dec = 0 then [] else '.' :: (List.replicate (dec - (natDigits (q % p)).length) '0' ++ natDigits (q % p)))
  let s := if v < 0 then '-' :: body else body
  List.replicate (width - s.length) ' ' ++ s

/-- `to_string` of a signed integer -/
def intText (i : Int) : List Char := if i < 0 then '-' :: natDigits i.natAbs else natDigits i.natAbs

/-- one cell of `get_line`: `length = 0` copies the text; otherwise the last `length` characters (texts are
ASCII), leading zeros removed from all-digit cells, left aligned and padded -/
def cell (length : Nat) (text : List Char) : List Char :=
  if length = 0 then text
  else
    let c := text.drop (text.length - min length text.length)
    let trimmed := if c.all isDigit then c.dropWhile (· == '0') else c
    if !c.isEmpty && trimmed.isEmpty then '0' :: List.replicate (length - 1) ' '
    else trimmed ++ List.replicate (length - trimmed.length) ' '

def getLine (fields : List (Nat × List Char)) : List Char := fields.flatMap fun f => cell f.1 f.2

def printLine (lvl : Strictness) (fields : List (Nat × List Char)) : List Char :=
  let l := getLine fields
  if lvl != .loose && l.length < 70 then l ++ List.replicate (70 - l.length) ' ' else l

def S (s : String) : List Char := s.toList
def optS (o : Option String) : List Char := (o.getD "").toList

def pdbCharge (c : Int) : List Char :=
  if c == 0 || c < -9 || c > 9 then [] else [Char.ofNat (48 + c.natAbs), if c < 0 then '-' else '+']

def elementSymbol (e : Nat) : List Char := if e = 0 then [] else (Gen.elementSymbols[e - 1]?.getD "").toList

def matrixLines (lvl : Strictness) (name : String) (m : List Int) : List (List Char) :=
  (List.range 3).map fun i =>
    printLine lvl [(5, S name), (0, natDigits (i + 1)), (0, S "    "),
      (10, fmtFixed (m[4 * i]?.getD 0) 10 6), (10, fmtFixed (m[4 * i + 1]?.getD 0) 10 6),
      (10, fmtFixed (m[4 * i + 2]?.getD 0) 10 6), (0, S "     "), (10, fmtFixed (m[4 * i + 3]?.getD 0) 10 5)]

def identity12' : List Int := [1000000, 0, 0, 0, 0, 1000000, 0, 0, 0, 0, 1000000, 0]

/-- `1 / edge` in units of 10⁻⁶ (exact rational, rounded to nearest), for the Strict-level SCALE default -/
def recipMicro (edge : Int) : Int := if edge = 0 then 0 else (2 * 1000000000000 + edge) / (2 * edge)

def residueName (r : Residue) : Option String :=
  match r.conformers with
  | [] => none
  | c :: cs => if cs.all (·.name == c.name) then some c.name else none

def chunks13 (l : List (List Char)) : Nat → List (List (List Char))
  | 0 => []
  | f + 1 => if l.isEmpty then [] else l.take 13 :: chunks13 (l.drop 13) f

/-- SEQRES lines of one chain -/
def seqresLines (lvl : Strictness) (ch : Chain) (db : Option DbRef) : List (List Char) :=
  let rs : List Residue := match db with
    | some d => ch.residues.dropWhile fun (r : Residue) => !(r.serial == d.pdbPos.start && r.icode == d.pdbPos.startIns)
    | none => ch.residues
  let names : List (List Char) := (rs.filter fun (r : Residue) => residueName r != some "HOH").filterMap fun (r : Residue) =>
    ((residueName r).orElse fun _ => r.conformers.head?.map (·.name)).map fun (n : String) =>
      (n.toList ++ List.replicate (3 - n.length) ' ')
  let total := (ch.residues.filter fun (r : Residue) => residueName r != some "HOH").length
  let cks := chunks13 names names.length
  ((List.range cks.length).zip cks).map fun (ick : Nat × List (List Char)) =>
    printLine lvl [(6, S "SEQRES"), (0, S " "), (3, natDigits (ick.1 + 1)), (0, S " "), (1, S ch.id), (0, S " "), (4, natDigits total),
        (0, S "  "), (0, (ick.2.intersperse [' ']).flatten)]

def atomLinePrefix (a : Atom) (c : Conformer) (r : Residue) (ch : Chain) : List Char :=
  getLine [(5, natDigits a.serial), (0, S " "), (4, S a.name), (1, (c.alt.getD " ").toList),
    (4, S c.name), (1, S ch.id), (4, intText r.serial), (1, (r.icode.getD " ").toList)]

/-- the ATOM / HETATM record of one atom -/
def atomLine (lvl : Strictness) (a : Atom) (c : Conformer) (r : Residue) (ch : Chain) : List Char :=
  printLine lvl [(6, if a.hetero then S "HETATM" else S "ATOM  "), (0, atomLinePrefix a c r ch), (0, S "   "),
    (8, fmtFixed a.x 8 3), (8, fmtFixed a.y 8 3), (8, fmtFixed a.z 8 3), (6, fmtFixed a.occ 6 2), (6, fmtFixed a.b 6 2),
    (0, S "          "), (2, elementSymbol a.element), (0, pdbCharge a.charge)]

/-- values of the file in exact micro-units (`none` when some value is not exact) -/
structure WMeta where
  identifier : Option String
  remarks : List (Nat × String)
  cell : Option (List Int)
  symmetry : Option Nat
  scale : Option (List Int)
  origx : Option (List Int)
  mtrix : List (Nat × List Int × Bool)
  dbrefs : List (Nat × DbRef)

/-- the sGroup and Z columns of CRYST1: `format!("{:<11}{:>4}", symbol, z)`; "P 1" with Z = 1 without a group -/
def cryst1Sym (sym : Option Nat) : List Char :=
  match sym with
  | some i =>
    let hm := ((hmSymbol i).getD []).map Char.ofNat
    let z := natDigits ((zOf i).getD 0)
    hm ++ List.replicate (11 - hm.length) ' ' ++ List.replicate (4 - z.length) ' ' ++ z
  | none => S "P 1           1"

/-- the six numeric cells in front of the symbol -/
def cryst1Head (c : List Int) : List (Nat × List Char) :=
  [(6, S "CRYST1"), (9, fmtFixed (c[0]?.getD 0) 9 3), (9, fmtFixed (c[1]?.getD 0) 9 3), (9, fmtFixed (c[2]?.getD 0) 9 3),
   (7, fmtFixed (c[3]?.getD 0) 7 2), (7, fmtFixed (c[4]?.getD 0) 7 2), (7, fmtFixed (c[5]?.getD 0) 7 2), (0, S " ")]

def cryst1Line (lvl : Strictness) (c : List Int) (sym : Option Nat) : List Char :=
  printLine lvl (cryst1Head c ++ [(0, cryst1Sym sym)])

def savePdb (lvl : Strictness) (p : PDB) (m : WMeta) : List (List Char) :=
  let pl := printLine lvl
  let header := match m.identifier with
    | some name => [pl [(0, S "HEADER                                                        "), (0, S name)]]
    | none => []
  let remarks := m.remarks.map fun (n, t) => pl [(6, S "REMARK"), (0, S " "), (3, natDigits n), (0, S " "), (0, S t)]
  let idTxt := optS m.identifier
  let first := p.models.head?
  let chains0 : List (Nat × Chain) := match first with | some md => (List.range md.chains.length).zip md.chains | none => []
  let dbOf (gi : Nat) : Option DbRef := (m.dbrefs.find? (·.1 == gi)).map (·.2)
  let dbrefL := chains0.flatMap fun (gi, ch) =>
    match dbOf gi with
    | none => []
    | some d =>
      if d.acc.length > 8 || d.id.length > 12 || d.dbPos.start > 99999 || d.dbPos.stop > 99999 then
        [pl [(6, S "DBREF1"), (0, S " "), (4, idTxt), (0, S " "), (1, S ch.id), (0, S " "), (4, intText d.pdbPos.start),
             (1, optS d.pdbPos.startIns), (0, S " "), (4, intText d.pdbPos.stop), (1, optS d.pdbPos.stopIns), (0, S " "),
             (6, S d.db), (0, S "               "), (20, S d.id)],
         pl [(6, S "DBREF2"), (0, S " "), (4, idTxt), (0, S " "), (1, S ch.id), (0, S "     "), (22, S d.acc), (0, S "     "),
             (10, intText d.dbPos.start), (0, S "  "), (10, intText d.dbPos.stop)]]
      else
        [pl [(6, S "DBREF"), (0, S " "), (4, idTxt), (0, S " "), (1, S ch.id), (0, S " "), (4, intText d.pdbPos.start),
             (1, optS d.pdbPos.startIns), (0, S " "), (4, intText d.pdbPos.stop), (1, optS d.pdbPos.stopIns), (0, S " "),
             (6, S d.db), (0, S " "), (8, S d.acc), (0, S " "), (12, S d.id), (0, S " "), (5, intText d.dbPos.start),
             (1, optS d.dbPos.startIns), (0, S " "), (5, intText d.dbPos.stop), (1, optS d.dbPos.stopIns)]]
  let seqadvL := chains0.flatMap fun (gi, ch) =>
    match dbOf gi with
    | none => []
    | some d => d.differences.map fun x =>
        pl [(6, S "SEQADV"), (0, S " "), (4, idTxt), (0, S " "), (3, S x.resName), (0, S " "), (1, S ch.id), (0, S " "),
            (4, intText x.seqNum), (0, S "  "), (4, S d.db), (0, S " "), (9, S d.acc), (0, S " "),
            (3, (x.dbRes.map (·.1)).getD "" |>.toList), (0, S " "), (5, intText ((x.dbRes.map (·.2)).getD 0)), (0, S " "), (0, S x.comment)]
  let seqresOn := lvl == .strict || chains0.any fun (gi, _) => (dbOf gi).isSome
  let seqresL := if !seqresOn then [] else chains0.flatMap fun (gi, ch) => seqresLines lvl ch (dbOf gi)
  let modresL := chains0.flatMap fun (_, ch) => ch.residues.flatMap fun r => r.conformers.filterMap fun c =>
    c.modification.map fun (std, comment) =>
      pl [(6, S "MODRES"), (0, S "      "), (3, S c.name), (0, S " "), (1, S ch.id), (0, S " "), (4, intText r.serial),
          (1, (r.icode.getD " ").toList), (0, S " "), (3, S std), (0, S "  "), (0, S comment)]
  let chainMeta := if first.isSome then dbrefL ++ seqadvL ++ seqresL ++ modresL else []
  let cryst := match m.cell with
    | none => []
    | some c => [cryst1Line lvl c m.symmetry]
  let origx := match m.origx with
    | some x => matrixLines lvl "ORIGX" x
    | none => if lvl == .strict then matrixLines lvl "ORIGX" identity12' else []
  let scale := match m.scale with
    | some x => matrixLines lvl "SCALE" x
    | none =>
      if lvl == .strict then
        match m.cell with
        | some c => matrixLines lvl "SCALE" [recipMicro (c[0]?.getD 0), 0, 0, 0, 0, recipMicro (c[1]?.getD 0), 0, 0, 0, 0, recipMicro (c[2]?.getD 0), 0]
        | none => []
      else []
  let mtrix := m.mtrix.flatMap fun (ser, x, given) =>
    (List.range 3).map fun i =>
      pl [(0, S "MTRIX"), (0, natDigits (i + 1)), (0, S " "), (3, natDigits ser),
          (10, fmtFixed (x[4 * i]?.getD 0) 10 6), (10, fmtFixed (x[4 * i + 1]?.getD 0) 10 6), (10, fmtFixed (x[4 * i + 2]?.getD 0) 10 6),
          (0, S "     "), (10, fmtFixed (x[4 * i + 3]?.getD 0) 10 5), (0, S "    "), (0, if given then S "1" else S " ")]
  let multiple := p.models.length > 1
  let modelsL := p.models.flatMap fun md =>
    (if multiple then [pl [(0, S "MODEL        "), (0, natDigits md.serial)]] else []) ++
    ((md.chains.filter fun c => !c.atoms.isEmpty).flatMap fun ch =>
      (ch.residues.flatMap fun r => r.conformers.flatMap fun c => c.atoms.flatMap fun a =>
        let el := elementSymbol a.element
        [atomLine lvl a c r ch] ++
        (match a.atf with
         | some t =>
           let v (i : Nat) : List Char :=
             let x := t[i]?.getD 0
             let q : Int := (if x < 0 then -((x.natAbs + 50) / 100 : Nat) else ((x.natAbs + 50) / 100 : Nat))
             let s := intText q
             List.replicate (8 - s.length) ' ' ++ s
           [pl [(6, S "ANISOU"), (0, atomLinePrefix a c r ch), (0, S " "), (7, v 0), (7, v 4), (7, v 8), (7, v 1), (7, v 2), (7, v 5),
                (0, S "      "), (2, el), (0, pdbCharge a.charge)]]
         | none => [])) ++
      (match ch.atoms.getLast?, ch.residues.getLast?, ch.conformers.getLast? with
       | some la, some lr, some lc =>
         [pl [(0, S "TER"), (5, natDigits la.serial), (0, S "      "), (3, S lc.name), (0, S " "), (1, S ch.id), (4, intText lr.serial)]]
       | _, _, _ => [])) ++
    (if multiple then [pl [(0, S "ENDMDL")]] else [])
  let master := if lvl != .loose then
      let xform := (if m.origx.isSome || lvl == .strict then 3 else 0) +
        (if m.scale.isSome || (lvl == .strict && m.cell.isSome) then 3 else 0) + 3 * m.mtrix.length
      [pl [(0, S "MASTER    "), (5, natDigits m.remarks.length), (5, S "0"), (5, S "0"), (5, S "0"), (5, S "0"), (5, S "0"), (5, S "0"),
           (5, natDigits xform), (5, natDigits p.atoms.length), (5, natDigits p.models.length), (5, S "0"), (5, S "0")]]
    else []
  header ++ remarks ++ chainMeta ++ cryst ++ origx ++ scale ++ mtrix ++ modelsL ++ master ++ [pl [(0, S "END")]]

end PdbModel
