import PdbModel.SGSym
namespace PdbModel

def codesTok (l : List Nat) : String := if l.isEmpty then "-" else ",".intercalate (l.map toString)
def parseCodes (t : String) : Option (List Nat) := if t == "-" then some [] else (t.splitOn ",").mapM (·.toNat?)

def handleC17 : List String → Option String
  | ["sg", i] => do
      let i ← i.toNat?
      match symmetryFromIndex i with
      | none => pure "none"
      | some k =>
        let hm ← hmSymbol k
        let hall ← hallSymbol k
        let z ← zOf k
        let ops ← transformations k
        pure s!"{k} hm={codesTok hm} hall={codesTok hall} z={z} ops={codesTok ops}"
  | ["new", s] => do
      match symmetryNew (← parseCodes s) with
      | none => pure "none"
      | some k => pure (toString k)
  | _ => none

end PdbModel
