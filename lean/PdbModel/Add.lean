/-
C08: `Residue::add_atom`, `Chain::add_atom` (searches from the back), `Model::add_atom`.
The raw identifiers are normalised exactly as the constructors do (`normConfId` …); a `none` there is
the `expect` panic of the Rust code. Children are kept in `List`s; `upsertC` is the "first child with
this identifier gets the atom, otherwise append a new child" loop.
-/
import PdbModel.Hier
namespace PdbModel

section Keyed
variable {C K : Type} [DecidableEq K]

def upsertC (key : C → K) (mk : K → C) (upd : C → C) : List C → K → List C
  | [], k => [upd (mk k)]
  | c :: cs, k => if key c = k then upd c :: cs else c :: upsertC key mk upd cs k

/-- update the LAST child with key `k` (`iter_mut().rev()` in `Chain::add_atom`) -/
def updLast (key : C → K) (upd : C → C) : List C → K → Option (List C)
  | [], _ => none
  | c :: cs, k => match updLast key upd cs k with
    | some cs' => some (c :: cs')
    | none => if key c = k then some (upd c :: cs) else none

def upsertLastC (key : C → K) (mk : K → C) (upd : C → C) (cs : List C) (k : K) : List C :=
  (updLast key upd cs k).getD (cs ++ [upd (mk k)])
end Keyed

def Conformer.push (a : Atom) (c : Conformer) : Conformer := { c with atoms := c.atoms ++ [a] }
def Conformer.empty (k : ConfId) : Conformer := { name := k.1, alt := k.2, atoms := [] }
def Residue.empty (k : ResId) : Residue := { serial := k.1, icode := k.2, conformers := [] }
def Chain.empty (k : String) : Chain := { id := k, residues := [] }

abbrev ROp := ConfId × Atom
abbrev COp := ResId × ROp
abbrev MOp := String × COp

/-- add-atom on already normalised identifiers -/
def Residue.addAtomN (r : Residue) (op : ROp) : Residue :=
  { r with conformers := upsertC Conformer.cid Conformer.empty (Conformer.push op.2) r.conformers op.1 }

def Chain.addAtomN (c : Chain) (op : COp) : Chain :=
  { c with residues := upsertLastC Residue.rid Residue.empty (fun r => r.addAtomN op.2) c.residues op.1 }

def Model.addAtomN (m : Model) (op : MOp) : Model :=
  { m with chains := upsertC Chain.id Chain.empty (fun c => c.addAtomN op.2) m.chains op.1 }

/-! normalisation of the raw arguments (`none` = the call panics) -/

def normConfId (raw : String × Option String) : Option ConfId :=
  (prepIdUpS raw.1).map fun n => (n, raw.2.bind prepIdUpS)

def normResId (raw : Int × Option String) : Option ResId :=
  match raw.2 with
  | none => some (raw.1, none)
  | some ic => (prepIdUpS ic).map fun c => (raw.1, some c)

def normChainId (raw : String) : Option String :=
  prepIdS (String.ofList (trim raw.toList))

abbrev RawROp := (String × Option String) × Atom
abbrev RawCOp := (Int × Option String) × RawROp
abbrev RawMOp := String × RawCOp

def normROp (o : RawROp) : Option ROp := (normConfId o.1).map fun k => (k, o.2)
def normCOp (o : RawCOp) : Option COp := do
  let r ← normResId o.1
  let x ← normROp o.2
  pure (r, x)
def normMOp (o : RawMOp) : Option MOp := do
  let c ← normChainId o.1
  let x ← normCOp o.2
  pure (c, x)

/-- the public entry points on raw identifiers -/
def Residue.addAtom (r : Residue) (o : RawROp) : Option Residue := (normROp o).map r.addAtomN
def Chain.addAtom (c : Chain) (o : RawCOp) : Option Chain := (normCOp o).map c.addAtomN
def Model.addAtom (m : Model) (o : RawMOp) : Option Model := (normMOp o).map m.addAtomN

/-! declarative specification: nested grouping by first appearance -/

def dedupK {K : Type} [DecidableEq K] (l : List K) : List K :=
  l.foldl (fun acc x => if x ∈ acc then acc else acc ++ [x]) []

def specConfs (ops : List ROp) : List Conformer :=
  (dedupK (ops.map (·.1))).map fun k =>
    { name := k.1, alt := k.2, atoms := (ops.filter (fun o => o.1 = k)).map (·.2) }

def specResidues (ops : List COp) : List Residue :=
  (dedupK (ops.map (·.1))).map fun k =>
    { serial := k.1, icode := k.2, conformers := specConfs ((ops.filter (fun o => o.1 = k)).map (·.2)) }

def specChains (ops : List MOp) : List Chain :=
  (dedupK (ops.map (·.1))).map fun k =>
    { id := k, residues := specResidues ((ops.filter (fun o => o.1 = k)).map (·.2)) }

end PdbModel
