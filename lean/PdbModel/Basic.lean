/-
Basic text and token helpers shared by every model file.
Core Lean only (no Mathlib / Batteries) so that the `pdbmodel` driver links.
-/
namespace PdbModel

/-! ## Characters (Rust semantics) -/

/-- Rust's `char::is_whitespace` (Unicode `White_Space`). -/
def isRustWs (c : Char) : Bool :=
  let n := c.toNat
  (9 ≤ n && n ≤ 13) || n == 32 || n == 0x85 || n == 0xA0 || n == 0x1680 ||
  (0x2000 ≤ n && n ≤ 0x200A) || n == 0x2028 || n == 0x2029 || n == 0x202F ||
  n == 0x205F || n == 0x3000

/-- `helper::check_char`: printable ASCII including blank. -/
def checkChar (c : Char) : Bool := c.toNat < 127 && c.toNat > 31

def validText (s : List Char) : Bool := s.all checkChar

def upperAscii (c : Char) : Char :=
  if 'a'.toNat ≤ c.toNat ∧ c.toNat ≤ 'z'.toNat then Char.ofNat (c.toNat - 32) else c

def trimStart (s : List Char) : List Char := s.dropWhile isRustWs
def trimEnd (s : List Char) : List Char := (s.reverse.dropWhile isRustWs).reverse
def trim (s : List Char) : List Char := trimEnd (trimStart s)

/-- `helper::prepare_identifier`: valid characters and non-blank, then trimmed. -/
def prepareIdentifier (s : List Char) : Option (List Char) :=
  if validText s && !(trim s).isEmpty then some (trim s) else none

/-- `helper::prepare_identifier_uppercase` (ASCII is all that passes `valid_identifier`). -/
def prepareIdentifierUpper (s : List Char) : Option (List Char) :=
  (prepareIdentifier s).map (·.map upperAscii)

def prepIdS (s : String) : Option String := (prepareIdentifier s.toList).map String.ofList
def prepIdUpS (s : String) : Option String := (prepareIdentifierUpper s.toList).map String.ofList

/-! ## number_to_base26 -/

def letters : List Char :=
  ['A','B','C','D','E','F','G','H','I','J','K','L','M','N','O','P','Q','R','S','T','U','V','W','X','Y','Z']

/-- `ALPHABET.chars().nth(num % 26)` -/
def alphabetChar (n : Nat) : Char := letters.getD (n % 26) 'A'

/-- digits of `number_to_base26`, least significant first (fuel = the number itself is enough) -/
def base26Rev : Nat → Nat → List Char
  | 0, n => [alphabetChar n]
  | fuel + 1, n => if n / 26 = 0 then [alphabetChar n] else alphabetChar n :: base26Rev fuel (n / 26)

def numberToBase26 (n : Nat) : String := String.ofList (base26Rev n n).reverse

/-! ## Hex / tokens of the line protocol -/

def hexDigit (n : Nat) : Char :=
  if n < 10 then Char.ofNat (48 + n) else Char.ofNat (87 + n)

def hexVal (c : Char) : Option Nat :=
  let n := c.toNat
  if 48 ≤ n ∧ n ≤ 57 then some (n - 48)
  else if 97 ≤ n ∧ n ≤ 102 then some (n - 87)
  else if 65 ≤ n ∧ n ≤ 70 then some (n - 55)
  else none

/-- Encode the code points (not bytes) of a string: 2 hex digits when < 256, else `u` + 6 digits. -/
def encChars (s : List Char) : String :=
  String.ofList ('s' :: s.flatMap fun c =>
    let n := c.toNat
    if n < 256 then [hexDigit (n / 16), hexDigit (n % 16)]
    else ['u', hexDigit (n / 1048576 % 16), hexDigit (n / 65536 % 16), hexDigit (n / 4096 % 16),
          hexDigit (n / 256 % 16), hexDigit (n / 16 % 16), hexDigit (n % 16)])

def encStr (s : String) : String := encChars s.toList

def encOpt : Option String → String
  | none => "~"
  | some s => encStr s

def decCharsAux : Nat → List Char → Option (List Char)
  | _, [] => some []
  | 0, _ => none
  | fuel + 1, 'u' :: a :: b :: c :: d :: e :: f :: rest => do
      let a ← hexVal a; let b ← hexVal b; let c ← hexVal c
      let d ← hexVal d; let e ← hexVal e; let f ← hexVal f
      let r ← decCharsAux fuel rest
      pure (Char.ofNat (a * 1048576 + b * 65536 + c * 4096 + d * 256 + e * 16 + f) :: r)
  | fuel + 1, a :: b :: rest => do
      let a ← hexVal a; let b ← hexVal b
      let r ← decCharsAux fuel rest
      pure (Char.ofNat (a * 16 + b) :: r)
  | _, _ => none

/-- token `s<hex>` → characters -/
def decChars (t : String) : Option (List Char) :=
  match t.toList with
  | 's' :: rest => decCharsAux (rest.length + 1) rest
  | _ => none

def decStr (t : String) : Option String := (decChars t).map String.ofList

def decOpt (t : String) : Option (Option String) :=
  if t == "~" then some none else (decStr t).map some

def tokens (line : String) : List String :=
  (line.splitOn " ").filter (· ≠ "")

def boolTok (b : Bool) : String := if b then "1" else "0"

def tokBool (t : String) : Option Bool :=
  if t == "1" then some true else if t == "0" then some false else none

/-- take `n` items with a parser that consumes tokens -/
def parseMany {α} (p : List String → Option (α × List String)) :
    Nat → List String → Option (List α × List String)
  | 0, ts => some ([], ts)
  | n + 1, ts => do
      let (a, ts) ← p ts
      let (as, ts) ← parseMany p n ts
      pure (a :: as, ts)

end PdbModel
