/-
The Model/Chain/Residue/Conformer/Atom hierarchy of pdbtbx as plain structures,
its traversal (walk) functions, and the (de)serialisation used by the line protocol.
Numbers: floating point fields are carried as `Int` in units of 10⁻⁶ (see DESIGN §5).
-/
import PdbModel.Basic
namespace PdbModel

structure Atom where
  hetero : Bool
  serial : Nat
  id : String
  name : String
  x : Int
  y : Int
  z : Int
  occ : Int
  b : Int
  element : Nat          -- atomic number, 0 = none
  charge : Int
  atf : Option (List Int) -- 9 entries, row major
  deriving DecidableEq, Repr, Inhabited

structure Conformer where
  name : String
  alt : Option String
  atoms : List Atom
  modification : Option (String × String) := none
  deriving DecidableEq, Repr, Inhabited

structure Residue where
  serial : Int
  icode : Option String
  conformers : List Conformer
  deriving DecidableEq, Repr, Inhabited

structure Chain where
  id : String
  residues : List Residue
  deriving DecidableEq, Repr, Inhabited

structure Model where
  serial : Nat
  chains : List Chain
  deriving DecidableEq, Repr, Inhabited

/-- only the hierarchy part of `PDB`; metadata lives in `PdbMeta` (file-format models) -/
structure PDB where
  models : List Model
  deriving DecidableEq, Repr, Inhabited

abbrev ResId := Int × Option String
abbrev ConfId := String × Option String

def Conformer.cid (c : Conformer) : ConfId := (c.name, c.alt)
def Residue.rid (r : Residue) : ResId := (r.serial, r.icode)

/-! ## Walks — mirror the delegation structure of the accessors (`flat_map` compositions) -/

def Residue.atoms (r : Residue) : List Atom := r.conformers.flatMap (·.atoms)
def Chain.conformers (c : Chain) : List Conformer := c.residues.flatMap (·.conformers)
def Chain.atoms (c : Chain) : List Atom := c.residues.flatMap (·.atoms)
def Model.residues (m : Model) : List Residue := m.chains.flatMap (·.residues)
def Model.conformers (m : Model) : List Conformer := m.chains.flatMap (·.conformers)
def Model.atoms (m : Model) : List Atom := m.chains.flatMap (·.atoms)
def PDB.chains (p : PDB) : List Chain := p.models.flatMap (·.chains)
def PDB.residues (p : PDB) : List Residue := p.models.flatMap (·.residues)
def PDB.conformers (p : PDB) : List Conformer := p.models.flatMap (·.conformers)
def PDB.atoms (p : PDB) : List Atom := p.models.flatMap (·.atoms)

/-! counts, as the code computes them (sums over children / first model only) -/
def Conformer.atomCount (c : Conformer) : Nat := c.atoms.length
def Residue.conformerCount (r : Residue) : Nat := r.conformers.length
def Residue.atomCount (r : Residue) : Nat := r.conformers.foldl (fun s c => c.atomCount + s) 0
def Chain.residueCount (c : Chain) : Nat := c.residues.length
def Chain.conformerCount (c : Chain) : Nat := (c.residues.map (·.conformerCount)).sum
def Chain.atomCount (c : Chain) : Nat := (c.residues.map (·.atomCount)).sum
def Model.chainCount (m : Model) : Nat := m.chains.length
def Model.residueCount (m : Model) : Nat := (m.chains.map (·.residueCount)).sum
def Model.conformerCount (m : Model) : Nat := (m.chains.map (·.conformerCount)).sum
def Model.atomCount (m : Model) : Nat := (m.chains.map (·.atomCount)).sum
def PDB.modelCount (p : PDB) : Nat := p.models.length
def PDB.chainCount (p : PDB) : Nat := match p.models with | [] => 0 | m :: _ => m.chainCount
def PDB.residueCount (p : PDB) : Nat := match p.models with | [] => 0 | m :: _ => m.residueCount
def PDB.conformerCount (p : PDB) : Nat := match p.models with | [] => 0 | m :: _ => m.conformerCount
def PDB.atomCount (p : PDB) : Nat := match p.models with | [] => 0 | m :: _ => m.atomCount
def PDB.totalChainCount (p : PDB) : Nat := p.models.foldl (fun a m => a + m.chainCount) 0
def PDB.totalResidueCount (p : PDB) : Nat := p.models.foldl (fun a m => a + m.residueCount) 0
def PDB.totalConformerCount (p : PDB) : Nat := p.models.foldl (fun a m => a + m.conformerCount) 0
def PDB.totalAtomCount (p : PDB) : Nat := p.models.foldl (fun a m => a + m.atomCount) 0

/-! hierarchy tuples, built by `extend` exactly as `atoms_with_hierarchy` does -/
structure HAC where (atom : Atom) (conformer : Conformer) deriving DecidableEq, Repr
structure HACR extends HAC where (residue : Residue) deriving DecidableEq, Repr
structure HACRC extends HACR where (chain : Chain) deriving DecidableEq, Repr
structure HACRCM extends HACRC where (model : Model) deriving DecidableEq, Repr

def Conformer.withH (c : Conformer) : List HAC := c.atoms.map fun a => ⟨a, c⟩
def Residue.withH (r : Residue) : List HACR :=
  (r.conformers.flatMap (·.withH)).map fun h => { h with residue := r }
def Residue.withHAC (r : Residue) : List HAC := r.conformers.flatMap (·.withH)
def Chain.withH (c : Chain) : List HACRC :=
  c.residues.flatMap fun r => r.withHAC.map fun h => { toHAC := h, residue := r, chain := c }
def Chain.withHACR (c : Chain) : List HACR :=
  c.residues.flatMap fun r => r.withHAC.map fun h => { toHAC := h, residue := r }
def Model.withHACRC (m : Model) : List HACRC :=
  m.chains.flatMap fun c => c.withHACR.map fun h => { toHACR := h, chain := c }
def PDB.withH (p : PDB) : List HACRCM :=
  p.models.flatMap fun m => m.withHACRC.map fun h => { toHACRC := h, model := m }

/-! ## Serialisation -/

def intTok (i : Int) : String := toString i

def Atom.toks (a : Atom) : List String :=
  ["A", boolTok a.hetero, toString a.serial, encStr a.id, encStr a.name,
   intTok a.x, intTok a.y, intTok a.z, intTok a.occ, intTok a.b,
   toString a.element, intTok a.charge,
   match a.atf with
   | none => "~"
   | some l => ",".intercalate (l.map intTok)]

def Conformer.toks (c : Conformer) : List String :=
  ["F", encStr c.name, encOpt c.alt,
   (match c.modification with
    | none => "~"
    | some (a, b) => encStr a ++ "/" ++ encStr b),
   toString c.atoms.length] ++ c.atoms.flatMap Atom.toks

def Residue.toks (r : Residue) : List String :=
  ["R", intTok r.serial, encOpt r.icode, toString r.conformers.length] ++
    r.conformers.flatMap Conformer.toks

def Chain.toks (c : Chain) : List String :=
  ["C", encStr c.id, toString c.residues.length] ++ c.residues.flatMap Residue.toks

def Model.toks (m : Model) : List String :=
  ["M", toString m.serial, toString m.chains.length] ++ m.chains.flatMap Chain.toks

def PDB.toks (p : PDB) : List String :=
  ["P", toString p.models.length] ++ p.models.flatMap Model.toks

def unwords (l : List String) : String := " ".intercalate l

def parseAtf (t : String) : Option (Option (List Int)) :=
  if t == "~" then some none
  else do
    let parts ← (t.splitOn ",").mapM (·.toInt?)
    if parts.length = 9 then pure (some parts) else none

def parseAtom : List String → Option (Atom × List String)
  | "A" :: h :: ser :: id :: nm :: x :: y :: z :: o :: b :: el :: ch :: atf :: rest => do
      pure ({ hetero := ← tokBool h, serial := ← ser.toNat?, id := ← decStr id, name := ← decStr nm,
              x := ← x.toInt?, y := ← y.toInt?, z := ← z.toInt?, occ := ← o.toInt?, b := ← b.toInt?,
              element := ← el.toNat?, charge := ← ch.toInt?, atf := ← parseAtf atf }, rest)
  | _ => none

def parseModif (t : String) : Option (Option (String × String)) :=
  if t == "~" then some none
  else match t.splitOn "/" with
    | [a, b] => do pure (some (← decStr a, ← decStr b))
    | _ => none

def parseConformer : List String → Option (Conformer × List String)
  | "F" :: nm :: alt :: md :: n :: rest => do
      let (atoms, rest) ← parseMany parseAtom (← n.toNat?) rest
      pure ({ name := ← decStr nm, alt := ← decOpt alt, atoms, modification := ← parseModif md }, rest)
  | _ => none

def parseResidue : List String → Option (Residue × List String)
  | "R" :: ser :: ic :: n :: rest => do
      let (cs, rest) ← parseMany parseConformer (← n.toNat?) rest
      pure ({ serial := ← ser.toInt?, icode := ← decOpt ic, conformers := cs }, rest)
  | _ => none

def parseChain : List String → Option (Chain × List String)
  | "C" :: id :: n :: rest => do
      let (rs, rest) ← parseMany parseResidue (← n.toNat?) rest
      pure ({ id := ← decStr id, residues := rs }, rest)
  | _ => none

def parseModel : List String → Option (Model × List String)
  | "M" :: ser :: n :: rest => do
      let (cs, rest) ← parseMany parseChain (← n.toNat?) rest
      pure ({ serial := ← ser.toNat?, chains := cs }, rest)
  | _ => none

def parsePDB : List String → Option (PDB × List String)
  | "P" :: n :: rest => do
      let (ms, rest) ← parseMany parseModel (← n.toNat?) rest
      pure ({ models := ms }, rest)
  | _ => none

end PdbModel
