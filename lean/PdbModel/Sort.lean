/-
C11: sorting (stable, by the key of each `Ord` impl), renumbering, binary atom lookup.
-/
import PdbModel.Hier
namespace PdbModel

/-! ## orders used by the `Ord` impls -/

def optLe : Option String → Option String → Bool
  | none, _ => true
  | some _, none => false
  | some a, some b => decide (a ≤ b)

/-- lexicographic `(k1, k2)`: compare the first component, the second only on a tie -/
def lexLe {α β} [DecidableEq α] (le1 : α → α → Bool) (le2 : β → β → Bool) (a b : α × β) : Bool :=
  if a.1 = b.1 then le2 a.2 b.2 else le1 a.1 b.1

def atomLe (a b : Atom) : Bool := decide (a.serial ≤ b.serial)
def confLe (a b : Conformer) : Bool :=
  lexLe (fun x y : String => decide (x ≤ y)) optLe (a.name, a.alt) (b.name, b.alt)
def resLe (a b : Residue) : Bool :=
  lexLe (fun x y : Int => decide (x ≤ y)) optLe (a.serial, a.icode) (b.serial, b.icode)
def chainLe (a b : Chain) : Bool := decide (a.id ≤ b.id)
def modelLe (a b : Model) : Bool := decide (a.serial ≤ b.serial)

/-! ## sort at every level (`Vec::sort` is a stable merge sort; so is `List.mergeSort`) -/

def Conformer.sort (c : Conformer) : Conformer := { c with atoms := c.atoms.mergeSort atomLe }
def Residue.sort (r : Residue) : Residue := { r with conformers := r.conformers.mergeSort confLe }
def Chain.sort (c : Chain) : Chain := { c with residues := c.residues.mergeSort resLe }
def Model.sort (m : Model) : Model := { m with chains := m.chains.mergeSort chainLe }
def PDB.sort (p : PDB) : PDB := { p with models := p.models.mergeSort modelLe }

/-- `PDB::full_sort`: models, then chains of every model, residues of every chain, … -/
def PDB.fullSort (p : PDB) : PDB :=
  { models := (p.models.mergeSort modelLe).map fun m =>
      { m with chains := (m.chains.mergeSort chainLe).map fun c =>
        { c with residues := (c.residues.mergeSort resLe).map fun r =>
          { r with conformers := (r.conformers.mergeSort confLe).map Conformer.sort } } } }

/-! ## renumber -/

/-- renumber the atoms of a list of conformers starting from `start`; returns the next number -/
def renumAtoms : Nat → List Atom → List Atom × Nat
  | n, [] => ([], n)
  | n, a :: as => let (r, k) := renumAtoms (n + 1) as; ({ a with serial := n } :: r, k)

def renumConfAtoms : Nat → List Conformer → List Conformer × Nat
  | n, [] => ([], n)
  | n, c :: cs =>
    let (as, k) := renumAtoms n c.atoms
    let (r, k') := renumConfAtoms k cs
    ({ c with atoms := as } :: r, k')

def relabelFrom : Nat → List Conformer → List Conformer
  | _, [] => []
  | i, c :: cs => { c with alt := prepIdUpS (numberToBase26 i) } :: relabelFrom (i + 1) cs

/-- alternate locations: cleared in single-conformer residues, letter codes otherwise -/
def relabelConfs (cs : List Conformer) : List Conformer :=
  if cs.length > 1 then relabelFrom 0 cs else cs.map fun c => { c with alt := none }

/-- residues of one model: numbers 1,2,… across all chains, insertion codes cleared, atoms numbered
in traversal order -/
def renumResidues : Nat → Nat → List Residue → List Residue × Nat × Nat
  | rn, an, [] => ([], rn, an)
  | rn, an, r :: rs =>
    let (cs, an') := renumConfAtoms an r.conformers
    let (rest, rn', an'') := renumResidues (rn + 1) an' rs
    ({ serial := (rn : Int), icode := none, conformers := relabelConfs cs } :: rest, rn', an'')

def renumChains : Nat → Nat → Nat → List Chain → List Chain
  | _, _, _, [] => []
  | ci, rn, an, c :: cs =>
    let (rs, rn', an') := renumResidues rn an c.residues
    { id := (prepIdS (numberToBase26 ci)).getD c.id, residues := rs } :: renumChains (ci + 1) rn' an' cs

def renumModels : Nat → List Model → List Model
  | _, [] => []
  | n, m :: ms => { serial := n, chains := renumChains 0 1 1 m.chains } :: renumModels (n + 1) ms

def PDB.renumber (p : PDB) : PDB := { models := renumModels 1 p.models }

/-! ## binary lookup -/

/-- binary search with a three-way probe: `.eq` = this is it, `.lt` = the element lies before the
target (go right), `.gt` = go left. Fuel = length. -/
def bsearch {α} (probe : α → Ordering) : Nat → List α → Option α
  | 0, _ => none
  | fuel + 1, l =>
    match l[l.length / 2]? with
    | none => none
    | some x =>
      match probe x with
      | .eq => some x
      | .lt => bsearch probe fuel (l.drop (l.length / 2 + 1))
      | .gt => bsearch probe fuel (l.take (l.length / 2))

/-- probe of `Chain::binary_find_atom` / `Model::binary_find_atom` on the serial range of a container
(after the fix of the reversed comparator) -/
def rangeProbe (serial : Nat) (atoms : List Atom) : Option Ordering :=
  match atoms.head?, atoms.getLast? with
  | some lo, some hi =>
    if lo.serial ≤ serial ∧ serial ≤ hi.serial then some .eq
    else if serial < lo.serial then some .gt else some .lt
  | _, _ => none  -- "All residues should have at least a single atom" — the code panics

def Conformer.binaryFindAtom (c : Conformer) (serial : Nat) : Option Atom :=
  bsearch (fun a => compare a.serial serial) c.atoms.length c.atoms

/-- the body of the conformer loop of `Residue::binary_find_atom`: alternative location, serial range of the
conformer, then bisection -/
def Conformer.probeFind (c : Conformer) (serial : Nat) (alt : Option String) : Option HAC :=
  if c.alt = alt then
    match c.atoms.head?, c.atoms.getLast? with
    | some f, some b =>
      if f.serial ≤ serial ∧ serial ≤ b.serial then (c.binaryFindAtom serial).map fun a => ⟨a, c⟩ else none
    | _, _ => none
  else none

def Residue.binaryFindAtom (r : Residue) (serial : Nat) (alt : Option String) : Option HAC :=
  r.conformers.findSome? fun c => c.probeFind serial alt

/-- `none` at the outer level = panic (empty container met by the probe) -/
def Chain.binaryFindAtom (c : Chain) (serial : Nat) (alt : Option String) : Option (Option HACR) :=
  if c.residues.any (fun r => r.atoms.isEmpty) then none
  else some <|
    (bsearch (fun r => (rangeProbe serial r.atoms).getD .eq) c.residues.length c.residues).bind fun r =>
      (r.binaryFindAtom serial alt).map fun h => { toHAC := h, residue := r }

def Model.binaryFindAtom (m : Model) (serial : Nat) (alt : Option String) : Option (Option HACRC) :=
  if m.chains.any (fun c => c.atoms.isEmpty) then none
  else
    match bsearch (fun c => (rangeProbe serial c.atoms).getD .eq) m.chains.length m.chains with
    | none => some none
    | some c => (c.binaryFindAtom serial alt).map fun o => o.map fun h => { toHACR := h, chain := c }

def PDB.binaryFindAtom (p : PDB) (serial : Nat) (alt : Option String) : Option (Option HACRCM) :=
  match p.models with
  | [] => some none
  | m :: _ => (m.binaryFindAtom serial alt).map fun o => o.map fun h => { toHACRC := h, model := m }

/-- the linear scan the property compares with -/
def PDB.linearFindAtom (p : PDB) (serial : Nat) (alt : Option String) : Option HACRCM :=
  match p.models with
  | [] => none
  | m :: _ => (m.withHACRC.find? fun h => h.atom.serial = serial ∧ h.conformer.alt = alt).map
      fun h => { toHACRC := h, model := m }

end PdbModel
