/-
The fixed-column PDB lexer (`read/pdb/lexer.rs`), record type by record type, with the column table of
each record written as the code has it. Numeric fields carry exact decimals (`Flt`).
-/
import PdbModel.PdbText
import PdbModel.Level
import PdbModel.Gen.Small
namespace PdbModel

/-- a diagnostic of the PDB reader: level, short description, and the lines it quotes
(line number, text) — empty for diagnostics without line context -/
structure PDiag where
  level : ErrorLevel
  short : String
  quoted : List (Nat × List Char) := []
  deriving Repr, DecidableEq

/-- a diagnostic of the lexer before the line it belongs to is attached (every lexer diagnostic quotes
exactly the line being lexed) -/
abbrev LDiag := ErrorLevel × String

abbrev W (α : Type) := α × List LDiag

def tooShort (_ln : Nat) (_line : List Char) : LDiag := (.invalidating, "Line too short")
def invalidData (_ln : Nat) (_line : List Char) : LDiag := (.invalidating, "Invalid data in field")

def attachLine (ln : Nat) (line : List Char) (ds : List LDiag) : List PDiag :=
  ds.map fun d => ⟨d.1, d.2, [(ln, line)]⟩

/-- `parse_default`: the byte range `[a, b)` of the line, trimmed, parsed by `p`, or the default plus a
diagnostic -/
def fieldW {α} (p : List Char → Option α) (dflt : α) (ln : Nat) (line : List Char) (a b : Nat) : W α :=
  if byteLen line < b then (dflt, [tooShort ln line])
  else match (getBytes line a b).bind (fun f => p (trim f)) with
    | some v => (v, [])
    | none => (dflt, [invalidData ln line])

def fUsize := fieldW parseUsize 0
def fIsize := fieldW parseIsize 0
def fF64 := fieldW parseF64 (.fin 0 0)
def fStr := fieldW (fun s => some s) []

/-- `parse_char`: the character at CHARACTER position `pos`, blank plus a diagnostic when missing -/
def charW (ln : Nat) (line : List Char) (pos : Nat) : W Char :=
  match line[pos]? with
  | some c => (c, [])
  | none => (' ', [tooShort ln line])

inductive LexItem where
  | header (id : List Char)
  | remark (num : Nat) (text : List Char)
  | atom (hetero : Bool) (serial : Nat) (name : List Char) (alt : Option (List Char)) (resName : List Char)
      (chain : List Char) (resSeq : Int) (icode : Option (List Char)) (x y z occ b : Flt) (element : List Char)
      (charge : Int)
  | anisou (serial : Nat) (u : List Int)          -- u11 u22 u33 u12 u13 u23 in 1e-4
  | model (n : Nat)
  | scale (row : Nat) (v : List Flt)
  | origx (row : Nat) (v : List Flt)
  | mtrix (row : Nat) (ser : Nat) (v : List Flt) (given : Bool)
  | crystal (a b c al be ga : Flt) (sg : List Char)
  | master (numRemark numEmpty numXform numCoord : Nat)
  | seqres (serNum : Nat) (chain : Char) (numRes : Nat) (values : List (List Char))
  | dbref (chain : List Char) (lb : Int) (li : Char) (le : Int) (lei : Char) (db acc id : List Char)
      (db0 : Int) (dbi0 : Char) (db1 : Int) (dbi1 : Char)
  | dbref1 (chain : List Char) (lb : Int) (li : Char) (le : Int) (lei : Char) (db id : List Char)
  | dbref2 (chain : List Char) (acc : List Char) (b e : Int)
  | seqadv (chain : List Char) (resName : List Char) (seqNum : Int) (insert : Option (List Char))
      (dbPos : Option (List Char × Int)) (comment : List Char)
  | modres (resName : List Char) (chain : List Char) (seqNum : Int) (insert : Option (List Char))
      (std comment : List Char)
  | ssbond (r1 : List Char) (s1 : Int) (i1 : Option (List Char)) (c1 : List Char)
      (r2 : List Char) (s2 : Int) (i2 : Option (List Char)) (c2 : List Char)
  | endModel | ter | endd | empty
  deriving Repr

def optChar (c : Char) : Option (List Char) := if c == ' ' then none else some [c]

/-- `lex_atom_basics` -/
def lexAtomBasics (ln : Nat) (line : List Char) :
    W (Nat × List Char × Option (List Char) × List Char × List Char × Int × Option (List Char) × List Char × Int) :=
  let (serial, e1) := fUsize ln line 6 11
  let (name, e2) := fStr ln line 12 16
  let (alt, e3) := charW ln line 16
  let (resName, e4) := fStr ln line 17 20
  let (chain, e5) := charW ln line 21
  let (resSeq, e6) := fIsize ln line 22 26
  let (ins, e7) := charW ln line 26
  let (_seg, e8) := fStr ln line 72 76
  let (element, e9) := fStr ln line 76 78
  -- charge: characters 78 and 79 of the CHARACTER vector
  let (charge, e10) : W Int :=
    if line.length ≥ 80 then
      let c78 := line[78]?.getD ' '
      let c79 := line[79]?.getD ' '
      if c78 == ' ' && c79 == ' ' then (0, [])
      else if !isDigit c78 then (0, [(.invalidating, "Atom charge is not correct")])
      else if c79 != '-' && c79 != '+' then (0, [(.invalidating, "Atom charge is not correct")])
      else ((if c79 == '-' then -(digitVal c78 : Int) else (digitVal c78 : Int)), [])
    else (0, [])
  ((serial, name, optChar alt, resName, [chain], resSeq, optChar ins, element, charge),
   e1 ++ e2 ++ e3 ++ e4 ++ e5 ++ e6 ++ e7 ++ e8 ++ e9 ++ e10)

def lexAtom (ln : Nat) (line : List Char) (hetero : Bool) : W LexItem :=
  let (x, e1) := fF64 ln line 30 38
  let (y, e2) := fF64 ln line 38 46
  let (z, e3) := fF64 ln line 46 54
  let (occ, e4) := fieldW parseF64 (.fin 1 0) ln line 54 60
  let (b, e5) := fF64 ln line 60 66
  let ((serial, name, alt, resName, chain, resSeq, ins, element, charge), e6) := lexAtomBasics ln line
  (.atom hetero serial name alt resName chain resSeq ins x y z occ b element charge, e1 ++ e2 ++ e3 ++ e4 ++ e5 ++ e6)

def lexAnisou (ln : Nat) (line : List Char) : W LexItem :=
  let (a, e1) := fIsize ln line 28 35
  let (b, e2) := fIsize ln line 35 42
  let (c, e3) := fIsize ln line 42 49
  let (d, e4) := fIsize ln line 49 56
  let (e, e5) := fIsize ln line 56 63
  let (f, e6) := fIsize ln line 63 70
  let ((serial, _), e7) := lexAtomBasics ln line
  (.anisou serial [a, b, c, d, e, f], e1 ++ e2 ++ e3 ++ e4 ++ e5 ++ e6 ++ e7)

def lexTransformation (ln : Nat) (line : List Char) : W (List Flt) :=
  let (a, e1) := fF64 ln line 10 20
  let (b, e2) := fF64 ln line 20 30
  let (c, e3) := fF64 ln line 30 40
  let (d, e4) := fF64 ln line 45 55
  ([a, b, c, d], e1 ++ e2 ++ e3 ++ e4)

def lexMtrix (ln : Nat) (line : List Char) (row : Nat) : W LexItem :=
  let (ser, e1) := fUsize ln line 7 10
  let (v, e2) := lexTransformation ln line
  let given := line.length ≥ 60 && line[59]? == some '1'
  (.mtrix row ser v given, e1 ++ e2)

def lexCryst (ln : Nat) (line : List Char) : W LexItem :=
  let (a, e1) := fF64 ln line 6 15
  let (b, e2) := fF64 ln line 15 24
  let (c, e3) := fF64 ln line 24 33
  let (al, e4) := fF64 ln line 33 40
  let (be, e5) := fF64 ln line 40 47
  let (ga, e6) := fF64 ln line 47 54
  let (sg, e7) := fStr ln line 55 (min 66 line.length)
  let (_z, e8) : W Nat := if line.length > 66 then fUsize ln line 66 line.length else (1, [])
  (.crystal a b c al be ga sg, e1 ++ e2 ++ e3 ++ e4 ++ e5 ++ e6 ++ e7 ++ e8)

def lexMaster (ln : Nat) (line : List Char) : W LexItem :=
  let (r, e1) := fUsize ln line 10 15
  let (em, e2) := fUsize ln line 15 20
  let (_, e3) := fUsize ln line 20 25
  let (_, e4) := fUsize ln line 25 30
  let (_, e5) := fUsize ln line 30 35
  let (_, e6) := fUsize ln line 35 40
  let (_, e7) := fUsize ln line 40 45
  let (xf, e8) := fUsize ln line 45 50
  let (co, e9) := fUsize ln line 50 55
  let (_, e10) := fUsize ln line 55 60
  let (_, e11) := fUsize ln line 60 65
  let (_, e12) := fUsize ln line 65 70
  (.master r em xf co, e1 ++ e2 ++ e3 ++ e4 ++ e5 ++ e6 ++ e7 ++ e8 ++ e9 ++ e10 ++ e11 ++ e12)

def lexDbref (ln : Nat) (line : List Char) : W LexItem :=
  let (_, e0) := fStr ln line 7 11
  let (chain, e1) := fStr ln line 12 13
  let (sb, e2) := fIsize ln line 14 18
  let (ib, e3) := charW ln line 18
  let (se, e4) := fIsize ln line 20 24
  let (ie, e5) := charW ln line 24
  let (db, e6) := fStr ln line 26 32
  let (acc, e7) := fStr ln line 33 41
  let (id, e8) := fStr ln line 42 54
  let (d0, e9) := fIsize ln line 55 60
  let (di0, e10) := charW ln line 60
  let (d1, e11) := fIsize ln line 62 67
  let (di1, e12) := charW ln line 67
  (.dbref chain sb ib se ie db acc id d0 di0 d1 di1, e0 ++ e1 ++ e2 ++ e3 ++ e4 ++ e5 ++ e6 ++ e7 ++ e8 ++ e9 ++ e10 ++ e11 ++ e12)

def lexDbref1 (ln : Nat) (line : List Char) : W LexItem :=
  let (_, e0) := fStr ln line 7 11
  let (chain, e1) := fStr ln line 12 13
  let (sb, e2) := fIsize ln line 14 18
  let (ib, e3) := charW ln line 18
  let (se, e4) := fIsize ln line 20 24
  let (ie, e5) := charW ln line 24
  let (db, e6) := fStr ln line 26 32
  let (id, e7) := fStr ln line 47 67
  (.dbref1 chain sb ib se ie db id, e0 ++ e1 ++ e2 ++ e3 ++ e4 ++ e5 ++ e6 ++ e7)

def lexDbref2 (ln : Nat) (line : List Char) : W LexItem :=
  let (_, e0) := fStr ln line 7 11
  let (chain, e1) := fStr ln line 12 13
  let (acc, e2) := fStr ln line 18 40
  let (b, e3) := fIsize ln line 45 55
  let (e, e4) := fIsize ln line 57 67
  (.dbref2 chain acc b e, e0 ++ e1 ++ e2 ++ e3 ++ e4)

def lexSeqadv (ln : Nat) (line : List Char) : W LexItem :=
  let (_, e0) := fStr ln line 7 11
  let (resName, e1) := fStr ln line 12 15
  let (chain, e2) := fStr ln line 16 17
  let (seqNum, e3) := fIsize ln line 18 22
  let (ins, e4) := charW ln line 22
  let (_, e5) := fStr ln line 24 28
  let (_, e6) := fStr ln line 29 38
  let (dbPos, e7) : W (Option (List Char × Int)) :=
    if line.length ≥ 48 && !((line.drop 39).take 9).all (· == ' ') then
      let (n, a) := fStr ln line 39 42
      let (k, b) := fIsize ln line 43 48
      (some (n, k), a ++ b)
    else (none, [])
  let (comment, e8) := fStr ln line 49 line.length
  (.seqadv chain resName seqNum (optChar ins) dbPos comment, e0 ++ e1 ++ e2 ++ e3 ++ e4 ++ e5 ++ e6 ++ e7 ++ e8)

def lexModres (ln : Nat) (line : List Char) : W LexItem :=
  let (_, e0) := fStr ln line 7 11
  let (resName, e1) := fStr ln line 12 15
  let (chain, e2) := charW ln line 16
  let (seqNum, e3) := fIsize ln line 18 22
  let (ins, e4) := charW ln line 22
  let (std, e5) := fStr ln line 24 27
  let (comment, e6) := fStr ln line 29 line.length
  (.modres resName [chain] seqNum (optChar ins) std comment, e0 ++ e1 ++ e2 ++ e3 ++ e4 ++ e5 ++ e6)

def lexSsbond (ln : Nat) (line : List Char) : W LexItem :=
  let (r1, e1) := fStr ln line 11 14
  let (c1, e2) := charW ln line 15
  let (s1, e3) := fIsize ln line 17 21
  let (i1, e4) : W (Option (List Char)) :=
    if (line[21]?).all (· == ' ') then (none, []) else let (c, e) := charW ln line 21; (some [c], e)
  let (r2, e5) := fStr ln line 25 28
  let (c2, e6) := charW ln line 29
  let (s2, e7) := fIsize ln line 31 35
  let (i2, e8) : W (Option (List Char)) :=
    if (line[35]?).all (· == ' ') then (none, []) else let (c, e) := charW ln line 35; (some [c], e)
  let e9 : List LDiag :=
    if line.length ≥ 78 then (fStr ln line 59 65).2 ++ (fStr ln line 66 72).2 ++ (fF64 ln line 73 78).2 else []
  (.ssbond r1 s1 i1 [c1] r2 s2 i2 [c2], e1 ++ e2 ++ e3 ++ e4 ++ e5 ++ e6 ++ e7 ++ e8 ++ e9)

/-- the residue names of a SEQRES record: three characters at character positions 19, 23, … while they fit
into the first 71 characters, up to the first blank triple -/
def seqresValues (chars : List Char) (max : Nat) : Nat → Nat → List (List Char)
  | 0, _ => []
  | fuel + 1, index =>
    if index + 3 ≤ max then
      let seq := (chars.drop index).take 3
      if seq == [' ', ' ', ' '] then [] else seq :: seqresValues chars max fuel (index + 4)
    else []

/-- `lex_seqres` -/
def lexSeqres (ln : Nat) (line : List Char) : W LexItem :=
  let (serNum, e1) := fUsize ln line 7 10
  let (chain, e2) := charW ln line 11
  let (numRes, e3) := fUsize ln line 13 17
  let max := min line.length 71
  (.seqres serNum chain numRes (seqresValues line max max 19), e1 ++ e2 ++ e3)

/-- `lex_remark`: at Medium and Strict an over-long line additionally yields a general warning -/
def lexRemark (ln : Nat) (line : List Char) (lvl : Strictness) : W LexItem :=
  let (num, e1) := fUsize ln line 7 10
  let e2 : List LDiag :=
    if Gen.remarkTypes.contains num then [] else [(.looseWarning, "Remark type number invalid")]
  if byteLen line > 11 then
    let e3 : List LDiag :=
      if byteLen (trimEnd line) ≥ 80 && lvl != .loose then [(.generalWarning, "Remark too long")] else []
    (.remark num (trimEnd ((dropBytes line 11).getD [])), e1 ++ e2 ++ e3)
  else (.remark num [], e1 ++ e2)

def lexHeader (_ln : Nat) (line : List Char) : Except LDiag (W LexItem) :=
  if line.length < 66 then .error (.looseWarning, "Header too short")
  else .ok (.header ((line.drop 62).take 4), [])

/-- `lex_line` before the line context is attached -/
def lexLineRaw (line : List Char) (ln : Nat) (lvl : Strictness) (onlyAtomic : Bool) : Except LDiag (W LexItem) :=
  if byteLen line > 6 then
    let head := String.ofList ((getBytes line 0 6).getD [])
    let full := !onlyAtomic
    if full && head == "HEADER" then lexHeader ln line
    else if full && head == "REMARK" then .ok (lexRemark ln line lvl)
    else if head == "ATOM  " then .ok (lexAtom ln line false)
    else if full && head == "ANISOU" then .ok (lexAnisou ln line)
    else if head == "HETATM" then .ok (lexAtom ln line true)
    else if full && head == "CRYST1" then .ok (lexCryst ln line)
    else if full && head == "SCALE1" then .ok (let (v, e) := lexTransformation ln line; (.scale 0 v, e))
    else if full && head == "SCALE2" then .ok (let (v, e) := lexTransformation ln line; (.scale 1 v, e))
    else if full && head == "SCALE3" then .ok (let (v, e) := lexTransformation ln line; (.scale 2 v, e))
    else if full && head == "ORIGX1" then .ok (let (v, e) := lexTransformation ln line; (.origx 0 v, e))
    else if full && head == "ORIGX2" then .ok (let (v, e) := lexTransformation ln line; (.origx 1 v, e))
    else if full && head == "ORIGX3" then .ok (let (v, e) := lexTransformation ln line; (.origx 2 v, e))
    else if full && head == "MTRIX1" then .ok (lexMtrix ln line 0)
    else if full && head == "MTRIX2" then .ok (lexMtrix ln line 1)
    else if full && head == "MTRIX3" then .ok (lexMtrix ln line 2)
    else if head == "MODEL " then .ok (let (n, e) := fUsize ln line 6 (byteLen line); (.model n, e))
    else if full && head == "MASTER" then .ok (lexMaster ln line)
    else if full && head == "DBREF " then .ok (lexDbref ln line)
    else if full && head == "DBREF1" then .ok (lexDbref1 ln line)
    else if full && head == "DBREF2" then .ok (lexDbref2 ln line)
    else if full && head == "SEQRES" then .ok (lexSeqres ln line)
    else if full && head == "SEQADV" then .ok (lexSeqadv ln line)
    else if full && head == "MODRES" then .ok (lexModres ln line)
    else if full && head == "SSBOND" then .ok (lexSsbond ln line)
    else if head == "ENDMDL" then .ok (.endModel, [])
    else if head == "TER   " then .ok (.ter, [])
    else if head == "END   " then .ok (.endd, [])
    else .ok (.empty, [])
  else if byteLen line > 2 then
    let head := String.ofList ((getBytes line 0 3).getD [])
    if head == "TER" then .ok (.ter, []) else if head == "END" then .ok (.endd, []) else .ok (.empty, [])
  else .ok (.empty, [])

/-- `lex_line`: `Except.error` = the line yields only an error (no item); every diagnostic quotes the line -/
def lexLine (line : List Char) (ln : Nat) (lvl : Strictness) (onlyAtomic : Bool) :
    Except PDiag (LexItem × List PDiag) :=
  match lexLineRaw line ln lvl onlyAtomic with
  | .error d => .error ⟨d.1, d.2, [(ln, line)]⟩
  | .ok (item, ds) => .ok (item, attachLine ln line ds)

end PdbModel
