/-
C16: atom identities (`ATOM_COUNTER.fetch_add(1)`) and the bond table of identity pairs.
A structure is seen here only through the identities of its atoms in traversal order (`uids`) and its bond
table; everything else about copies (hierarchy and fields) is plain data equality.
-/
import PdbModel.Basic
namespace PdbModel

/-- the global counter: every creation or clone takes the current value and increments it atomically -/
def fetchAdd (c : Nat) : Nat × Nat := (c, c + 1)

/-- identities handed out by a schedule of creations: `sched` lists which thread performs the next
atomic fetch-and-add; returns (thread, identity) in order, and the final counter -/
def runSchedule : Nat → List Nat → List (Nat × Nat) × Nat
  | c, [] => ([], c)
  | c, t :: rest =>
    let (id, c') := fetchAdd c
    let (out, cf) := runSchedule c' rest
    ((t, id) :: out, cf)

/-- a NON-atomic counter (separate load and store), for contrast: a step is `(thread, isStore)`;
`regs` holds the value each thread loaded -/
def runRacy : Nat → (Nat → Nat) → List (Nat × Bool) → List (Nat × Nat)
  | _, _, [] => []
  | c, regs, (t, false) :: rest => runRacy c (fun u => if u = t then c else regs u) rest
  | _, regs, (t, true) :: rest => (t, regs t) :: runRacy (regs t + 1) regs rest

structure IPdb where
  uids : List Nat
  bonds : List (Nat × Nat × Nat)   -- (identity, identity, kind)
  deriving Repr, DecidableEq

def posOf (l : List Nat) (u : Nat) : Option Nat :=
  match l.findIdx? (· == u) with
  | some i => some i
  | none => none

/-- `PDB::bonds`: resolve both identities by scanning the atoms; `none` = the `expect` panics -/
def IPdb.resolve (p : IPdb) : Option (List (Nat × Nat × Nat)) :=
  p.bonds.mapM fun (a, b, k) => do
    let i ← posOf p.uids a
    let j ← posOf p.uids b
    pure (i, j, k)

/-- `PDB::clone` (after the fix): fresh identities for all atoms in traversal order, bond table remapped
through old → new -/
def IPdb.clone (p : IPdb) (c : Nat) : IPdb × Nat :=
  let fresh := List.range' c p.uids.length
  let remap (u : Nat) : Nat := match posOf p.uids u with | some i => c + i | none => u
  ({ uids := fresh, bonds := p.bonds.map fun (a, b, k) => (remap a, remap b, k) }, c + p.uids.length)

/-- the derived clone of the original code: fresh identities, bond table copied verbatim -/
def IPdb.cloneVerbatim (p : IPdb) (c : Nat) : IPdb × Nat :=
  ({ uids := List.range' c p.uids.length, bonds := p.bonds }, c + p.uids.length)

/-- `add_bond`: both atoms found (by position here) → identities recorded; otherwise nothing changes -/
def IPdb.addBond (p : IPdb) (i j : Option Nat) (k : Nat) : IPdb × Bool :=
  match i.bind (p.uids[·]?), j.bind (p.uids[·]?) with
  | some a, some b => ({ p with bonds := p.bonds ++ [(a, b, k)] }, true)
  | _, _ => (p, false)

/-- structure equality as fixed: bonds compared by the positions of their atoms -/
def IPdb.bondsByPosition (p : IPdb) : List (Option Nat × Option Nat × Nat) :=
  p.bonds.map fun (a, b, k) => (posOf p.uids a, posOf p.uids b, k)

end PdbModel
