import PdbModel.Geom
namespace PdbModel

def parseMat : List String → Option (Mat Int × List String)
  | a :: b :: c :: d :: e :: f :: g :: h :: i :: j :: k :: l :: rest => do
      pure (⟨← a.toInt?, ← b.toInt?, ← c.toInt?, ← d.toInt?, ← e.toInt?, ← f.toInt?, ← g.toInt?, ← h.toInt?,
             ← i.toInt?, ← j.toInt?, ← k.toInt?, ← l.toInt?⟩, rest)
  | _ => none

def matToks (m : Mat Int) : String :=
  unwords ([m.a00, m.a01, m.a02, m.a03, m.a10, m.a11, m.a12, m.a13, m.a20, m.a21, m.a22, m.a23].map toString)

def handleC13 : List String → Option String
  | "apply" :: rest => do
      let (m, rest) ← parseMat rest
      match rest with
      | [x, y, z] =>
        let p := m.apply (← x.toInt?, ← y.toInt?, ← z.toInt?)
        pure s!"{p.1} {p.2.1} {p.2.2}"
      | _ => none
  | "combine" :: n :: rest => do
      let (ms, _) ← parseMany parseMat (← n.toNat?) rest
      match ms with
      | [] => none
      | m :: more => pure (matToks (more.foldl (fun acc x => acc.combine x) m))
  | ["ctor", "identity"] => some (matToks (Mat.identity 0 1))
  | ["ctor", "translation", x, y, z] => do pure (matToks (Mat.translation 0 1 (← x.toInt?) (← y.toInt?) (← z.toInt?)))
  | ["ctor", "magnify", f] => do pure (matToks (Mat.magnify 0 (← f.toInt?)))
  | ["ctor", "scale", x, y, z] => do pure (matToks (Mat.scale 0 (← x.toInt?) (← y.toInt?) (← z.toInt?)))
  | ["ctor", "rotx", s, c] => do pure (matToks (Mat.rotX 0 1 (← s.toInt?) (← c.toInt?)))
  | ["ctor", "roty", s, c] => do pure (matToks (Mat.rotY 0 1 (← s.toInt?) (← c.toInt?)))
  | ["ctor", "rotz", s, c] => do pure (matToks (Mat.rotZ 0 1 (← s.toInt?) (← c.toInt?)))
  | "multr" :: rest => do
      let (m, rest) ← parseMat rest
      match rest with
      | [x, y, z] => pure (matToks (m.multiplyTranslation (← x.toInt?, ← y.toInt?, ← z.toInt?)))
      | _ => none
  | "struct" :: level :: im :: ic :: ir :: jf :: ia :: rest => do
      let (m, rest) ← parseMat rest
      let (p, _) ← parsePDB rest
      let (im, ic, ir, jf, ia) := (← im.toNat?, ← ic.toNat?, ← ir.toNat?, ← jf.toNat?, ← ia.toNat?)
      let setM (p : PDB) (f : Model → Option Model) : Option PDB := do
        let x ← p.models[im]?
        pure { p with models := p.models.set im (← f x) }
      let setC (x : Model) (f : Chain → Option Chain) : Option Model := do
        let c ← x.chains[ic]?
        pure { x with chains := x.chains.set ic (← f c) }
      let setR (c : Chain) (f : Residue → Option Residue) : Option Chain := do
        let r ← c.residues[ir]?
        pure { c with residues := c.residues.set ir (← f r) }
      let setF (r : Residue) (f : Conformer → Option Conformer) : Option Residue := do
        let c ← r.conformers[jf]?
        pure { r with conformers := r.conformers.set jf (← f c) }
      let setA (c : Conformer) (f : Atom → Option Atom) : Option Conformer := do
        let a ← c.atoms[ia]?
        pure { c with atoms := c.atoms.set ia (← f a) }
      let q ← match level with
        | "pdb" => some (p.applyT m)
        | "model" => setM p fun x => some (x.applyT m)
        | "chain" => setM p fun x => setC x fun c => some (c.applyT m)
        | "residue" => setM p fun x => setC x fun c => setR c fun r => some (r.applyT m)
        | "conformer" => setM p fun x => setC x fun c => setR c fun r => setF r fun f => some (f.applyT m)
        | "atom" => setM p fun x => setC x fun c => setR c fun r => setF r fun f => setA f fun a => some (a.move m)
        | _ => none
      pure (unwords q.toks)
  | _ => none

end PdbModel
