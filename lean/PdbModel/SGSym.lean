/-
C17: symbol tables and the lookups of `reference_tables.rs` / `Symmetry` on them.
Symbols are lists of code points (string literals do not reduce in the kernel).
-/
import PdbModel.Gen.SGSymbols
import PdbModel.Gen.SGAll
namespace PdbModel

def wsCode (n : Nat) : Bool :=
  (9 ≤ n && n ≤ 13) || n == 32 || n == 0x85 || n == 0xA0 || n == 0x1680 ||
  (0x2000 ≤ n && n ≤ 0x200A) || n == 0x2028 || n == 0x2029 || n == 0x202F || n == 0x205F || n == 0x3000

def trimCodes (l : List Nat) : List Nat := ((l.dropWhile wsCode).reverse.dropWhile wsCode).reverse

/-- `get_index_for_symbol`: first as Hermann–Mauguin symbol, then as Hall symbol -/
def indexForSymbol (s : List Nat) : Option Nat :=
  match Gen.hmSymbols.findIdx? (· == s) with
  | some i => some (i + 1)
  | none => (Gen.hallSymbols.findIdx? (· == s)).map (· + 1)

/-- `Symmetry::new` -/
def symmetryNew (s : List Nat) : Option Nat := indexForSymbol (trimCodes s)

/-- `Symmetry::from_index` (index − 1 is a checked subtraction) -/
def symmetryFromIndex (i : Nat) : Option Nat :=
  if i = 0 then none else (Gen.hmSymbols[i - 1]?).map fun _ => i

def hmSymbol (i : Nat) : Option (List Nat) := if i = 0 then none else Gen.hmSymbols[i - 1]?
def hallSymbol (i : Nat) : Option (List Nat) := if i = 0 then none else Gen.hallSymbols[i - 1]?

/-- operators of group `i` (identity first), `none` outside 1..230 -/
def transformations (i : Nat) : Option (List Nat) :=
  if i = 0 then none else (Gen.sgOps[i - 1]?).map allOps

def zOf (i : Nat) : Option Nat := if i = 0 then none else (Gen.sgOps[i - 1]?).map fun ops => ops.length + 1

/-- the three lookups agree on group `k + 1` -/
def symbolsOkAt (k : Nat) : Bool :=
  symmetryFromIndex (k + 1) == some (k + 1) &&
  (match Gen.hmSymbols[k]? with | some s => symmetryNew s == some (k + 1) | none => false) &&
  (match Gen.hallSymbols[k]? with | some s => symmetryNew s == some (k + 1) | none => false)

end PdbModel
