/-
Text primitives with Rust's semantics: byte-indexed slicing of UTF-8 strings (`str::get`), the accept /
reject grammars of `str::parse::<usize | isize | f64>`, exact decimal values.
-/
import PdbModel.Basic
namespace PdbModel

def utf8Len (c : Char) : Nat :=
  let n := c.toNat
  if n < 0x80 then 1 else if n < 0x800 then 2 else if n < 0x10000 then 3 else 4

def byteLen (l : List Char) : Nat := (l.map utf8Len).sum

/-- drop exactly `n` bytes from the front; `none` when `n` is inside a character or beyond the end -/
def dropBytes : List Char → Nat → Option (List Char)
  | l, 0 => some l
  | [], _ + 1 => none
  | c :: cs, n + 1 => if utf8Len c ≤ n + 1 then dropBytes cs (n + 1 - utf8Len c) else none

/-- take exactly `n` bytes from the front -/
def takeBytes : List Char → Nat → Option (List Char)
  | _, 0 => some []
  | [], _ + 1 => none
  | c :: cs, n + 1 =>
    if utf8Len c ≤ n + 1 then (takeBytes cs (n + 1 - utf8Len c)).map (c :: ·) else none

/-- `str::get(a..b)` -/
def getBytes (l : List Char) (a b : Nat) : Option (List Char) :=
  if a ≤ b then (dropBytes l a).bind fun r => takeBytes r (b - a) else none

/-! ## numbers -/

def isDigit (c : Char) : Bool := '0'.toNat ≤ c.toNat && c.toNat ≤ '9'.toNat
def digitVal (c : Char) : Nat := c.toNat - '0'.toNat

def digitsVal (l : List Char) : Nat := l.foldl (fun n c => n * 10 + digitVal c) 0

/-- `str::parse::<usize>` (64 bit): optional `+`, at least one digit, no overflow -/
def parseUsize (s : List Char) : Option Nat :=
  let body := match s with | '+' :: r => r | r => r
  if body.isEmpty || !body.all isDigit then none
  else
    let v := digitsVal body
    if v < 2 ^ 64 then some v else none

/-- `str::parse::<isize>` (64 bit) -/
def parseIsize (s : List Char) : Option Int :=
  let (neg, body) := match s with | '-' :: r => (true, r) | '+' :: r => (false, r) | r => (false, r)
  if body.isEmpty || !body.all isDigit then none
  else
    let v := digitsVal body
    if neg then (if v ≤ 2 ^ 63 then some (-(v : Int)) else none)
    else (if v < 2 ^ 63 then some (v : Int) else none)

/-- exact decimal `mant * 10^exp`, or a non-finite value -/
inductive Flt where
  | fin (mant : Int) (exp : Int)
  | inf (neg : Bool)
  | nan
  deriving Repr, DecidableEq, Inhabited

def lowerAscii (c : Char) : Char :=
  if 'A'.toNat ≤ c.toNat ∧ c.toNat ≤ 'Z'.toNat then Char.ofNat (c.toNat + 32) else c

/-- `str::parse::<f64>`: `[sign] (inf | infinity | nan | digits [. digits] [e [sign] digits])` with at least one
mantissa digit -/
def parseF64 (s : List Char) : Option Flt :=
  let (neg, body) := match s with | '-' :: r => (true, r) | '+' :: r => (false, r) | r => (false, r)
  let low := body.map lowerAscii
  if low == "inf".toList || low == "infinity".toList then some (.inf neg)
  else if low == "nan".toList then some .nan
  else
    let ip := body.takeWhile isDigit
    let rest := body.dropWhile isDigit
    let (fp, rest) := match rest with
      | '.' :: r => (r.takeWhile isDigit, r.dropWhile isDigit)
      | r => ([], r)
    if ip.isEmpty && fp.isEmpty then none
    else
      let mant : Int := (digitsVal (ip ++ fp) : Int)
      let sgn : Int := if neg then -1 else 1
      match rest with
      | [] => some (.fin (sgn * mant) (-(fp.length : Int)))
      | e :: r =>
        if e == 'e' || e == 'E' then
          let (eneg, ed) := match r with | '-' :: q => (true, q) | '+' :: q => (false, q) | q => (false, q)
          if ed.isEmpty || !ed.all isDigit then none
          else
            let ev : Int := digitsVal ed
            some (.fin (sgn * mant) ((if eneg then -ev else ev) - (fp.length : Int)))
        else none

/-- does the decimal round to a finite `f64`? (`|v| < 2^1024 − 2^970`, the midpoint above `f64::MAX`) -/
def Flt.isFinite : Flt → Bool
  | .fin m e =>
    let a := m.natAbs
    if a = 0 then true
    else if e ≥ 0 then
      -- clamp huge exponents: anything with more than 400 digits is far beyond the range
      if e > 400 then false else decide (a * 10 ^ e.toNat < 2 ^ 1024 - 2 ^ 970)
    else
      if -e > 2000 then true else decide (a < (2 ^ 1024 - 2 ^ 970) * 10 ^ (-e).toNat)
  | _ => false

/-- value in units of 10⁻⁶ when it is an exact multiple, `none` otherwise (then only the outcome class of a
read is compared, see DESIGN §5) -/
def Flt.micro? : Flt → Option Int
  | .fin m e =>
    if m = 0 then some 0
    else if e ≥ -6 then
      (if e + 6 > 30 then none else some (m * 10 ^ (e + 6).toNat))
    else
      let k := (-(e + 6)).toNat
      if k > 400 then none else
      if m % (10 ^ k : Int) = 0 then some (m / (10 ^ k : Int)) else none
  | _ => none

end PdbModel
