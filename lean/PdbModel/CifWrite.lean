/-
The mmCIF writer of pdbtbx (`src/save/mmcif.rs`, `save_mmcif_raw`) as a function to text.
Numbers are exact multiples of 10⁻⁶ (`Int`); `{}` of an `f64` holding such a value prints the decimal without
trailing zeros, `print_float` rounds to five decimals.  Core Lean only.
-/
import PdbModel.PdbWrite
import PdbModel.SGSym
namespace PdbModel

/-- digits of a natural number, left-padded with zeros to `w` -/
def natPad (n w : Nat) : List Char :=
  let d := natDigits n
  List.replicate (w - d.length) '0' ++ d

/-- `format!("{}", v)` for the `f64` nearest to `v · 10⁻⁶` (|v| well below 10¹⁵): the shortest decimal,
no exponent, `-0` never arises from a non-zero multiple -/
def fmtShortest (v : Int) : List Char :=
  let a := v.natAbs
  let ip := a / 1000000
  let fp := a % 1000000
  let frac := ((natPad fp 6).reverse.dropWhile (· == '0')).reverse
  let body := natDigits ip ++ (if frac.isEmpty then [] else '.' :: frac)
  if v < 0 then '-' :: body else body

/-- `print_float`: rounded to five decimals (half away from zero), at least one decimal.  The second component
is false on an exact tie of the rounding, where the `f64` product decides. -/
def printFloat (v : Int) : List Char × Bool :=
  let a := v.natAbs
  let r5 := (a + 5) / 10            -- units of 10⁻⁵
  let tie := a % 10 == 5
  let ip := r5 / 100000
  let fp := r5 % 100000
  let neg := v < 0 && r5 != 0
  let body :=
    if fp = 0 then natDigits ip ++ ".0".toList
    else natDigits ip ++ ('.' :: ((natPad fp 5).reverse.dropWhile (· == '0')).reverse)
  ((if neg then '-' :: body else body), !tie)

def matrixBlock (pre vec : String) (m : List Int) : List (List Char) :=
  let g (i : Nat) : List Char := fmtShortest (m[i]?.getD 0)
  [ (pre ++ "[1][1]  ").toList ++ g 0, (pre ++ "[1][2]  ").toList ++ g 1, (pre ++ "[1][3]  ").toList ++ g 2,
    (pre ++ "[2][1]  ").toList ++ g 4, (pre ++ "[2][2]  ").toList ++ g 5, (pre ++ "[2][3]  ").toList ++ g 6,
    (pre ++ "[3][1]  ").toList ++ g 8, (pre ++ "[3][2]  ").toList ++ g 9, (pre ++ "[3][3]  ").toList ++ g 10,
    (vec ++ "[1]     ").toList ++ g 3, (vec ++ "[2]     ").toList ++ g 7, (vec ++ "[3]     ").toList ++ g 11 ]

/-- the cells of one atom_site row; the flag says whether every `print_float` was off a rounding tie -/
def atomCells (anisou : Bool) (chainIndex resIndex : Nat) (m : Model) (ch : Chain) (r : Residue) (c : Conformer)
    (a : Atom) : List (List Char) × Bool :=
  let pf (v : Int) := printFloat v
  let nums := [pf a.x, pf a.y, pf a.z, pf a.occ, pf a.b]
  let base : List (List Char) :=
    [ (if a.hetero then "HETATM" else "ATOM").toList, a.id.toList, elementSymbol a.element, a.name.toList,
      (c.alt.getD ".").toList, c.name.toList, (numberToBase26 chainIndex).toList, ch.id.toList,
      natDigits chainIndex, natDigits (resIndex + 1), intText r.serial, (r.icode.getD ".").toList ] ++
    nums.map (·.1) ++ [intText a.charge, natDigits m.serial]
  let (an, exA) : List (List Char) × Bool :=
    if anisou then
      match a.atf with
      | some t => ((List.range 9).map (fun i => (pf (t[i]?.getD 0)).1), (List.range 9).all fun i => (pf (t[i]?.getD 0)).2)
      | none => (List.replicate 9 ['.'], true)
    else ([], true)
  (base ++ an, nums.all (·.2) && exA)

def allRows (anisou : Bool) (p : PDB) : List (List (List Char) × Bool) :=
  p.models.flatMap fun m =>
    (List.range m.chains.length).zip m.chains |>.flatMap fun (ci, ch) =>
      (List.range ch.residues.length).zip ch.residues |>.flatMap fun (ri, r) =>
        r.conformers.flatMap fun c => c.atoms.map fun a => atomCells anisou (ci + 1) ri m ch r c a

/-- the aligned table -/
def alignRows (rows : List (List (List Char))) : List (List Char) :=
  match rows with
  | [] => []
  | first :: _ =>
    let sizes : List Nat := (List.range first.length).map fun i =>
      rows.foldl (fun mx row => max mx ((row[i]?.getD []).length)) 1
    rows.map fun row =>
      let cellAt (i : Nat) : List Char :=
        let t := row[i]?.getD []
        let w := sizes[i]?.getD 1
        if i = 0 then t ++ List.replicate (w - t.length) ' '
        else if !(trim t).isEmpty then ' ' :: (t ++ List.replicate (w - t.length) ' ')
        else ' ' :: '?' :: List.replicate (w - 1) ' '
      (List.range row.length).flatMap cellAt

/-- `save_mmcif_raw`: the lines of the file (each followed by a line feed) and the exactness flag -/
def saveCif (p : PDB) (m : WMeta) : List (List Char) × Bool :=
  let name : String := m.identifier.getD "?"
  let header : List (List Char) :=
    [ ("data_" ++ name).toList, "#".toList, ("_entry.id   " ++ name).toList, "#".toList,
      "_audit_conform.dict_name       mmcif_pdbx.dic".toList,
      "_audit_conform.dict_version    5.338".toList,
      "_audit_conform.dict_location   http://mmcif.pdb.org/dictionaries/ascii/mmcif_pdbx.dic".toList ]
  let cell : List (List Char) :=
    match m.cell with
    | some c =>
      let g (i : Nat) : List Char := fmtShortest (c[i]?.getD 0)
      [ "# Unit cell definition".toList, ("_cell.entry_id           " ++ name).toList,
        "_cell.length_a           ".toList ++ g 0, "_cell.length_b           ".toList ++ g 1,
        "_cell.length_c           ".toList ++ g 2, "_cell.angle_alpha        ".toList ++ g 3,
        "_cell.angle_beta         ".toList ++ g 4, "_cell.angle_gamma        ".toList ++ g 5,
        "_cell.Z_PDB              ".toList ++
          (match m.symmetry with
           | some i => (match zOf i with | some z => natDigits z | none => ['?'])
           | none => ['?']) ]
    | none => []
  let scale : List (List Char) :=
    match m.scale with
    | some ma =>
      [ "# Scale definition".toList, ("            _atom_sites.entry_id                   '" ++ name ++ "'").toList ] ++
        matrixBlock "_atom_sites.Cartn_transf_matrix" "_atom_sites.Cartn_transf_vector" ma
    | none => []
  let origx : List (List Char) :=
    match m.origx with
    | some ma =>
      [ "# OrigX definition".toList, ("_database_PDB_matrix.entry_id                   '" ++ name ++ "'").toList ] ++
        matrixBlock "_database_PDB_matrix.origx" "_database_PDB_matrix.origx_vector" ma
    | none => []
  let mtrix : List (List Char) :=
    m.mtrix.flatMap fun (ser, ma, given) =>
      [ "# OrigX definition".toList, "_struct_ncs_oper.id            ".toList ++ natDigits ser,
        ("_struct_ncs_oper.code          " ++ (if given then "given" else "generate")).toList ] ++
        matrixBlock "_struct_ncs_oper.matrix" "_struct_ncs_oper.vector" ma
  let sym : List (List Char) :=
    match m.symmetry with
    | some i =>
      let hm : List Char := ((hmSymbol i).getD []).map Char.ofNat
      [ "# Space group definition".toList, ("_symmetry.entry_id                         " ++ name).toList,
        "_symmetry.space_group_name_H-M             '".toList ++ hm ++ ['\''],
        "_symmetry.pdbx_full_space_group_name_H-M   '".toList ++ hm ++ ['\''],
        "_symmetry.Int_Tables_number                ".toList ++ natDigits i ]
    | none => []
  let anisou := p.atoms.any fun a => a.atf.isSome
  let loopHead : List (List Char) :=
    [ "loop_", "_atom_site.group_PDB", "_atom_site.id", "_atom_site.type_symbol", "_atom_site.label_atom_id",
      "_atom_site.label_alt_id", "_atom_site.label_comp_id", "_atom_site.label_asym_id", "_atom_site.auth_asym_id",
      "_atom_site.label_entity_id", "_atom_site.label_seq_id", "_atom_site.auth_seq_id",
      "_atom_site.pdbx_PDB_ins_code", "_atom_site.Cartn_x", "_atom_site.Cartn_y", "_atom_site.Cartn_z",
      "_atom_site.occupancy", "_atom_site.B_iso_or_equiv", "_atom_site.pdbx_formal_charge",
      "_atom_site.pdbx_PDB_model_num" ].map String.toList ++
    (if anisou then
      [ "_atom_site.aniso_U[1][1]", "_atom_site.aniso_U[1][2]", "_atom_site.aniso_U[1][3]",
        "_atom_site.aniso_U[2][1]", "_atom_site.aniso_U[2][2]", "_atom_site.aniso_U[2][3]",
        "_atom_site.aniso_U[3][1]", "_atom_site.aniso_U[3][2]", "_atom_site.aniso_U[3][3]" ].map String.toList
     else [])
  let rows := allRows anisou p
  (header ++ cell ++ scale ++ origx ++ mtrix ++ sym ++ loopHead ++ alignRows (rows.map (·.1)) ++ ["#".toList],
   rows.all (·.2))

end PdbModel
