import PdbModel.Search
namespace PdbModel

def parseTerm (t : String) : Option Term :=
  match t.splitOn ":" with
  | ["ms", n] => do pure (.modelSerial (← n.toNat?))
  | ["msr", a, b] => do pure (.modelSerialRange (← a.toNat?) (← b.toNat?))
  | ["ci", s] => do pure (.chainId (← decStr s))
  | ["cir", a, b] => do pure (.chainIdRange (← decStr a) (← decStr b))
  | ["rs", n] => do pure (.resSerial (← n.toInt?))
  | ["rsr", a, b] => do pure (.resSerialRange (← a.toInt?) (← b.toInt?))
  | ["ric", o] => do pure (.resIcode (← decOpt o))
  | ["rid", n, o] => do pure (.resId (← n.toInt?) (← decOpt o))
  | ["fn", s] => do pure (.confName (← decStr s))
  | ["fa", o] => do pure (.confAlt (← decOpt o))
  | ["fid", s, o] => do pure (.confId (← decStr s) (← decOpt o))
  | ["as", n] => do pure (.atomSerial (← n.toNat?))
  | ["asr", a, b] => do pure (.atomSerialRange (← a.toNat?) (← b.toNat?))
  | ["an", s] => do pure (.atomName (← decStr s))
  | ["el", n] => do pure (.element (← n.toNat?))
  | ["bf", v] => do pure (.bfactor (← v.toInt?))
  | ["bfr", a, b] => do pure (.bfactorRange (← a.toInt?) (← b.toInt?))
  | ["oc", v] => do pure (.occupancy (← v.toInt?))
  | ["ocr", a, b] => do pure (.occupancyRange (← a.toInt?) (← b.toInt?))
  | ["bb"] => some .backbone
  | ["sc"] => some .sideChain
  | ["het"] => some .hetero
  | _ => none

/-- prefix expression; fuel bounds the recursion by the token count -/
def parseSearch : Nat → List String → Option (Search Term × List String)
  | 0, _ => none
  | fuel + 1, t :: rest =>
    if t == "&" || t == "|" || t == "^" then do
      let (a, rest) ← parseSearch fuel rest
      let (b, rest) ← parseSearch fuel rest
      pure (.ops (if t == "&" then .and else if t == "|" then .or else .xor) a b, rest)
    else if t == "!" then do
      let (a, rest) ← parseSearch fuel rest
      pure (.not a, rest)
    else if t == "k1" then some (.known true, rest)
    else if t == "k0" then some (.known false, rest)
    else do pure (.single (← parseTerm t), rest)
  | _, [] => none

def showAC (h : HAC) : String :=
  s!"{encStr h.atom.id}/{encStr h.conformer.name}/{encOpt h.conformer.alt}"
def showACR (h : HACR) : String := s!"{showAC h.toHAC}/{h.residue.serial}/{encOpt h.residue.icode}"
def showACRC (h : HACRC) : String := s!"{showACR h.toHACR}/{encStr h.chain.id}"
def showACRCM (h : HACRCM) : String := s!"{showACRC h.toHACRC}/{h.model.serial}"

/-- `c12 find <level> <im> <ic> <ir> <if> <expr…> ; <structure>` -/
def handleC12 : List String → Option String
  | "find" :: level :: im :: ic :: ir :: jf :: rest => do
      let (s, rest) ← parseSearch (rest.length + 1) rest
      match rest with
      | ";" :: st => do
        let (p, _) ← parsePDB st
        let out ← match level with
          | "pdb" => some ((p.find s).map showACRCM)
          | "model" => do
              let m ← p.models[← im.toNat?]?
              pure ((m.find s).map showACRC)
          | "chain" => do
              let m ← p.models[← im.toNat?]?
              let c ← m.chains[← ic.toNat?]?
              pure ((c.find s).map showACR)
          | "residue" => do
              let m ← p.models[← im.toNat?]?
              let c ← m.chains[← ic.toNat?]?
              let r ← c.residues[← ir.toNat?]?
              pure ((r.find s).map showAC)
          | "conformer" => do
              let m ← p.models[← im.toNat?]?
              let c ← m.chains[← ic.toNat?]?
              let r ← c.residues[← ir.toNat?]?
              let f ← r.conformers[← jf.toNat?]?
              pure ((f.find s).map fun a => encStr a.id)
          | _ => none
        pure (unwords (toString out.length :: out))
      | _ => none
  | _ => none

end PdbModel
