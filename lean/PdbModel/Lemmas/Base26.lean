import PdbModel.Basic
namespace PdbModel

/-- value of a little-endian base-26 letter string -/
def letterVal (c : Char) : Nat := c.toNat - 65

def decodeRev : List Char → Nat
  | [] => 0
  | c :: cs => letterVal c + 26 * decodeRev cs

theorem letterVal_alphabetChar (n : Nat) : letterVal (alphabetChar n) = n % 26 := by
  have h : ∀ k : Fin 26, letterVal (letters.getD k.val 'A') = k.val := by decide
  exact h ⟨n % 26, Nat.mod_lt _ (by decide)⟩

theorem decodeRev_base26Rev (fuel n : Nat) (h : n ≤ fuel) : decodeRev (base26Rev fuel n) = n := by
  induction fuel generalizing n with
  | zero =>
    have : n = 0 := by omega
    subst this; simp [base26Rev, decodeRev, letterVal_alphabetChar]
  | succ f ih =>
    unfold base26Rev
    split
    · rename_i h0
      simp only [decodeRev, letterVal_alphabetChar]; omega
    · rename_i h0
      simp only [decodeRev, letterVal_alphabetChar]
      rw [ih (n / 26) (by omega)]; omega

/-- `number_to_base26` is injective: distinct numbers give distinct letter codes -/
theorem numberToBase26_injective (a b : Nat) (h : numberToBase26 a = numberToBase26 b) : a = b := by
  unfold numberToBase26 at h
  have h' : (base26Rev a a).reverse = (base26Rev b b).reverse := String.ofList_injective h
  have h'' : base26Rev a a = base26Rev b b := by
    have := congrArg List.reverse h'; simpa using this
  have := congrArg decodeRev h''
  rwa [decodeRev_base26Rev a a (Nat.le_refl _), decodeRev_base26Rev b b (Nat.le_refl _)] at this

/-! the letter codes are valid identifiers that normalisation leaves alone -/

def isLetter (c : Char) : Bool := letters.contains c

theorem alphabetChar_isLetter (n : Nat) : isLetter (alphabetChar n) = true := by
  have h : ∀ k : Fin 26, isLetter (letters.getD k.val 'A') = true := by decide
  exact h ⟨n % 26, Nat.mod_lt _ (by decide)⟩

theorem base26Rev_letters (fuel n : Nat) : ∀ c ∈ base26Rev fuel n, isLetter c = true := by
  induction fuel generalizing n with
  | zero => intro c hc; simp [base26Rev] at hc; subst hc; exact alphabetChar_isLetter n
  | succ f ih =>
    intro c hc
    unfold base26Rev at hc
    split at hc
    · simp at hc; subst hc; exact alphabetChar_isLetter n
    · simp only [List.mem_cons] at hc
      rcases hc with h | h
      · subst h; exact alphabetChar_isLetter n
      · exact ih _ c h

theorem base26Rev_ne_nil (fuel n : Nat) : base26Rev fuel n ≠ [] := by
  cases fuel <;> unfold base26Rev <;> (try split) <;> simp

theorem letter_facts (c : Char) (h : isLetter c = true) :
    isRustWs c = false ∧ checkChar c = true ∧ upperAscii c = c := by
  have : ∀ k : Fin 26, isRustWs (letters.getD k.val 'A') = false ∧ checkChar (letters.getD k.val 'A') = true ∧
      upperAscii (letters.getD k.val 'A') = letters.getD k.val 'A' := by decide
  unfold isLetter at h
  rw [List.contains_iff_mem] at h
  obtain ⟨i, hi, rfl⟩ := List.mem_iff_getElem.mp h
  have := this ⟨i, hi⟩
  simpa [List.getD, hi] using this

theorem dropWhile_head_false {α} (p : α → Bool) (a : α) (l : List α) (h : p a = false) :
    (a :: l).dropWhile p = a :: l := by simp [List.dropWhile, h]

theorem trim_letters (l : List Char) (hne : l ≠ []) (h : ∀ c ∈ l, isLetter c = true) : trim l = l := by
  have hs : trimStart l = l := by
    cases l with
    | nil => exact absurd rfl hne
    | cons a as => exact dropWhile_head_false _ _ _ (letter_facts a (h a (List.mem_cons_self ..))).1
  unfold trim trimEnd; rw [hs]
  have hr : l.reverse ≠ [] := by simpa using hne
  cases hrev : l.reverse with
  | nil => exact absurd hrev hr
  | cons a as =>
    have ha : a ∈ l := by
      have : a ∈ l.reverse := by rw [hrev]; exact List.mem_cons_self ..
      simpa using this
    rw [dropWhile_head_false _ _ _ (letter_facts a (h a ha)).1, ← hrev, List.reverse_reverse]

theorem prepIdUp_letters (l : List Char) (hne : l ≠ []) (h : ∀ c ∈ l, isLetter c = true) :
    prepareIdentifierUpper l = some l ∧ prepareIdentifier l = some l := by
  have hv : validText l = true := by
    unfold validText; rw [List.all_eq_true]; intro c hc; exact (letter_facts c (h c hc)).2.1
  have ht := trim_letters l hne h
  have hne' : (trim l).isEmpty = false := by rw [ht]; cases l <;> simp_all
  have hp : prepareIdentifier l = some l := by
    unfold prepareIdentifier; simp [hv, ht, hne]
  refine ⟨?_, hp⟩
  unfold prepareIdentifierUpper; rw [hp]
  simp only [Option.map_some, Option.some.injEq]
  have : ∀ (l' : List Char), (∀ c ∈ l', isLetter c = true) → l'.map upperAscii = l' := by
    intro l' hl'
    induction l' with
    | nil => rfl
    | cons c cs ih =>
      simp only [List.map_cons, (letter_facts c (hl' c (List.mem_cons_self ..))).2.2]
      rw [ih (fun x hx => hl' x (List.mem_cons_of_mem _ hx))]
  exact this l h

theorem prepId_base26 (n : Nat) :
    prepIdUpS (numberToBase26 n) = some (numberToBase26 n) ∧ prepIdS (numberToBase26 n) = some (numberToBase26 n) := by
  unfold prepIdUpS prepIdS numberToBase26
  rw [String.toList_ofList]
  have hne : (base26Rev n n).reverse ≠ [] := by simpa using base26Rev_ne_nil n n
  have hl : ∀ c ∈ (base26Rev n n).reverse, isLetter c = true := by
    intro c hc; exact base26Rev_letters n n c (by simpa using hc)
  obtain ⟨h1, h2⟩ := prepIdUp_letters _ hne hl
  rw [h1, h2]; simp

end PdbModel
