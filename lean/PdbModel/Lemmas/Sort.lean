import PdbModel.Sort
namespace PdbModel

/-! order facts needed by `List.mergeSort`'s theorems -/

theorem optLe_trans (a b c : Option String) : optLe a b = true → optLe b c = true → optLe a c = true := by
  cases a <;> cases b <;> cases c <;> simp [optLe]
  exact fun h1 h2 => String.le_trans h1 h2

theorem optLe_total (a b : Option String) : (optLe a b || optLe b a) = true := by
  cases a <;> cases b <;> simp [optLe]
  exact String.le_total _ _

theorem lexLe_trans {α β} [DecidableEq α] (le1 : α → α → Bool) (le2 : β → β → Bool)
    (t1 : ∀ a b c, le1 a b = true → le1 b c = true → le1 a c = true)
    (as1 : ∀ a b, le1 a b = true → le1 b a = true → a = b)
    (t2 : ∀ a b c, le2 a b = true → le2 b c = true → le2 a c = true)
    (a b c : α × β) : lexLe le1 le2 a b = true → lexLe le1 le2 b c = true → lexLe le1 le2 a c = true := by
  unfold lexLe
  intro h1 h2
  by_cases e1 : a.1 = b.1 <;> by_cases e2 : b.1 = c.1
  · rw [if_pos e1] at h1; rw [if_pos e2] at h2; rw [if_pos (e1.trans e2)]; exact t2 _ _ _ h1 h2
  · have e3 : ¬ a.1 = c.1 := fun h => e2 (e1 ▸ h)
    rw [if_neg e2] at h2; rw [if_neg e3, e1]; exact h2
  · have e3 : ¬ a.1 = c.1 := fun h => e1 (h.trans e2.symm)
    rw [if_neg e1] at h1; rw [if_neg e3, ← e2]; exact h1
  · rw [if_neg e1] at h1; rw [if_neg e2] at h2
    by_cases e3 : a.1 = c.1
    · exfalso; apply e1; apply as1 _ _ h1; rw [e3]; exact h2
    · rw [if_neg e3]; exact t1 _ _ _ h1 h2

theorem lexLe_total {α β} [DecidableEq α] (le1 : α → α → Bool) (le2 : β → β → Bool)
    (tot1 : ∀ a b, (le1 a b || le1 b a) = true) (tot2 : ∀ a b, (le2 a b || le2 b a) = true)
    (a b : α × β) : (lexLe le1 le2 a b || lexLe le1 le2 b a) = true := by
  unfold lexLe
  by_cases e : a.1 = b.1
  · simp only [e, if_true]; exact tot2 _ _
  · have e' : ¬ b.1 = a.1 := fun h => e h.symm
    simp only [e, e', if_false]; exact tot1 _ _

theorem strLe_trans (a b c : String) : decide (a ≤ b) = true → decide (b ≤ c) = true → decide (a ≤ c) = true := by
  simp only [decide_eq_true_eq]; exact String.le_trans
theorem strLe_total (a b : String) : (decide (a ≤ b) || decide (b ≤ a)) = true := by
  simp only [Bool.or_eq_true, decide_eq_true_eq]; exact String.le_total a b
theorem strLe_antisymm (a b : String) : decide (a ≤ b) = true → decide (b ≤ a) = true → a = b := by
  simp only [decide_eq_true_eq]; exact String.le_antisymm
theorem intLe_trans (a b c : Int) : decide (a ≤ b) = true → decide (b ≤ c) = true → decide (a ≤ c) = true := by
  simp only [decide_eq_true_eq]; omega
theorem intLe_total (a b : Int) : (decide (a ≤ b) || decide (b ≤ a)) = true := by
  simp only [Bool.or_eq_true, decide_eq_true_eq]; omega
theorem intLe_antisymm (a b : Int) : decide (a ≤ b) = true → decide (b ≤ a) = true → a = b := by
  simp only [decide_eq_true_eq]; omega

theorem atomLe_trans (a b c : Atom) : atomLe a b = true → atomLe b c = true → atomLe a c = true := by
  simp only [atomLe, decide_eq_true_eq]; omega
theorem atomLe_total (a b : Atom) : (atomLe a b || atomLe b a) = true := by
  simp only [atomLe, Bool.or_eq_true, decide_eq_true_eq]; omega
theorem modelLe_trans (a b c : Model) : modelLe a b = true → modelLe b c = true → modelLe a c = true := by
  simp only [modelLe, decide_eq_true_eq]; omega
theorem modelLe_total (a b : Model) : (modelLe a b || modelLe b a) = true := by
  simp only [modelLe, Bool.or_eq_true, decide_eq_true_eq]; omega
theorem chainLe_trans (a b c : Chain) : chainLe a b = true → chainLe b c = true → chainLe a c = true :=
  strLe_trans _ _ _
theorem chainLe_total (a b : Chain) : (chainLe a b || chainLe b a) = true := strLe_total _ _
theorem confLe_trans (a b c : Conformer) : confLe a b = true → confLe b c = true → confLe a c = true :=
  lexLe_trans _ _ strLe_trans strLe_antisymm optLe_trans _ _ _
theorem confLe_total (a b : Conformer) : (confLe a b || confLe b a) = true :=
  lexLe_total _ _ strLe_total optLe_total _ _
theorem resLe_trans (a b c : Residue) : resLe a b = true → resLe b c = true → resLe a c = true :=
  lexLe_trans _ _ intLe_trans intLe_antisymm optLe_trans _ _ _
theorem resLe_total (a b : Residue) : (resLe a b || resLe b a) = true :=
  lexLe_total _ _ intLe_total optLe_total _ _

/-- the three facts the property asks of a sort, for any transitive total comparison -/
theorem sort_spec {α} (le : α → α → Bool)
    (trans : ∀ a b c, le a b = true → le b c = true → le a c = true)
    (total : ∀ a b, (le a b || le b a) = true) (l : List α) :
    (l.mergeSort le).Pairwise (fun a b => le a b = true) ∧ (l.mergeSort le).Perm l ∧
    (∀ ys : List α, ys.Pairwise (fun a b => le a b = true) → ys.Sublist l → ys.Sublist (l.mergeSort le)) :=
  ⟨List.pairwise_mergeSort trans total l, List.mergeSort_perm l le,
   fun _ h1 h2 => List.sublist_mergeSort trans total h1 h2⟩

end PdbModel
