/-
Generic grouping lemma: a left fold of "first child with this key gets the update, otherwise append a
fresh child" equals the declarative specification (keys in order of first appearance, each child built
from exactly the operations carrying its key, in order).
-/
namespace PdbModel.Grp
variable {K V : Type} [DecidableEq K]

/-- first match gets `g`, otherwise append `(k, g (d k))` — the loop in `Model::add_atom` etc. -/
def upsert (d : K → V) : List (K × V) → K → (V → V) → List (K × V)
  | [], k, g => [(k, g (d k))]
  | (k', v) :: rest, k, g => if k' = k then (k', g v) :: rest else (k', v) :: upsert d rest k g

def build (d : K → V) (ops : List (K × (V → V))) : List (K × V) :=
  ops.foldl (fun m op => upsert d m op.1 op.2) []

def dedup (l : List K) : List K :=
  l.foldl (fun acc x => if x ∈ acc then acc else acc ++ [x]) []

def val (d : K → V) (ops : List (K × (V → V))) (k : K) : V :=
  (ops.filter (fun op => op.1 = k)).foldl (fun v op => op.2 v) (d k)

def spec (d : K → V) (ops : List (K × (V → V))) : List (K × V) :=
  (dedup (ops.map (·.1))).map fun k => (k, val d ops k)

theorem upsert_keys (d : K → V) (m : List (K × V)) (k : K) (g : V → V) :
    (upsert d m k g).map (·.1) = if k ∈ m.map (·.1) then m.map (·.1) else m.map (·.1) ++ [k] := by
  induction m with
  | nil => simp [upsert]
  | cons p rest ih =>
    obtain ⟨k', v⟩ := p
    by_cases h : k' = k
    · simp [upsert, h]
    · have h' : ¬ k = k' := fun e => h e.symm
      simp [upsert, h, h', ih]
      split <;> simp_all

theorem mem_dedup (l : List K) (x : K) : x ∈ dedup l ↔ x ∈ l := by
  unfold dedup
  suffices h : ∀ acc : List K, x ∈ l.foldl (fun acc x => if x ∈ acc then acc else acc ++ [x]) acc ↔ x ∈ acc ∨ x ∈ l by
    simpa using h []
  induction l with
  | nil => simp
  | cons y ys ih =>
    intro acc
    simp only [List.foldl_cons, ih, List.mem_cons]
    split <;> rename_i hy
    · constructor
      · rintro (h | h) <;> simp [h]
      · rintro (h | h | h)
        · exact .inl h
        · exact .inl (h ▸ hy)
        · exact .inr h
    · simp only [List.mem_append, List.mem_singleton, or_assoc]

theorem dedup_snoc (l : List K) (x : K) :
    dedup (l ++ [x]) = if x ∈ l then dedup l else dedup l ++ [x] := by
  have : dedup (l ++ [x]) = if x ∈ dedup l then dedup l else dedup l ++ [x] := by
    unfold dedup; rw [List.foldl_append]; rfl
  simp only [this, mem_dedup]

theorem val_snoc (d : K → V) (ops : List (K × (V → V))) (op : K × (V → V)) (k : K) :
    val d (ops ++ [op]) k = if op.1 = k then op.2 (val d ops k) else val d ops k := by
  unfold val
  by_cases h : op.1 = k <;> simp [List.filter_append, List.filter_cons, h, List.foldl_append]

theorem upsert_map (d : K → V) (ks : List K) (f : K → V) (k : K) (g : V → V) (hnd : ks.Nodup) :
    upsert d (ks.map fun x => (x, f x)) k g =
      (if k ∈ ks then ks else ks ++ [k]).map fun x => (x, if x = k then g (if k ∈ ks then f x else d x) else f x) := by
  induction ks with
  | nil => simp [upsert]
  | cons y ys ih =>
    have hy : y ∉ ys := (List.nodup_cons.mp hnd).1
    have hys : ys.Nodup := (List.nodup_cons.mp hnd).2
    by_cases h : y = k
    · subst h
      simp [upsert]
      intro x hx
      have : x ≠ y := fun e => hy (e ▸ hx)
      simp [this]
    · have h' : ¬ k = y := fun e => h e.symm
      simp only [List.map_cons, upsert, h, ite_false, ih hys, List.mem_cons, h', false_or]
      by_cases hk : k ∈ ys <;> simp [hk, h]

theorem snoc_induction {α : Type} {P : List α → Prop} (nil : P [])
    (snoc : ∀ xs x, P xs → P (xs ++ [x])) : ∀ l, P l := by
  intro l
  have : ∀ r : List α, P r.reverse := by
    intro r; induction r with
    | nil => exact nil
    | cons x xs ih => simpa using snoc _ x ih
  simpa using this l.reverse

theorem nodup_dedup (l : List K) : (dedup l).Nodup := by
  induction l using snoc_induction with
  | nil => simp [dedup]
  | snoc xs x ih =>
    rw [dedup_snoc]
    split
    · exact ih
    · rename_i h
      rw [List.nodup_append]
      refine ⟨ih, by simp, ?_⟩
      intro a ha b hb
      simp at hb; subst hb
      intro e; subst e
      exact h ((mem_dedup xs a).mp ha)

theorem build_eq_spec (d : K → V) (ops : List (K × (V → V))) : build d ops = spec d ops := by
  induction ops using snoc_induction with
  | nil => simp [build, spec, dedup]
  | snoc xs op ih =>
    have hb : build d (xs ++ [op]) = upsert d (build d xs) op.1 op.2 := by
      simp [build, List.foldl_append]
    rw [hb, ih]
    unfold spec
    rw [upsert_map d _ _ _ _ (nodup_dedup _)]
    simp only [List.map_append, List.map_cons, List.map_nil, dedup_snoc, mem_dedup]
    by_cases hk : op.1 ∈ xs.map (·.1)
    · simp only [hk, if_true]
      apply List.map_congr_left
      intro x hx
      simp only [val_snoc]
      by_cases e : x = op.1
      · subst e; simp
      · have e' : ¬ op.1 = x := fun h => e h.symm
        simp [e, e']
    · simp only [hk, if_false]
      apply List.map_congr_left
      intro x hx
      simp only [val_snoc]
      by_cases e : x = op.1
      · subst e
        have : val d xs op.1 = d op.1 := by
          unfold val
          have : xs.filter (fun o => o.1 = op.1) = [] := by
            simp only [List.filter_eq_nil_iff]
            intro a ha h
            exact hk (by simp at h; exact List.mem_map.mpr ⟨a, ha, h⟩)
          simp [this]
        simp [this]
      · have e' : ¬ op.1 = x := fun h => e h.symm
        simp [e, e']

end PdbModel.Grp
