import PdbModel.Add
import PdbModel.Lemmas.Group
namespace PdbModel
open Grp

section Keyed
variable {C K : Type} [DecidableEq K]

def pairs (key : C → K) (cs : List C) : List (K × C) := cs.map fun c => (key c, c)

theorem dedupK_eq (l : List K) : dedupK l = dedup l := rfl

theorem pairs_upsertC (key : C → K) (mk : K → C) (upd : C → C)
    (hupd : ∀ c, key (upd c) = key c) (hmk : ∀ k, key (mk k) = k) (cs : List C) (k : K) :
    pairs key (upsertC key mk upd cs k) = upsert mk (pairs key cs) k upd := by
  induction cs with
  | nil => simp [upsertC, pairs, upsert, hupd, hmk]
  | cons c cs ih =>
    simp only [upsertC, pairs, List.map_cons, upsert]
    by_cases h : key c = k
    · simp [h, hupd]
    · simp only [h, if_false, List.map_cons]
      congr 1

theorem pairs_snd (key : C → K) (cs : List C) : (pairs key cs).map (·.2) = cs := by
  induction cs with
  | nil => rfl
  | cons c cs ih => simp only [pairs, List.map_cons] at ih ⊢; rw [ih]

/-- generic grouping theorem for keyed children -/
theorem foldl_upsertC_eq_spec {Op : Type} (key : C → K) (mk : K → C) (upd : Op → C → C) (opkey : Op → K)
    (hupd : ∀ o c, key (upd o c) = key c) (hmk : ∀ k, key (mk k) = k) (ops : List Op) :
    ops.foldl (fun cs o => upsertC key mk (upd o) cs (opkey o)) [] =
      (dedupK (ops.map opkey)).map fun k =>
        (ops.filter (fun o => opkey o = k)).foldl (fun c o => upd o c) (mk k) := by
  have hp : ∀ ops : List Op,
      pairs key (ops.foldl (fun cs o => upsertC key mk (upd o) cs (opkey o)) []) =
        build mk (ops.map fun o => (opkey o, upd o)) := by
    intro ops
    induction ops using snoc_induction with
    | nil => simp [pairs, build]
    | snoc xs x ih =>
      simp only [List.foldl_append, List.foldl_cons, List.foldl_nil, List.map_append, List.map_cons,
        List.map_nil, build]
      rw [pairs_upsertC key mk (upd x) (hupd x) hmk, ih]; rfl
  have := congrArg (List.map (·.2)) (hp ops)
  rw [pairs_snd, build_eq_spec] at this
  rw [this]
  unfold spec
  have hk : (ops.map fun o => (opkey o, upd o)).map (·.1) = ops.map opkey := by
    rw [List.map_map]; rfl
  rw [hk, List.map_map, dedupK_eq]
  apply List.map_congr_left
  intro k _
  simp only [Function.comp, val]
  rw [List.filter_map, List.foldl_map]
  rfl

theorem updLast_none_iff (key : C → K) (upd : C → C) (cs : List C) (k : K) :
    updLast key upd cs k = none ↔ k ∉ cs.map key := by
  induction cs with
  | nil => simp [updLast]
  | cons c cs ih =>
    simp only [updLast, List.map_cons, List.mem_cons, not_or]
    cases h : updLast key upd cs k with
    | some cs' =>
      have hk : k ∈ cs.map key :=
        Decidable.byContradiction (fun hc => by rw [← ih] at hc; rw [hc] at h; cases h)
      simp [hk]
    | none =>
      have hk := ih.mp h
      by_cases e : key c = k
      · simp [e]
      · have e' : ¬ k = key c := fun x => e x.symm
        simp [e, e', hk]

theorem upsertLastC_eq_upsertC (key : C → K) (mk : K → C) (upd : C → C) (cs : List C) (k : K)
    (hnd : (cs.map key).Nodup) :
    upsertLastC key mk upd cs k = upsertC key mk upd cs k := by
  induction cs with
  | nil => simp [upsertLastC, updLast, upsertC]
  | cons c cs ih =>
    have hc : key c ∉ cs.map key := (List.nodup_cons.mp hnd).1
    have ih' := ih (List.nodup_cons.mp hnd).2
    unfold upsertLastC at ih' ⊢
    simp only [updLast, upsertC]
    by_cases e : key c = k
    · have : updLast key upd cs k = none := by
        rw [updLast_none_iff]; rw [← e]; exact hc
      simp [this, e]
    · cases h : updLast key upd cs k with
      | some cs' =>
        rw [h] at ih'; simp only [Option.getD_some] at ih'
        simp [e, ih']
      | none =>
        rw [h] at ih'; simp only [Option.getD_none] at ih'
        simp [e, ← ih']

theorem keys_foldl_upsertC {Op : Type} (key : C → K) (mk : K → C) (upd : Op → C → C) (opkey : Op → K)
    (hupd : ∀ o c, key (upd o c) = key c) (hmk : ∀ k, key (mk k) = k) (ops : List Op) :
    (ops.foldl (fun cs o => upsertC key mk (upd o) cs (opkey o)) []).map key = dedupK (ops.map opkey) := by
  rw [foldl_upsertC_eq_spec key mk upd opkey hupd hmk, List.map_map]
  have : ∀ (l : List Op) (c : C), key (l.foldl (fun c o => upd o c) c) = key c := by
    intro l; induction l with
    | nil => intro c; rfl
    | cons o l ih => intro c; simp [ih, hupd]
  conv => lhs; arg 1; ext k; simp only [Function.comp, this, hmk]
  simp

theorem foldl_upsertLastC_eq {Op : Type} (key : C → K) (mk : K → C) (upd : Op → C → C) (opkey : Op → K)
    (hupd : ∀ o c, key (upd o c) = key c) (hmk : ∀ k, key (mk k) = k) (ops : List Op) :
    ops.foldl (fun cs o => upsertLastC key mk (upd o) cs (opkey o)) [] =
      ops.foldl (fun cs o => upsertC key mk (upd o) cs (opkey o)) [] := by
  induction ops using snoc_induction with
  | nil => rfl
  | snoc xs x ih =>
    simp only [List.foldl_append, List.foldl_cons, List.foldl_nil, ih]
    apply upsertLastC_eq_upsertC
    rw [keys_foldl_upsertC key mk upd opkey hupd hmk, dedupK_eq]
    exact nodup_dedup _

end Keyed

/-! the three levels -/

theorem cid_push (a : Atom) (c : Conformer) : (c.push a).cid = c.cid := rfl
theorem cid_empty (k : ConfId) : (Conformer.empty k).cid = k := rfl

theorem foldl_push (l : List ROp) (c : Conformer) :
    l.foldl (fun c o => Conformer.push o.2 c) c = { c with atoms := c.atoms ++ l.map (·.2) } := by
  induction l generalizing c with
  | nil => simp
  | cons o l ih => simp only [List.foldl_cons, ih]; simp [Conformer.push, List.append_assoc]

theorem residue_fold_conformers (ops : List ROp) (r : Residue) :
    (ops.foldl Residue.addAtomN r).conformers =
      ops.foldl (fun cs o => upsertC Conformer.cid Conformer.empty (Conformer.push o.2) cs o.1) r.conformers := by
  induction ops generalizing r with
  | nil => rfl
  | cons o ops ih => simp only [List.foldl_cons, ih]; rfl

theorem residue_fold_frame (ops : List ROp) (r : Residue) :
    (ops.foldl Residue.addAtomN r).serial = r.serial ∧ (ops.foldl Residue.addAtomN r).icode = r.icode := by
  induction ops generalizing r with
  | nil => exact ⟨rfl, rfl⟩
  | cons o ops ih => simp only [List.foldl_cons]; exact ih _

theorem residue_build (ops : List ROp) (k : ResId) :
    ops.foldl Residue.addAtomN (Residue.empty k) =
      { serial := k.1, icode := k.2, conformers := specConfs ops } := by
  have h1 := residue_fold_conformers ops (Residue.empty k)
  have h2 := residue_fold_frame ops (Residue.empty k)
  have h3 : (ops.foldl Residue.addAtomN (Residue.empty k)).conformers = specConfs ops := by
    rw [h1]
    show ops.foldl (fun cs o => upsertC Conformer.cid Conformer.empty (Conformer.push o.2) cs o.1) [] = _
    rw [foldl_upsertC_eq_spec (Op := ROp) Conformer.cid Conformer.empty (fun o => Conformer.push o.2) (·.1)
        (fun o c => cid_push o.2 c) cid_empty]
    unfold specConfs
    apply List.map_congr_left
    intro k _
    rw [foldl_push]; simp [Conformer.empty]
  cases hr : ops.foldl Residue.addAtomN (Residue.empty k) with
  | mk s i c =>
    rw [hr] at h2 h3
    simp only [Residue.empty] at h2
    simp only at h3
    obtain ⟨hs, hi⟩ := h2
    subst hs hi h3; rfl

theorem rid_addAtomN (o : ROp) (r : Residue) : (r.addAtomN o).rid = r.rid := rfl
theorem rid_empty (k : ResId) : (Residue.empty k).rid = k := rfl

theorem chain_fold_residues (ops : List COp) (c : Chain) :
    (ops.foldl Chain.addAtomN c).residues =
      ops.foldl (fun rs o => upsertLastC Residue.rid Residue.empty (fun r => r.addAtomN o.2) rs o.1) c.residues := by
  induction ops generalizing c with
  | nil => rfl
  | cons o ops ih => simp only [List.foldl_cons, ih]; rfl

theorem chain_fold_frame (ops : List COp) (c : Chain) :
    (ops.foldl Chain.addAtomN c).id = c.id := by
  induction ops generalizing c with
  | nil => rfl
  | cons o ops ih => simp only [List.foldl_cons]; exact ih _

theorem chain_build (ops : List COp) (k : String) :
    ops.foldl Chain.addAtomN (Chain.empty k) = { id := k, residues := specResidues ops } := by
  have h1 := chain_fold_residues ops (Chain.empty k)
  have h2 := chain_fold_frame ops (Chain.empty k)
  have h3 : (ops.foldl Chain.addAtomN (Chain.empty k)).residues = specResidues ops := by
    rw [h1]
    show ops.foldl (fun rs o => upsertLastC Residue.rid Residue.empty (fun r => r.addAtomN o.2) rs o.1) [] = _
    rw [foldl_upsertLastC_eq (Op := COp) Residue.rid Residue.empty (fun o r => r.addAtomN o.2) (·.1)
          (fun o r => rid_addAtomN o.2 r) rid_empty,
        foldl_upsertC_eq_spec (Op := COp) Residue.rid Residue.empty (fun o r => r.addAtomN o.2) (·.1)
          (fun o r => rid_addAtomN o.2 r) rid_empty]
    unfold specResidues
    apply List.map_congr_left
    intro k _
    have : ∀ (l : List COp) (r : Residue),
        l.foldl (fun r o => r.addAtomN o.2) r = (l.map (·.2)).foldl Residue.addAtomN r := by
      intro l r; rw [List.foldl_map]
    rw [this, residue_build]
  cases hc : ops.foldl Chain.addAtomN (Chain.empty k) with
  | mk i rs =>
    rw [hc] at h2 h3
    simp only [Chain.empty] at h2
    simp only at h3
    subst h2 h3; rfl

theorem id_addAtomN (o : COp) (c : Chain) : (c.addAtomN o).id = c.id := rfl

theorem model_fold_chains (ops : List MOp) (m : Model) :
    (ops.foldl Model.addAtomN m).chains =
      ops.foldl (fun cs o => upsertC Chain.id Chain.empty (fun c => c.addAtomN o.2) cs o.1) m.chains := by
  induction ops generalizing m with
  | nil => rfl
  | cons o ops ih => simp only [List.foldl_cons, ih]; rfl

theorem model_fold_frame (ops : List MOp) (m : Model) :
    (ops.foldl Model.addAtomN m).serial = m.serial := by
  induction ops generalizing m with
  | nil => rfl
  | cons o ops ih => simp only [List.foldl_cons]; exact ih _

theorem model_build (ops : List MOp) (n : Nat) :
    ops.foldl Model.addAtomN { serial := n, chains := [] } = { serial := n, chains := specChains ops } := by
  have h1 := model_fold_chains ops { serial := n, chains := [] }
  have h2 := model_fold_frame ops { serial := n, chains := [] }
  have h3 : (ops.foldl Model.addAtomN { serial := n, chains := [] }).chains = specChains ops := by
    rw [h1]
    show ops.foldl (fun cs o => upsertC Chain.id Chain.empty (fun c => c.addAtomN o.2) cs o.1) [] = _
    rw [foldl_upsertC_eq_spec (Op := MOp) Chain.id Chain.empty (fun o c => c.addAtomN o.2) (·.1)
          (fun o c => id_addAtomN o.2 c) (fun _ => rfl)]
    unfold specChains
    apply List.map_congr_left
    intro k _
    have : ∀ (l : List MOp) (c : Chain),
        l.foldl (fun c o => c.addAtomN o.2) c = (l.map (·.2)).foldl Chain.addAtomN c := by
      intro l c; rw [List.foldl_map]
    rw [this, chain_build]
  cases hm : ops.foldl Model.addAtomN { serial := n, chains := [] } with
  | mk s cs =>
    rw [hm] at h2 h3
    simp only at h2 h3
    subst h2 h3; rfl

end PdbModel

namespace PdbModel
open Grp

section Keyed2
variable {C K : Type} [DecidableEq K]

theorem keys_upsertC (key : C → K) (mk : K → C) (upd : C → C)
    (hupd : ∀ c, key (upd c) = key c) (hmk : ∀ k, key (mk k) = k) (cs : List C) (k : K) :
    (upsertC key mk upd cs k).map key = if k ∈ cs.map key then cs.map key else cs.map key ++ [k] := by
  induction cs with
  | nil => simp [upsertC, hupd, hmk]
  | cons c cs ih =>
    by_cases h : key c = k
    · simp [upsertC, h, hupd]
    · have h' : ¬ k = key c := fun e => h e.symm
      simp only [upsertC, h, if_false, List.map_cons, ih, List.mem_cons, h', false_or]
      split <;> simp

theorem nodup_upsertC (key : C → K) (mk : K → C) (upd : C → C)
    (hupd : ∀ c, key (upd c) = key c) (hmk : ∀ k, key (mk k) = k) (cs : List C) (k : K)
    (h : (cs.map key).Nodup) : ((upsertC key mk upd cs k).map key).Nodup := by
  rw [keys_upsertC key mk upd hupd hmk]
  split
  · exact h
  · rename_i hk
    rw [List.nodup_append]
    refine ⟨h, by simp, ?_⟩
    intro a ha b hb
    simp at hb; subst hb
    intro e; subst e; exact hk ha

/-- looking a key up in a specification-shaped list -/
theorem find_spec (key : C → K) (f : K → C) (hf : ∀ k, key (f k) = k) (ks : List K) (k : K) :
    (ks.map f).find? (fun c => key c = k) = if k ∈ ks then some (f k) else none := by
  induction ks with
  | nil => simp
  | cons x xs ih =>
    simp only [List.map_cons, List.find?_cons, hf, List.mem_cons]
    by_cases e : x = k
    · subst e; simp
    · have e' : ¬ k = x := fun h => e h.symm
      simp [e, e', ih]

theorem map_key_spec (key : C → K) (f : K → C) (hf : ∀ k, key (f k) = k) (ks : List K) :
    (ks.map f).map key = ks := by
  induction ks with
  | nil => rfl
  | cons x xs ih => simp only [List.map_cons, hf, ih]

end Keyed2
end PdbModel
