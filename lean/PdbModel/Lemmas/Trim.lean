/-
`trim` (Rust's `str::trim` on the character list): idempotent, and it keeps every character property that holds
for all characters of the text.
-/
import PdbModel.Basic
namespace PdbModel

theorem dropWhile_head_not {α} (p : α → Bool) (l : List α) (a : α) (t : List α) (h : l.dropWhile p = a :: t) : p a = false := by
  induction l with
  | nil => simp at h
  | cons x xs ih =>
    simp only [List.dropWhile_cons] at h
    split at h
    · exact ih h
    · next hx =>
      simp only [List.cons.injEq] at h
      obtain ⟨rfl, _⟩ := h
      simpa using hx

theorem dropWhile_of_head_not {α} (p : α → Bool) (a : α) (t : List α) (h : p a = false) : (a :: t).dropWhile p = a :: t := by
  simp [List.dropWhile_cons, h]

theorem trimEnd_prefix (m : List Char) : ∃ suf, m = trimEnd m ++ suf := by
  unfold trimEnd
  refine ⟨(m.reverse.takeWhile isRustWs).reverse, ?_⟩
  rw [← List.reverse_append, List.takeWhile_append_dropWhile, List.reverse_reverse]

theorem trimEnd_idem (m : List Char) : trimEnd (trimEnd m) = trimEnd m := by
  unfold trimEnd
  rw [List.reverse_reverse]
  cases h : m.reverse.dropWhile isRustWs with
  | nil => rfl
  | cons a t => rw [dropWhile_of_head_not _ a t (dropWhile_head_not _ _ a t h)]

theorem trim_idem (l : List Char) : trim (trim l) = trim l := by
  unfold trim
  -- `m` starts with a non-blank (or is empty); so does `trimEnd m`, a prefix of it
  generalize hm : trimStart l = m
  have hstart : trimStart (trimEnd m) = trimEnd m := by
    obtain ⟨suf, hsuf⟩ := trimEnd_prefix m
    cases ht : trimEnd m with
    | nil => rfl
    | cons a t =>
      rw [ht] at hsuf
      have : isRustWs a = false := by
        unfold trimStart at hm
        rw [hsuf] at hm
        exact dropWhile_head_not _ l a (t ++ suf) hm
      unfold trimStart
      exact dropWhile_of_head_not _ a t this
  rw [hstart, trimEnd_idem]

theorem trim_sublist (l : List Char) : List.Sublist (trim l) l := by
  unfold trim trimEnd trimStart
  have h1 : List.Sublist ((l.dropWhile isRustWs).reverse.dropWhile isRustWs) (l.dropWhile isRustWs).reverse :=
    List.dropWhile_sublist _
  have h2 := List.reverse_sublist.mpr h1
  rw [List.reverse_reverse] at h2
  exact h2.trans (List.dropWhile_sublist _)

theorem validText_trim (l : List Char) (h : validText l = true) : validText (trim l) = true := by
  unfold validText at h ⊢
  rw [List.all_eq_true] at h ⊢
  intro c hc
  exact h c ((trim_sublist l).subset hc)

/-- what `prepare_identifier` accepts it accepts again in trimmed form, with the same result -/
theorem prepareIdentifier_trim (l t : List Char) (h : prepareIdentifier l = some t) : prepareIdentifier t = some t := by
  unfold prepareIdentifier at h ⊢
  split at h
  · next hc =>
    simp only [Option.some.injEq] at h
    subst h
    simp only [Bool.and_eq_true, Bool.not_eq_eq_eq_not, Bool.not_true] at hc
    rw [if_pos]
    · rw [trim_idem]
    · simp only [Bool.and_eq_true, Bool.not_eq_eq_eq_not, Bool.not_true]
      exact ⟨validText_trim l hc.1, by rw [trim_idem]; exact hc.2⟩
  · cases h

end PdbModel
