import PdbModel.Sort
namespace PdbModel

def rank : Ordering → Nat | .lt => 0 | .eq => 1 | .gt => 2

/-- the list is partitioned `lt* eq? gt*` by the probe -/
def Good {α} (probe : α → Ordering) (l : List α) : Prop :=
  l.Pairwise fun a b => rank (probe a) ≤ rank (probe b) ∧ ¬ (probe a = .eq ∧ probe b = .eq)

theorem find_append_of_none {α} (p : α → Bool) (A B : List α) (h : ∀ a ∈ A, p a = false) :
    (A ++ B).find? p = B.find? p := by
  induction A with
  | nil => rfl
  | cons a as ih =>
    simp only [List.cons_append, List.find?_cons, h a (List.mem_cons_self ..)]
    exact ih (fun x hx => h x (List.mem_cons_of_mem _ hx))

theorem find_append_of_none_right {α} (p : α → Bool) (A B : List α) (h : ∀ b ∈ B, p b = false) :
    (A ++ B).find? p = A.find? p := by
  rw [List.find?_append]
  have : B.find? p = none := by rw [List.find?_eq_none]; intro x hx; simp [h x hx]
  rw [this]; simp

theorem split_at_mid {α} (l : List α) (m : Nat) (x : α) (h : l[m]? = some x) :
    l = l.take m ++ x :: l.drop (m + 1) := by
  have hm : m < l.length := by
    rcases Nat.lt_or_ge m l.length with h' | h'
    · exact h'
    · rw [List.getElem?_eq_none_iff.mpr h'] at h; cases h
  have hx : l[m] = x := by rw [List.getElem?_eq_getElem hm] at h; exact Option.some.inj h
  rw [← hx, ← List.drop_eq_getElem_cons hm, List.take_append_drop]

/-- binary search over a partitioned list returns exactly what the linear scan returns -/
theorem bsearch_eq_find {α} (probe : α → Ordering) (fuel : Nat) (l : List α)
    (hg : Good probe l) (hf : l.length ≤ fuel) :
    bsearch probe fuel l = l.find? (fun x => probe x == .eq) := by
  induction fuel generalizing l with
  | zero =>
    have : l = [] := List.eq_nil_of_length_eq_zero (by omega)
    subst this; rfl
  | succ fuel ih =>
    unfold bsearch
    cases hmid : l[l.length / 2]? with
    | none =>
      have : l.length ≤ l.length / 2 := List.getElem?_eq_none_iff.mp hmid
      have : l = [] := List.eq_nil_of_length_eq_zero (by omega)
      subst this; rfl
    | some x =>
      have hsplit := split_at_mid l _ x hmid
      have hlen : l.length / 2 < l.length := by
        rcases Nat.lt_or_ge (l.length / 2) l.length with h' | h'
        · exact h'
        · rw [List.getElem?_eq_none_iff.mpr h'] at hmid; cases hmid
      unfold Good at hg
      rw [hsplit, List.pairwise_append] at hg
      obtain ⟨hA, hxB, hcross⟩ := hg
      rw [List.pairwise_cons] at hxB
      obtain ⟨hxb, hB⟩ := hxB
      simp only
      cases hp : probe x with
      | eq =>
        simp only
        rw [hsplit, find_append_of_none]
        · simp [List.find?_cons, hp]
        · intro a ha
          have := (hcross a ha x (List.mem_cons_self ..)).2
          rw [hp] at this
          cases hpa : probe a <;> simp [hpa] at this ⊢
      | lt =>
        simp only
        rw [ih _ hB (by rw [List.length_drop]; omega)]
        conv => rhs; rw [hsplit]
        rw [find_append_of_none]
        · simp [List.find?_cons, hp]
        · intro a ha
          have := (hcross a ha x (List.mem_cons_self ..)).1
          rw [hp] at this
          cases hpa : probe a <;> simp [hpa, rank] at this ⊢
      | gt =>
        simp only
        rw [ih _ hA (by rw [List.length_take]; omega)]
        conv => rhs; rw [hsplit]
        rw [find_append_of_none_right]
        intro b hb
        simp only [List.mem_cons] at hb
        rcases hb with rfl | hb
        · simp [hp]
        · have := (hxb b hb).1
          rw [hp] at this
          cases hpb : probe b <;> simp [hpb, rank] at this ⊢

end PdbModel
