import PdbModel.SG
namespace PdbModel

theorem OpTree.mem_sound (t : OpTree) (x : Nat) (h : t.mem x = true) : x ∈ t.toList := by
  induction t with
  | leaf => simp [OpTree.mem] at h
  | node l v r ihl ihr =>
    unfold OpTree.mem at h
    simp only [OpTree.toList, List.mem_append, List.mem_cons]
    by_cases h1 : (x == v) = true
    · right; left; simpa using h1
    · simp only [h1, Bool.false_eq_true, if_false] at h
      by_cases h2 : x < v
      · simp only [h2, if_true] at h; left; exact ihl h
      · simp only [h2, if_false] at h; right; right; exact ihr h

theorem distinct12_nodup (l : List Nat) (h : distinct12 l = true) : l.Nodup := by
  induction l with
  | nil => exact List.nodup_nil
  | cons x xs ih =>
    simp only [distinct12, Bool.and_eq_true, Bool.not_eq_true'] at h
    refine List.nodup_cons.mpr ⟨?_, ih h.2⟩
    intro hm
    have : xs.contains x = true := List.contains_iff_mem.mpr hm
    rw [h.1] at this; cases this

/-- what the kernel-checked boolean means -/
theorem groupOk_spec (t : OpTree) (ops : List Nat) (h : groupOk t ops = true) :
    (∀ o ∈ allOps ops, opOk o = true) ∧ (allOps ops).Nodup ∧
    (∀ a ∈ allOps ops, ∀ b ∈ allOps ops, compose12 a b ∈ allOps ops) := by
  unfold groupOk at h
  simp only [Bool.and_eq_true, List.all_eq_true] at h
  obtain ⟨⟨⟨h1, h2⟩, h3⟩, h4⟩ := h
  refine ⟨h1, distinct12_nodup _ h2, ?_⟩
  intro a ha b hb
  unfold closed12 at h4
  simp only [List.all_eq_true] at h4
  have hm := OpTree.mem_sound t _ (h4 a ha b hb)
  have := h3 _ hm
  simpa using this

/-! ### the residue representation and integer matrices

A rotation entry is stored as its residue modulo 12; `toZ` reads it back. The lemmas below show that on
entries −1, 0, 1 the modulo-12 dot products and determinant determine the integer ones. -/

def toZ (d : Nat) : Int := if d < 6 then (d : Int) else (d : Int) - 12

theorem rotEntryOk_toZ (d : Nat) (h : rotEntryOk d = true) : toZ d = -1 ∨ toZ d = 0 ∨ toZ d = 1 := by
  simp only [rotEntryOk, Bool.or_eq_true, beq_iff_eq] at h
  rcases h with (h | h) | h <;> subst h <;> simp [toZ]

/-- a row·column product of entries in {−1,0,1}: the residue stored by `compose12` is the residue of the
integer product, and the integer product lies in [−3,3] where residues modulo 12 are unique -/
theorem dot_residue (a1 a2 a3 b1 b2 b3 : Nat)
    (ha1 : rotEntryOk a1 = true) (ha2 : rotEntryOk a2 = true) (ha3 : rotEntryOk a3 = true)
    (hb1 : rotEntryOk b1 = true) (hb2 : rotEntryOk b2 = true) (hb3 : rotEntryOk b3 = true) :
    toZ ((a1 * b1 + a2 * b2 + a3 * b3) % 12) = toZ a1 * toZ b1 + toZ a2 * toZ b2 + toZ a3 * toZ b3 := by
  simp only [rotEntryOk, Bool.or_eq_true, beq_iff_eq] at ha1 ha2 ha3 hb1 hb2 hb3
  rcases ha1 with (h | h) | h <;> subst h <;> rcases ha2 with (h | h) | h <;> subst h <;>
    rcases ha3 with (h | h) | h <;> subst h <;> rcases hb1 with (h | h) | h <;> subst h <;>
    rcases hb2 with (h | h) | h <;> subst h <;> rcases hb3 with (h | h) | h <;> subst h <;> decide

/-- the translation part: the stored residue is the integer affine image reduced modulo whole cells -/
theorem translation_residue (a1 a2 a3 t1 t2 t3 s : Nat)
    (ha1 : rotEntryOk a1 = true) (ha2 : rotEntryOk a2 = true) (ha3 : rotEntryOk a3 = true) :
    (((a1 * t1 + a2 * t2 + a3 * t3 + s) % 12 : Nat) : Int) =
      (toZ a1 * t1 + toZ a2 * t2 + toZ a3 * t3 + s) % 12 := by
  simp only [rotEntryOk, Bool.or_eq_true, beq_iff_eq] at ha1 ha2 ha3
  rcases ha1 with (h | h) | h <;> subst h <;> rcases ha2 with (h | h) | h <;> subst h <;>
    rcases ha3 with (h | h) | h <;> subst h <;> simp [toZ] <;> omega

end PdbModel
