import PdbModel.Search
namespace PdbModel
variable {T : Type}

@[simp] theorem Tri.and_ff_r (a : Tri) : Tri.and a .ff = .ff := by cases a <;> rfl
@[simp] theorem Tri.or_tt_r (a : Tri) : Tri.or a .tt = .tt := by cases a <;> rfl
@[simp] theorem Tri.and_ff_l (a : Tri) : Tri.and .ff a = .ff := by cases a <;> rfl
@[simp] theorem Tri.or_tt_l (a : Tri) : Tri.or .tt a = .tt := by cases a <;> rfl
@[simp] theorem Tri.ofBool_and (a b : Bool) : Tri.ofBool (a && b) = (Tri.ofBool a).and (Tri.ofBool b) := by cases a <;> cases b <;> rfl
@[simp] theorem Tri.ofBool_or (a b : Bool) : Tri.ofBool (a || b) = (Tri.ofBool a).or (Tri.ofBool b) := by cases a <;> cases b <;> rfl
@[simp] theorem Tri.ofBool_xor (a b : Bool) : Tri.ofBool (a != b) = (Tri.ofBool a).xor (Tri.ofBool b) := by cases a <;> cases b <;> rfl
@[simp] theorem Tri.ofBool_not (a : Bool) : Tri.ofBool (!a) = (Tri.ofBool a).not := by cases a <;> rfl
@[simp] theorem Tri.ofBool_false : Tri.ofBool false = .ff := rfl
@[simp] theorem Tri.ofBool_true : Tri.ofBool true = .tt := rfl

theorem simp1_sound (v : T → Option Bool) (o : Op) (a b : Search T) :
    (Search.simp1 o a b).eval3 v = o.eval (a.eval3 v) (b.eval3 v) := by
  unfold Search.simp1
  split <;> simp [Search.eval3, Op.eval]

theorem simplify_sound (v : T → Option Bool) (s : Search T) :
    s.simplify.eval3 v = s.eval3 v := by
  induction s with
  | ops o a b iha ihb => simp [Search.simplify, simp1_sound, Search.eval3, iha, ihb]
  | not a ih =>
    simp only [Search.simplify]
    split
    · rename_i b h; simp only [Search.eval3, ← ih, h]; simp
    · simp [Search.eval3, ih]
  | single t => simp [Search.simplify]
  | known b => simp [Search.simplify]

theorem addInfo_sound (m v : T → Option Bool) (s : Search T) :
    (s.addInfo m).eval3 v = s.eval3 (orElse m v) := by
  induction s with
  | ops o a b iha ihb =>
    simp only [Search.addInfo, simplify_sound, Search.eval3, iha, ihb]
  | not a ih => simp only [Search.addInfo, simplify_sound, Search.eval3, ih]
  | single t =>
    simp only [Search.addInfo]
    split <;> rename_i h <;> simp [Search.eval3, orElse, h, Tri.ofOpt]
  | known b => simp [Search.addInfo, Search.eval3]

def Search.isKnown : Search T → Bool | .known _ => true | _ => false

/-- Normal form: what `simplify` returns -/
inductive Normal : Search T → Prop
  | known (b) : Normal (.known b)
  | single (t) : Normal (.single t)
  | not {a} : Normal a → a.isKnown = false → Normal (.not a)
  | ops {o a b} : Normal a → Normal b → Search.simp1 o a b = .ops o a b → Normal (.ops o a b)

theorem simp1_cases (o : Op) (a b : Search T) :
    (∃ k, Search.simp1 o a b = .known k) ∨ Search.simp1 o a b = .ops o a b := by
  unfold Search.simp1; split <;> simp

theorem simp1_known_known (o : Op) (x y : Bool) :
    ∃ k, Search.simp1 o (.known x : Search T) (.known y) = .known k := by
  cases o <;> cases x <;> cases y <;> exact ⟨_, rfl⟩

theorem simp1_and_ff_r (a : Search T) : Search.simp1 .and a (.known false) = .known false := by
  match a with
  | .known true => rfl | .known false => rfl | .ops .. => rfl | .not _ => rfl | .single _ => rfl

theorem simp1_or_tt_r (a : Search T) : Search.simp1 .or a (.known true) = .known true := by
  match a with
  | .known true => rfl | .known false => rfl | .ops .. => rfl | .not _ => rfl | .single _ => rfl

theorem simp1_idem {o : Op} {a b : Search T} (h : Search.simp1 o a b = .ops o a b) :
    (a.isKnown = true → b.isKnown = true → False) ∧
    (o = .and → a ≠ .known false ∧ b ≠ .known false) ∧
    (o = .or → a ≠ .known true ∧ b ≠ .known true) := by
  refine ⟨?_, ?_, ?_⟩
  · intro ha hb
    cases a <;> simp [Search.isKnown] at ha
    cases b <;> simp [Search.isKnown] at hb
    rename_i x y
    obtain ⟨k, hk⟩ := simp1_known_known (T := T) o x y
    rw [hk] at h; cases h
  · intro ho; subst ho
    refine ⟨?_, ?_⟩ <;> intro hc <;> subst hc
    · cases h
    · rw [simp1_and_ff_r] at h; cases h
  · intro ho; subst ho
    refine ⟨?_, ?_⟩ <;> intro hc <;> subst hc
    · cases h
    · rw [simp1_or_tt_r] at h; cases h

theorem normal_unknown {s : Search T} (h : Normal s) (hk : s.isKnown = false) :
    s.eval3 noInfo = .uu := by
  induction h with
  | known b => simp [Search.isKnown] at hk
  | single t => simp [Search.eval3, noInfo, Tri.ofOpt]
  | not ha hnk ih => simp [Search.eval3, ih hnk, Tri.not]
  | @ops o a b ha hb hs iha ihb =>
    obtain ⟨h1, h2, h3⟩ := simp1_idem hs
    cases hka : a.isKnown <;> cases hkb : b.isKnown
    · simp [Search.eval3, iha hka, ihb hkb]; cases o <;> rfl
    · simp only [Search.eval3, iha hka]
      cases b <;> simp [Search.isKnown] at hkb
      rename_i k; cases o <;> cases k <;> simp_all [Search.eval3, Op.eval, Tri.and, Tri.or, Tri.xor]
    · simp only [Search.eval3, ihb hkb]
      cases a <;> simp [Search.isKnown] at hka
      rename_i k; cases o <;> cases k <;> simp_all [Search.eval3, Op.eval, Tri.and, Tri.or, Tri.xor]
    · exact absurd (h1 hka hkb) id

theorem simp1_normal {o : Op} {a b : Search T} (ha : Normal a) (hb : Normal b) :
    Normal (Search.simp1 o a b) := by
  rcases simp1_cases o a b with ⟨k, hk⟩ | h
  · rw [hk]; exact .known k
  · rw [h]; exact .ops ha hb h

theorem simplify_normal (s : Search T) : Normal s.simplify := by
  induction s with
  | ops o a b iha ihb => exact simp1_normal iha ihb
  | not a ih =>
    simp only [Search.simplify]
    split
    · exact .known _
    · rename_i h; refine .not ih ?_
      cases hs : a.simplify <;> simp_all [Search.isKnown]
  | single t => exact .single t
  | known b => exact .known b

theorem addInfo_normal (m : T → Option Bool) (s : Search T) : Normal (s.addInfo m) := by
  cases s with
  | ops o a b => exact simplify_normal _
  | not a => exact simplify_normal _
  | single t => simp only [Search.addInfo]; split <;> constructor
  | known b => exact .known b

theorem orElse_noInfo (m : T → Option Bool) : orElse m (noInfo (T := T)) = m := by
  funext t; simp [orElse, noInfo]

theorem complete_eq_eval3 (m : T → Option Bool) (s : Search T) :
    (s.addInfo m).complete = (s.eval3 m).toOpt := by
  have hn := addInfo_normal m s
  have hs := addInfo_sound m noInfo s
  rw [orElse_noInfo] at hs
  cases hk : (s.addInfo m).isKnown
  · rw [← hs, normal_unknown hn hk]
    cases h : s.addInfo m <;> simp_all [Search.isKnown, Search.complete, Tri.toOpt]
  · cases h : s.addInfo m <;> simp_all [Search.isKnown]
    rename_i b
    rw [← hs]; cases b <;> simp [Search.complete, Search.eval3, Tri.toOpt]

/-- the filter predicate of `Conformer::find`, in terms of the Kleene value -/
theorem complete_getD (m : T → Option Bool) (s : Search T) :
    ((s.addInfo m).complete).getD true = selected m s := by
  rw [complete_eq_eval3]; unfold selected
  cases s.eval3 m <;> rfl

theorem isKnownFalse_eval (s : Search T) (h : s.isKnownFalse = true) (v : T → Option Bool) :
    s.eval3 v = .ff := by
  match s, h with
  | .known false, _ => rfl

/-! list plumbing for the pruned traversals -/

theorem prune_flatMap {α β γ} (l : List α) (f : α → γ) (keep : γ → Bool) (g : γ → List β) (h : α → List β)
    (hk : ∀ x ∈ l, keep (f x) = true → g (f x) = h x)
    (hd : ∀ x ∈ l, keep (f x) = false → h x = []) :
    ((l.map f).filter keep).flatMap g = l.flatMap h := by
  induction l with
  | nil => rfl
  | cons x xs ih =>
    have ih' := ih (fun y hy => hk y (List.mem_cons_of_mem _ hy)) (fun y hy => hd y (List.mem_cons_of_mem _ hy))
    simp only [List.map_cons, List.filter_cons, List.flatMap_cons]
    cases hkx : keep (f x)
    · simp only [Bool.false_eq_true, if_false]
      rw [ih', hd x (List.mem_cons_self ..) hkx]; rfl
    · simp only [if_true, List.flatMap_cons]
      rw [ih', hk x (List.mem_cons_self ..) hkx]

theorem filter_eq_nil_of_all_false {α} (l : List α) (p : α → Bool) (h : ∀ x ∈ l, p x = false) :
    l.filter p = [] := by
  rw [List.filter_eq_nil_iff]; intro x hx; simp [h x hx]

end PdbModel
