import PdbModel.Sort
import PdbModel.Lemmas.Base26
namespace PdbModel

/-! ### atoms -/

theorem renumAtoms_serials (n : Nat) (as : List Atom) :
    (renumAtoms n as).1.map (·.serial) = List.range' n as.length ∧ (renumAtoms n as).2 = n + as.length := by
  induction as generalizing n with
  | nil => simp [renumAtoms]
  | cons a as ih =>
    obtain ⟨h1, h2⟩ := ih (n + 1)
    constructor
    · simp only [renumAtoms, List.map_cons, List.length_cons, List.range'_succ, h1]
    · simp only [renumAtoms, h2, List.length_cons]; omega

theorem renumAtoms_length (n : Nat) (as : List Atom) : (renumAtoms n as).1.length = as.length := by
  induction as generalizing n with
  | nil => simp [renumAtoms]
  | cons a as ih => simp [renumAtoms, ih]

/-- nothing but the serial number changes -/
theorem renumAtoms_frame (n : Nat) (as : List Atom) :
    (renumAtoms n as).1.map (fun a => { a with serial := 0 }) = as.map (fun a => { a with serial := 0 }) := by
  induction as generalizing n with
  | nil => simp [renumAtoms]
  | cons a as ih => simp [renumAtoms, ih]

theorem renumAtoms_idem (n : Nat) (as : List Atom) : renumAtoms n (renumAtoms n as).1 = renumAtoms n as := by
  induction as generalizing n with
  | nil => simp [renumAtoms]
  | cons a as ih => simp only [renumAtoms, ih]

/-! ### conformers of one residue -/

theorem renumConfAtoms_serials (n : Nat) (cs : List Conformer) :
    ((renumConfAtoms n cs).1.flatMap (·.atoms)).map (·.serial) = List.range' n (cs.flatMap (·.atoms)).length ∧
    (renumConfAtoms n cs).2 = n + (cs.flatMap (·.atoms)).length := by
  induction cs generalizing n with
  | nil => simp [renumConfAtoms]
  | cons c cs ih =>
    obtain ⟨a1, a2⟩ := renumAtoms_serials n c.atoms
    obtain ⟨h1, h2⟩ := ih (renumAtoms n c.atoms).2
    rw [a2] at h1 h2
    constructor
    · simp only [renumConfAtoms, List.flatMap_cons, List.map_append, List.length_append, a1, a2, h1]
      exact List.range'_append_1
    · simp only [renumConfAtoms, a2, h2, List.flatMap_cons, List.length_append]; omega

theorem renumConfAtoms_shape (n : Nat) (cs : List Conformer) :
    (renumConfAtoms n cs).1.map (fun c => (c.name, c.alt, c.modification, c.atoms.length)) =
      cs.map (fun c => (c.name, c.alt, c.modification, c.atoms.length)) := by
  induction cs generalizing n with
  | nil => simp [renumConfAtoms]
  | cons c cs ih => simp [renumConfAtoms, ih, renumAtoms_length]

theorem renumConfAtoms_length (n : Nat) (cs : List Conformer) : (renumConfAtoms n cs).1.length = cs.length := by
  have := congrArg List.length (renumConfAtoms_shape n cs); simpa using this

theorem renumConfAtoms_idem (n : Nat) (cs : List Conformer) :
    renumConfAtoms n (renumConfAtoms n cs).1 = renumConfAtoms n cs := by
  induction cs generalizing n with
  | nil => simp [renumConfAtoms]
  | cons c cs ih => simp only [renumConfAtoms, renumAtoms_idem, ih]

theorem relabelFrom_length (i : Nat) (cs : List Conformer) : (relabelFrom i cs).length = cs.length := by
  induction cs generalizing i with
  | nil => rfl
  | cons c cs ih => simp [relabelFrom, ih]

theorem relabelConfs_length (cs : List Conformer) : (relabelConfs cs).length = cs.length := by
  unfold relabelConfs; split <;> simp [relabelFrom_length]

theorem relabelFrom_idem (i : Nat) (cs : List Conformer) : relabelFrom i (relabelFrom i cs) = relabelFrom i cs := by
  induction cs generalizing i with
  | nil => rfl
  | cons c cs ih => simp [relabelFrom, ih]

theorem relabelConfs_idem (cs : List Conformer) : relabelConfs (relabelConfs cs) = relabelConfs cs := by
  unfold relabelConfs
  by_cases h : cs.length > 1
  · simp only [h, if_true, relabelFrom_length, relabelFrom_idem]
  · simp only [h, if_false, List.length_map, List.map_map]; rfl

theorem renumConfAtoms_relabelFrom (n i : Nat) (cs : List Conformer) :
    renumConfAtoms n (relabelFrom i cs) = (relabelFrom i (renumConfAtoms n cs).1, (renumConfAtoms n cs).2) := by
  induction cs generalizing n i with
  | nil => rfl
  | cons c cs ih => simp only [relabelFrom, renumConfAtoms, ih]

theorem renumConfAtoms_clear (n : Nat) (cs : List Conformer) :
    renumConfAtoms n (cs.map fun c => { c with alt := none }) =
      ((renumConfAtoms n cs).1.map (fun c => { c with alt := none }), (renumConfAtoms n cs).2) := by
  induction cs generalizing n with
  | nil => rfl
  | cons c cs ih => simp only [List.map_cons, renumConfAtoms, ih]

theorem renumConfAtoms_relabel (n : Nat) (cs : List Conformer) :
    renumConfAtoms n (relabelConfs cs) = (relabelConfs (renumConfAtoms n cs).1, (renumConfAtoms n cs).2) := by
  unfold relabelConfs
  rw [renumConfAtoms_length]
  split
  · exact renumConfAtoms_relabelFrom n 0 cs
  · exact renumConfAtoms_clear n cs

theorem relabelFrom_atoms (i : Nat) (cs : List Conformer) :
    (relabelFrom i cs).flatMap (·.atoms) = cs.flatMap (·.atoms) := by
  induction cs generalizing i with
  | nil => rfl
  | cons c cs ih => simp [relabelFrom, ih]

theorem clearAlt_atoms (cs : List Conformer) :
    (cs.map fun c => ({ c with alt := none } : Conformer)).flatMap (·.atoms) = cs.flatMap (·.atoms) := by
  induction cs with
  | nil => rfl
  | cons c cs ih => simp only [List.map_cons, List.flatMap_cons]; rw [ih]

theorem relabelConfs_atoms (cs : List Conformer) : (relabelConfs cs).flatMap (·.atoms) = cs.flatMap (·.atoms) := by
  unfold relabelConfs; split
  · exact relabelFrom_atoms 0 cs
  · exact clearAlt_atoms cs

theorem relabelFrom_alts (i : Nat) (cs : List Conformer) :
    (relabelFrom i cs).map (·.alt) = (List.range' i cs.length).map fun k => some (numberToBase26 k) := by
  induction cs generalizing i with
  | nil => rfl
  | cons c cs ih =>
    simp only [relabelFrom, List.map_cons, List.length_cons, List.range'_succ, ih, (prepId_base26 i).1]

/-! ### residues of one model -/

theorem renumResidues_idem (rn an : Nat) (rs : List Residue) :
    renumResidues rn an (renumResidues rn an rs).1 = renumResidues rn an rs := by
  induction rs generalizing rn an with
  | nil => rfl
  | cons r rs ih =>
    simp only [renumResidues, renumConfAtoms_relabel, renumConfAtoms_idem, relabelConfs_idem, ih]

theorem renumResidues_serials (rn an : Nat) (rs : List Residue) :
    (renumResidues rn an rs).1.map (·.serial) = (List.range' rn rs.length).map Int.ofNat ∧
    (∀ r ∈ (renumResidues rn an rs).1, r.icode = none) ∧
    ((renumResidues rn an rs).1.flatMap (·.atoms)).map (·.serial) = List.range' an (rs.flatMap (·.atoms)).length ∧
    (renumResidues rn an rs).2.1 = rn + rs.length ∧
    (renumResidues rn an rs).2.2 = an + (rs.flatMap (·.atoms)).length := by
  induction rs generalizing rn an with
  | nil => simp [renumResidues]
  | cons r rs ih =>
    obtain ⟨c1, c2⟩ := renumConfAtoms_serials an r.conformers
    obtain ⟨h1, h2, h3, h4, h5⟩ := ih (rn + 1) (renumConfAtoms an r.conformers).2
    simp only [renumResidues, List.map_cons, List.length_cons, List.range'_succ, h1, h4, h5,
      List.flatMap_cons, List.map_append, h3, List.length_append]
    refine ⟨rfl, ?_, ?_, by omega, ?_⟩
    · intro x hx
      simp only [List.mem_cons] at hx
      rcases hx with rfl | hx
      · rfl
      · exact h2 x hx
    · have : ({ serial := (rn : Int), icode := none, conformers := relabelConfs (renumConfAtoms an r.conformers).1 } : Residue).atoms
          = (renumConfAtoms an r.conformers).1.flatMap (·.atoms) := by
        unfold Residue.atoms; exact relabelConfs_atoms _
      rw [this, c1, c2]
      have hr : r.atoms = r.conformers.flatMap (·.atoms) := rfl
      rw [hr]; exact List.range'_append_1
    · rw [c2]; have hr : r.atoms = r.conformers.flatMap (·.atoms) := rfl; rw [hr]; omega

/-- alternate locations after renumbering -/
theorem renumResidues_alts (rn an : Nat) (rs : List Residue) :
    ∀ r ∈ (renumResidues rn an rs).1,
      (r.conformers.length ≤ 1 → ∀ c ∈ r.conformers, c.alt = none) ∧
      (r.conformers.length > 1 →
        r.conformers.map (·.alt) = (List.range' 0 r.conformers.length).map fun k => some (numberToBase26 k)) := by
  induction rs generalizing rn an with
  | nil => intro r hr; simp [renumResidues] at hr
  | cons r rs ih =>
    intro x hx
    simp only [renumResidues, List.mem_cons] at hx
    rcases hx with rfl | hx
    · simp only
      unfold relabelConfs
      by_cases h : (renumConfAtoms an r.conformers).1.length > 1
      · simp only [h, if_true, relabelFrom_length]
        refine ⟨fun hle => by omega, fun _ => relabelFrom_alts 0 _⟩
      · simp only [h, if_false]
        refine ⟨fun _ c hc => ?_, fun hgt => ?_⟩
        · obtain ⟨c', _, rfl⟩ := List.mem_map.mp hc; rfl
        · exfalso; simp only [List.length_map] at hgt; exact h hgt
    · exact ih _ _ x hx

/-! ### chains, models -/

theorem renumChains_idem (ci rn an : Nat) (cs : List Chain) :
    renumChains ci rn an (renumChains ci rn an cs) = renumChains ci rn an cs := by
  induction cs generalizing ci rn an with
  | nil => rfl
  | cons c cs ih =>
    simp only [renumChains, renumResidues_idem, ih, (prepId_base26 ci).2, Option.getD_some]

theorem renumChains_ids (ci rn an : Nat) (cs : List Chain) :
    (renumChains ci rn an cs).map (·.id) = (List.range' ci cs.length).map numberToBase26 := by
  induction cs generalizing ci rn an with
  | nil => rfl
  | cons c cs ih =>
    simp only [renumChains, List.map_cons, List.length_cons, List.range'_succ, ih,
      (prepId_base26 ci).2, Option.getD_some]

theorem renumChains_serials (ci rn an : Nat) (cs : List Chain) :
    ((renumChains ci rn an cs).flatMap (·.atoms)).map (·.serial) = List.range' an (cs.flatMap (·.atoms)).length ∧
    ((renumChains ci rn an cs).flatMap (·.residues)).map (·.serial) =
      (List.range' rn (cs.flatMap (·.residues)).length).map Int.ofNat ∧
    (∀ r ∈ (renumChains ci rn an cs).flatMap (·.residues), r.icode = none) := by
  induction cs generalizing ci rn an with
  | nil => simp [renumChains]
  | cons c cs ih =>
    obtain ⟨r1, r2, r3, r4, r5⟩ := renumResidues_serials rn an c.residues
    obtain ⟨h1, h2, h3⟩ := ih (ci + 1) (renumResidues rn an c.residues).2.1 (renumResidues rn an c.residues).2.2
    simp only [renumChains, List.flatMap_cons, List.map_append, List.length_append]
    refine ⟨?_, ?_, ?_⟩
    · have : ({ id := (prepIdS (numberToBase26 ci)).getD c.id, residues := (renumResidues rn an c.residues).1 } : Chain).atoms
          = (renumResidues rn an c.residues).1.flatMap (·.atoms) := rfl
      rw [this, r3, h1, r5]
      have hc : c.atoms = c.residues.flatMap (·.atoms) := rfl
      rw [hc]; exact List.range'_append_1
    · rw [r1, h2, r4, ← List.map_append, List.range'_append_1]
    · intro x hx
      simp only [List.mem_append] at hx
      rcases hx with hx | hx
      · exact r2 x hx
      · exact h3 x hx

theorem renumModels_idem (n : Nat) (ms : List Model) : renumModels n (renumModels n ms) = renumModels n ms := by
  induction ms generalizing n with
  | nil => rfl
  | cons m ms ih => simp only [renumModels, renumChains_idem, ih]

theorem renumModels_serials (n : Nat) (ms : List Model) :
    (renumModels n ms).map (·.serial) = List.range' n ms.length := by
  induction ms generalizing n with
  | nil => rfl
  | cons m ms ih => simp only [renumModels, List.map_cons, List.length_cons, List.range'_succ, ih]

theorem mem_renumModels (n : Nat) (ms : List Model) (m' : Model) (h : m' ∈ renumModels n ms) :
    ∃ m ∈ ms, m'.chains = renumChains 0 1 1 m.chains := by
  induction ms generalizing n with
  | nil => simp [renumModels] at h
  | cons m ms ih =>
    simp only [renumModels, List.mem_cons] at h
    rcases h with rfl | h
    · exact ⟨m, List.mem_cons_self .., rfl⟩
    · obtain ⟨x, hx, he⟩ := ih _ h; exact ⟨x, List.mem_cons_of_mem _ hx, he⟩

end PdbModel
