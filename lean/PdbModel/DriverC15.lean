/-
`c15 guess <name>` → `pdb plain` / `mmcif gz` / `NONE`;  `c15 ext <gz flag> <name>` → `pdb` / `mmcif` / `NONE`.
-/
import PdbModel.Basic
import PdbModel.PathApi
namespace PdbModel

def fmtName : FileFormat → String | .pdb => "pdb" | .mmcif => "mmcif"

def handleC15 : List String → Option String
  | ["guess", name] => do
      let n ← decChars name
      pure (match guessFormat n with
        | some (f, gz) => fmtName f ++ (if gz then " gz" else " plain")
        | none => "NONE")
  | ["ext", gz, name] => do
      let n ← decChars name
      let g ← tokBool gz
      pure (match (if g then saveGzFormat n else saveFormat n) with
        | some f => fmtName f
        | none => "NONE")
  | _ => none

end PdbModel
