/-
C12: structured search. `Search`, `simplify`, `addInfo` mirror `structs/search.rs`; the five `find`
functions mirror the `find` of Conformer/Residue/Chain/Model/PDB including the `Known(false)` pruning.
-/
import PdbModel.Hier
import PdbModel.Gen.Small
namespace PdbModel

inductive Tri | tt | ff | uu deriving DecidableEq, Repr

def Tri.and : Tri → Tri → Tri
  | .ff, _ => .ff | _, .ff => .ff | .tt, .tt => .tt | _, _ => .uu
def Tri.or : Tri → Tri → Tri
  | .tt, _ => .tt | _, .tt => .tt | .ff, .ff => .ff | _, _ => .uu
def Tri.xor : Tri → Tri → Tri
  | .uu, _ => .uu | _, .uu => .uu
  | .tt, .tt => .ff | .ff, .ff => .ff | _, _ => .tt
def Tri.not : Tri → Tri | .tt => .ff | .ff => .tt | .uu => .uu
def Tri.ofBool : Bool → Tri | true => .tt | false => .ff
def Tri.ofOpt : Option Bool → Tri | some b => .ofBool b | none => .uu
def Tri.toOpt : Tri → Option Bool | .tt => some true | .ff => some false | .uu => none

inductive Op | and | or | xor deriving DecidableEq, Repr

inductive Search (T : Type) where
  | ops : Op → Search T → Search T → Search T
  | not : Search T → Search T
  | single : T → Search T
  | known : Bool → Search T
  deriving Repr

variable {T : Type}

/-- the match of `Search::simplify` on `(ops, a.simplify(), b.simplify())`, arm for arm -/
def Search.simp1 : Op → Search T → Search T → Search T
  | .and, .known false, _ => .known false
  | .and, _, .known false => .known false
  | .and, .known a, .known b => .known (a && b)
  | .or, .known true, _ => .known true
  | .or, _, .known true => .known true
  | .or, .known a, .known b => .known (a || b)
  | .xor, .known a, .known b => .known (a != b)
  | o, a, b => .ops o a b

def Search.simplify : Search T → Search T
  | .ops o a b => Search.simp1 o a.simplify b.simplify
  | .not a => match a.simplify with
    | .known b => .known (!b)
    | a' => .not a'
  | s => s

/-- the five `add_*_info` functions, generic in the level's matcher -/
def Search.addInfo (m : T → Option Bool) : Search T → Search T
  | .ops o a b => (Search.ops o (a.addInfo m) (b.addInfo m)).simplify
  | .not a => (Search.not (a.addInfo m)).simplify
  | .single t => match m t with
    | some b => .known b
    | none => .single t
  | .known b => .known b

def Op.eval : Op → Tri → Tri → Tri
  | .and => Tri.and | .or => Tri.or | .xor => Tri.xor

/-- strong Kleene evaluation under a (partial) valuation of the terms -/
def Search.eval3 (v : T → Option Bool) : Search T → Tri
  | .ops o a b => o.eval (a.eval3 v) (b.eval3 v)
  | .not a => (a.eval3 v).not
  | .single t => Tri.ofOpt (v t)
  | .known b => Tri.ofBool b

def Search.complete : Search T → Option Bool
  | .known b => some b
  | _ => none

def Search.isKnownFalse : Search T → Bool
  | .known false => true
  | _ => false

/-- first answer wins: information of an outer level is never overwritten by an inner one -/
def orElse (m v : T → Option Bool) : T → Option Bool := fun t => (m t).orElse fun _ => v t
def noInfo : T → Option Bool := fun _ => none

/-! ## Terms of pdbtbx -/

inductive Term where
  | modelSerial (n : Nat) | modelSerialRange (lo hi : Nat)
  | chainId (s : String) | chainIdRange (lo hi : String)
  | resSerial (n : Int) | resSerialRange (lo hi : Int)
  | resIcode (ic : Option String) | resId (n : Int) (ic : Option String)
  | confName (s : String) | confAlt (a : Option String) | confId (s : String) (a : Option String)
  | atomSerial (n : Nat) | atomSerialRange (lo hi : Nat) | atomName (s : String) | element (n : Nat)
  | bfactor (v : Int) | bfactorRange (lo hi : Int) | occupancy (v : Int) | occupancyRange (lo hi : Int)
  | backbone | sideChain | hetero
  deriving DecidableEq, Repr

def isAminoAcid (name : String) : Bool := Gen.aminoAcids.contains name
def isBackbone (name : String) : Bool := Gen.backboneNames.contains name

def matchModel (m : Model) : Term → Option Bool
  | .modelSerial s => some (s == m.serial)
  | .modelSerialRange lo hi => some (decide (lo ≤ m.serial) && decide (hi ≥ m.serial))
  | _ => none

def matchChain (c : Chain) : Term → Option Bool
  | .chainId s => some (s == c.id)
  | .chainIdRange lo hi => some (decide (lo ≤ c.id) && decide (hi ≥ c.id))
  | _ => none

def matchResidue (r : Residue) : Term → Option Bool
  | .resSerial s => some (s == r.serial)
  | .resSerialRange lo hi => some (decide (lo ≤ r.serial) && decide (hi ≥ r.serial))
  | .resIcode ic => some (ic == r.icode)
  | .resId s ic => some (s == r.serial && ic == r.icode)
  | _ => none

def matchConformer (c : Conformer) : Term → Option Bool
  | .confName n => some (n == c.name)
  | .confAlt a => some (a == c.alt)
  | .confId n a => some (n == c.name && a == c.alt)
  | .backbone => if !isAminoAcid c.name then some false else none
  | .sideChain => if !isAminoAcid c.name then some false else none
  | _ => none

def matchAtom (a : Atom) : Term → Option Bool
  | .atomSerial n => some (a.serial == n)
  | .atomSerialRange lo hi => some (decide (a.serial ≥ lo) && decide (a.serial ≤ hi))
  | .atomName n => some (a.name == n)
  | .element e => if a.element = 0 then none else some (a.element == e)
  | .bfactor v => some (a.b == v)
  | .bfactorRange lo hi => some (decide (a.b ≥ lo) && decide (a.b ≤ hi))
  | .occupancy v => some (a.occ == v)
  | .occupancyRange lo hi => some (decide (a.occ ≥ lo) && decide (a.occ ≤ hi))
  | .backbone => some (isBackbone a.name)
  | .sideChain => some (!isBackbone a.name)
  | .hetero => some a.hetero
  | _ => none

/-! ## The five `find` functions (with pruning), generic in the term type through the matchers -/

section Find
variable (mM : Model → T → Option Bool) (mC : Chain → T → Option Bool)
  (mR : Residue → T → Option Bool) (mF : Conformer → T → Option Bool) (mA : Atom → T → Option Bool)

def Conformer.findG (s : Search T) (c : Conformer) : List Atom :=
  c.atoms.filter fun a => ((s.addInfo (mA a)).complete).getD true

def Residue.findG (s : Search T) (r : Residue) : List HAC :=
  ((r.conformers.map fun c => (c, s.addInfo (mF c))).filter fun p => !p.2.isKnownFalse).flatMap
    fun p => (Conformer.findG mA p.2 p.1).map fun a => ⟨a, p.1⟩

def Chain.findG (s : Search T) (c : Chain) : List HACR :=
  ((c.residues.map fun r => (r, s.addInfo (mR r))).filter fun p => !p.2.isKnownFalse).flatMap
    fun p => (Residue.findG mF mA p.2 p.1).map fun h => { toHAC := h, residue := p.1 }

def Model.findG (s : Search T) (m : Model) : List HACRC :=
  ((m.chains.map fun c => (c, s.addInfo (mC c))).filter fun p => !p.2.isKnownFalse).flatMap
    fun p => (Chain.findG mR mF mA p.2 p.1).map fun h => { toHACR := h, chain := p.1 }

def PDB.findG (s : Search T) (p : PDB) : List HACRCM :=
  ((p.models.map fun m => (m, s.addInfo (mM m))).filter fun q => !q.2.isKnownFalse).flatMap
    fun q => (Model.findG mC mR mF mA q.2 q.1).map fun h => { toHACRC := h, model := q.1 }
end Find

def Conformer.find := Conformer.findG (T := Term) matchAtom
def Residue.find := Residue.findG (T := Term) matchConformer matchAtom
def Chain.find := Chain.findG (T := Term) matchResidue matchConformer matchAtom
def Model.find := Model.findG (T := Term) matchChain matchResidue matchConformer matchAtom
def PDB.find := PDB.findG (T := Term) matchModel matchChain matchResidue matchConformer matchAtom

/-- the selection rule of the property: an atom is selected unless the expression is definitely false -/
def selected (v : T → Option Bool) (s : Search T) : Bool := s.eval3 v != .ff

end PdbModel
