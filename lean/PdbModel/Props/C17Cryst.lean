/-
C17 — the space group through a CRYST1 record, for all 230 groups.

The writer prints the Hermann–Mauguin symbol left aligned in at least eleven columns behind the six numeric
cells (55 one-byte characters); the reader takes columns 56–66 and looks the trimmed text up.  Decided here for
every group: the group comes back exactly when its symbol fits the eleven columns — which it does for 220
groups and does not for the ten groups of the open finding (125, 126, 129, 130, 133, 134, 137, 138, 141, 142).
-/
import PdbModel.PdbWrite
import PdbModel.PdbLex
import PdbModel.Props.C03Record
import PdbModel.Props.C17
namespace PdbModel

/-- columns 56–66 of the CRYST1 line the writer prints for group `k + 1`, and what follows them -/
def symField (k : Nat) : List Char × List Char :=
  let l := cryst1Sym (some (k + 1))
  (l.take 11, l.drop 11)

def asciiB (l : List Char) : Bool := l.all fun c => utf8Len c == 1

/-- per group: the field is eleven one-byte characters, and looking its trimmed text up gives the group back
exactly when the symbol is at most eleven characters long -/
def crystOkAt (k : Nat) : Bool :=
  let f := (symField k).1
  f.length == 11 && asciiB f &&
  ((symmetryNew ((trim f).map Char.toNat) == some (k + 1)) == decide (((hmSymbol (k + 1)).getD []).length ≤ 11))

theorem cryst_all_ok : (List.range 230).all crystOkAt = true := by decide +kernel

theorem asciiB_iff (l : List Char) (h : asciiB l = true) : Ascii l := by
  intro c hc
  have := List.all_eq_true.mp h c hc
  simpa using this

theorem ascii_getLine (fields : List (Nat × List Char)) (h : ∀ f ∈ fields, Ascii f.2) : Ascii (getLine fields) := by
  unfold getLine
  induction fields with
  | nil => intro c hc; cases hc
  | cons f fs ih =>
    rw [List.flatMap_cons]
    exact ascii_append.mpr ⟨ascii_cell _ _ (h f (by simp)), ih (fun g hg => h g (by simp [hg]))⟩

theorem ascii_lit (l : List Char) (h : asciiB l = true) : Ascii l := asciiB_iff l h

theorem cryst1Head_spec (c : List Int) : Ascii (getLine (cryst1Head c)) ∧ (getLine (cryst1Head c)).length = 55 := by
  refine ⟨?_, ?_⟩
  · apply ascii_getLine
    intro f hf
    unfold cryst1Head at hf
    simp only [List.mem_cons, List.not_mem_nil, or_false] at hf
    rcases hf with rfl | rfl | rfl | rfl | rfl | rfl | rfl | rfl
    · exact ascii_lit _ (by decide)
    · exact ascii_fmtFixed _ _ _
    · exact ascii_fmtFixed _ _ _
    · exact ascii_fmtFixed _ _ _
    · exact ascii_fmtFixed _ _ _
    · exact ascii_fmtFixed _ _ _
    · exact ascii_fmtFixed _ _ _
    · exact ascii_lit _ (by decide)
  · unfold cryst1Head getLine
    simp only [List.flatMap_cons, List.flatMap_nil, List.append_nil, List.length_append]
    rw [C03_cell_width 6 _ (by decide), C03_cell_width 9 _ (by decide), C03_cell_width 9 _ (by decide),
      C03_cell_width 9 _ (by decide), C03_cell_width 7 _ (by decide), C03_cell_width 7 _ (by decide),
      C03_cell_width 7 _ (by decide), C03_cell_copy]
    rfl

theorem getLine_append (a b : List (Nat × List Char)) : getLine (a ++ b) = getLine a ++ getLine b := by
  unfold getLine; rw [List.flatMap_append]

/-- the CRYST1 line: 55 one-byte characters, the eleven symbol columns, the rest -/
theorem cryst1Line_shape (lvl : Strictness) (c : List Int) (k : Nat) :
    ∃ post, cryst1Line lvl c (some (k + 1)) = getLine (cryst1Head c) ++ (symField k).1 ++ post := by
  unfold cryst1Line printLine
  rw [getLine_append]
  have hs : getLine [(0, cryst1Sym (some (k + 1)))] = (symField k).1 ++ (symField k).2 := by
    unfold getLine symField
    simp only [List.flatMap_cons, List.flatMap_nil, List.append_nil, C03_cell_copy, List.take_append_drop]
  rw [hs]
  simp only
  split
  · refine ⟨(symField k).2 ++ List.replicate
      (70 - (getLine (cryst1Head c) ++ ((symField k).1 ++ (symField k).2)).length) ' ', ?_⟩
    simp only [List.append_assoc]
  · exact ⟨(symField k).2, by simp only [List.append_assoc]⟩

/-- **a space group through CRYST1**: for every one of the 230 groups, whatever the cell and the writer's
level, the record the writer prints is lexed back to a symbol that names the same group exactly when the
Hermann–Mauguin symbol fits the eleven columns of the sGroup field -/
theorem C17_cryst1_read_back (lvl : Strictness) (ln : Nat) (c : List Int) (i : Nat) (h1 : 1 ≤ i) (h2 : i ≤ 230) :
    ∃ a b cc al be ga sg, (lexCryst ln (cryst1Line lvl c (some i))).1 = .crystal a b cc al be ga sg ∧
      (symmetryNew (sg.map Char.toNat) = some i ↔ ((hmSymbol i).getD []).length ≤ 11) := by
  obtain ⟨k, rfl⟩ : ∃ k, i = k + 1 := ⟨i - 1, by omega⟩
  have hk : crystOkAt k = true := List.all_eq_true.mp cryst_all_ok k (by simp; omega)
  unfold crystOkAt at hk
  simp only [Bool.and_eq_true, beq_iff_eq] at hk
  obtain ⟨⟨hlen, hasc⟩, hlook⟩ := hk
  obtain ⟨post, hline⟩ := cryst1Line_shape lvl c k
  obtain ⟨hpa, hpl⟩ := cryst1Head_spec c
  have hsg : ∀ line, ∃ a b cc al be ga, (lexCryst ln line).1 =
      .crystal a b cc al be ga (fStr ln line 55 (min 66 line.length)).1 := fun line => ⟨_, _, _, _, _, _, rfl⟩
  obtain ⟨a, b, cc, al, be, ga, hcr⟩ := hsg (cryst1Line lvl c (some (k + 1)))
  refine ⟨a, b, cc, al, be, ga, _, hcr, ?_⟩
  rw [hline]
  have hmin : min 66 (getLine (cryst1Head c) ++ (symField k).1 ++ post).length = 66 := by
    simp only [List.length_append, hpl, hlen]; omega
  rw [hmin]
  have hf := fieldW_cell (fun s => some s) [] ln (getLine (cryst1Head c)) (symField k).1 post hpa
    (asciiB_iff _ hasc) (trim (symField k).1) rfl
  rw [hpl, hlen] at hf
  unfold fStr
  rw [hf]
  simp only
  constructor
  · intro h
    have : (symmetryNew ((trim (symField k).1).map Char.toNat) == some (k + 1)) = true := by simpa using h
    rw [this] at hlook
    simpa using hlook.symm
  · intro h
    have : decide (((hmSymbol (k + 1)).getD []).length ≤ 11) = true := by simpa using h
    rw [this] at hlook
    simpa using hlook

/-- the ten groups of the open finding, and no others, have symbols that do not fit -/
theorem C17_cryst1_misfits :
    (List.range 230).filter (fun k => decide (11 < ((hmSymbol (k + 1)).getD []).length)) =
      [124, 125, 128, 129, 132, 133, 136, 137, 140, 141] := by decide +kernel

end PdbModel
