/-
C02 — rows → atoms.  One row of the atom_site loop adds at most one atom to the structure, never touches another
one, and the atom it adds is the one `Atom::new` builds from the row's own cells (name, id, coordinates from the
mandatory columns).  Over a whole loop, the number of atoms never exceeds the number of rows.
-/
import PdbModel.CifRead
namespace PdbModel

/-- all atoms of a list of models, in traversal order -/
def modelsAtoms (ms : List Model) : List Atom := ms.flatMap (·.atoms)

/-! ### `Model::add_atom` adds exactly the atom -/

section Keyed
variable {C K : Type} [DecidableEq K]

theorem upsertC_perm (key : C → K) (mk : K → C) (upd : C → C) (h : C → List Atom)
    (extra : List Atom) (hu : ∀ c, (h (upd c)).Perm (h c ++ extra)) (hm : ∀ k, h (mk k) = [])
    (cs : List C) (k : K) : ((upsertC key mk upd cs k).flatMap h).Perm (cs.flatMap h ++ extra) := by
  induction cs with
  | nil =>
    simp only [upsertC, List.flatMap_cons, List.flatMap_nil, List.append_nil, List.nil_append]
    have := hu (mk k)
    rw [hm k] at this
    simpa using this
  | cons c cs ih =>
    simp only [upsertC]
    split
    · simp only [List.flatMap_cons]
      exact ((hu c).append_right _).trans (by
        rw [List.append_assoc, List.append_assoc]
        exact List.Perm.append_left _ List.perm_append_comm)
    · simp only [List.flatMap_cons, List.append_assoc]
      exact List.Perm.append_left _ ih

theorem updLast_perm (key : C → K) (upd : C → C) (h : C → List Atom) (extra : List Atom)
    (hu : ∀ c, (h (upd c)).Perm (h c ++ extra)) (cs cs' : List C) (k : K) (hl : updLast key upd cs k = some cs') :
    (cs'.flatMap h).Perm (cs.flatMap h ++ extra) := by
  induction cs generalizing cs' with
  | nil => simp [updLast] at hl
  | cons c cs ih =>
    simp only [updLast] at hl
    cases hr : updLast key upd cs k with
    | some r =>
      rw [hr] at hl
      simp only [Option.some.injEq] at hl
      subst hl
      simp only [List.flatMap_cons, List.append_assoc]
      exact List.Perm.append_left _ (ih r hr)
    | none =>
      rw [hr] at hl
      simp only at hl
      split at hl
      · simp only [Option.some.injEq] at hl
        subst hl
        simp only [List.flatMap_cons]
        exact ((hu c).append_right _).trans (by
          rw [List.append_assoc, List.append_assoc]
          exact List.Perm.append_left _ List.perm_append_comm)
      · cases hl

theorem upsertLastC_perm (key : C → K) (mk : K → C) (upd : C → C) (h : C → List Atom)
    (extra : List Atom) (hu : ∀ c, (h (upd c)).Perm (h c ++ extra)) (hm : ∀ k, h (mk k) = [])
    (cs : List C) (k : K) : ((upsertLastC key mk upd cs k).flatMap h).Perm (cs.flatMap h ++ extra) := by
  unfold upsertLastC
  cases hl : updLast key upd cs k with
  | some cs' => simpa using updLast_perm key upd h extra hu cs cs' k hl
  | none =>
    simp only [Option.getD_none, List.flatMap_append, List.flatMap_cons, List.flatMap_nil, List.append_nil]
    refine List.Perm.append_left _ ?_
    have := hu (mk k)
    rw [hm k] at this
    simpa using this
end Keyed

theorem residue_addAtomN_perm (r : Residue) (op : ROp) : (r.addAtomN op).atoms.Perm (r.atoms ++ [op.2]) := by
  unfold Residue.addAtomN Residue.atoms
  exact upsertC_perm Conformer.cid Conformer.empty (Conformer.push op.2) (·.atoms) [op.2]
    (fun c => by simp [Conformer.push]) (fun _ => rfl) r.conformers _

theorem chain_addAtomN_perm (c : Chain) (op : COp) : (c.addAtomN op).atoms.Perm (c.atoms ++ [op.2.2]) := by
  unfold Chain.addAtomN Chain.atoms
  exact upsertLastC_perm Residue.rid Residue.empty (fun r => r.addAtomN op.2) (·.atoms) [op.2.2]
    (fun r => residue_addAtomN_perm r op.2) (fun _ => rfl) c.residues _

theorem model_addAtomN_perm (m : Model) (op : MOp) : (m.addAtomN op).atoms.Perm (m.atoms ++ [op.2.2.2]) := by
  unfold Model.addAtomN Model.atoms
  exact upsertC_perm Chain.id Chain.empty (fun c => c.addAtomN op.2) (·.atoms) [op.2.2.2]
    (fun c => chain_addAtomN_perm c op.2) (fun _ => rfl) m.chains _

/-- **`Model::add_atom` adds exactly the atom it is given** (whatever the identifiers): the atoms of the model
afterwards are the atoms before plus that atom, up to order -/
theorem C02_model_add_atom_adds_the_atom (m m' : Model) (o : RawMOp) (h : m.addAtom o = some m') :
    m'.atoms.Perm (m.atoms ++ [o.2.2.2]) := by
  unfold Model.addAtom at h
  cases hn : normMOp o with
  | none => rw [hn] at h; cases h
  | some op =>
    rw [hn] at h
    simp only [Option.map, Option.some.injEq] at h
    subst h
    have hR : ∀ (o : RawROp) (op : ROp), normROp o = some op → op.2 = o.2 := by
      intro o op h
      unfold normROp at h
      cases hk : normConfId o.1 with
      | none => rw [hk] at h; cases h
      | some k => rw [hk] at h; simp only [Option.map, Option.some.injEq] at h; subst h; rfl
    have hC : ∀ (o : RawCOp) (op : COp), normCOp o = some op → op.2.2 = o.2.2 := by
      intro o op h
      unfold normCOp at h
      cases hr : normResId o.1 with
      | none => rw [hr] at h; cases h
      | some r =>
        cases hx : normROp o.2 with
        | none => rw [hr, hx] at h; cases h
        | some x =>
          rw [hr, hx] at h
          simp only [bind, Option.bind, pure, Option.some.injEq] at h
          subst h
          exact hR _ _ hx
    have hat : op.2.2.2 = o.2.2.2 := by
      unfold normMOp at hn
      cases hc : normChainId o.1 with
      | none => rw [hc] at hn; cases hn
      | some c =>
        cases hx : normCOp o.2 with
        | none => rw [hc, hx] at hn; cases hn
        | some x =>
          rw [hc, hx] at hn
          simp only [bind, Option.bind, pure, Option.some.injEq] at hn
          subst hn
          exact hC _ _ hx
    rw [← hat]
    exact model_addAtomN_perm m op

theorem set_flatMap_perm_extra {α β} (f : α → List β) (extra : List β) (l : List α) (k : Nat) (x y : α)
    (hx : l[k]? = some x) (hy : List.Perm (f y) (f x ++ extra)) :
    List.Perm ((l.set k y).flatMap f) (l.flatMap f ++ extra) := by
  induction l generalizing k with
  | nil => simp at hx
  | cons a as ih =>
    cases k with
    | zero =>
      simp only [List.getElem?_cons_zero, Option.some.injEq] at hx
      subst hx
      simp only [List.set_cons_zero, List.flatMap_cons]
      exact (hy.append_right _).trans (by
        rw [List.append_assoc, List.append_assoc]
        exact List.Perm.append_left _ List.perm_append_comm)
    | succ k =>
      simp only [List.getElem?_cons_succ] at hx
      simp only [List.set_cons_succ, List.flatMap_cons, List.append_assoc]
      exact List.Perm.append_left _ (ih k hx)

/-- placing the atom in the model found (or just created, empty) for the row -/
theorem place_perm (ms : List Model) (mi : Nat) (m m' : Model) (o : RawMOp) (hm : ms[mi]? = some m)
    (h : m.addAtom o = some m') : (modelsAtoms (ms.set mi m')).Perm (modelsAtoms ms ++ [o.2.2.2]) :=
  set_flatMap_perm_extra Model.atoms [o.2.2.2] ms mi m m' hm (C02_model_add_atom_adds_the_atom m m' o h)

theorem modelsAtoms_append_empty (ms : List Model) (n : Nat) :
    modelsAtoms (ms ++ [{ serial := n, chains := [] }]) = modelsAtoms ms := by
  simp [modelsAtoms, Model.atoms]

/-! ### the mandatory cells: only diagnostics change, and what comes back are the cells -/

theorem reqCol_models {α} (c : Col α) (s : AState) : (reqCol c s).2.models = s.models := by
  unfold reqCol; split <;> rfl

theorem reqCol_some {α} (c : Col α) (s : AState) (v : α) (h : (reqCol c s).1 = some v) : c.val = some v := by
  unfold reqCol at h
  split at h
  · next hv => simp only [Option.some.injEq] at h; subst h; exact hv
  · cases h
  · cases h

theorem rowResNum_models (s : AState) (vals : List (Option CifValue)) : (rowResNum s vals).2.models = s.models := by
  unfold rowResNum; simp only; split <;> rfl

theorem rowChain_models (s : AState) (vals : List (Option CifValue)) : (rowChain s vals).2.models = s.models := by
  unfold rowChain; simp only; split
  · rfl
  · rw [reqCol_models]

theorem pair_snd_models {α} {p : α × AState} {a : α} {t : AState} (h : p = (a, t)) : t.models = p.2.models := by
  subst h; rfl
theorem pair_fst {α} {p : Option α × AState} {a : Option α} {t : AState} (h : p = (a, t)) : p.1 = a := by
  subst h; rfl

/-- the mandatory cells are collected without touching the models -/
theorem rowCells_models (s : AState) (vals : List (Option CifValue)) : (rowCells s vals).2.models = s.models := by
  unfold rowCells bindS
  simp only
  repeat' split
  all_goals grind [reqCol_models, rowResNum_models, rowChain_models]

theorem reqCol_eq_some {α} (c : Col α) (s t : AState) (v : α) (h : reqCol c s = (some v, t)) : c.val = some v :=
  reqCol_some c s v (by rw [h])

/-- the cells that come back are the values of the row's own mandatory columns -/
theorem rowCells_some (s t : AState) (vals : List (Option CifValue)) (c : RowCells) (h : rowCells s vals = (some c, t)) :
    (colText ((vals[19]?).join)).val = some c.name ∧ (colText ((vals[16]?).join)).val = some c.id ∧
    (colText ((vals[14]?).join)).val = some c.resName ∧
    (colF64 ((vals[24]?).join)).val = some c.x ∧ (colF64 ((vals[25]?).join)).val = some c.y ∧
    (colF64 ((vals[26]?).join)).val = some c.z := by
  unfold rowCells bindS at h
  simp only at h
  repeat' split at h
  all_goals first
    | (cases h; done)
    | skip
  all_goals
    simp only [Prod.mk.injEq, Option.some.injEq] at h
    obtain ⟨rfl, _⟩ := h
    refine ⟨?_, ?_, ?_, ?_, ?_, ?_⟩ <;> (apply reqCol_eq_some; assumption)

/-- the chain id of a row: the author's cell when it has a value, else the label cell -/
def ChainOf (vals : List (Option CifValue)) (chain : List Char) : Prop :=
  (colText ((vals[11]?).join)).val = some chain ∨
  ((colText ((vals[11]?).join)).val = none ∧ (colText ((vals[10]?).join)).val = some chain)

/-- the residue number of a row: the author's cell when it holds a number, else the label cell, else a count -/
def NumberOf (vals : List (Option CifValue)) (n : Int) : Prop :=
  (colIsize ((vals[22]?).join)).val = some n ∨
  ((colIsize ((vals[22]?).join)).val = none ∧ ∃ total : Nat, n = (colIsize ((vals[21]?).join)).val.getD (total : Int))

theorem rowChain_some (s t : AState) (vals : List (Option CifValue)) (c : List Char) (h : rowChain s vals = (some c, t)) :
    ChainOf vals c := by
  unfold rowChain at h
  simp only at h
  split at h
  · next a ha =>
    simp only [Prod.mk.injEq, Option.some.injEq] at h
    exact Or.inl (h.1 ▸ ha)
  · next ha => exact Or.inr ⟨ha, reqCol_eq_some _ _ _ _ h⟩

theorem rowResNum_value (s : AState) (vals : List (Option CifValue)) : NumberOf vals (rowResNum s vals).1 := by
  unfold rowResNum
  simp only
  split
  · next n hn => exact Or.inl hn
  · next hn => exact Or.inr ⟨hn, _, rfl⟩

/-- the chain id and residue number that come back prefer the author's cells -/
theorem rowCells_ids (s t : AState) (vals : List (Option CifValue)) (c : RowCells) (h : rowCells s vals = (some c, t)) :
    ChainOf vals c.chain ∧ NumberOf vals c.resNum := by
  unfold rowCells bindS at h
  simp only at h
  repeat' split at h
  all_goals first
    | (cases h; done)
    | skip
  all_goals
    simp only [Prod.mk.injEq, Option.some.injEq] at h
    obtain ⟨rfl, _⟩ := h
    refine ⟨?_, rowResNum_value _ vals⟩
    apply rowChain_some; assumption

/-! ### the optional cells, the row's model, the tensor -/

theorem rowOptional_models (s : AState) (vals : List (Option CifValue)) : (rowOptional s vals).2.models = s.models := by
  unfold rowOptional
  simp only
  split <;> (try split) <;> rfl

theorem rowOptional_values (s : AState) (vals : List (Option CifValue)) :
    (rowOptional s vals).1.occ = (colF64 ((vals[20]?).join)).val.getD (fltInt 1) ∧
    (rowOptional s vals).1.b = (colF64 ((vals[12]?).join)).val.getD (fltInt 1) ∧
    (rowOptional s vals).1.charge = (colIsize ((vals[13]?).join)).val.getD 0 := by
  unfold rowOptional
  simp only
  exact ⟨trivial, trivial, trivial⟩

theorem rowOptional_ids (s : AState) (vals : List (Option CifValue)) :
    (rowOptional s vals).1.alt = (colText ((vals[0]?).join)).val ∧
    (rowOptional s vals).1.ins = (colText ((vals[17]?).join)).val := by
  unfold rowOptional
  simp only
  exact ⟨trivial, trivial⟩

theorem rowModel_atoms (ms : List Model) (n : Nat) : modelsAtoms (rowModel ms n).1 = modelsAtoms ms := by
  unfold rowModel
  split
  · rfl
  · exact modelsAtoms_append_empty ms n

theorem withTensor_cases (a : Atom) (an : Option (List Flt)) :
    (withTensor a an).1 = a ∨ ∃ t, (withTensor a an).1 = { a with atf := some t } := by
  unfold withTensor
  split
  · exact Or.inl rfl
  · split
    · exact Or.inr ⟨_, rfl⟩
    · exact Or.inr ⟨_, rfl⟩

theorem placeIn_atoms (models : List Model) (mi : Nat) (op : RawMOp) :
    modelsAtoms (placeIn models mi op) = modelsAtoms models ∨
    (modelsAtoms (placeIn models mi op)).Perm (modelsAtoms models ++ [op.2.2.2]) := by
  unfold placeIn
  split
  · exact Or.inl rfl
  · next m hm =>
    split
    · exact Or.inl rfl
    · next m' hadd => exact Or.inr (place_perm models mi m m' op hm hadd)

/-- **`Atom::new` from the cells, placed once**: the models afterwards hold the atoms they held plus at most the
one atom made from the row's cells -/
theorem placeAtom_atoms (s : AState) (mn : Nat) (at_ el : List Char) (c : RowCells) (o : RowOpt) :
    modelsAtoms (placeAtom s mn at_ el c o).models = modelsAtoms s.models ∨
    ∃ (a0 atom : Atom) (ex het : Bool) (cnt : Nat),
      atomNew het cnt c.id c.name c.x c.y c.z o.occ o.b el o.charge = some (a0, ex) ∧
      (atom = a0 ∨ ∃ t, atom = { a0 with atf := some t }) ∧
      (modelsAtoms (placeAtom s mn at_ el c o).models).Perm (modelsAtoms s.models ++ [atom]) := by
  have hrm := rowModel_atoms s.models mn
  unfold placeAtom
  simp only
  split
  · exact Or.inl hrm
  · next atom0 ex hnew =>
    simp only
    rcases placeIn_atoms (rowModel s.models mn).1 (rowModel s.models mn).2
        (String.ofList c.chain, ((c.resNum, o.ins.map String.ofList), ((String.ofList c.resName, o.alt.map String.ofList),
          (withTensor atom0 o.aniso).1))) with h | h
    · exact Or.inl (h.trans hrm)
    · right
      refine ⟨atom0, (withTensor atom0 o.aniso).1, ex, _, _, hnew, ?_, ?_⟩
      · rcases withTensor_cases atom0 o.aniso with h' | ⟨t, h'⟩
        · exact Or.inl h'
        · exact Or.inr ⟨t, h'⟩
      · rw [hrm] at h; exact h

/-- what a row can do to the atoms of the structure: nothing, or add `atom` -/
def RowEffect (vals : List (Option CifValue)) (before after : List Model) : Prop :=
  modelsAtoms after = modelsAtoms before ∨
  ∃ (c : RowCells) (a0 atom : Atom) (ex het : Bool) (cnt : Nat),
    (colText ((vals[19]?).join)).val = some c.name ∧ (colText ((vals[16]?).join)).val = some c.id ∧
    (colText ((vals[14]?).join)).val = some c.resName ∧
    (colF64 ((vals[24]?).join)).val = some c.x ∧ (colF64 ((vals[25]?).join)).val = some c.y ∧
    (colF64 ((vals[26]?).join)).val = some c.z ∧
    atomNew het cnt c.id c.name c.x c.y c.z ((colF64 ((vals[20]?).join)).val.getD (fltInt 1))
      ((colF64 ((vals[12]?).join)).val.getD (fltInt 1)) ((colText ((vals[23]?).join)).val.getD [])
      ((colIsize ((vals[13]?).join)).val.getD 0) = some (a0, ex) ∧
    (atom = a0 ∨ ∃ t, atom = { a0 with atf := some t }) ∧
    (modelsAtoms after).Perm (modelsAtoms before ++ [atom])

theorem placeRow_effect (s : AState) (vals : List (Option CifValue)) (mn : Nat) (at_ : List Char) (c : RowCells)
    (hc : (colText ((vals[19]?).join)).val = some c.name ∧ (colText ((vals[16]?).join)).val = some c.id ∧
      (colText ((vals[14]?).join)).val = some c.resName ∧
      (colF64 ((vals[24]?).join)).val = some c.x ∧ (colF64 ((vals[25]?).join)).val = some c.y ∧
      (colF64 ((vals[26]?).join)).val = some c.z) :
    RowEffect vals s.models (placeRow s vals mn at_ ((colText ((vals[23]?).join)).val.getD []) c).models := by
  unfold placeRow
  have hm := rowOptional_models s vals
  obtain ⟨ho, hb, hch⟩ := rowOptional_values s vals
  rcases hro : rowOptional s vals with ⟨o, s'⟩
  rw [hro] at hm ho hb hch
  simp only at hm ho hb hch ⊢
  generalize ((prepareIdentifier c.chain).isNone || (prepareIdentifierUpper c.resName).isNone ||
      (match o.ins with | some ic => (prepareIdentifierUpper ic).isNone | none => false)) = bad
  cases bad
  · simp only [Bool.false_eq_true, if_false]
    rcases placeAtom_atoms s' mn at_ ((colText ((vals[23]?).join)).val.getD []) c o with h | ⟨a0, atom, ex, het, cnt, hnew, hat, hp⟩
    · exact Or.inl (by rw [h, hm])
    · refine Or.inr ⟨c, a0, atom, ex, het, cnt, hc.1, hc.2.1, hc.2.2.1, hc.2.2.2.1, hc.2.2.2.2.1, hc.2.2.2.2.2, ?_, hat, ?_⟩
      · rw [← ho, ← hb, ← hch]; exact hnew
      · rw [← hm]; exact hp
  · simp only [if_true]
    exact Or.inl (by rw [hm])

/-- **one row, at most one atom, made from the row's own cells**: a row of the atom_site loop either leaves the
atoms of the structure as they are (it is skipped, refused with a diagnostic, or its identifiers are refused), or adds
exactly one atom — the one `Atom::new` builds from the row's atom id, atom name and coordinates (mandatory cells) and
its occupancy, B-factor, element and charge cells (or their documented defaults), with the nine tensor cells attached
when all are there — and every atom that was there before is still there -/
theorem C02_row_adds_at_most_its_atom (olf : Bool) (s : AState) (vals : List (Option CifValue)) :
    RowEffect vals s.models (atomRowCore olf s vals).models := by
  unfold atomRowCore
  simp only
  generalize hg : firstModelGate olf
      { s with errors := s.errors ++ (colUsize ((vals[18]?).join)).err,
               exact := s.exact && (colText ((vals[23]?).join)).exact && (colUsize ((vals[18]?).join)).exact }
      ((colUsize ((vals[18]?).join)).val.getD 1) = g
  have hgm : g.1.models = s.models := by
    rw [← hg]; unfold firstModelGate; split <;> (try split) <;> rfl
  rcases g with ⟨s1, skip⟩
  simp only at hgm ⊢
  cases skip
  · simp only [Bool.false_eq_true, if_false]
    generalize hs2 : ({ s1 with exact := s1.exact && (colText ((vals[15]?).join)).exact } : AState) = s2
    have h2 : s2.models = s.models := by rw [← hs2]; exact hgm
    have hm := rowCells_models s2 vals
    rcases hrc : rowCells s2 vals with ⟨_ | c, s3⟩
    · rw [hrc] at hm
      simp only at hm ⊢
      exact Or.inl (by rw [hm, h2])
    · rw [hrc] at hm
      simp only at hm ⊢
      have := placeRow_effect s3 vals ((colUsize ((vals[18]?).join)).val.getD 1)
        ((colText ((vals[15]?).join)).val.getD "ATOM".toList) c (rowCells_some s2 s3 vals c hrc)
      rw [hm, h2] at this
      exact this
  · simp only [if_true]
    exact Or.inl (by rw [hgm])

/-! ### the whole loop -/

theorem rowEffect_bound (vals : List (Option CifValue)) (before after : List Model) (h : RowEffect vals before after) :
    (modelsAtoms after).length ≤ (modelsAtoms before).length + 1 ∧ ∀ a ∈ modelsAtoms before, a ∈ modelsAtoms after := by
  rcases h with h | ⟨c, a0, atom, ex, het, cnt, _, _, _, _, _, _, _, _, hp⟩
  · rw [h]; exact ⟨Nat.le_succ _, fun a ha => ha⟩
  · refine ⟨?_, ?_⟩
    · rw [hp.length_eq]; simp
    · intro a ha
      exact hp.mem_iff.mpr (List.mem_append_left _ ha)

theorem atomRow_bound (o : ReadOpts) (s : AState) (vals : List (Option CifValue)) :
    (modelsAtoms (atomRow o s vals).models).length ≤ (modelsAtoms s.models).length + 1 ∧
    ∀ a ∈ modelsAtoms s.models, a ∈ modelsAtoms (atomRow o s vals).models := by
  unfold atomRow
  split
  · exact ⟨Nat.le_succ _, fun a ha => ha⟩
  · exact rowEffect_bound vals _ _ (C02_row_adds_at_most_its_atom _ s vals)

theorem rows_bound (o : ReadOpts) (header : List (List Char)) (rows : List (List CifValue)) (s : AState) :
    (modelsAtoms (rows.foldl (fun (s : AState) (row : List CifValue) => atomRow o s (rowVals header row)) s).models).length
        ≤ (modelsAtoms s.models).length + rows.length ∧
    ∀ a ∈ modelsAtoms s.models,
      a ∈ modelsAtoms (rows.foldl (fun (s : AState) (row : List CifValue) => atomRow o s (rowVals header row)) s).models := by
  induction rows generalizing s with
  | nil => exact ⟨Nat.le_refl _, fun a ha => ha⟩
  | cons r rs ih =>
    simp only [List.foldl_cons, List.length_cons]
    obtain ⟨h1, h2⟩ := atomRow_bound o s (rowVals header r)
    obtain ⟨i1, i2⟩ := ih (atomRow o s (rowVals header r))
    exact ⟨by omega, fun a ha => i2 a (h2 a ha)⟩

/-- **no atom without a row, no atom lost**: after the atom_site loop the structure holds at most one atom more per
row, and every atom it held before is still there -/
theorem C02_no_atom_without_a_row (o : ReadOpts) (models : List Model) (header : List (List Char))
    (rows : List (List CifValue)) :
    (modelsAtoms (parseAtoms o models header rows).1).length ≤ (modelsAtoms models).length + rows.length ∧
    ∀ a ∈ modelsAtoms models, a ∈ modelsAtoms (parseAtoms o models header rows).1 := by
  unfold parseAtoms
  split
  · exact ⟨Nat.le_add_right _ _, fun a ha => ha⟩
  · exact rows_bound o header rows { models := models }

/-- non-vacuity: a complete row (label chain A, residue ALA 1, atom CA with id 1 at 1.5 2 3, element C) does add
its atom to an empty structure -/
def exampleRow : List (Option CifValue) :=
  [none, none, none, none, none, none, none, none, none, none,
   some (.text ['A']), none, none, none, some (.text ['A', 'L', 'A']), none, some (.num (.fin 1 0) 1 ['1']), none, none,
   some (.text ['C', 'A']), none, some (.num (.fin 1 0) 1 ['1']), none, some (.text ['C']),
   some (.num (.fin 15 (-1)) 2 ['1', '.', '5']), some (.num (.fin 2 0) 1 ['2']), some (.num (.fin 3 0) 1 ['3'])]
example : (modelsAtoms (atomRowCore false { models := [] } exampleRow).models).length = 1 := by decide +kernel

end PdbModel
