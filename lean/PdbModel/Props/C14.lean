/-
C14 — spatial and geometric queries equal a brute-force computation (the part that is logic).
The R*-tree clause (tree contents, radius and nearest-neighbour queries) is `rstar`'s code; its
specification is the brute-force scan and it is decided by the correspondence alone (see DESIGN §7 C14).
-/
import PdbModel.Dist
import Mathlib.Tactic.Ring
import Mathlib.Tactic.Linarith
import Mathlib.Tactic.Positivity
namespace PdbModel

theorem sq_nonneg' (x : Int) : 0 ≤ sq x := by unfold sq; exact mul_self_nonneg x
theorem sq_eq_zero' (x : Int) : sq x = 0 ↔ x = 0 := by unfold sq; exact mul_self_eq_zero

/-- atom distance is symmetric and Euclidean (sum of squared coordinate differences), zero exactly for
coincident atoms -/
theorem C14_dist (a b : Atom) :
    a.d2 b = b.d2 a ∧ 0 ≤ a.d2 b ∧ (a.d2 b = 0 ↔ (a.x = b.x ∧ a.y = b.y ∧ a.z = b.z)) := by
  refine ⟨by unfold Atom.d2 sq; ring, ?_, ?_⟩
  · unfold Atom.d2; have := sq_nonneg' (b.x - a.x); have := sq_nonneg' (b.y - a.y); have := sq_nonneg' (b.z - a.z); omega
  · unfold Atom.d2
    have h1 := sq_nonneg' (b.x - a.x); have h2 := sq_nonneg' (b.y - a.y); have h3 := sq_nonneg' (b.z - a.z)
    constructor
    · intro h
      have e1 : sq (b.x - a.x) = 0 := by omega
      have e2 : sq (b.y - a.y) = 0 := by omega
      have e3 : sq (b.z - a.z) = 0 := by omega
      rw [sq_eq_zero'] at e1 e2 e3
      omega
    · intro ⟨hx, hy, hz⟩
      simp [hx, hy, hz, sq]

/-! ### bounding box -/

def Box.contains (b : Box) (a : Atom) : Prop :=
  b.minX ≤ a.x ∧ a.x ≤ b.maxX ∧ b.minY ≤ a.y ∧ a.y ≤ b.maxY ∧ b.minZ ≤ a.z ∧ a.z ≤ b.maxZ

def Box.attained (b : Box) (l : List Atom) : Prop :=
  (∃ a ∈ l, a.x = b.minX) ∧ (∃ a ∈ l, a.x = b.maxX) ∧ (∃ a ∈ l, a.y = b.minY) ∧ (∃ a ∈ l, a.y = b.maxY) ∧
  (∃ a ∈ l, a.z = b.minZ) ∧ (∃ a ∈ l, a.z = b.maxZ)

theorem box_add_spec (b : Box) (x : Atom) (seen : List Atom)
    (hc : ∀ a ∈ seen, b.contains a) (ha : b.attained seen) :
    (∀ a ∈ seen ++ [x], (b.add x).contains a) ∧ (b.add x).attained (seen ++ [x]) := by
  obtain ⟨a1, a2, a3, a4, a5, a6⟩ := ha
  refine ⟨?_, ?_⟩
  · intro a hm
    rw [List.mem_append] at hm
    rcases hm with hm | hm
    · have := hc a hm
      unfold Box.contains Box.add at *
      simp only
      refine ⟨?_, ?_, ?_, ?_, ?_, ?_⟩ <;> split <;> omega
    · simp only [List.mem_singleton] at hm; subst hm
      unfold Box.contains Box.add
      simp only
      refine ⟨?_, ?_, ?_, ?_, ?_, ?_⟩ <;> split <;> omega
  · unfold Box.attained Box.add
    simp only
    have lift : ∀ (P : Atom → Prop), (∃ a ∈ seen, P a) → ∃ a ∈ seen ++ [x], P a :=
      fun P ⟨a, h, hp⟩ => ⟨a, List.mem_append_left _ h, hp⟩
    have here : ∀ (P : Atom → Prop), P x → ∃ a ∈ seen ++ [x], P a :=
      fun P hp => ⟨x, List.mem_append_right _ (List.mem_singleton.mpr rfl), hp⟩
    refine ⟨?_, ?_, ?_, ?_, ?_, ?_⟩ <;> split
    · exact here _ rfl
    · exact lift _ a1
    · exact here _ rfl
    · exact lift _ a2
    · exact here _ rfl
    · exact lift _ a3
    · exact here _ rfl
    · exact lift _ a4
    · exact here _ rfl
    · exact lift _ a5
    · exact here _ rfl
    · exact lift _ a6

theorem foldl_box (rest seen : List Atom) (b : Box)
    (hc : ∀ a ∈ seen, b.contains a) (ha : b.attained seen) :
    (∀ a ∈ seen ++ rest, (rest.foldl Box.add b).contains a) ∧ (rest.foldl Box.add b).attained (seen ++ rest) := by
  induction rest generalizing seen b with
  | nil => simpa using ⟨hc, ha⟩
  | cons x xs ih =>
    obtain ⟨h1, h2⟩ := box_add_spec b x seen hc ha
    have := ih (seen ++ [x]) (b.add x) h1 h2
    simpa [List.append_assoc] using this

/-- the bounding box is the tightest axis-aligned box around all atoms: every atom lies inside and every
face is attained by some atom; there is no box exactly when there is no atom -/
theorem C14_bbox_tight (l : List Atom) :
    (boundingBox l = none ↔ l = []) ∧
    ∀ b, boundingBox l = some b → (∀ a ∈ l, b.contains a) ∧ b.attained l := by
  cases l with
  | nil => simp [boundingBox]
  | cons x xs =>
    refine ⟨by simp [boundingBox], ?_⟩
    intro b hb
    simp only [boundingBox, Option.some.injEq] at hb
    subst hb
    have := foldl_box xs [x] ⟨x.x, x.y, x.z, x.x, x.y, x.z⟩
      (by intro a ha; simp only [List.mem_singleton] at ha; subst ha; simp [Box.contains])
      (by simp [Box.attained])
    simpa using this

/-! ### chains in contact -/

/-- the contact predicate is symmetric (distance is) -/
theorem C14_contact_symmetric (c : Int) (c1 c2 : Chain) : inContact c c1 c2 = inContact c c2 c1 := by
  unfold inContact
  by_cases hc : c > 0
  · simp only [hc, decide_true, Bool.true_and]
    rw [Bool.eq_iff_iff]
    simp only [List.any_eq_true, decide_eq_true_eq]
    constructor
    · rintro ⟨a1, h1, a2, h2, hd⟩; exact ⟨a2, h2, a1, h1, by rw [(C14_dist a2 a1).1]; exact hd⟩
    · rintro ⟨a2, h2, a1, h1, hd⟩; exact ⟨a1, h1, a2, h2, by rw [(C14_dist a1 a2).1]; exact hd⟩
  · simp [hc]

/-- … and says exactly "some atom pair is closer than the cut-off" -/
theorem C14_contact_exact (c : Int) (c1 c2 : Chain) :
    inContact c c1 c2 = true ↔ (c > 0 ∧ ∃ a1 ∈ c1.atoms, ∃ a2 ∈ c2.atoms, a1.d2 a2 < sq c) := by
  unfold inContact
  simp only [Bool.and_eq_true, decide_eq_true_eq, List.any_eq_true]

/-! ### wrapped distance in an orthogonal cell -/

/-- per axis: for two coordinates at most one cell edge apart, the chosen image is the nearest of the three
neighbouring images -/
theorem wrap_axis_min (s o e : Int) (he : 0 < e) (hd : s - o ≤ e ∧ o - s ≤ e) :
    sq (wrapCoord s o e - s) ≤ sq (o - s) ∧ sq (wrapCoord s o e - s) ≤ sq (o + e - s) ∧
    sq (wrapCoord s o e - s) ≤ sq (o - e - s) ∧
    (wrapCoord s o e = o ∨ wrapCoord s o e = o + e ∨ wrapCoord s o e = o - e) := by
  unfold wrapCoord sq
  split <;> split <;> (try split) <;> refine ⟨?_, ?_, ?_, ?_⟩ <;> (try omega) <;> nlinarith

/-- wrapped (squared) distance = the minimum over the 27 neighbouring images -/
theorem C14_wrap_min (a b : Atom) (ea eb ec : Int) (ha : 0 < ea) (hb : 0 < eb) (hc : 0 < ec)
    (hx : a.x - b.x ≤ ea ∧ b.x - a.x ≤ ea) (hy : a.y - b.y ≤ eb ∧ b.y - a.y ≤ eb)
    (hz : a.z - b.z ≤ ec ∧ b.z - a.z ≤ ec) :
    (∀ i ∈ [(-1 : Int), 0, 1], ∀ j ∈ [(-1 : Int), 0, 1], ∀ k ∈ [(-1 : Int), 0, 1],
      a.d2Wrapping b ea eb ec ≤ sq (b.x + i * ea - a.x) + sq (b.y + j * eb - a.y) + sq (b.z + k * ec - a.z)) ∧
    (∃ i ∈ [(-1 : Int), 0, 1], ∃ j ∈ [(-1 : Int), 0, 1], ∃ k ∈ [(-1 : Int), 0, 1],
      a.d2Wrapping b ea eb ec = sq (b.x + i * ea - a.x) + sq (b.y + j * eb - a.y) + sq (b.z + k * ec - a.z)) := by
  obtain ⟨x0, x1, x2, xe⟩ := wrap_axis_min a.x b.x ea ha hx
  obtain ⟨y0, y1, y2, ye⟩ := wrap_axis_min a.y b.y eb hb hy
  obtain ⟨z0, z1, z2, ze⟩ := wrap_axis_min a.z b.z ec hc hz
  unfold Atom.d2Wrapping
  refine ⟨?_, ?_⟩
  · intro i hi j hj k hk
    simp only [List.mem_cons, List.mem_nil_iff, or_false] at hi hj hk
    have hX : sq (wrapCoord a.x b.x ea - a.x) ≤ sq (b.x + i * ea - a.x) := by
      rcases hi with rfl | rfl | rfl
      · have : b.x + -1 * ea - a.x = b.x - ea - a.x := by ring
        rw [this]; exact x2
      · have : b.x + 0 * ea - a.x = b.x - a.x := by ring
        rw [this]; exact x0
      · have : b.x + 1 * ea - a.x = b.x + ea - a.x := by ring
        rw [this]; exact x1
    have hY : sq (wrapCoord a.y b.y eb - a.y) ≤ sq (b.y + j * eb - a.y) := by
      rcases hj with rfl | rfl | rfl
      · have : b.y + -1 * eb - a.y = b.y - eb - a.y := by ring
        rw [this]; exact y2
      · have : b.y + 0 * eb - a.y = b.y - a.y := by ring
        rw [this]; exact y0
      · have : b.y + 1 * eb - a.y = b.y + eb - a.y := by ring
        rw [this]; exact y1
    have hZ : sq (wrapCoord a.z b.z ec - a.z) ≤ sq (b.z + k * ec - a.z) := by
      rcases hk with rfl | rfl | rfl
      · have : b.z + -1 * ec - a.z = b.z - ec - a.z := by ring
        rw [this]; exact z2
      · have : b.z + 0 * ec - a.z = b.z - a.z := by ring
        rw [this]; exact z0
      · have : b.z + 1 * ec - a.z = b.z + ec - a.z := by ring
        rw [this]; exact z1
    omega
  · have pick : ∀ (w o e : Int), (w = o ∨ w = o + e ∨ w = o - e) → ∃ i ∈ [(-1 : Int), 0, 1], w = o + i * e := by
      intro w o e h
      rcases h with h | h | h
      · exact ⟨0, by simp, by rw [h]; ring⟩
      · exact ⟨1, by simp, by rw [h]; ring⟩
      · exact ⟨-1, by simp, by rw [h]; ring⟩
    obtain ⟨i, hi, ei⟩ := pick _ _ _ xe
    obtain ⟨j, hj, ej⟩ := pick _ _ _ ye
    obtain ⟨k, hk, ek⟩ := pick _ _ _ ze
    exact ⟨i, hi, j, hj, k, hk, by rw [ei, ej, ek]⟩

/-! ### overlap predicates agree with the radii table -/

theorem C14_overlap_table (radius : Nat → Option Int) (d2 : Int) (a b : Atom) :
    (overlapsWith radius d2 a b = none ↔ (radius a.element = none ∨ radius b.element = none)) ∧
    (∀ ra rb, radius a.element = some ra → radius b.element = some rb →
      overlapsWith radius d2 a b = some (decide (d2 ≤ sq (ra + rb)))) := by
  unfold overlapsWith
  cases h1 : radius a.element <;> cases h2 : radius b.element <;> simp

/-- the regenerated table: an atom without element has no radius; carbon's radii are the source's -/
example : unboundRadius 0 = none ∧ unboundRadius 6 = some 1900000 ∧ covalentRadius 6 = some 750000 ∧
    covalentRadius 119 = none := by decide

end PdbModel
