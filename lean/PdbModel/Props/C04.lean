/-
C04 — mmCIF write → read round trip.

The writer model (`CifWrite.lean`) is tied to `save_mmcif_raw` byte for byte by the correspondence; the full
round-trip identity is decided per structure by the write/read/write oracle on the real code (PARTIAL as a
theorem).  Proved here is the step the round trip of every identifier rests on: a bare word written into a
padded table cell is read back by the lexer model as exactly that text.
-/
import PdbModel.CifWrite
import PdbModel.Props.C02
namespace PdbModel

/-- identifiers the property quantifies over: CIF bare words that are not numbers or reserved words -/
def BareWord (t : List Char) : Prop :=
  (∃ c r, t = c :: r ∧ isOrdinary c = true ∧ c ≠ '.' ∧ c ≠ '?') ∧ (∀ c ∈ t, isAsciiWs c = false) ∧
  reservedStart t = false ∧ parseNumeric t = none

theorem identOf_append_ws (t rest : List Char) (ht : ∀ c ∈ t, isAsciiWs c = false) :
    identOf (t ++ ' ' :: rest) = t ∧ afterIdent (t ++ ' ' :: rest) = ' ' :: rest := by
  unfold identOf afterIdent
  induction t with
  | nil => simp [isAsciiWs]
  | cons c r ih =>
    have hc := ht c (by simp)
    have ih' := ih (fun x hx => ht x (by simp [hx]))
    simp only [List.cons_append, List.takeWhile_cons, List.dropWhile_cons, hc, Bool.not_false, if_true]
    exact ⟨by rw [ih'.1], ih'.2⟩

theorem startWith_append (pat t rest : List Char) (hlen : pat.length ≤ t.length) :
    (startWith pat (t ++ rest)).isSome = (startWith pat t).isSome := by
  unfold startWith
  have h1 : (t ++ rest).take pat.length = t.take pat.length := by
    rw [List.take_append_of_le_length hlen]
  rw [h1]
  split <;> simp

/-- **a written bare word is read back**: after any padding, a bare word followed by a blank is lexed as the
text value it spells and the input continues right behind it -/
theorem C04_bare_word_read_back (pad t rest : List Char) (hp : Pad pad) (ht : BareWord t)
    (hres : reservedStart (t ++ ' ' :: rest) = false) :
    parseValue (pad ++ (t ++ ' ' :: rest)) = .ok (.text t, ' ' :: rest) := by
  obtain ⟨⟨c, r, rfl, hord, hdot, hq⟩, hws, _, hnum⟩ := ht
  rw [C02_value_layout hp]
  unfold parseValue
  have hcws : isCifWs c = false := by
    have := hws c (by simp)
    unfold isAsciiWs at this; unfold isCifWs
    simp only [Bool.or_eq_false_iff] at this ⊢
    exact this.1
  have hhash : (c == '#') = false := by
    unfold isOrdinary at hord
    simp only [Bool.and_eq_true, Bool.not_eq_true', Bool.or_eq_false_iff] at hord
    exact hord.1.1.1.1.1.1.1.1.1.1
  have htrim : trimCW false (c :: r ++ ' ' :: rest) = c :: (r ++ ' ' :: rest) := by
    simp only [List.cons_append, trimCW, hcws, Bool.false_eq_true, if_false, hhash]
  rw [htrim]
  have hid := identOf_append_ws (c :: r) rest hws
  simp only [List.cons_append] at hid hres
  have hquote : (c == '\'' || c == '"') = false := by
    unfold isOrdinary at hord
    simp only [Bool.and_eq_true, Bool.not_eq_true', Bool.or_eq_false_iff] at hord
    simp only [Bool.or_eq_false_iff]
    exact ⟨hord.1.1.1.1.1.1.1.1.2, hord.1.1.1.1.1.1.1.2⟩
  have hsemi : (c == ';') = false := by
    unfold isOrdinary at hord
    simp only [Bool.and_eq_true, Bool.not_eq_true', Bool.or_eq_false_iff] at hord
    exact hord.1.1.1.2
  have hd : (c == '.') = false := by simpa using hdot
  have hqq : (c == '?') = false := by simpa using hq
  simp only [hres, Bool.false_eq_true, if_false, hd, hqq, hquote, hsemi, hord, if_true, hid.1, hid.2]
  rw [hnum]

/-- non-vacuity: residue and atom names of the kind the writer emits -/
example : BareWord "ALA".toList ∧ BareWord "CA".toList ∧ BareWord "0AF".toList := by
  refine ⟨⟨⟨_, _, rfl, by decide, by decide, by decide⟩, by decide, by decide, by decide⟩,
    ⟨⟨_, _, rfl, by decide, by decide, by decide⟩, by decide, by decide, by decide⟩,
    ⟨⟨_, _, rfl, by decide, by decide, by decide⟩, by decide, by decide, by decide⟩⟩

/-- every line of the aligned table starts with the first cell of its row -/
theorem C04_rows_kept (rows : List (List (List Char))) : (alignRows rows).length = rows.length := by
  unfold alignRows
  cases rows with
  | nil => rfl
  | cons f r => simp

end PdbModel
