/-
C03 — PDB write → read round trip (theorems about the writer model `PdbModel/PdbWrite.lean` and the reader's
field parsers).
-/
import PdbModel.PdbWrite
namespace PdbModel

/-- a zero-width cell copies its text -/
theorem C03_cell_copy (t : List Char) : cell 0 t = t := by simp [cell]

/-- every fixed-width cell has exactly its width (texts at most as long as the cell are padded, longer
ones keep their last characters) -/
theorem C03_cell_width (w : Nat) (t : List Char) (hw : 0 < w) : (cell w t).length = w := by
  unfold cell
  have h0 : ¬ w = 0 := by omega
  rw [if_neg h0]
  simp only
  have hc : (t.drop (t.length - min w t.length)).length ≤ w := by
    simp only [List.length_drop]; omega
  generalize t.drop (t.length - min w t.length) = c at hc
  have hd : (c.dropWhile (· == '0')).length ≤ w :=
    Nat.le_trans (List.Sublist.length_le (List.dropWhile_sublist _)) hc
  by_cases hdig : c.all isDigit = true
  · simp only [hdig, if_true]
    split
    · simp only [List.length_cons, List.length_replicate]; omega
    · simp only [List.length_append, List.length_replicate]; omega
  · simp only [hdig, Bool.false_eq_true, if_false]
    split
    · simp only [List.length_cons, List.length_replicate]; omega
    · simp only [List.length_append, List.length_replicate]; omega

/-! ### what the reader's `trim` + `parse` sees in a cell -/

theorem dropWhile_replicate_append (p : Char → Bool) (c : Char) (hc : p c = true) (k : Nat) (l : List Char) :
    (List.replicate k c ++ l).dropWhile p = l.dropWhile p := by
  induction k with
  | zero => simp
  | succ k ih => simp [List.replicate_succ, List.dropWhile_cons, hc, ih]

theorem dropWhile_head_neg (p : Char → Bool) (l : List Char)
    (h : ∀ c, l.head? = some c → p c = false) : l.dropWhile p = l := by
  cases l with
  | nil => rfl
  | cons a r => simp [List.dropWhile_cons, h a rfl]

/-- padding on the right disappears under the reader's `trim`, the text itself is untouched when it neither
starts nor ends with white space -/
theorem C03_trim_padded (t : List Char) (k : Nat)
    (hh : ∀ c, t.head? = some c → isRustWs c = false)
    (hl : ∀ c, t.getLast? = some c → isRustWs c = false) :
    trim (t ++ List.replicate k ' ') = t := by
  unfold trim trimEnd trimStart
  cases t with
  | nil =>
    have := dropWhile_replicate_append isRustWs ' ' (by decide) k []
    simp only [List.append_nil] at this
    simp [this]
  | cons a r =>
    have h1 : (a :: r ++ List.replicate k ' ').dropWhile isRustWs = a :: r ++ List.replicate k ' ' := by
      simp [hh a rfl]
    rw [h1, List.reverse_append, List.reverse_replicate,
      dropWhile_replicate_append isRustWs ' ' (by decide) k,
      dropWhile_head_neg isRustWs (a :: r).reverse (by intro c hc; rw [List.head?_reverse] at hc; exact hl c hc),
      List.reverse_reverse]

/-- **cells keep their text**: a text that fits its cell and is not an all-digit number with leading zeros is
written unchanged, left aligned, padded with blanks -/
theorem C03_cell_text (w : Nat) (t : List Char) (hw : 0 < w) (hl : t.length ≤ w)
    (hd : t.all isDigit = false) : cell w t = t ++ List.replicate (w - t.length) ' ' := by
  unfold cell
  have h0 : ¬ w = 0 := by omega
  have hm : t.length - min w t.length = 0 := by omega
  rw [if_neg h0]
  simp only [hm, List.drop_zero, hd, Bool.false_eq_true, if_false]
  have hne : t ≠ [] := by intro h; subst h; simp at hd
  simp [hne]

/-- … and the reader's `trim` gives exactly that text back -/
theorem C03_cell_text_round_trip (w : Nat) (t : List Char) (hw : 0 < w) (hl : t.length ≤ w)
    (hd : t.all isDigit = false)
    (hh : ∀ c, t.head? = some c → isRustWs c = false)
    (hla : ∀ c, t.getLast? = some c → isRustWs c = false) : trim (cell w t) = t := by
  rw [C03_cell_text w t hw hl hd, C03_trim_padded t _ hh hla]

theorem foldl_digits_zero (l : List Char) :
    digitsVal (l.dropWhile (· == '0')) = digitsVal l := by
  induction l with
  | nil => rfl
  | cons a r ih =>
    by_cases ha : a = '0'
    · subst ha
      simp only [List.dropWhile_cons, beq_self_eq_true, if_true, ih]
      simp [digitsVal, digitVal]
    · simp [List.dropWhile_cons, ha]

theorem isDigit_not_ws (c : Char) (h : isDigit c = true) : isRustWs c = false := by
  simp only [isDigit, Bool.and_eq_true, decide_eq_true_eq] at h
  have h1 : 48 ≤ c.toNat := by simpa using h.1
  have h2 : c.toNat ≤ 57 := by simpa using h.2
  simp only [isRustWs, Bool.or_eq_false_iff, Bool.and_eq_false_iff, decide_eq_false_iff_not, beq_eq_false_iff_ne]
  omega

theorem isDigit_not_plus (c : Char) (h : isDigit c = true) : c ≠ '+' := by
  intro hc; subst hc; simp [isDigit] at h

theorem parseUsize_digits (l : List Char) (hne : l ≠ []) (hd : l.all isDigit = true) :
    parseUsize l = if digitsVal l < 2 ^ 64 then some (digitsVal l) else none := by
  cases l with
  | nil => exact absurd rfl hne
  | cons a r =>
    have ha : isDigit a = true := by simp [List.all_cons] at hd; exact hd.1
    have hp : a ≠ '+' := isDigit_not_plus a ha
    unfold parseUsize
    split
    · next r' heq => cases heq; exact absurd rfl hp
    · simp [hd]

/-- **numbers survive their cell**: an all-digit text that fits its cell is written with its leading zeros
removed (a lone `0` if nothing else remains) and the reader's `trim` + `parse::<usize>` reads the same number -/
theorem C03_cell_number_round_trip (w : Nat) (t : List Char) (hw : 0 < w) (hne : t ≠ [])
    (hl : t.length ≤ w) (hd : t.all isDigit = true) :
    parseUsize (trim (cell w t)) = parseUsize t := by
  unfold cell
  have h0 : ¬ w = 0 := by omega
  have hm : t.length - min w t.length = 0 := by omega
  rw [if_neg h0]
  simp only [hm, List.drop_zero, hd, if_true]
  have hsub : (t.dropWhile (· == '0')).all isDigit = true := by
    rw [List.all_eq_true] at hd ⊢
    intro c hc; exact hd c ((List.dropWhile_sublist _).subset hc)
  by_cases he : t.dropWhile (· == '0') = []
  · have hz : digitsVal t = 0 := by rw [← foldl_digits_zero, he]; rfl
    have : (!t.isEmpty && (List.dropWhile (fun x => x == '0') t).isEmpty) = true := by simp [hne, he]
    rw [if_pos this]
    have ht : trim ('0' :: List.replicate (w - 1) ' ') = ['0'] := by
      have := C03_trim_padded ['0'] (w - 1) (by intro c hc; cases hc; decide) (by intro c hc; cases hc; decide)
      simpa using this
    rw [ht, parseUsize_digits t hne hd, hz]; rfl
  · have : (!t.isEmpty && (List.dropWhile (fun x => x == '0') t).isEmpty) = false := by simp [he]
    rw [if_neg (by simp [this])]
    have hall := List.all_eq_true.mp hsub
    rw [C03_trim_padded _ _
      (by intro c hc; exact isDigit_not_ws c (hall c (List.mem_of_mem_head? hc)))
      (by intro c hc; exact isDigit_not_ws c (hall c (List.mem_of_mem_getLast? hc))),
      parseUsize_digits _ he hsub, parseUsize_digits t hne hd, foldl_digits_zero]

/-- the hypotheses are satisfiable: a serial number and an atom name -/
example : parseUsize (trim (cell 5 "00420".toList)) = some 420 ∧ trim (cell 4 "CA".toList) = "CA".toList := by
  decide

/-! ### whole numbers: digits written, digits read -/

theorem digitChar_isDigit (d : Nat) (h : d < 10) :
    isDigit (Char.ofNat (48 + d)) = true ∧ digitVal (Char.ofNat (48 + d)) = d := by
  have : d = 0 ∨ d = 1 ∨ d = 2 ∨ d = 3 ∨ d = 4 ∨ d = 5 ∨ d = 6 ∨ d = 7 ∨ d = 8 ∨ d = 9 := by omega
  rcases this with h | h | h | h | h | h | h | h | h | h <;> subst h <;> decide

theorem digitsVal_snoc (l : List Char) (c : Char) : digitsVal (l ++ [c]) = digitsVal l * 10 + digitVal c := by
  unfold digitsVal; rw [List.foldl_append]; rfl

theorem natDigits_spec (n : Nat) :
    natDigits n ≠ [] ∧ (natDigits n).all isDigit = true ∧ digitsVal (natDigits n) = n := by
  induction n using Nat.strongRecOn with
  | _ n ih =>
    rw [natDigits]
    split
    · next h =>
      have := digitChar_isDigit n h
      refine ⟨by simp, by simp [this.1], ?_⟩
      simp [digitsVal, this.2]
    · next h =>
      have h10 : n / 10 < n := by omega
      obtain ⟨_, hall, hval⟩ := ih _ h10
      have hd := digitChar_isDigit (n % 10) (by omega)
      refine ⟨by simp, ?_, ?_⟩
      · rw [List.all_append, hall]; simp [hd.1]
      · rw [digitsVal_snoc, hval, hd.2]; omega

theorem natDigits_length (w : Nat) : ∀ n, n < 10 ^ (w + 1) → (natDigits n).length ≤ w + 1 := by
  induction w with
  | zero =>
    intro n hn
    rw [natDigits, if_pos (by simpa using hn)]; simp
  | succ w ih =>
    intro n hn
    rw [natDigits]
    split
    · simp
    · have : n / 10 < 10 ^ (w + 1) := by
        rw [Nat.pow_succ] at hn
        omega
      have := ih _ this
      simp only [List.length_append, List.length_singleton]; omega

/-- **a whole number survives its field**: any number below `10^w` (and below 2^64), written with `to_string`
into a cell of width `w`, trimmed and parsed by the reader, is the same number (serial numbers, residue
numbers, counts) -/
theorem C03_nat_field_round_trip (w n : Nat) (hfit : n < 10 ^ (w + 1)) (hn : n < 2 ^ 64) :
    parseUsize (trim (cell (w + 1) (natDigits n))) = some n := by
  obtain ⟨hne, hall, hval⟩ := natDigits_spec n
  rw [C03_cell_number_round_trip (w + 1) (natDigits n) (Nat.succ_pos w) hne (natDigits_length w n hfit) hall,
    parseUsize_digits _ hne hall, hval, if_pos hn]

/-- the five-column serial number field -/
example (n : Nat) (h : n ≤ 99999) : parseUsize (trim (cell 5 (natDigits n))) = some n :=
  C03_nat_field_round_trip 4 n (by omega) (by omega)

/-! ### fixed-point numbers: `{:W.D}` written, `parse::<f64>` read -/

theorem foldl_digits_acc (b : List Char) (acc : Nat) :
    b.foldl (fun n c => n * 10 + digitVal c) acc = acc * 10 ^ b.length + b.foldl (fun n c => n * 10 + digitVal c) 0 := by
  induction b generalizing acc with
  | nil => simp
  | cons c r ih =>
    simp only [List.foldl_cons, List.length_cons]
    rw [ih (acc * 10 + digitVal c), ih (0 * 10 + digitVal c), Nat.pow_succ]
    simp only [Nat.zero_mul, Nat.zero_add, Nat.add_mul]
    rw [Nat.mul_assoc, Nat.mul_comm 10 (10 ^ r.length)]
    omega

theorem digitsVal_append (a b : List Char) : digitsVal (a ++ b) = digitsVal a * 10 ^ b.length + digitsVal b := by
  unfold digitsVal
  rw [List.foldl_append, foldl_digits_acc]

theorem digitsVal_zeros (k : Nat) (l : List Char) : digitsVal (List.replicate k '0' ++ l) = digitsVal l := by
  induction k with
  | zero => rfl
  | succ k ih =>
    rw [List.replicate_succ, List.cons_append]
    unfold digitsVal at ih ⊢
    simp only [List.foldl_cons]
    have : (0 * 10 + digitVal '0') = 0 := by decide
    rw [this]; exact ih

theorem span_stop {α : Type} (p : α → Bool) (l : List α) (x : α) (rest : List α)
    (hl : l.all p = true) (hx : p x = false) :
    (l ++ x :: rest).takeWhile p = l ∧ (l ++ x :: rest).dropWhile p = x :: rest := by
  induction l with
  | nil => simp [hx]
  | cons a r ih =>
    simp only [List.all_cons, Bool.and_eq_true] at hl
    have ih' := ih hl.2
    simp only [List.cons_append, List.takeWhile_cons, List.dropWhile_cons, hl.1, if_true]
    exact ⟨by rw [ih'.1], ih'.2⟩

theorem span_all {α : Type} (p : α → Bool) (l : List α) (hl : l.all p = true) :
    l.takeWhile p = l ∧ l.dropWhile p = [] := by
  induction l with
  | nil => simp
  | cons a r ih =>
    simp only [List.all_cons, Bool.and_eq_true] at hl
    have ih' := ih hl.2
    simp only [List.takeWhile_cons, List.dropWhile_cons, hl.1, if_true]
    exact ⟨by rw [ih'.1], ih'.2⟩

theorem digit_facts (d : Char) (h : isDigit d = true) :
    d ≠ '-' ∧ d ≠ '+' ∧ lowerAscii d ≠ 'i' ∧ lowerAscii d ≠ 'n' := by
  simp only [isDigit, Bool.and_eq_true, decide_eq_true_eq] at h
  have h1 : 48 ≤ d.toNat := by simpa using h.1
  have h2 : d.toNat ≤ 57 := by simpa using h.2
  have hl : lowerAscii d = d := by
    unfold lowerAscii
    rw [if_neg]
    intro hc
    have : 65 ≤ d.toNat := by simpa using hc.1
    omega
  rw [hl]
  refine ⟨?_, ?_, ?_, ?_⟩ <;> (intro hc; subst hc; revert h1 h2; decide)

/-- `parse::<f64>` of an unsigned decimal `digits.digits` -/
theorem parseF64_plain (ipd fpd : List Char) (hi0 : ipd ≠ []) (hi : ipd.all isDigit = true)
    (hf : fpd.all isDigit = true) :
    parseF64 (ipd ++ '.' :: fpd) = some (.fin (digitsVal (ipd ++ fpd) : Int) (-(fpd.length : Int))) := by
  obtain ⟨d, r, rfl⟩ : ∃ d r, ipd = d :: r := by
    cases ipd with
    | nil => exact absurd rfl hi0
    | cons d r => exact ⟨d, r, rfl⟩
  have hd : isDigit d = true := by simp only [List.all_cons, Bool.and_eq_true] at hi; exact hi.1
  obtain ⟨hm, hp, hli, hln⟩ := digit_facts d hd
  have hdot : isDigit '.' = false := by decide
  have hsp := span_stop isDigit (d :: r) '.' fpd hi hdot
  have hfp := span_all isDigit fpd hf
  unfold parseF64
  split
  · next neg body hmatch =>
    -- which branch of the sign match was taken
    split at hmatch
    · next r' heq => cases heq; exact absurd rfl hm
    · next r' heq => cases heq; exact absurd rfl hp
    · next r' =>
      cases hmatch
      simp only
      have hinf : (List.map lowerAscii (d :: r ++ '.' :: fpd) == "inf".toList) = false := by
        simp only [List.cons_append, List.map_cons]
        apply beq_false_of_ne
        intro hc
        have := (List.cons.inj hc).1
        exact hli this
      have hinf2 : (List.map lowerAscii (d :: r ++ '.' :: fpd) == "infinity".toList) = false := by
        simp only [List.cons_append, List.map_cons]
        apply beq_false_of_ne
        intro hc
        have := (List.cons.inj hc).1
        exact hli this
      have hnan : (List.map lowerAscii (d :: r ++ '.' :: fpd) == "nan".toList) = false := by
        simp only [List.cons_append, List.map_cons]
        apply beq_false_of_ne
        intro hc
        have := (List.cons.inj hc).1
        exact hln this
      simp only [hinf, hinf2, hnan, Bool.or_self, Bool.false_eq_true, if_false, hsp.1, hsp.2, hfp.1, hfp.2]
      simp

/-- … and of a negative one -/
theorem parseF64_minus (ipd fpd : List Char) (hi0 : ipd ≠ []) (hi : ipd.all isDigit = true)
    (hf : fpd.all isDigit = true) :
    parseF64 ('-' :: (ipd ++ '.' :: fpd)) = some (.fin (-1 * (digitsVal (ipd ++ fpd) : Int)) (-(fpd.length : Int))) := by
  obtain ⟨d, r, rfl⟩ : ∃ d r, ipd = d :: r := by
    cases ipd with
    | nil => exact absurd rfl hi0
    | cons d r => exact ⟨d, r, rfl⟩
  have hd : isDigit d = true := by simp only [List.all_cons, Bool.and_eq_true] at hi; exact hi.1
  obtain ⟨_, _, hli, hln⟩ := digit_facts d hd
  have hdot : isDigit '.' = false := by decide
  have hsp := span_stop isDigit (d :: r) '.' fpd hi hdot
  have hfp := span_all isDigit fpd hf
  unfold parseF64
  split
  · next neg body hmatch =>
    split at hmatch
    · next r' heq =>
      cases heq
      cases hmatch
      simp only
      have hinf : (List.map lowerAscii (d :: r ++ '.' :: fpd) == "inf".toList) = false := by
        simp only [List.cons_append, List.map_cons]
        apply beq_false_of_ne
        intro hc; exact hli (List.cons.inj hc).1
      have hinf2 : (List.map lowerAscii (d :: r ++ '.' :: fpd) == "infinity".toList) = false := by
        simp only [List.cons_append, List.map_cons]
        apply beq_false_of_ne
        intro hc; exact hli (List.cons.inj hc).1
      have hnan : (List.map lowerAscii (d :: r ++ '.' :: fpd) == "nan".toList) = false := by
        simp only [List.cons_append, List.map_cons]
        apply beq_false_of_ne
        intro hc; exact hln (List.cons.inj hc).1
      simp only [hinf, hinf2, hnan, Bool.or_self, Bool.false_eq_true, if_false, hsp.1, hsp.2, hfp.1, hfp.2]
      simp
    · next r' heq => cases heq
    · next r' hne1 hne2 => exact absurd rfl (hne1 _)

theorem trim_left_padded (s : List Char) (k : Nat)
    (hh : ∀ c, s.head? = some c → isRustWs c = false)
    (hl : ∀ c, s.getLast? = some c → isRustWs c = false) :
    trim (List.replicate k ' ' ++ s) = s := by
  unfold trim trimEnd trimStart
  rw [dropWhile_replicate_append isRustWs ' ' (by decide) k, dropWhile_head_neg isRustWs s hh,
    dropWhile_head_neg isRustWs s.reverse (by intro c hc; rw [List.head?_reverse] at hc; exact hl c hc),
    List.reverse_reverse]

/-- **a fixed-point number survives its field**: `format!("{:W.D}", v)` (1 ≤ D ≤ 6) of a value given in units
of 10⁻⁶, trimmed and parsed by the reader, is the decimal `± q · 10^-D` with `q` the magnitude rounded to `D`
decimals — the original rounded to its column's precision, whatever the width -/
theorem C03_fixed_field_round_trip (v : Int) (width dec : Nat) (hd : 1 ≤ dec) (hd6 : dec ≤ 6) :
    let q : Nat := (v.natAbs + 10 ^ (6 - dec) / 2) / 10 ^ (6 - dec)
    parseF64 (trim (fmtFixed v width dec)) =
      some (.fin (if v < 0 then -1 * (q : Int) else (q : Int)) (-(dec : Int))) := by
  intro q
  have hdec0 : ¬ dec = 0 := by omega
  obtain ⟨hine, hiall, hival⟩ := natDigits_spec (q / 10 ^ dec)
  obtain ⟨hfne, hfall, hfval⟩ := natDigits_spec (q % 10 ^ dec)
  have hflen : (natDigits (q % 10 ^ dec)).length ≤ dec := by
    obtain ⟨k, rfl⟩ : ∃ k, dec = k + 1 := ⟨dec - 1, by omega⟩
    exact natDigits_length k _ (Nat.mod_lt _ (Nat.pow_pos (by decide)))
  -- the digits after the point
  let fpd := List.replicate (dec - (natDigits (q % 10 ^ dec)).length) '0' ++ natDigits (q % 10 ^ dec)
  have hfpall : fpd.all isDigit = true := by
    show (List.replicate _ '0' ++ _).all isDigit = true
    rw [List.all_append, hfall, Bool.and_true, List.all_replicate]
    simp [show isDigit '0' = true by decide]
  have hfplen : fpd.length = dec := by
    show (List.replicate _ '0' ++ _).length = dec
    simp only [List.length_append, List.length_replicate]; omega
  have hval : digitsVal (natDigits (q / 10 ^ dec) ++ fpd) = q := by
    rw [digitsVal_append, hfplen, hival]
    show _ + digitsVal (List.replicate _ '0' ++ _) = q
    rw [digitsVal_zeros, hfval]
    exact Nat.div_add_mod' q (10 ^ dec)
  have hnw : ∀ c ∈ natDigits (q / 10 ^ dec) ++ '.' :: fpd, isRustWs c = false := by
    intro c hc
    simp only [List.mem_append, List.mem_cons] at hc
    rcases hc with hc | rfl | hc
    · exact isDigit_not_ws c (List.all_eq_true.mp hiall c hc)
    · decide
    · exact isDigit_not_ws c (List.all_eq_true.mp hfpall c hc)
  have hlast : ∀ c, (natDigits (q / 10 ^ dec) ++ '.' :: fpd).getLast? = some c → isRustWs c = false :=
    fun c hc => hnw c (List.mem_of_mem_getLast? hc)
  unfold fmtFixed
  simp only [hdec0, if_false]
  by_cases hneg : v < 0
  · simp only [hneg, if_true]
    rw [trim_left_padded _ _ (by intro c hc; cases hc; decide)
      (by
        intro c hc
        have hm := List.mem_of_mem_getLast? hc
        simp only [List.mem_cons] at hm
        rcases hm with rfl | hm
        · decide
        · exact hnw c hm)]
    rw [parseF64_minus _ fpd hine hiall hfpall, hval, hfplen]
  · simp only [hneg, if_false]
    rw [trim_left_padded _ _
      (fun c hc => hnw c (List.mem_of_mem_head? hc))
      hlast]
    rw [parseF64_plain _ fpd hine hiall hfpall, hval, hfplen]

end PdbModel
