/-
C03 — PDB write → read round trip (theorems about the writer model `PdbModel/PdbWrite.lean` and the reader's
field parsers).
-/
import PdbModel.PdbWrite
namespace PdbModel

/-- a zero-width cell copies its text -/
theorem C03_cell_copy (t : List Char) : cell 0 t = t := by simp [cell]

/-- every fixed-width cell has exactly its width (texts at most as long as the cell are padded, longer
ones keep their last characters) -/
theorem C03_cell_width (w : Nat) (t : List Char) (hw : 0 < w) : (cell w t).length = w := by
  unfold cell
  have h0 : ¬ w = 0 := by omega
  rw [if_neg h0]
  simp only
  have hc : (t.drop (t.length - min w t.length)).length ≤ w := by
    simp only [List.length_drop]; omega
  generalize t.drop (t.length - min w t.length) = c at hc
  have hd : (c.dropWhile (· == '0')).length ≤ w :=
    Nat.le_trans (List.Sublist.length_le (List.dropWhile_sublist _)) hc
  by_cases hdig : c.all isDigit = true
  · simp only [hdig, if_true]
    split
    · simp only [List.length_cons, List.length_replicate]; omega
    · simp only [List.length_append, List.length_replicate]; omega
  · simp only [hdig, Bool.false_eq_true, if_false]
    split
    · simp only [List.length_cons, List.length_replicate]; omega
    · simp only [List.length_append, List.length_replicate]; omega

/-! ### what the reader's `trim` + `parse` sees in a cell -/

theorem dropWhile_replicate_append (p : Char → Bool) (c : Char) (hc : p c = true) (k : Nat) (l : List Char) :
    (List.replicate k c ++ l).dropWhile p = l.dropWhile p := by
  induction k with
  | zero => simp
  | succ k ih => simp [List.replicate_succ, List.dropWhile_cons, hc, ih]

theorem dropWhile_head_neg (p : Char → Bool) (l : List Char)
    (h : ∀ c, l.head? = some c → p c = false) : l.dropWhile p = l := by
  cases l with
  | nil => rfl
  | cons a r => simp [List.dropWhile_cons, h a rfl]

/-- padding on the right disappears under the reader's `trim`, the text itself is untouched when it neither
starts nor ends with white space -/
theorem C03_trim_padded (t : List Char) (k : Nat)
    (hh : ∀ c, t.head? = some c → isRustWs c = false)
    (hl : ∀ c, t.getLast? = some c → isRustWs c = false) :
    trim (t ++ List.replicate k ' ') = t := by
  unfold trim trimEnd trimStart
  cases t with
  | nil =>
    have := dropWhile_replicate_append isRustWs ' ' (by decide) k []
    simp only [List.append_nil] at this
    simp [this]
  | cons a r =>
    have h1 : (a :: r ++ List.replicate k ' ').dropWhile isRustWs = a :: r ++ List.replicate k ' ' := by
      simp [hh a rfl]
    rw [h1, List.reverse_append, List.reverse_replicate,
      dropWhile_replicate_append isRustWs ' ' (by decide) k,
      dropWhile_head_neg isRustWs (a :: r).reverse (by intro c hc; rw [List.head?_reverse] at hc; exact hl c hc),
      List.reverse_reverse]

/-- **cells keep their text**: a text that fits its cell and is not an all-digit number with leading zeros is
written unchanged, left aligned, padded with blanks -/
theorem C03_cell_text (w : Nat) (t : List Char) (hw : 0 < w) (hl : t.length ≤ w)
    (hd : t.all isDigit = false) : cell w t = t ++ List.replicate (w - t.length) ' ' := by
  unfold cell
  have h0 : ¬ w = 0 := by omega
  have hm : t.length - min w t.length = 0 := by omega
  rw [if_neg h0]
  simp only [hm, List.drop_zero, hd, Bool.false_eq_true, if_false]
  have hne : t ≠ [] := by intro h; subst h; simp at hd
  simp [hne]

/-- … and the reader's `trim` gives exactly that text back -/
theorem C03_cell_text_round_trip (w : Nat) (t : List Char) (hw : 0 < w) (hl : t.length ≤ w)
    (hd : t.all isDigit = false)
    (hh : ∀ c, t.head? = some c → isRustWs c = false)
    (hla : ∀ c, t.getLast? = some c → isRustWs c = false) : trim (cell w t) = t := by
  rw [C03_cell_text w t hw hl hd, C03_trim_padded t _ hh hla]

theorem foldl_digits_zero (l : List Char) :
    digitsVal (l.dropWhile (· == '0')) = digitsVal l := by
  induction l with
  | nil => rfl
  | cons a r ih =>
    by_cases ha : a = '0'
    · subst ha
      simp only [List.dropWhile_cons, beq_self_eq_true, if_true, ih]
      simp [digitsVal, digitVal]
    · simp [List.dropWhile_cons, ha]

theorem isDigit_not_ws (c : Char) (h : isDigit c = true) : isRustWs c = false := by
  simp only [isDigit, Bool.and_eq_true, decide_eq_true_eq] at h
  have h1 : 48 ≤ c.toNat := by simpa using h.1
  have h2 : c.toNat ≤ 57 := by simpa using h.2
  simp only [isRustWs, Bool.or_eq_false_iff, Bool.and_eq_false_iff, decide_eq_false_iff_not, beq_eq_false_iff_ne]
  omega

theorem isDigit_not_plus (c : Char) (h : isDigit c = true) : c ≠ '+' := by
  intro hc; subst hc; simp [isDigit] at h

theorem parseUsize_digits (l : List Char) (hne : l ≠ []) (hd : l.all isDigit = true) :
    parseUsize l = if digitsVal l < 2 ^ 64 then some (digitsVal l) else none := by
  cases l with
  | nil => exact absurd rfl hne
  | cons a r =>
    have ha : isDigit a = true := by simp [List.all_cons] at hd; exact hd.1
    have hp : a ≠ '+' := isDigit_not_plus a ha
    unfold parseUsize
    split
    · next r' heq => cases heq; exact absurd rfl hp
    · simp [hd]

/-- **numbers survive their cell**: an all-digit text that fits its cell is written with its leading zeros
removed (a lone `0` if nothing else remains) and the reader's `trim` + `parse::<usize>` reads the same number -/
theorem C03_cell_number_round_trip (w : Nat) (t : List Char) (hw : 0 < w) (hne : t ≠ [])
    (hl : t.length ≤ w) (hd : t.all isDigit = true) :
    parseUsize (trim (cell w t)) = parseUsize t := by
  unfold cell
  have h0 : ¬ w = 0 := by omega
  have hm : t.length - min w t.length = 0 := by omega
  rw [if_neg h0]
  simp only [hm, List.drop_zero, hd, if_true]
  have hsub : (t.dropWhile (· == '0')).all isDigit = true := by
    rw [List.all_eq_true] at hd ⊢
    intro c hc; exact hd c ((List.dropWhile_sublist _).subset hc)
  by_cases he : t.dropWhile (· == '0') = []
  · have hz : digitsVal t = 0 := by rw [← foldl_digits_zero, he]; rfl
    have : (!t.isEmpty && (List.dropWhile (fun x => x == '0') t).isEmpty) = true := by simp [hne, he]
    rw [if_pos this]
    have ht : trim ('0' :: List.replicate (w - 1) ' ') = ['0'] := by
      have := C03_trim_padded ['0'] (w - 1) (by intro c hc; cases hc; decide) (by intro c hc; cases hc; decide)
      simpa using this
    rw [ht, parseUsize_digits t hne hd, hz]; rfl
  · have : (!t.isEmpty && (List.dropWhile (fun x => x == '0') t).isEmpty) = false := by simp [he]
    rw [if_neg (by simp [this])]
    have hall := List.all_eq_true.mp hsub
    rw [C03_trim_padded _ _
      (by intro c hc; exact isDigit_not_ws c (hall c (List.mem_of_mem_head? hc)))
      (by intro c hc; exact isDigit_not_ws c (hall c (List.mem_of_mem_getLast? hc))),
      parseUsize_digits _ he hsub, parseUsize_digits t hne hd, foldl_digits_zero]

/-- the hypotheses are satisfiable: a serial number and an atom name -/
example : parseUsize (trim (cell 5 "00420".toList)) = some 420 ∧ trim (cell 4 "CA".toList) = "CA".toList := by
  decide

end PdbModel
