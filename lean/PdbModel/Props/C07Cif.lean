/-
C07 on the mmCIF reader model: the strictness level takes part in nothing but the final gate.
-/
import PdbModel.CifRead
import PdbModel.Props.C07
namespace PdbModel

/-- **the level only gates**: structure, metadata and the complete diagnostics list of the mmCIF reader do not
depend on the strictness level -/
theorem C07_cif_level_only_gates (o : ReadOpts) (l : Strictness) (b : DataBlock) :
    readCifCore { o with level := l } b = readCifCore o b := rfl

/-- … so an input accepted at a stricter level is accepted, with the same result and the same diagnostics, at
every more lenient level -/
theorem C07_cif_accept_monotone (o : ReadOpts) (b : DataBlock) (f : PdbFile) (ds : List PDiag) :
    (readCifBlock { o with level := .strict } b = .ok f ds → readCifBlock { o with level := .medium } b = .ok f ds) ∧
    (readCifBlock { o with level := .medium } b = .ok f ds → readCifBlock { o with level := .loose } b = .ok f ds) := by
  have key : ∀ (l1 l2 : Strictness), (∀ e : ErrorLevel, e.fails l2 = true → e.fails l1 = true) →
      readCifBlock { o with level := l1 } b = .ok f ds → readCifBlock { o with level := l2 } b = .ok f ds := by
    intro l1 l2 hmono h
    unfold readCifBlock at h ⊢
    rw [C07_cif_level_only_gates] at h ⊢
    simp only at h ⊢
    split at h
    · cases h
    · next hno =>
      have hno2 : ((readCifCore o b).2.any fun e => e.level.fails l2) = false := by
        rw [List.any_eq_false]
        intro e he hf
        apply hno
        rw [List.any_eq_true]
        exact ⟨e, he, hmono _ hf⟩
      rw [if_neg (by simp [hno2])]
      exact h
  exact ⟨key .strict .medium (fun e h => by cases e <;> simp_all [ErrorLevel.fails]),
         key .medium .loose (fun e h => by cases e <;> simp_all [ErrorLevel.fails])⟩

end PdbModel
