/-
C02 — rows → hierarchy.  What a row does to the list of models is one of three things: nothing; make sure the model
with the row's number exists; or, on top of that, one `Model::add_atom` into that model.  For a loop whose rows all
state the same model number the result is therefore one model, built by a sequence of `Model::add_atom` calls in row
order — and by the grouping theorem of C08 that model holds one chain per chain id, one residue per (number,
insertion code), one conformer per (name, alternate location), each in order of first appearance, with the atoms in
row order under the identifiers of their rows.
-/
import PdbModel.Props.C02Atom
import PdbModel.Props.C08
namespace PdbModel

/-- the three things a row can do to the models -/
def RowModels (P : RawMOp → Prop) (n : Nat) (before after : List Model) : Prop :=
  after = before ∨ after = (rowModel before n).1 ∨
  ∃ op : RawMOp, P op ∧ after = placeIn (rowModel before n).1 (rowModel before n).2 op

/-- the `Model::add_atom` operation of a row: chain id and residue number with the author's cells preferred,
insertion code, residue name and alternate location from their cells, and an atom -/
def IsRowOp (vals : List (Option CifValue)) (op : RawMOp) : Prop :=
  ∃ (chain resName : List Char) (num : Int),
    ChainOf vals chain ∧ NumberOf vals num ∧ (colText ((vals[14]?).join)).val = some resName ∧
    op.1 = String.ofList chain ∧ op.2.1.1 = num ∧
    op.2.1.2 = (colText ((vals[17]?).join)).val.map String.ofList ∧
    op.2.2.1.1 = String.ofList resName ∧ op.2.2.1.2 = (colText ((vals[0]?).join)).val.map String.ofList ∧
    -- the atom is the one `Atom::new` builds from the row's cells, with the tensor cells attached when all are there
    ∃ (name id : List Char) (x y z : Flt) (a0 : Atom) (ex het : Bool) (cnt : Nat),
      (colText ((vals[19]?).join)).val = some name ∧ (colText ((vals[16]?).join)).val = some id ∧
      (colF64 ((vals[24]?).join)).val = some x ∧ (colF64 ((vals[25]?).join)).val = some y ∧
      (colF64 ((vals[26]?).join)).val = some z ∧
      atomNew het cnt id name x y z ((colF64 ((vals[20]?).join)).val.getD (fltInt 1))
        ((colF64 ((vals[12]?).join)).val.getD (fltInt 1)) ((colText ((vals[23]?).join)).val.getD [])
        ((colIsize ((vals[13]?).join)).val.getD 0) = some (a0, ex) ∧
      (op.2.2.2 = a0 ∨ ∃ t, op.2.2.2 = { a0 with atf := some t })

theorem placeAtom_models (s : AState) (mn : Nat) (at_ el : List Char) (c : RowCells) (o : RowOpt) :
    RowModels (fun op => op.1 = String.ofList c.chain ∧ op.2.1.1 = c.resNum ∧ op.2.1.2 = o.ins.map String.ofList ∧
        op.2.2.1.1 = String.ofList c.resName ∧ op.2.2.1.2 = o.alt.map String.ofList ∧
        ∃ (a0 : Atom) (ex het : Bool) (cnt : Nat),
          atomNew het cnt c.id c.name c.x c.y c.z o.occ o.b el o.charge = some (a0, ex) ∧
          (op.2.2.2 = a0 ∨ ∃ t, op.2.2.2 = { a0 with atf := some t }))
      mn s.models (placeAtom s mn at_ el c o).models := by
  unfold placeAtom
  simp only
  split
  · exact Or.inr (Or.inl rfl)
  · next atom0 ex hnew =>
    refine Or.inr (Or.inr ⟨_, ⟨rfl, rfl, rfl, rfl, rfl, atom0, ex, _, _, hnew, ?_⟩, rfl⟩)
    rcases withTensor_cases atom0 o.aniso with h | ⟨t, h⟩
    · exact Or.inl h
    · exact Or.inr ⟨t, h⟩

theorem placeRow_models (s : AState) (vals : List (Option CifValue)) (mn : Nat) (at_ el : List Char) (c : RowCells) :
    RowModels (fun op => op.1 = String.ofList c.chain ∧ op.2.1.1 = c.resNum ∧
        op.2.1.2 = (colText ((vals[17]?).join)).val.map String.ofList ∧
        op.2.2.1.1 = String.ofList c.resName ∧ op.2.2.1.2 = (colText ((vals[0]?).join)).val.map String.ofList ∧
        ∃ (a0 : Atom) (ex het : Bool) (cnt : Nat),
          atomNew het cnt c.id c.name c.x c.y c.z ((colF64 ((vals[20]?).join)).val.getD (fltInt 1))
            ((colF64 ((vals[12]?).join)).val.getD (fltInt 1)) el ((colIsize ((vals[13]?).join)).val.getD 0) = some (a0, ex) ∧
          (op.2.2.2 = a0 ∨ ∃ t, op.2.2.2 = { a0 with atf := some t }))
      mn s.models (placeRow s vals mn at_ el c).models := by
  unfold placeRow
  have hm := rowOptional_models s vals
  obtain ⟨halt, hins⟩ := rowOptional_ids s vals
  obtain ⟨hocc, hb, hch⟩ := rowOptional_values s vals
  rcases hro : rowOptional s vals with ⟨o, s'⟩
  rw [hro] at hm halt hins hocc hb hch
  simp only at hm halt hins hocc hb hch ⊢
  generalize ((prepareIdentifier c.chain).isNone || (prepareIdentifierUpper c.resName).isNone ||
      (match o.ins with | some ic => (prepareIdentifierUpper ic).isNone | none => false)) = bad
  cases bad
  · simp only [Bool.false_eq_true, if_false]
    have := placeAtom_models s' mn at_ el c o
    rw [hm, halt, hins, hocc, hb, hch] at this
    exact this
  · simp only [if_true]
    exact Or.inl hm

/-- the model number a row states (1 when the cell is absent or has no value) -/
def rowNumber (vals : List (Option CifValue)) : Nat := (colUsize ((vals[18]?).join)).val.getD 1

/-- **what a row does to the models**: nothing, the model of its number made sure of, or one `Model::add_atom` -/
theorem C02_row_models (olf : Bool) (s : AState) (vals : List (Option CifValue)) :
    RowModels (IsRowOp vals) (rowNumber vals) s.models (atomRowCore olf s vals).models := by
  unfold atomRowCore rowNumber
  simp only
  generalize hg : firstModelGate olf
      { s with errors := s.errors ++ (colUsize ((vals[18]?).join)).err,
               exact := s.exact && (colText ((vals[23]?).join)).exact && (colUsize ((vals[18]?).join)).exact }
      ((colUsize ((vals[18]?).join)).val.getD 1) = g
  have hgm : g.1.models = s.models := by
    rw [← hg]; unfold firstModelGate; split <;> (try split) <;> rfl
  rcases g with ⟨s1, skip⟩
  simp only at hgm ⊢
  cases skip
  · simp only [Bool.false_eq_true, if_false]
    generalize hs2 : ({ s1 with exact := s1.exact && (colText ((vals[15]?).join)).exact } : AState) = s2
    have h2 : s2.models = s.models := by rw [← hs2]; exact hgm
    have hm := rowCells_models s2 vals
    rcases hrc : rowCells s2 vals with ⟨_ | c, s3⟩
    · rw [hrc] at hm
      simp only at hm ⊢
      exact Or.inl (by rw [hm, h2])
    · rw [hrc] at hm
      simp only at hm ⊢
      have := placeRow_models s3 vals ((colUsize ((vals[18]?).join)).val.getD 1)
        ((colText ((vals[15]?).join)).val.getD "ATOM".toList) ((colText ((vals[23]?).join)).val.getD []) c
      rw [hm, h2] at this
      obtain ⟨hchain, hnum⟩ := rowCells_ids s2 s3 vals c hrc
      have hcells := rowCells_some s2 s3 vals c hrc
      rcases this with h | h | ⟨op, ⟨p1, p2, p3, p4, p5, a0, ex, het, cnt, hnew, hat⟩, h⟩
      · exact Or.inl h
      · exact Or.inr (Or.inl h)
      · exact Or.inr (Or.inr ⟨op, ⟨c.chain, c.resName, c.resNum, hchain, hnum, hcells.2.2.1, p1, p2, p3, p4, p5,
          c.name, c.id, c.x, c.y, c.z, a0, ex, het, cnt, hcells.1, hcells.2.1, hcells.2.2.2.1, hcells.2.2.2.2.1,
          hcells.2.2.2.2.2, hnew, hat⟩, h⟩)
  · simp only [if_true]
    exact Or.inl hgm

/-! ### a loop with one model number builds one model by `Model::add_atom` calls in row order -/

/-- nothing yet, or the one model with number `n` that a sequence of `Model::add_atom` calls built -/
def Built (P : RawMOp → Prop) (n : Nat) (ms : List Model) : Prop :=
  ms = [] ∨ ∃ (ops : List RawMOp) (m : Model), ms = [m] ∧ m.serial = n ∧ (∀ op ∈ ops, P op) ∧
    ops.foldlM Model.addAtom { serial := n, chains := [] } = some m

theorem addAtom_serial (m m' : Model) (o : RawMOp) (h : m.addAtom o = some m') : m'.serial = m.serial := by
  unfold Model.addAtom at h
  cases hn : normMOp o with
  | none => rw [hn] at h; cases h
  | some op => rw [hn] at h; simp only [Option.map, Option.some.injEq] at h; subst h; rfl

theorem rowModel_single (m : Model) (n : Nat) (h : m.serial = n) : rowModel [m] n = ([m], 0) := by
  unfold rowModel
  have : List.findIdx? (fun x : Model => x.serial == n) [m] = some 0 := by
    simp [List.findIdx?_cons, h]
  rw [this]

theorem rowModel_nil (n : Nat) : rowModel [] n = ([{ serial := n, chains := [] }], 0) := rfl

theorem placeIn_single (m : Model) (op : RawMOp) :
    placeIn [m] 0 op = [m] ∨ ∃ m', m.addAtom op = some m' ∧ placeIn [m] 0 op = [m'] := by
  unfold placeIn
  simp only [List.getElem?_cons_zero]
  cases h : m.addAtom op with
  | none => exact Or.inl rfl
  | some m' => exact Or.inr ⟨m', rfl, rfl⟩

theorem built_step (P : RawMOp → Prop) (n : Nat) (ms ms' : List Model) (hb : Built P n ms)
    (hr : RowModels P n ms ms') : Built P n ms' := by
  -- the model the row works on: the one there is, or a new empty one
  have hrm : ∃ (ops : List RawMOp) (m : Model), rowModel ms n = ([m], 0) ∧ m.serial = n ∧ (∀ op ∈ ops, P op) ∧
      ops.foldlM Model.addAtom { serial := n, chains := [] } = some m := by
    rcases hb with rfl | ⟨ops, m, rfl, hs, hp, hf⟩
    · exact ⟨[], _, rowModel_nil n, rfl, fun _ h => (by cases h), rfl⟩
    · exact ⟨ops, m, rowModel_single m n hs, hs, hp, hf⟩
  obtain ⟨ops, m, hrm, hs, hp, hf⟩ := hrm
  rcases hr with rfl | rfl | ⟨op, hop, rfl⟩
  · exact hb
  · rw [hrm]; exact Or.inr ⟨ops, m, rfl, hs, hp, hf⟩
  · rw [hrm]
    simp only
    rcases placeIn_single m op with h | ⟨m', hadd, h⟩
    · rw [h]; exact Or.inr ⟨ops, m, rfl, hs, hp, hf⟩
    · rw [h]
      refine Or.inr ⟨ops ++ [op], m', rfl, ?_, ?_, ?_⟩
      · rw [addAtom_serial m m' op hadd, hs]
      · intro x hx
        rcases List.mem_append.mp hx with hx | hx
        · exact hp x hx
        · simp only [List.mem_singleton] at hx; subst hx; exact hop
      · rw [List.foldlM_append, hf]
        simp only [List.foldlM_cons, List.foldlM_nil, bind, Option.bind, hadd, pure]

theorem rowModels_mono (P Q : RawMOp → Prop) (h : ∀ op, P op → Q op) (n : Nat) (a b : List Model)
    (hr : RowModels P n a b) : RowModels Q n a b := by
  rcases hr with h1 | h1 | ⟨op, hp, h1⟩
  · exact Or.inl h1
  · exact Or.inr (Or.inl h1)
  · exact Or.inr (Or.inr ⟨op, h op hp, h1⟩)

/-- an operation that some row of the loop states -/
def FromRows (header : List (List Char)) (rows : List (List CifValue)) (op : RawMOp) : Prop :=
  ∃ row ∈ rows, IsRowOp (rowVals header row) op

theorem built_rows (o : ReadOpts) (n : Nat) (header : List (List Char)) (all rows : List (List CifValue)) (s : AState)
    (hsub : ∀ row ∈ rows, row ∈ all)
    (hn : ∀ row ∈ rows, rowNumber (rowVals header row) = n) (hb : Built (FromRows header all) n s.models) :
    Built (FromRows header all) n
      (rows.foldl (fun (s : AState) (row : List CifValue) => atomRow o s (rowVals header row)) s).models := by
  induction rows generalizing s with
  | nil => exact hb
  | cons r rs ih =>
    simp only [List.foldl_cons]
    apply ih _ (fun row hr => hsub row (List.mem_cons_of_mem _ hr)) (fun row hr => hn row (List.mem_cons_of_mem _ hr))
    unfold atomRow
    split
    · exact hb
    · have := C02_row_models o.onlyFirstModel s (rowVals header r)
      rw [hn r (List.mem_cons_self ..)] at this
      exact built_step _ n _ _ hb (rowModels_mono _ _
        (fun op hop => ⟨r, hsub r (List.mem_cons_self ..), hop⟩) n _ _ this)

/-- a successful sequence of `Model::add_atom` calls had identifiers the structs accept -/
theorem foldlM_addAtom_norm (ops : List RawMOp) (m0 m : Model) (h : ops.foldlM Model.addAtom m0 = some m) :
    ∃ nops, ops.mapM normMOp = some nops := by
  induction ops generalizing m0 with
  | nil => exact ⟨[], rfl⟩
  | cons o os ih =>
    simp only [List.foldlM_cons, bind, Option.bind] at h
    cases ha : m0.addAtom o with
    | none => rw [ha] at h; cases h
    | some m1 =>
      rw [ha] at h
      obtain ⟨nos, hnos⟩ := ih m1 h
      unfold Model.addAtom at ha
      cases hn : normMOp o with
      | none => rw [hn] at ha; cases ha
      | some no => exact ⟨no :: nos, by simp [List.mapM_cons, hn, hnos]⟩

/-- **the rows of a loop with one model number are grouped as they state**: starting from an empty structure, the
atom_site loop yields no model at all (no row was placed) or exactly one model, with that number, whose chains are
the declarative grouping (C08: one chain per chain id, one residue per number and insertion code, one conformer per
name and alternate location, each in order of first appearance, atoms in row order under the identifiers of their
rows) of `Model::add_atom` operations each of which is stated by a row of the loop: its chain id and residue number are the
row's author cells when they have a value and the label cells otherwise, its insertion code, residue name and alternate
location are the row's cells (`IsRowOp`) -/
theorem C02_single_model_loop_is_grouped (o : ReadOpts) (n : Nat) (header : List (List Char))
    (rows : List (List CifValue)) (hn : ∀ row ∈ rows, rowNumber (rowVals header row) = n) :
    (parseAtoms o [] header rows).1 = [] ∨
    ∃ (ops : List RawMOp) (nops : List MOp), (∀ op ∈ ops, FromRows header rows op) ∧ ops.mapM normMOp = some nops ∧
      (parseAtoms o [] header rows).1 = [{ serial := n, chains := specChains nops }] := by
  unfold parseAtoms
  split
  · exact Or.inl rfl
  · simp only
    rcases built_rows o n header rows rows { models := [] } (fun _ h => h) hn (Or.inl rfl) with h | ⟨ops, m, hm, _, hp, hf⟩
    · exact Or.inl h
    · obtain ⟨nops, hnops⟩ := foldlM_addAtom_norm ops _ m hf
      refine Or.inr ⟨ops, nops, hp, hnops, ?_⟩
      rw [hm]
      have := C08_group_spec_model ops nops n hnops
      rw [hf] at this
      simp only [Option.some.injEq] at this
      rw [this]

/-! ### ... in row order, every row at most once -/

/-- `ops` are operations of some of the `rows`, one per row at most, in row order -/
inductive OpsOf (header : List (List Char)) : List (List CifValue) → List RawMOp → Prop
  | nil : OpsOf header [] []
  | skip (r : List CifValue) {rows : List (List CifValue)} {ops : List RawMOp} :
      OpsOf header rows ops → OpsOf header (r :: rows) ops
  | take (r : List CifValue) (op : RawMOp) {rows : List (List CifValue)} {ops : List RawMOp} :
      IsRowOp (rowVals header r) op → OpsOf header rows ops → OpsOf header (r :: rows) (op :: ops)

theorem opsOf_snoc_skip (header : List (List Char)) (rows : List (List CifValue)) (ops : List RawMOp) (r : List CifValue)
    (h : OpsOf header rows ops) : OpsOf header (rows ++ [r]) ops := by
  induction h with
  | nil => exact .skip r .nil
  | skip r' _ ih => exact .skip r' ih
  | take r' op hop _ ih => exact .take r' op hop ih

theorem opsOf_snoc_take (header : List (List Char)) (rows : List (List CifValue)) (ops : List RawMOp) (r : List CifValue)
    (op : RawMOp) (hop : IsRowOp (rowVals header r) op) (h : OpsOf header rows ops) :
    OpsOf header (rows ++ [r]) (ops ++ [op]) := by
  induction h with
  | nil => exact .take r op hop .nil
  | skip r' _ ih => exact .skip r' ih
  | take r' op' hop' _ ih => exact .take r' op' hop' ih

/-- nothing yet, or the one model built by the operations of the rows read so far -/
def BuiltBy (header : List (List Char)) (n : Nat) (done : List (List CifValue)) (ms : List Model) : Prop :=
  ms = [] ∨ ∃ (ops : List RawMOp) (m : Model), ms = [m] ∧ m.serial = n ∧ OpsOf header done ops ∧
    ops.foldlM Model.addAtom { serial := n, chains := [] } = some m

theorem builtBy_step (header : List (List Char)) (n : Nat) (done : List (List CifValue)) (r : List CifValue)
    (ms ms' : List Model) (hb : BuiltBy header n done ms) (hr : RowModels (IsRowOp (rowVals header r)) n ms ms') :
    BuiltBy header n (done ++ [r]) ms' := by
  have hrm : ∃ (ops : List RawMOp) (m : Model), rowModel ms n = ([m], 0) ∧ m.serial = n ∧ OpsOf header done ops ∧
      ops.foldlM Model.addAtom { serial := n, chains := [] } = some m := by
    rcases hb with rfl | ⟨ops, m, rfl, hs, hp, hf⟩
    · refine ⟨[], _, rowModel_nil n, rfl, ?_, rfl⟩
      -- no operation yet: every row read so far was skipped
      clear hr
      induction done with
      | nil => exact .nil
      | cons d ds ih => exact .skip d ih
    · exact ⟨ops, m, rowModel_single m n hs, hs, hp, hf⟩
  obtain ⟨ops, m, hrm, hs, hp, hf⟩ := hrm
  rcases hr with rfl | rfl | ⟨op, hop, rfl⟩
  · rcases hb with rfl | ⟨ops', m', rfl, hs', hp', hf'⟩
    · exact Or.inl rfl
    · exact Or.inr ⟨ops', m', rfl, hs', opsOf_snoc_skip header done ops' r hp', hf'⟩
  · rw [hrm]; exact Or.inr ⟨ops, m, rfl, hs, opsOf_snoc_skip header done ops r hp, hf⟩
  · rw [hrm]
    simp only
    rcases placeIn_single m op with h | ⟨m', hadd, h⟩
    · rw [h]; exact Or.inr ⟨ops, m, rfl, hs, opsOf_snoc_skip header done ops r hp, hf⟩
    · rw [h]
      refine Or.inr ⟨ops ++ [op], m', rfl, ?_, opsOf_snoc_take header done ops r op hop hp, ?_⟩
      · rw [addAtom_serial m m' op hadd, hs]
      · rw [List.foldlM_append, hf]
        simp only [List.foldlM_cons, List.foldlM_nil, bind, Option.bind, hadd, pure]

theorem builtBy_rows (o : ReadOpts) (n : Nat) (header : List (List Char)) (done rows : List (List CifValue)) (s : AState)
    (hn : ∀ row ∈ rows, rowNumber (rowVals header row) = n) (hb : BuiltBy header n done s.models) :
    BuiltBy header n (done ++ rows)
      (rows.foldl (fun (s : AState) (row : List CifValue) => atomRow o s (rowVals header row)) s).models := by
  induction rows generalizing s done with
  | nil => simpa using hb
  | cons r rs ih =>
    simp only [List.foldl_cons]
    have := ih (done ++ [r]) (atomRow o s (rowVals header r)) (fun row hr => hn row (List.mem_cons_of_mem _ hr)) (by
      unfold atomRow
      split
      · -- a discarded hydrogen row: skipped
        rcases hb with h | ⟨ops, m, hm, hs, hp, hf⟩
        · exact Or.inl h
        · exact Or.inr ⟨ops, m, hm, hs, opsOf_snoc_skip header done ops r hp, hf⟩
      · have hrow := C02_row_models o.onlyFirstModel s (rowVals header r)
        rw [hn r (List.mem_cons_self ..)] at hrow
        exact builtBy_step header n done r _ _ hb hrow)
    simpa [List.append_assoc] using this

/-- **the rows of a loop with one model number are grouped as they state, in row order**: the one model that comes
out is the C08 grouping of a sequence of `Model::add_atom` operations that runs parallel to the rows — each operation is
stated by its own row (`IsRowOp`: identifiers with the author's cells preferred, the atom built by `Atom::new` from the
row's cells), no row states two, and their order is the order of the rows -/
theorem C02_single_model_loop_in_row_order (o : ReadOpts) (n : Nat) (header : List (List Char))
    (rows : List (List CifValue)) (hn : ∀ row ∈ rows, rowNumber (rowVals header row) = n) :
    (parseAtoms o [] header rows).1 = [] ∨
    ∃ (ops : List RawMOp) (nops : List MOp), OpsOf header rows ops ∧ ops.mapM normMOp = some nops ∧
      (parseAtoms o [] header rows).1 = [{ serial := n, chains := specChains nops }] := by
  unfold parseAtoms
  split
  · exact Or.inl rfl
  · simp only
    rcases builtBy_rows o n header [] rows { models := [] } hn (Or.inl rfl) with h | ⟨ops, m, hm, _, hp, hf⟩
    · exact Or.inl h
    · obtain ⟨nops, hnops⟩ := foldlM_addAtom_norm ops _ m hf
      refine Or.inr ⟨ops, nops, by simpa using hp, hnops, ?_⟩
      rw [hm]
      have := C08_group_spec_model ops nops n hnops
      rw [hf] at this
      simp only [Option.some.injEq] at this
      rw [this]

/-- non-vacuity: the example row of `C02Atom` states model 1 and the operation (chain A, residue 1, ALA, no alternate
location) through its label cells, having no author cells; that it is placed is the example of `C02Atom` -/
example : rowNumber exampleRow = 1 := by decide +kernel
example : ChainOf exampleRow ['A'] ∧ NumberOf exampleRow 1 :=
  ⟨Or.inr ⟨by decide +kernel, by decide +kernel⟩, Or.inr ⟨by decide +kernel, 0, by decide +kernel⟩⟩

end PdbModel
