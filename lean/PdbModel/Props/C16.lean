/-
C16 — copies are observationally equal (bonds included); atom identities stay unique under every schedule.
-/
import PdbModel.Identity
namespace PdbModel

/-! ### identities -/

theorem runSchedule_ids (c : Nat) (sched : List Nat) :
    (runSchedule c sched).1.map (·.2) = List.range' c sched.length ∧ (runSchedule c sched).2 = c + sched.length := by
  induction sched generalizing c with
  | nil => simp [runSchedule]
  | cons t rest ih =>
    obtain ⟨h1, h2⟩ := ih (c + 1)
    simp only [runSchedule, fetchAdd, List.map_cons, List.length_cons, List.range'_succ, h1, h2]
    exact ⟨trivial, by omega⟩

/-- For every interleaving of any number of threads' creations and clones (a schedule is any list of thread
ids), the identities handed out are pairwise distinct, all at least the initial counter (so distinct from
every earlier atom, whose identity is below it), and the counter ends above all of them. -/
theorem C16_identities_distinct (c : Nat) (sched : List Nat) :
    ((runSchedule c sched).1.map (·.2)).Nodup ∧
    (∀ p ∈ (runSchedule c sched).1, c ≤ p.2 ∧ p.2 < (runSchedule c sched).2) := by
  obtain ⟨h1, h2⟩ := runSchedule_ids c sched
  refine ⟨by rw [h1]; exact List.nodup_range', ?_⟩
  intro p hp
  have : p.2 ∈ (runSchedule c sched).1.map (·.2) := List.mem_map.mpr ⟨p, hp, rfl⟩
  rw [h1, List.mem_range'_1] at this
  rw [h2]; omega

/-- atomicity is what the theorem rests on: with a separate load and store two threads obtain the same
identity under the schedule load₀ load₁ store₀ store₁ -/
theorem C16_racy_counter_duplicates :
    runRacy 7 (fun _ => 0) [(0, false), (1, false), (0, true), (1, true)] = [(0, 7), (1, 7)] := by decide

/-! ### bonds -/

theorem posOf_range' (c n i : Nat) (h : i < n) : posOf (List.range' c n) (c + i) = some i := by
  unfold posOf
  have : (List.range' c n).findIdx? (· == c + i) = some i := by
    rw [List.findIdx?_eq_some_iff_getElem]
    refine ⟨by simpa using h, by simp, ?_⟩
    intro j hj
    simp only [List.getElem_range', Nat.one_mul, beq_iff_eq]
    omega
  rw [this]

theorem posOf_lt (l : List Nat) (u i : Nat) (h : posOf l u = some i) : i < l.length := by
  unfold posOf at h
  cases hf : l.findIdx? (· == u) with
  | none => rw [hf] at h; cases h
  | some j =>
    rw [hf] at h; simp only [Option.some.injEq] at h; subst h
    exact (List.findIdx?_eq_some_iff_getElem.mp hf).1

theorem posOf_of_mem (l : List Nat) (u : Nat) (h : u ∈ l) : ∃ i, posOf l u = some i ∧ l[i]? = some u := by
  unfold posOf
  cases hf : l.findIdx? (· == u) with
  | none =>
    exfalso
    rw [List.findIdx?_eq_none_iff] at hf
    have := hf u h
    simp at this
  | some i =>
    obtain ⟨hi, hp, _⟩ := List.findIdx?_eq_some_iff_getElem.mp hf
    exact ⟨i, rfl, by rw [List.getElem?_eq_getElem hi]; simpa using hp⟩

theorem mapM_congr_mem {α β} (l : List α) (f g : α → Option β) (h : ∀ x ∈ l, f x = g x) : l.mapM f = l.mapM g := by
  induction l with
  | nil => rfl
  | cons x xs ih =>
    simp only [List.mapM_cons, h x (List.mem_cons_self ..), ih (fun y hy => h y (List.mem_cons_of_mem _ hy))]

/-- every bond end is the identity of an atom of the structure -/
def WellBonded (p : IPdb) : Prop := ∀ b ∈ p.bonds, b.1 ∈ p.uids ∧ b.2.1 ∈ p.uids

/-- listing bonds never fails on a structure whose bonds were created on its own atoms -/
theorem C16_bonds_never_fail (p : IPdb) (h : WellBonded p) : p.resolve.isSome = true := by
  unfold IPdb.resolve
  have : ∀ (bs : List (Nat × Nat × Nat)), (∀ b ∈ bs, b.1 ∈ p.uids ∧ b.2.1 ∈ p.uids) →
      (bs.mapM fun (x : Nat × Nat × Nat) => do
        let i ← posOf p.uids x.1
        let j ← posOf p.uids x.2.1
        pure (i, j, x.2.2)).isSome = true := by
    intro bs
    induction bs with
    | nil => intro _; rfl
    | cons b bs ih =>
      intro hb
      obtain ⟨h1, h2⟩ := hb b (List.mem_cons_self ..)
      obtain ⟨i, hi, _⟩ := posOf_of_mem _ _ h1
      obtain ⟨j, hj, _⟩ := posOf_of_mem _ _ h2
      have ih' := ih (fun x hx => hb x (List.mem_cons_of_mem _ hx))
      simp only [List.mapM_cons, hi, hj, Option.bind_eq_bind, Option.bind_some, Option.pure_def]
      cases hm : (bs.mapM fun (x : Nat × Nat × Nat) => do
        let i ← posOf p.uids x.1
        let j ← posOf p.uids x.2.1
        pure (i, j, x.2.2)) with
      | none => rw [hm] at ih'; cases ih'
      | some v => rfl
  exact this p.bonds h

/-- the bond list of a clone resolves to exactly the atoms (positions) the original's resolves to; the clone
is again well bonded, so listing its bonds does not fail either -/
theorem C16_clone_bonds (p : IPdb) (c : Nat) (h : WellBonded p) :
    (p.clone c).1.resolve = p.resolve ∧ WellBonded (p.clone c).1 ∧
    (p.clone c).1.bondsByPosition = p.bondsByPosition := by
  have remap_ok : ∀ u ∈ p.uids, ∃ i, posOf p.uids u = some i ∧
      posOf (List.range' c p.uids.length) (c + i) = some i ∧ c + i ∈ List.range' c p.uids.length := by
    intro u hu
    obtain ⟨i, hi, _⟩ := posOf_of_mem _ _ hu
    have hlt := posOf_lt _ _ _ hi
    exact ⟨i, hi, posOf_range' c _ i hlt, by rw [List.mem_range'_1]; omega⟩
  refine ⟨?_, ?_, ?_⟩
  · unfold IPdb.resolve IPdb.clone
    simp only [List.mapM_map]
    apply mapM_congr_mem
    intro b hb
    obtain ⟨a, b', k⟩ := b
    obtain ⟨h1, h2⟩ := h _ hb
    obtain ⟨i, hi, hi', _⟩ := remap_ok a h1
    obtain ⟨j, hj, hj', _⟩ := remap_ok b' h2
    simp only [Function.comp, hi, hj, hi', hj']
  · intro b hb
    unfold IPdb.clone at hb ⊢
    simp only [List.mem_map] at hb
    obtain ⟨⟨a, b', k⟩, hm, rfl⟩ := hb
    obtain ⟨h1, h2⟩ := h _ hm
    obtain ⟨i, hi, _, hi''⟩ := remap_ok a h1
    obtain ⟨j, hj, _, hj''⟩ := remap_ok b' h2
    simp only [hi, hj]
    exact ⟨hi'', hj''⟩
  · unfold IPdb.bondsByPosition IPdb.clone
    simp only [List.map_map]
    apply List.map_congr_left
    intro b hb
    obtain ⟨a, b', k⟩ := b
    obtain ⟨h1, h2⟩ := h _ hb
    obtain ⟨i, hi, hi', _⟩ := remap_ok a h1
    obtain ⟨j, hj, hj', _⟩ := remap_ok b' h2
    simp only [Function.comp, hi, hj, hi', hj']

/-- a bond added through a successful lookup records exactly the identities of those two atoms, so it
resolves to those two atoms; a failed lookup changes nothing -/
theorem C16_add_bond (p : IPdb) (i j : Option Nat) (k : Nat) (hw : WellBonded p) :
    ((p.addBond i j k).2 = false → (p.addBond i j k).1 = p) ∧
    ((p.addBond i j k).2 = true → ∃ a b, i.bind (p.uids[·]?) = some a ∧ j.bind (p.uids[·]?) = some b ∧
      (p.addBond i j k).1 = { p with bonds := p.bonds ++ [(a, b, k)] }) ∧
    WellBonded (p.addBond i j k).1 := by
  unfold IPdb.addBond
  cases ha : i.bind (p.uids[·]?) with
  | none => exact ⟨fun _ => rfl, fun h => (by cases h), hw⟩
  | some a =>
    cases hb : j.bind (p.uids[·]?) with
    | none => exact ⟨fun _ => rfl, fun h => (by cases h), hw⟩
    | some b =>
      refine ⟨fun h => (by cases h), fun _ => ⟨a, b, rfl, rfl, rfl⟩, ?_⟩
      intro x hx
      simp only [List.mem_append, List.mem_singleton] at hx
      rcases hx with hx | rfl
      · exact hw x hx
      · have ma : a ∈ p.uids := by
          cases i with
          | none => simp at ha
          | some i' => simp only [Option.bind_some] at ha; exact List.mem_of_getElem? ha
        have mb : b ∈ p.uids := by
          cases j with
          | none => simp at hb
          | some j' => simp only [Option.bind_some] at hb; exact List.mem_of_getElem? hb
        exact ⟨ma, mb⟩

/-- the copy made by a field-wise (derived) clone keeps the old identities in its bond table: listing its
bonds fails — the behaviour of the code before the repair -/
example : (IPdb.cloneVerbatim ⟨[0, 1], [(0, 1, 0)]⟩ 2).1.resolve = none ∧
    (IPdb.clone ⟨[0, 1], [(0, 1, 0)]⟩ 2).1.resolve = some [(0, 1, 0)] := by decide

/-- non-vacuity of `WellBonded` -/
example : WellBonded ⟨[5, 9, 11], [(9, 5, 1), (11, 11, 0)]⟩ := by
  intro b hb; simp at hb; rcases hb with rfl | rfl <;> simp

end PdbModel
