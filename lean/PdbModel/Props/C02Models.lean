/-
C02 — a loop with any model numbers.  Every model that comes out of the atom_site loop was built by `Model::add_atom`
operations stated by rows that carry its number, so (C08) it is the declarative grouping of those operations; and no two
models share a number.
-/
import PdbModel.Props.C02Group
namespace PdbModel

/-- an operation stated by a row of the loop that carries model number `n` -/
def FromRowsOf (header : List (List Char)) (rows : List (List CifValue)) (n : Nat) (op : RawMOp) : Prop :=
  ∃ row ∈ rows, rowNumber (rowVals header row) = n ∧ IsRowOp (rowVals header row) op

/-- every model was built from the empty model of its number by operations of rows with that number, and the numbers
are distinct -/
def AllBuilt (header : List (List Char)) (rows : List (List CifValue)) (ms : List Model) : Prop :=
  (ms.map (·.serial)).Nodup ∧
  ∀ m ∈ ms, ∃ ops : List RawMOp, (∀ op ∈ ops, FromRowsOf header rows m.serial op) ∧
    ops.foldlM Model.addAtom { serial := m.serial, chains := [] } = some m

theorem findIdx_some_spec (ms : List Model) (n i : Nat) (h : ms.findIdx? (·.serial == n) = some i) :
    ∃ m, ms[i]? = some m ∧ m.serial = n := by
  induction ms generalizing i with
  | nil => simp at h
  | cons a as ih =>
    simp only [List.findIdx?_cons] at h
    split at h
    · next ha =>
      simp only [Option.some.injEq] at h
      subst h
      exact ⟨a, rfl, by simpa using ha⟩
    · simp only [Option.map_eq_some_iff] at h
      obtain ⟨j, hj, rfl⟩ := h
      obtain ⟨m, hm, hs⟩ := ih j hj
      exact ⟨m, by simpa using hm, hs⟩

theorem findIdx_none_spec (ms : List Model) (n : Nat) (h : ms.findIdx? (·.serial == n) = none) :
    ∀ m ∈ ms, m.serial ≠ n := by
  intro m hm hs
  rw [List.findIdx?_eq_none_iff] at h
  have := h m hm
  simp [hs] at this

theorem allBuilt_rowModel (header : List (List Char)) (rows : List (List CifValue)) (ms : List Model) (n : Nat)
    (h : AllBuilt header rows ms) :
    AllBuilt header rows (rowModel ms n).1 ∧ ∃ m, (rowModel ms n).1[(rowModel ms n).2]? = some m ∧ m.serial = n := by
  unfold rowModel
  cases hf : ms.findIdx? (·.serial == n) with
  | some i =>
    obtain ⟨m, hm, hs⟩ := findIdx_some_spec ms n i hf
    exact ⟨h, m, hm, hs⟩
  | none =>
    have hne := findIdx_none_spec ms n hf
    refine ⟨⟨?_, ?_⟩, { serial := n, chains := [] }, by simp, rfl⟩
    · rw [List.map_append, List.nodup_append]
      refine ⟨h.1, by simp, ?_⟩
      intro a ha b hb
      simp only [List.map_cons, List.map_nil, List.mem_singleton] at hb
      obtain ⟨m, hm, rfl⟩ := List.mem_map.mp ha
      rw [hb]
      exact hne m hm
    · intro m hm
      rcases List.mem_append.mp hm with hm | hm
      · exact h.2 m hm
      · simp only [List.mem_singleton] at hm
        subst hm
        exact ⟨[], fun _ h => (by cases h), rfl⟩

theorem set_serials (ms : List Model) (i : Nat) (m m' : Model) (hm : ms[i]? = some m) (hs : m'.serial = m.serial) :
    (ms.set i m').map (·.serial) = ms.map (·.serial) := by
  induction ms generalizing i with
  | nil => rfl
  | cons a as ih =>
    cases i with
    | zero =>
      simp only [List.getElem?_cons_zero, Option.some.injEq] at hm
      subst hm
      simp [hs]
    | succ i =>
      simp only [List.getElem?_cons_succ] at hm
      simp only [List.set_cons_succ, List.map_cons, ih i hm]

theorem allBuilt_placeIn (header : List (List Char)) (rows : List (List CifValue)) (ms : List Model) (i : Nat) (op : RawMOp)
    (m : Model) (hm : ms[i]? = some m) (hop : FromRowsOf header rows m.serial op) (h : AllBuilt header rows ms) :
    AllBuilt header rows (placeIn ms i op) := by
  unfold placeIn
  rw [hm]
  simp only
  cases hadd : m.addAtom op with
  | none => exact h
  | some m' =>
    simp only
    have hser := addAtom_serial m m' op hadd
    refine ⟨by rw [set_serials ms i m m' hm hser]; exact h.1, ?_⟩
    intro x hx
    rcases List.mem_or_eq_of_mem_set hx with hx | rfl
    · exact h.2 x hx
    · obtain ⟨ops, hp, hf⟩ := h.2 m (List.mem_of_getElem? hm)
      refine ⟨ops ++ [op], ?_, ?_⟩
      · intro y hy
        rw [hser]
        rcases List.mem_append.mp hy with hy | hy
        · exact hp y hy
        · simp only [List.mem_singleton] at hy; subst hy; exact hop
      · rw [hser, List.foldlM_append, hf]
        simp only [List.foldlM_cons, List.foldlM_nil, bind, Option.bind, hadd, pure]

theorem allBuilt_step (header : List (List Char)) (rows : List (List CifValue)) (n : Nat) (ms ms' : List Model)
    (hb : AllBuilt header rows ms) (hr : RowModels (FromRowsOf header rows n) n ms ms') : AllBuilt header rows ms' := by
  obtain ⟨hrm, m, hm, hs⟩ := allBuilt_rowModel header rows ms n hb
  rcases hr with rfl | rfl | ⟨op, hop, rfl⟩
  · exact hb
  · exact hrm
  · exact allBuilt_placeIn header rows _ _ op m hm (hs ▸ hop) hrm

theorem allBuilt_rows (o : ReadOpts) (header : List (List Char)) (all rows : List (List CifValue)) (s : AState)
    (hsub : ∀ row ∈ rows, row ∈ all) (hb : AllBuilt header all s.models) :
    AllBuilt header all
      (rows.foldl (fun (s : AState) (row : List CifValue) => atomRow o s (rowVals header row)) s).models := by
  induction rows generalizing s with
  | nil => exact hb
  | cons r rs ih =>
    simp only [List.foldl_cons]
    apply ih _ (fun row hr => hsub row (List.mem_cons_of_mem _ hr))
    unfold atomRow
    split
    · exact hb
    · have := C02_row_models o.onlyFirstModel s (rowVals header r)
      exact allBuilt_step header all _ _ _ hb (rowModels_mono _ _
        (fun op hop => ⟨r, hsub r (List.mem_cons_self ..), rfl, hop⟩) _ _ _ this)

/-- **every model of the loop is grouped as its rows state**: reading an atom_site loop into an empty structure gives
models with pairwise distinct numbers, each of them the declarative grouping of C08 (one chain per chain id, one residue
per number and insertion code, one conformer per name and alternate location, in order of first appearance, atoms in
insertion order) of `Model::add_atom` operations every one of which is stated by a row that carries the model's number -/
theorem C02_loop_models_are_grouped (o : ReadOpts) (header : List (List Char)) (rows : List (List CifValue)) :
    (((parseAtoms o [] header rows).1).map (·.serial)).Nodup ∧
    ∀ m ∈ (parseAtoms o [] header rows).1, ∃ (ops : List RawMOp) (nops : List MOp),
      (∀ op ∈ ops, FromRowsOf header rows m.serial op) ∧ ops.mapM normMOp = some nops ∧
      m = { serial := m.serial, chains := specChains nops } := by
  have key : AllBuilt header rows (parseAtoms o [] header rows).1 := by
    unfold parseAtoms
    split
    · exact ⟨List.nodup_nil, fun _ h => (by cases h)⟩
    · exact allBuilt_rows o header rows rows { models := [] } (fun _ h => h) ⟨List.nodup_nil, fun _ h => (by cases h)⟩
  refine ⟨key.1, ?_⟩
  intro m hm
  obtain ⟨ops, hp, hf⟩ := key.2 m hm
  obtain ⟨nops, hnops⟩ := foldlM_addAtom_norm ops _ m hf
  refine ⟨ops, nops, hp, hnops, ?_⟩
  have := C08_group_spec_model ops nops m.serial hnops
  rw [hf] at this
  simp only [Option.some.injEq] at this
  exact this

end PdbModel
