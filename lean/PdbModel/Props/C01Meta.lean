/-
C01 — the metadata records populate the corresponding metadata.  REMARK: the remarks of the structure are exactly the
REMARK records of the text that `add_remark` accepts (a known remark type number, printable text), in the order of the
text.  HEADER: the identifier is the identifier field of the last HEADER record.  (Read without only-first-model, which
stops reading at the second MODEL record.)
-/
import PdbModel.PdbRead
namespace PdbModel

/-- the remark a line contributes: it is lexed as a REMARK record with a known type number and valid text -/
def remarkOf (o : ReadOpts) (il : Nat × List Char) : Option (Nat × String) :=
  match lexLine il.2 (il.1 + 1) o.level o.onlyAtomicCoords with
  | .ok (.remark num text, _) => if Gen.remarkTypes.contains num && validText text then some (num, String.ofList text) else none
  | _ => none

/-- the identifier a line states: it is lexed as a HEADER record -/
def headerOf (o : ReadOpts) (il : Nat × List Char) : Option String :=
  match lexLine il.2 (il.1 + 1) o.level o.onlyAtomicCoords with
  | .ok (.header id, _) => some (String.ofList id)
  | _ => none

theorem flushModel_info (s : PState) : (flushModel s).info = s.info ∧ (flushModel s).stopped = s.stopped := by
  unfold flushModel; split <;> exact ⟨rfl, rfl⟩

/-- without only-first-model nothing stops the reading -/
theorem stepItem_stopped (o : ReadOpts) (ho : o.onlyFirstModel = false) (s : PState) (ctx : Nat × List Char) (item : LexItem) :
    (stepItem o s ctx item).1.stopped = s.stopped := by
  obtain ⟨_, hfs⟩ := flushModel_info s
  cases item
  case atom => simp only [stepItem]; (repeat' split) <;> rfl
  all_goals first
    | (simp only [stepItem, ho, Bool.false_eq_true, if_false]; done)
    | (simp only [stepItem, ho, Bool.false_eq_true, if_false]; (repeat' split) <;> first | rfl | exact hfs)

/-- only a REMARK record touches the remarks: it appends itself when `add_remark` accepts it -/
theorem stepItem_remarks (o : ReadOpts) (s : PState) (ctx : Nat × List Char) (item : LexItem) :
    (stepItem o s ctx item).1.info.remarks = s.info.remarks ++
      (match item with
       | .remark num text => if Gen.remarkTypes.contains num && validText text then [(num, String.ofList text)] else []
       | _ => []) := by
  obtain ⟨hfi, _⟩ := flushModel_info s
  cases item
  case atom => simp only [stepItem]; (repeat' split) <;> simp
  case remark num text => simp only [stepItem]; split <;> simp
  all_goals first
    | (simp only [stepItem, List.append_nil]; done)
    | (simp only [stepItem, List.append_nil]; (repeat' split) <;> first | rfl | (rw [hfi]; done) | (simp [hfi]; done))

/-- only a HEADER record touches the identifier -/
theorem stepItem_identifier (o : ReadOpts) (s : PState) (ctx : Nat × List Char) (item : LexItem) :
    (stepItem o s ctx item).1.info.identifier =
      (match item with | .header id => some (String.ofList id) | _ => s.info.identifier) := by
  obtain ⟨hfi, _⟩ := flushModel_info s
  cases item
  case atom => simp only [stepItem]; (repeat' split) <;> rfl
  all_goals first
    | (simp only [stepItem]; done)
    | (simp only [stepItem]; (repeat' split) <;> first | rfl | (rw [hfi]; done) | (simp [hfi]; done))

/-- one line: the remarks grow by the remark the line states, the identifier becomes the one it states (if any), and
the reading goes on -/
theorem stepLine_meta (o : ReadOpts) (ho : o.onlyFirstModel = false) (s : PState) (il : Nat × List Char)
    (hs : s.stopped = false) :
    (stepLine o s (il.1 + 1) il.2).stopped = false ∧
    (stepLine o s (il.1 + 1) il.2).info.remarks = s.info.remarks ++ (remarkOf o il).toList ∧
    (stepLine o s (il.1 + 1) il.2).info.identifier = ((headerOf o il).or s.info.identifier) := by
  unfold stepLine remarkOf headerOf
  rw [if_neg (by simp [hs])]
  cases hl : lexLine il.2 (il.1 + 1) o.level o.onlyAtomicCoords with
  | error e => exact ⟨hs, by simp, by simp⟩
  | ok p =>
    obtain ⟨item, errs⟩ := p
    have h1 := stepItem_stopped o ho { s with errors := [] } (il.1 + 1, il.2) item
    have h2 := stepItem_remarks o { s with errors := [] } (il.1 + 1, il.2) item
    have h3 := stepItem_identifier o { s with errors := [] } (il.1 + 1, il.2) item
    refine ⟨h1.trans hs, ?_, ?_⟩
    · show (stepItem o { s with errors := [] } (il.1 + 1, il.2) item).1.info.remarks = _
      rw [h2]
      cases item <;> first | rfl | (simp only; split <;> rfl)
    · show (stepItem o { s with errors := [] } (il.1 + 1, il.2) item).1.info.identifier = _
      rw [h3]
      cases item <;> rfl

theorem fold_meta (o : ReadOpts) (ho : o.onlyFirstModel = false) (zl : List (Nat × List Char)) (s : PState)
    (hs : s.stopped = false) :
    (zl.foldl (fun s (il : Nat × List Char) => stepLine o s (il.1 + 1) il.2) s).info.remarks =
      s.info.remarks ++ zl.filterMap (remarkOf o) ∧
    (zl.foldl (fun s (il : Nat × List Char) => stepLine o s (il.1 + 1) il.2) s).info.identifier =
      ((zl.reverse.findSome? (headerOf o)).or s.info.identifier) := by
  induction zl generalizing s with
  | nil => exact ⟨by simp, by simp⟩
  | cons x xs ih =>
    obtain ⟨h1, h2, h3⟩ := stepLine_meta o ho s x hs
    obtain ⟨i1, i2⟩ := ih (stepLine o s (x.1 + 1) x.2) h1
    simp only [List.foldl_cons]
    refine ⟨?_, ?_⟩
    · rw [i1, h2, List.filterMap_cons]
      cases remarkOf o x <;> simp
    · rw [i2, h3, List.reverse_cons, List.findSome?_append]
      cases hx : List.findSome? (headerOf o) xs.reverse with
      | some v => simp
      | none =>
        cases hh : headerOf o x with
        | none => simp [hh]
        | some v => simp [hh]

/-- **the remarks of the structure are the accepted REMARK records of the text, in order; its identifier is the
identifier field of the last HEADER record** (reading without only-first-model) -/
theorem C01_remarks_and_identifier (o : ReadOpts) (ho : o.onlyFirstModel = false) (lines : List (List Char)) :
    (readPdbCore o lines).1.info.remarks = ((List.range lines.length).zip lines).filterMap (remarkOf o) ∧
    (readPdbCore o lines).1.info.identifier = ((List.range lines.length).zip lines).reverse.findSome? (headerOf o) := by
  obtain ⟨h1, h2⟩ := fold_meta o ho ((List.range lines.length).zip lines) ({} : PState) rfl
  obtain ⟨hfi, _⟩ := flushModel_info (((List.range lines.length).zip lines).foldl
    (fun s (il : Nat × List Char) => stepLine o s (il.1 + 1) il.2) ({} : PState))
  unfold readPdbCore
  simp only
  rw [hfi, h1, h2]
  exact ⟨by simp, by simp⟩

/-! ### CRYST1 → unit cell -/

def cellOf (o : ReadOpts) (il : Nat × List Char) : Option (List Flt) :=
  match lexLine il.2 (il.1 + 1) o.level o.onlyAtomicCoords with
  | .ok (.crystal a b c al be ga _, _) => some [a, b, c, al, be, ga]
  | _ => none

theorem stepItem_cell (o : ReadOpts) (s : PState) (ctx : Nat × List Char) (item : LexItem) :
    (stepItem o s ctx item).1.info.cell =
      (match item with | .crystal a b c al be ga _ => some [a, b, c, al, be, ga] | _ => s.info.cell) := by
  obtain ⟨hfi, _⟩ := flushModel_info s
  cases item
  case atom => simp only [stepItem]; (repeat' split) <;> rfl
  all_goals first
    | (simp only [stepItem]; done)
    | (simp only [stepItem]; (repeat' split) <;> first | rfl | (rw [hfi]; done) | (simp [hfi]; done))

theorem stepLine_cell (o : ReadOpts) (s : PState) (il : Nat × List Char) (hs : s.stopped = false) :
    (stepLine o s (il.1 + 1) il.2).info.cell = ((cellOf o il).or s.info.cell) := by
  unfold stepLine cellOf
  rw [if_neg (by simp [hs])]
  cases hl : lexLine il.2 (il.1 + 1) o.level o.onlyAtomicCoords with
  | error e => simp
  | ok p =>
    obtain ⟨item, errs⟩ := p
    have h3 := stepItem_cell o { s with errors := [] } (il.1 + 1, il.2) item
    show (stepItem o { s with errors := [] } (il.1 + 1, il.2) item).1.info.cell = _
    rw [h3]
    cases item <;> rfl

/-- **the unit cell of the structure is the one of the last CRYST1 record** (reading without only-first-model) -/
theorem C01_cell_is_the_last_cryst1 (o : ReadOpts) (ho : o.onlyFirstModel = false) (lines : List (List Char)) :
    (readPdbCore o lines).1.info.cell = ((List.range lines.length).zip lines).reverse.findSome? (cellOf o) := by
  have key : ∀ (zl : List (Nat × List Char)) (s : PState), s.stopped = false →
      (zl.foldl (fun s (il : Nat × List Char) => stepLine o s (il.1 + 1) il.2) s).info.cell =
        ((zl.reverse.findSome? (cellOf o)).or s.info.cell) := by
    intro zl
    induction zl with
    | nil => intro s _; simp
    | cons x xs ih =>
      intro s hs
      have h1 := (stepLine_meta o ho s x hs).1
      simp only [List.foldl_cons]
      rw [ih _ h1, stepLine_cell o s x hs, List.reverse_cons, List.findSome?_append]
      cases hx : List.findSome? (cellOf o) xs.reverse with
      | some v => simp
      | none =>
        cases hh : cellOf o x with
        | none => simp [hh]
        | some v => simp [hh]
  obtain ⟨hfi, _⟩ := flushModel_info (((List.range lines.length).zip lines).foldl
    (fun s (il : Nat × List Char) => stepLine o s (il.1 + 1) il.2) ({} : PState))
  unfold readPdbCore
  simp only
  rw [hfi, key _ _ rfl]
  simp

/-! ### CRYST1 → space group -/

def symOf (o : ReadOpts) (il : Nat × List Char) : Option Nat :=
  match lexLine il.2 (il.1 + 1) o.level o.onlyAtomicCoords with
  | .ok (.crystal _ _ _ _ _ _ sg, _) => symmetryNew (sg.map Char.toNat)
  | _ => none

theorem stepItem_symmetry (o : ReadOpts) (s : PState) (ctx : Nat × List Char) (item : LexItem) :
    (stepItem o s ctx item).1.info.symmetry =
      (match item with | .crystal _ _ _ _ _ _ sg => (symmetryNew (sg.map Char.toNat)).or s.info.symmetry | _ => s.info.symmetry) := by
  obtain ⟨hfi, _⟩ := flushModel_info s
  cases item
  case atom => simp only [stepItem]; (repeat' split) <;> rfl
  case crystal a b c al be ga sg =>
    simp only [stepItem]
    cases hs : symmetryNew (sg.map Char.toNat) <;> simp
  all_goals first
    | (simp only [stepItem]; done)
    | (simp only [stepItem]; (repeat' split) <;> first | rfl | (rw [hfi]; done) | (simp [hfi]; done))

theorem stepLine_symmetry (o : ReadOpts) (s : PState) (il : Nat × List Char) (hs : s.stopped = false) :
    (stepLine o s (il.1 + 1) il.2).info.symmetry = ((symOf o il).or s.info.symmetry) := by
  unfold stepLine symOf
  rw [if_neg (by simp [hs])]
  cases hl : lexLine il.2 (il.1 + 1) o.level o.onlyAtomicCoords with
  | error e => simp
  | ok p =>
    obtain ⟨item, errs⟩ := p
    have h3 := stepItem_symmetry o { s with errors := [] } (il.1 + 1, il.2) item
    show (stepItem o { s with errors := [] } (il.1 + 1, il.2) item).1.info.symmetry = _
    rw [h3]
    cases item <;> rfl

/-- **the space group of the structure is the group of the last CRYST1 record whose symbol is a known Hermann-Mauguin
or Hall symbol** (reading without only-first-model) -/
theorem C01_symmetry_is_the_last_known_group (o : ReadOpts) (ho : o.onlyFirstModel = false) (lines : List (List Char)) :
    (readPdbCore o lines).1.info.symmetry = ((List.range lines.length).zip lines).reverse.findSome? (symOf o) := by
  have key : ∀ (zl : List (Nat × List Char)) (s : PState), s.stopped = false →
      (zl.foldl (fun s (il : Nat × List Char) => stepLine o s (il.1 + 1) il.2) s).info.symmetry =
        ((zl.reverse.findSome? (symOf o)).or s.info.symmetry) := by
    intro zl
    induction zl with
    | nil => intro s _; simp
    | cons x xs ih =>
      intro s hs
      have h1 := (stepLine_meta o ho s x hs).1
      simp only [List.foldl_cons]
      rw [ih _ h1, stepLine_symmetry o s x hs, List.reverse_cons, List.findSome?_append]
      cases hx : List.findSome? (symOf o) xs.reverse with
      | some v => simp
      | none =>
        cases hh : symOf o x with
        | none => simp [hh]
        | some v => simp [hh]
  obtain ⟨hfi, _⟩ := flushModel_info (((List.range lines.length).zip lines).foldl
    (fun s (il : Nat × List Char) => stepLine o s (il.1 + 1) il.2) ({} : PState))
  unfold readPdbCore
  simp only
  rw [hfi, key _ _ rfl]
  simp

/-! ### SCALEn / ORIGXn → the two transformation matrices -/

def scaleOf (o : ReadOpts) (il : Nat × List Char) : Option (Nat × List Flt) :=
  match lexLine il.2 (il.1 + 1) o.level o.onlyAtomicCoords with
  | .ok (.scale r v, _) => some (r, v)
  | _ => none

def origxOf (o : ReadOpts) (il : Nat × List Char) : Option (Nat × List Flt) :=
  match lexLine il.2 (il.1 + 1) o.level o.onlyAtomicCoords with
  | .ok (.origx r v, _) => some (r, v)
  | _ => none

/-- the rows after a list of row records: each record overwrites its own row -/
def rowsAfter (rows : List (Option (List Flt))) (recs : List (Nat × List Flt)) : List (Option (List Flt)) :=
  recs.foldl (fun rows rv => setRow rows rv.1 rv.2) rows

theorem flushModel_rows (s : PState) : (flushModel s).scale = s.scale ∧ (flushModel s).origx = s.origx := by
  unfold flushModel; split <;> (try split) <;> exact ⟨rfl, rfl⟩

theorem stepItem_rows (o : ReadOpts) (s : PState) (ctx : Nat × List Char) (item : LexItem) :
    (stepItem o s ctx item).1.scale = (match item with | .scale r v => setRow s.scale r v | _ => s.scale) ∧
    (stepItem o s ctx item).1.origx = (match item with | .origx r v => setRow s.origx r v | _ => s.origx) := by
  obtain ⟨hf1, hf2⟩ := flushModel_rows s
  cases item
  case atom => simp only [stepItem]; (repeat' split) <;> exact ⟨rfl, rfl⟩
  all_goals first
    | (simp only [stepItem]; exact ⟨rfl, rfl⟩)
    | (simp only [stepItem]; (repeat' split) <;> first | exact ⟨rfl, rfl⟩ | exact ⟨hf1, hf2⟩ | (simp [hf1, hf2]; done))

theorem stepLine_rows (o : ReadOpts) (s : PState) (il : Nat × List Char) (hs : s.stopped = false) :
    (stepLine o s (il.1 + 1) il.2).scale = rowsAfter s.scale (scaleOf o il).toList ∧
    (stepLine o s (il.1 + 1) il.2).origx = rowsAfter s.origx (origxOf o il).toList := by
  unfold stepLine scaleOf origxOf rowsAfter
  rw [if_neg (by simp [hs])]
  cases hl : lexLine il.2 (il.1 + 1) o.level o.onlyAtomicCoords with
  | error e => simp
  | ok p =>
    obtain ⟨item, errs⟩ := p
    have h3 := stepItem_rows o { s with errors := [] } (il.1 + 1, il.2) item
    show (stepItem o { s with errors := [] } (il.1 + 1, il.2) item).1.scale = _ ∧
      (stepItem o { s with errors := [] } (il.1 + 1, il.2) item).1.origx = _
    rw [h3.1, h3.2]
    cases item <;> exact ⟨rfl, rfl⟩

/-- **the SCALE and ORIGX matrices of the structure are built from the SCALEn / ORIGXn records alone**: each record
overwrites the row it names, in file order, and a matrix is present exactly when all three rows were given
(reading without only-first-model) -/
theorem C01_scale_and_origx_from_their_records (o : ReadOpts) (ho : o.onlyFirstModel = false) (lines : List (List Char)) :
    (readPdbCore o lines).1.info.scale =
      rowsFull (rowsAfter [none, none, none] (((List.range lines.length).zip lines).filterMap (scaleOf o))) ∧
    (readPdbCore o lines).1.info.origx =
      rowsFull (rowsAfter [none, none, none] (((List.range lines.length).zip lines).filterMap (origxOf o))) := by
  have key : ∀ (zl : List (Nat × List Char)) (s : PState), s.stopped = false →
      (zl.foldl (fun s (il : Nat × List Char) => stepLine o s (il.1 + 1) il.2) s).scale =
        rowsAfter s.scale (zl.filterMap (scaleOf o)) ∧
      (zl.foldl (fun s (il : Nat × List Char) => stepLine o s (il.1 + 1) il.2) s).origx =
        rowsAfter s.origx (zl.filterMap (origxOf o)) := by
    intro zl
    induction zl with
    | nil => intro s _; exact ⟨rfl, rfl⟩
    | cons x xs ih =>
      intro s hs
      have h1 := (stepLine_meta o ho s x hs).1
      obtain ⟨ha, hb⟩ := stepLine_rows o s x hs
      obtain ⟨ia, ib⟩ := ih _ h1
      simp only [List.foldl_cons]
      rw [ia, ib, ha, hb]
      constructor
      · cases hh : scaleOf o x <;> simp [hh, rowsAfter]
      · cases hh : origxOf o x <;> simp [hh, rowsAfter]
  obtain ⟨hf1, hf2⟩ := flushModel_rows (((List.range lines.length).zip lines).foldl
    (fun s (il : Nat × List Char) => stepLine o s (il.1 + 1) il.2) ({} : PState))
  obtain ⟨ka, kb⟩ := key ((List.range lines.length).zip lines) ({} : PState) rfl
  unfold readPdbCore
  simp only
  rw [hf1, hf2, ka, kb]
  constructor
  · show (match rowsFull _ with | some m => _ | none => _ : Option (List Flt) × List PDiag).1 = _
    split <;> simp_all
  · show (match rowsFull _ with | some m => _ | none => _ : Option (List Flt) × List PDiag).1 = _
    split <;> simp_all

/-! ### MTRIXn → the non-crystallographic transformations -/

def mtrixOf (o : ReadOpts) (il : Nat × List Char) : Option (Nat × Nat × List Flt × Bool) :=
  match lexLine il.2 (il.1 + 1) o.level o.onlyAtomicCoords with
  | .ok (.mtrix r ser v given, _) => some (r, ser, v, given)
  | _ => none

/-- one MTRIXn record: the row of the transformation with its serial number is overwritten (and its "given" flag
replaced), an unseen serial number opens a new transformation at the end -/
def mtrixStep (ms : List (Nat × List (Option (List Flt)) × Bool)) (rec : Nat × Nat × List Flt × Bool) :
    List (Nat × List (Option (List Flt)) × Bool) :=
  match ms.findIdx? (·.1 == rec.2.1) with
  | some i => ms.modify i fun (k, rows, _) => (k, setRow rows rec.1 rec.2.2.1, rec.2.2.2)
  | none => ms ++ [(rec.2.1, setRow [none, none, none] rec.1 rec.2.2.1, rec.2.2.2)]

theorem flushModel_mtrix (s : PState) : (flushModel s).mtrix = s.mtrix := by
  unfold flushModel; split <;> (try split) <;> rfl

theorem stepItem_mtrix (o : ReadOpts) (s : PState) (ctx : Nat × List Char) (item : LexItem) :
    (stepItem o s ctx item).1.mtrix =
      (match item with | .mtrix r ser v given => mtrixStep s.mtrix (r, ser, v, given) | _ => s.mtrix) := by
  have hf := flushModel_mtrix s
  cases item
  case atom => simp only [stepItem]; (repeat' split) <;> rfl
  case mtrix r ser v given =>
    simp only [stepItem, mtrixStep]
    split
    next i h => rw [h]
    next h => rw [h]
  all_goals first
    | (simp only [stepItem]; done)
    | (simp only [stepItem]; (repeat' split) <;> first | rfl | exact hf | (simp [hf]; done))

theorem stepLine_mtrix (o : ReadOpts) (s : PState) (il : Nat × List Char) (hs : s.stopped = false) :
    (stepLine o s (il.1 + 1) il.2).mtrix = (mtrixOf o il).toList.foldl mtrixStep s.mtrix := by
  unfold stepLine mtrixOf
  rw [if_neg (by simp [hs])]
  cases hl : lexLine il.2 (il.1 + 1) o.level o.onlyAtomicCoords with
  | error e => simp
  | ok p =>
    obtain ⟨item, errs⟩ := p
    have h3 := stepItem_mtrix o { s with errors := [] } (il.1 + 1, il.2) item
    show (stepItem o { s with errors := [] } (il.1 + 1, il.2) item).1.mtrix = _
    rw [h3]
    cases item <;> rfl

/-- **the MTRIX transformations of the structure come from the MTRIXn records alone**: the complete ones (all three
rows given) among the transformations the records build up, in order of first appearance of their serial numbers
(reading without only-first-model) -/
theorem C01_mtrix_from_their_records (o : ReadOpts) (ho : o.onlyFirstModel = false) (lines : List (List Char)) :
    (readPdbCore o lines).1.info.mtrix =
      ((((List.range lines.length).zip lines).filterMap (mtrixOf o)).foldl mtrixStep []).filterMap
        (fun m => (rowsFull m.2.1).map fun v => (m.1, v, m.2.2)) := by
  have key : ∀ (zl : List (Nat × List Char)) (s : PState), s.stopped = false →
      (zl.foldl (fun s (il : Nat × List Char) => stepLine o s (il.1 + 1) il.2) s).mtrix =
        (zl.filterMap (mtrixOf o)).foldl mtrixStep s.mtrix := by
    intro zl
    induction zl with
    | nil => intro s _; rfl
    | cons x xs ih =>
      intro s hs
      have h1 := (stepLine_meta o ho s x hs).1
      simp only [List.foldl_cons]
      rw [ih _ h1, stepLine_mtrix o s x hs]
      cases hh : mtrixOf o x <;> simp [hh]
  have acc : ∀ (ms : List (Nat × List (Option (List Flt)) × Bool)) (a : List (Nat × List Flt × Bool) × List PDiag),
      (ms.foldl (fun (acc : List (Nat × List Flt × Bool) × List PDiag) (m : Nat × List (Option (List Flt)) × Bool) =>
        match rowsFull m.2.1 with
        | some v => (acc.1 ++ [(m.1, v, m.2.2)], acc.2)
        | none => (acc.1, acc.2 ++ [PDiag.mk .strictWarning "Invalid MATRIX definition" []])) a).1 =
      a.1 ++ ms.filterMap (fun m => (rowsFull m.2.1).map fun v => (m.1, v, m.2.2)) := by
    intro ms
    induction ms with
    | nil => intro a; simp
    | cons m ms ih =>
      intro a
      simp only [List.foldl_cons]
      rw [ih]
      cases hr : rowsFull m.2.1 <;> simp [hr]
  have hf := flushModel_mtrix (((List.range lines.length).zip lines).foldl
    (fun s (il : Nat × List Char) => stepLine o s (il.1 + 1) il.2) ({} : PState))
  have k := key ((List.range lines.length).zip lines) ({} : PState) rfl
  unfold readPdbCore
  simp only
  rw [hf, k]
  exact (acc _ _).trans (by simp)

/-! ### MODRES → the modification list handed to `add_modifications` -/

def modresOf (o : ReadOpts) (il : Nat × List Char) : Option ((Nat × List Char) × LexItem) :=
  match lexLine il.2 (il.1 + 1) o.level o.onlyAtomicCoords with
  | .ok (.modres a b c d e f, _) => some ((il.1 + 1, il.2), .modres a b c d e f)
  | _ => none

theorem flushModel_modifications (s : PState) : (flushModel s).modifications = s.modifications := by
  unfold flushModel; split <;> (try split) <;> rfl

theorem stepItem_modifications (o : ReadOpts) (s : PState) (ctx : Nat × List Char) (item : LexItem) :
    (stepItem o s ctx item).1.modifications =
      (match item with | .modres .. => s.modifications ++ [(ctx, item)] | _ => s.modifications) := by
  have hf := flushModel_modifications s
  cases item
  case atom => simp only [stepItem]; (repeat' split) <;> rfl
  all_goals first
    | (simp only [stepItem]; done)
    | (simp only [stepItem]; (repeat' split) <;> first | rfl | exact hf | (simp [hf]; done))

theorem stepLine_modifications (o : ReadOpts) (s : PState) (il : Nat × List Char) (hs : s.stopped = false) :
    (stepLine o s (il.1 + 1) il.2).modifications = s.modifications ++ (modresOf o il).toList := by
  unfold stepLine modresOf
  rw [if_neg (by simp [hs])]
  cases hl : lexLine il.2 (il.1 + 1) o.level o.onlyAtomicCoords with
  | error e => simp
  | ok p =>
    obtain ⟨item, errs⟩ := p
    have h3 := stepItem_modifications o { s with errors := [] } (il.1 + 1, il.2) item
    show (stepItem o { s with errors := [] } (il.1 + 1, il.2) item).1.modifications = _
    rw [h3]
    cases item <;> simp

/-- **the residue modifications applied after reading are exactly the MODRES records, each with the line it stands
on, in file order** (reading without only-first-model): what the fold hands to `addModifications` -/
theorem fold_modifications_are_the_modres_records (o : ReadOpts) (ho : o.onlyFirstModel = false) (lines : List (List Char)) :
    (flushModel (((List.range lines.length).zip lines).foldl
      (fun s (il : Nat × List Char) => stepLine o s (il.1 + 1) il.2) ({} : PState))).modifications =
      ((List.range lines.length).zip lines).filterMap (modresOf o) := by
  have key : ∀ (zl : List (Nat × List Char)) (s : PState), s.stopped = false →
      (zl.foldl (fun s (il : Nat × List Char) => stepLine o s (il.1 + 1) il.2) s).modifications =
        s.modifications ++ zl.filterMap (modresOf o) := by
    intro zl
    induction zl with
    | nil => intro s _; simp
    | cons x xs ih =>
      intro s hs
      have h1 := (stepLine_meta o ho s x hs).1
      simp only [List.foldl_cons]
      rw [ih _ h1, stepLine_modifications o s x hs]
      cases hh : modresOf o x <;> simp [hh]
  rw [flushModel_modifications, key _ _ rfl]
  simp

end PdbModel
