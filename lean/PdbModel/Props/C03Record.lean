/-
C03 — the ATOM / HETATM record: what the writer model puts into the numeric columns, the lexer model reads back.
(Column slicing lemmas for ASCII lines + the field round trips of `Props/C03.lean`.)
-/
import PdbModel.PdbWrite
import PdbModel.PdbLex
import PdbModel.Props.C03
namespace PdbModel

/-- every character is one byte -/
def Ascii (l : List Char) : Prop := ∀ c ∈ l, utf8Len c = 1

theorem ascii_append {a b : List Char} : Ascii (a ++ b) ↔ Ascii a ∧ Ascii b := by
  unfold Ascii
  constructor
  · intro h; exact ⟨fun c hc => h c (by simp [hc]), fun c hc => h c (by simp [hc])⟩
  · rintro ⟨h1, h2⟩ c hc
    rw [List.mem_append] at hc
    rcases hc with hc | hc
    · exact h1 c hc
    · exact h2 c hc

theorem byteLen_ge_length (l : List Char) : l.length ≤ byteLen l := by
  unfold byteLen
  induction l with
  | nil => simp
  | cons c r ih =>
    simp only [List.map_cons, List.sum_cons, List.length_cons]
    have : 1 ≤ utf8Len c := by unfold utf8Len; simp only; split <;> (try split) <;> (try split) <;> omega
    omega

theorem dropBytes_ascii (pre rest : List Char) (h : Ascii pre) : dropBytes (pre ++ rest) pre.length = some rest := by
  induction pre with
  | nil => cases rest <;> rfl
  | cons c r ih =>
    have hc : utf8Len c = 1 := h c (by simp)
    have hr : Ascii r := fun x hx => h x (by simp [hx])
    simp only [List.cons_append, List.length_cons, dropBytes, hc]
    rw [if_pos (by omega)]
    simpa using ih hr

theorem takeBytes_ascii (c post : List Char) (h : Ascii c) : takeBytes (c ++ post) c.length = some c := by
  induction c with
  | nil => cases post <;> rfl
  | cons x r ih =>
    have hx : utf8Len x = 1 := h x (by simp)
    have hr : Ascii r := fun y hy => h y (by simp [hy])
    simp only [List.cons_append, List.length_cons, takeBytes, hx]
    rw [if_pos (by omega)]
    have := ih hr
    simp only [Nat.add_sub_cancel] at this ⊢
    rw [this]; rfl

/-- **column slicing**: in a line whose first `a` characters are ASCII, the bytes `a .. a + |c|` are the cell
`c` that was written there -/
theorem getBytes_cell (pre c post : List Char) (hp : Ascii pre) (hc : Ascii c) :
    getBytes (pre ++ c ++ post) pre.length (pre.length + c.length) = some c := by
  unfold getBytes
  rw [if_pos (by omega), List.append_assoc, dropBytes_ascii pre (c ++ post) hp]
  simp only [Option.bind_some, Nat.add_sub_cancel_left]
  exact takeBytes_ascii c post hc

/-- a field lexer applied to such a line sees exactly the trimmed cell -/
theorem fieldW_cell {α : Type} (p : List Char → Option α) (dflt : α) (ln : Nat) (pre c post : List Char)
    (hp : Ascii pre) (hc : Ascii c) (v : α) (hv : p (trim c) = some v) :
    fieldW p dflt ln (pre ++ c ++ post) pre.length (pre.length + c.length) = (v, []) := by
  unfold fieldW
  have hlen : ¬ byteLen (pre ++ c ++ post) < pre.length + c.length := by
    have := byteLen_ge_length (pre ++ c ++ post)
    simp only [List.length_append] at this
    omega
  rw [if_neg hlen, getBytes_cell pre c post hp hc]
  simp only [Option.bind_some, hv]

/-! ASCII-ness of what the writer produces -/

theorem ascii_of_small (l : List Char) (h : ∀ c ∈ l, c.toNat < 128) : Ascii l := by
  intro c hc
  have := h c hc
  unfold utf8Len
  simp only
  rw [if_pos this]

theorem ascii_replicate (k : Nat) (c : Char) (h : utf8Len c = 1) : Ascii (List.replicate k c) := by
  intro x hx
  rw [List.mem_replicate] at hx
  rw [hx.2]; exact h

theorem isDigit_ascii (c : Char) (h : isDigit c = true) : utf8Len c = 1 := by
  simp only [isDigit, Bool.and_eq_true, decide_eq_true_eq] at h
  have h2 : c.toNat ≤ 57 := by simpa using h.2
  unfold utf8Len
  simp only
  rw [if_pos (by omega)]

theorem ascii_natDigits (n : Nat) : Ascii (natDigits n) := by
  obtain ⟨_, hall, _⟩ := natDigits_spec n
  intro c hc
  exact isDigit_ascii c (List.all_eq_true.mp hall c hc)

theorem ascii_cell (w : Nat) (t : List Char) (h : Ascii t) : Ascii (cell w t) := by
  unfold cell
  split
  · exact h
  · simp only
    have hdrop : Ascii (t.drop (t.length - min w t.length)) := fun c hc => h c (List.mem_of_mem_drop hc)
    generalize t.drop (t.length - min w t.length) = d at hdrop
    have hdw : Ascii (d.dropWhile (· == '0')) := fun c hc => hdrop c ((List.dropWhile_sublist _).subset hc)
    have hsp := ascii_replicate
    split
    · split
      · intro c hc
        simp only [List.mem_cons] at hc
        rcases hc with rfl | hc
        · decide
        · exact ascii_replicate _ ' ' (by decide) c hc
      · exact ascii_append.mpr ⟨hdw, ascii_replicate _ ' ' (by decide)⟩
    · split
      · intro c hc
        simp only [List.mem_cons] at hc
        rcases hc with rfl | hc
        · decide
        · exact ascii_replicate _ ' ' (by decide) c hc
      · exact ascii_append.mpr ⟨hdrop, ascii_replicate _ ' ' (by decide)⟩

theorem ascii_fmtFixed (v : Int) (w d : Nat) : Ascii (fmtFixed v w d) := by
  unfold fmtFixed
  simp only
  have hbody : ∀ (q p : Nat), Ascii (natDigits (q / p) ++
      (if d = 0 then [] else '.' :: (List.replicate (d - (natDigits (q % p)).length) '0' ++ natDigits (q % p)))) := by
    intro q p
    refine ascii_append.mpr ⟨ascii_natDigits _, ?_⟩
    split
    · intro c hc; cases hc
    · intro c hc
      simp only [List.mem_cons, List.mem_append] at hc
      rcases hc with rfl | hc | hc
      · decide
      · exact ascii_replicate _ '0' (by decide) c hc
      · exact ascii_natDigits _ c hc
  refine ascii_append.mpr ⟨ascii_replicate _ ' ' (by decide), ?_⟩
  split
  · intro c hc
    simp only [List.mem_cons] at hc
    rcases hc with rfl | hc
    · decide
    · exact hbody _ _ c hc
  · exact hbody _ _

/-! the ATOM / HETATM record -/

/-- identifiers of the atom's place in the hierarchy are ASCII (what `valid_identifier` guarantees) -/
def AsciiIds (a : Atom) (c : Conformer) (r : Residue) (ch : Chain) : Prop :=
  Ascii a.name.toList ∧ Ascii (c.alt.getD " ").toList ∧ Ascii c.name.toList ∧ Ascii ch.id.toList ∧
  Ascii (r.icode.getD " ").toList

theorem ascii_intText (i : Int) : Ascii (intText i) := by
  unfold intText
  split
  · intro c hc
    simp only [List.mem_cons] at hc
    rcases hc with rfl | hc
    · decide
    · exact ascii_natDigits _ c hc
  · exact ascii_natDigits _

theorem ascii_S (s : String) (h : Ascii s.toList) : Ascii (S s) := h

theorem atomLinePrefix_spec (a : Atom) (c : Conformer) (r : Residue) (ch : Chain) (h : AsciiIds a c r ch) :
    (atomLinePrefix a c r ch).length = 21 ∧ Ascii (atomLinePrefix a c r ch) := by
  obtain ⟨h1, h2, h3, h4, h5⟩ := h
  unfold atomLinePrefix getLine
  simp only [List.flatMap_cons, List.flatMap_nil, List.append_nil]
  refine ⟨?_, ?_⟩
  · simp only [List.length_append, C03_cell_width _ _ (by decide : 0 < 5), C03_cell_width _ _ (by decide : 0 < 4),
      C03_cell_width _ _ (by decide : 0 < 1), C03_cell_copy]
    rfl
  · refine ascii_append.mpr ⟨ascii_cell _ _ (ascii_natDigits _), ascii_append.mpr ⟨?_, ascii_append.mpr ⟨ascii_cell _ _ h1,
      ascii_append.mpr ⟨ascii_cell _ _ h2, ascii_append.mpr ⟨ascii_cell _ _ h3, ascii_append.mpr ⟨ascii_cell _ _ h4,
      ascii_append.mpr ⟨ascii_cell _ _ (ascii_intText _), ascii_cell _ _ h5⟩⟩⟩⟩⟩⟩⟩
    rw [C03_cell_copy]; intro x hx; cases hx with | head => decide | tail _ h => cases h

theorem cell_fixed (v : Int) (w d : Nat) (hw : 0 < w) (hd : 1 ≤ d) (hfit : (fmtFixed v w d).length = w) :
    cell w (fmtFixed v w d) = fmtFixed v w d := by
  have hnd : (fmtFixed v w d).all isDigit = false := by
    rw [List.all_eq_false]
    refine ⟨'.', ?_, by decide⟩
    unfold fmtFixed
    have : ¬ d = 0 := by omega
    simp only [this, if_false]
    split <;> simp
  rw [C03_cell_text w _ hw (by omega) hnd, hfit, Nat.sub_self]
  simp

/-- the value the reader obtains from a fixed-point column: the original rounded to `d` decimals -/
def roundedTo (v : Int) (d : Nat) : Flt :=
  let q : Nat := (v.natAbs + 10 ^ (6 - d) / 2) / 10 ^ (6 - d)
  .fin (if v < 0 then -1 * (q : Int) else (q : Int)) (-(d : Int))

/-- **the numeric columns of an ATOM / HETATM record**: for an atom whose coordinates, occupancy and B factor
fit their columns (what `validate_pdb` checks), the record written at any writer level is lexed back with
x, y, z rounded to three and occupancy, B factor rounded to two decimals, without a diagnostic -/
theorem C03_atom_record_numbers (lvl : Strictness) (ln : Nat) (a : Atom) (c : Conformer) (r : Residue) (ch : Chain)
    (hids : AsciiIds a c r ch)
    (hx : (fmtFixed a.x 8 3).length = 8) (hy : (fmtFixed a.y 8 3).length = 8) (hz : (fmtFixed a.z 8 3).length = 8)
    (ho : (fmtFixed a.occ 6 2).length = 6) (hb : (fmtFixed a.b 6 2).length = 6) :
    let line := atomLine lvl a c r ch
    fF64 ln line 30 38 = (roundedTo a.x 3, []) ∧ fF64 ln line 38 46 = (roundedTo a.y 3, []) ∧
    fF64 ln line 46 54 = (roundedTo a.z 3, []) ∧
    fieldW parseF64 (.fin 1 0) ln line 54 60 = (roundedTo a.occ 2, []) ∧ fF64 ln line 60 66 = (roundedTo a.b 2, []) := by
  intro line
  obtain ⟨hplen, hpascii⟩ := atomLinePrefix_spec a c r ch hids
  -- the line as a concatenation of cells
  have hpl : ∀ fields, ∃ pad, printLine lvl fields = getLine fields ++ pad := by
    intro f
    unfold printLine
    simp only
    split
    · exact ⟨_, rfl⟩
    · exact ⟨[], by simp⟩
  obtain ⟨pad, hpad⟩ := hpl [(6, if a.hetero then S "HETATM" else S "ATOM  "), (0, atomLinePrefix a c r ch), (0, S "   "),
    (8, fmtFixed a.x 8 3), (8, fmtFixed a.y 8 3), (8, fmtFixed a.z 8 3), (6, fmtFixed a.occ 6 2), (6, fmtFixed a.b 6 2),
    (0, S "          "), (2, elementSymbol a.element), (0, pdbCharge a.charge)]
  have hline : line =
      (cell 6 (if a.hetero then S "HETATM" else S "ATOM  ") ++ atomLinePrefix a c r ch ++ S "   ") ++
      fmtFixed a.x 8 3 ++ fmtFixed a.y 8 3 ++ fmtFixed a.z 8 3 ++ fmtFixed a.occ 6 2 ++ fmtFixed a.b 6 2 ++
      (S "          " ++ cell 2 (elementSymbol a.element) ++ pdbCharge a.charge ++ pad) := by
    show atomLine lvl a c r ch = _
    unfold atomLine
    rw [hpad]
    unfold getLine
    simp only [List.flatMap_cons, List.flatMap_nil, C03_cell_copy,
      cell_fixed a.x 8 3 (by decide) (by decide) hx, cell_fixed a.y 8 3 (by decide) (by decide) hy,
      cell_fixed a.z 8 3 (by decide) (by decide) hz, cell_fixed a.occ 6 2 (by decide) (by decide) ho,
      cell_fixed a.b 6 2 (by decide) (by decide) hb, List.append_assoc, List.append_nil]
  generalize (S "          " ++ cell 2 (elementSymbol a.element) ++ pdbCharge a.charge ++ pad) = tail at hline
  have hP : (cell 6 (if a.hetero then S "HETATM" else S "ATOM  ") ++ atomLinePrefix a c r ch ++ S "   ").length = 30 := by
    simp only [List.length_append, C03_cell_width _ _ (by decide : 0 < 6), hplen]; rfl
  have hPa : Ascii (cell 6 (if a.hetero then S "HETATM" else S "ATOM  ") ++ atomLinePrefix a c r ch ++ S "   ") := by
    refine ascii_append.mpr ⟨ascii_append.mpr ⟨ascii_cell _ _ ?_, hpascii⟩, ?_⟩
    · split <;> (intro x hx; revert x; decide)
    · intro x hx; revert x; decide
  generalize cell 6 (if a.hetero then S "HETATM" else S "ATOM  ") ++ atomLinePrefix a c r ch ++ S "   " = P at hline hP hPa
  have rt := fun (v : Int) (w d : Nat) (h1 : 1 ≤ d) (h6 : d ≤ 6) => C03_fixed_field_round_trip v w d h1 h6
  rw [hline]
  refine ⟨?_, ?_, ?_, ?_, ?_⟩
  · have := fieldW_cell parseF64 (.fin 0 0) ln P (fmtFixed a.x 8 3)
      (fmtFixed a.y 8 3 ++ fmtFixed a.z 8 3 ++ fmtFixed a.occ 6 2 ++ fmtFixed a.b 6 2 ++ tail) hPa (ascii_fmtFixed _ _ _)
      (roundedTo a.x 3) (rt a.x 8 3 (by decide) (by decide))
    rw [hP, hx] at this
    simpa [fF64, List.append_assoc] using this
  · have := fieldW_cell parseF64 (.fin 0 0) ln (P ++ fmtFixed a.x 8 3) (fmtFixed a.y 8 3)
      (fmtFixed a.z 8 3 ++ fmtFixed a.occ 6 2 ++ fmtFixed a.b 6 2 ++ tail)
      (ascii_append.mpr ⟨hPa, ascii_fmtFixed _ _ _⟩) (ascii_fmtFixed _ _ _)
      (roundedTo a.y 3) (rt a.y 8 3 (by decide) (by decide))
    rw [List.length_append, hP, hx, hy] at this
    simpa [fF64, List.append_assoc] using this
  · have := fieldW_cell parseF64 (.fin 0 0) ln (P ++ fmtFixed a.x 8 3 ++ fmtFixed a.y 8 3) (fmtFixed a.z 8 3)
      (fmtFixed a.occ 6 2 ++ fmtFixed a.b 6 2 ++ tail)
      (ascii_append.mpr ⟨ascii_append.mpr ⟨hPa, ascii_fmtFixed _ _ _⟩, ascii_fmtFixed _ _ _⟩) (ascii_fmtFixed _ _ _)
      (roundedTo a.z 3) (rt a.z 8 3 (by decide) (by decide))
    rw [List.length_append, List.length_append, hP, hx, hy, hz] at this
    simpa [fF64, List.append_assoc] using this
  · have := fieldW_cell parseF64 (.fin 1 0) ln (P ++ fmtFixed a.x 8 3 ++ fmtFixed a.y 8 3 ++ fmtFixed a.z 8 3)
      (fmtFixed a.occ 6 2) (fmtFixed a.b 6 2 ++ tail)
      (ascii_append.mpr ⟨ascii_append.mpr ⟨ascii_append.mpr ⟨hPa, ascii_fmtFixed _ _ _⟩, ascii_fmtFixed _ _ _⟩,
        ascii_fmtFixed _ _ _⟩) (ascii_fmtFixed _ _ _)
      (roundedTo a.occ 2) (rt a.occ 6 2 (by decide) (by decide))
    rw [List.length_append, List.length_append, List.length_append, hP, hx, hy, hz, ho] at this
    simpa [List.append_assoc] using this
  · have := fieldW_cell parseF64 (.fin 0 0) ln
      (P ++ fmtFixed a.x 8 3 ++ fmtFixed a.y 8 3 ++ fmtFixed a.z 8 3 ++ fmtFixed a.occ 6 2) (fmtFixed a.b 6 2) tail
      (ascii_append.mpr ⟨ascii_append.mpr ⟨ascii_append.mpr ⟨ascii_append.mpr ⟨hPa, ascii_fmtFixed _ _ _⟩,
        ascii_fmtFixed _ _ _⟩, ascii_fmtFixed _ _ _⟩, ascii_fmtFixed _ _ _⟩) (ascii_fmtFixed _ _ _)
      (roundedTo a.b 2) (rt a.b 6 2 (by decide) (by decide))
    rw [List.length_append, List.length_append, List.length_append, List.length_append, hP, hx, hy, hz, ho, hb] at this
    simpa [fF64, List.append_assoc] using this

/-- **the serial number column**: a serial number that fits its five columns is lexed back unchanged -/
theorem C03_atom_record_serial (lvl : Strictness) (ln : Nat) (a : Atom) (c : Conformer) (r : Residue) (ch : Chain)
    (hs : a.serial ≤ 99999) :
    fUsize ln (atomLine lvl a c r ch) 6 11 = (a.serial, []) := by
  have hpl : ∀ fields, ∃ pad, printLine lvl fields = getLine fields ++ pad := by
    intro f
    unfold printLine
    simp only
    split
    · exact ⟨_, rfl⟩
    · exact ⟨[], by simp⟩
  obtain ⟨pad, hpad⟩ := hpl [(6, if a.hetero then S "HETATM" else S "ATOM  "), (0, atomLinePrefix a c r ch), (0, S "   "),
    (8, fmtFixed a.x 8 3), (8, fmtFixed a.y 8 3), (8, fmtFixed a.z 8 3), (6, fmtFixed a.occ 6 2), (6, fmtFixed a.b 6 2),
    (0, S "          "), (2, elementSymbol a.element), (0, pdbCharge a.charge)]
  obtain ⟨tail, hline⟩ : ∃ tail, atomLine lvl a c r ch =
      cell 6 (if a.hetero then S "HETATM" else S "ATOM  ") ++ cell 5 (natDigits a.serial) ++ tail := by
    unfold atomLine
    rw [hpad]
    unfold getLine atomLinePrefix getLine
    simp only [List.flatMap_cons, List.flatMap_nil, C03_cell_copy, List.append_assoc, List.append_nil]
    exact ⟨_, rfl⟩
  rw [hline]
  have hpa : Ascii (cell 6 (if a.hetero then S "HETATM" else S "ATOM  ")) := by
    apply ascii_cell
    split <;> (intro x hx; revert x; decide)
  have := fieldW_cell parseUsize 0 ln (cell 6 (if a.hetero then S "HETATM" else S "ATOM  ")) (cell 5 (natDigits a.serial)) tail
    hpa (ascii_cell _ _ (ascii_natDigits _)) a.serial (C03_nat_field_round_trip 4 a.serial (by omega) (by omega))
  rw [C03_cell_width _ _ (by decide : 0 < 6), C03_cell_width _ _ (by decide : 0 < 5)] at this
  exact this

/-! signed whole numbers (residue numbers) -/

theorem parseIsize_digits (l : List Char) (hne : l ≠ []) (hd : l.all isDigit = true) :
    parseIsize l = if digitsVal l < 2 ^ 63 then some (digitsVal l : Int) else none := by
  cases l with
  | nil => exact absurd rfl hne
  | cons a r =>
    have ha : isDigit a = true := by simp only [List.all_cons, Bool.and_eq_true] at hd; exact hd.1
    obtain ⟨hm, hp, _, _⟩ := digit_facts a ha
    unfold parseIsize
    split
    · next neg body hmatch =>
      split at hmatch
      · next r' heq => cases heq; exact absurd rfl hm
      · next r' heq => cases heq; exact absurd rfl hp
      · next r' =>
        cases hmatch
        simp [hd]

theorem parseIsize_minus (l : List Char) (hne : l ≠ []) (hd : l.all isDigit = true) :
    parseIsize ('-' :: l) = if digitsVal l ≤ 2 ^ 63 then some (-(digitsVal l : Int)) else none := by
  unfold parseIsize
  split
  · next neg body hmatch =>
    split at hmatch
    · next r' heq =>
      cases heq
      cases hmatch
      have : l.isEmpty = false := by cases l <;> simp_all
      simp [hd, this]
    · next r' heq => cases heq
    · next r' hne1 hne2 => exact absurd rfl (hne1 _)

/-- **a signed whole number survives its field**: `to_string` of an integer that fits the cell, trimmed and parsed
by the reader, is the same integer (residue numbers, negative ones included) -/
theorem C03_int_field_round_trip (w : Nat) (n : Int) (hw : 0 < w) (hfit : (intText n).length ≤ w)
    (hn : n.natAbs < 2 ^ 63) : parseIsize (trim (cell w (intText n))) = some n := by
  obtain ⟨hne, hall, hval⟩ := natDigits_spec n.natAbs
  unfold intText at hfit ⊢
  by_cases hneg : n < 0
  · simp only [hneg, if_true] at hfit ⊢
    have hnd : ('-' :: natDigits n.natAbs).all isDigit = false := by simp [isDigit]
    rw [C03_cell_text_round_trip w _ hw hfit hnd (by intro c hc; cases hc; decide)
      (by
        intro c hc
        have hm := List.mem_of_mem_getLast? hc
        simp only [List.mem_cons] at hm
        rcases hm with rfl | hm
        · decide
        · exact isDigit_not_ws c (List.all_eq_true.mp hall c hm))]
    rw [parseIsize_minus _ hne hall, hval, if_pos (by omega)]
    congr 1; omega
  · simp only [hneg, if_false] at hfit ⊢
    have h1 := C03_cell_number_round_trip w (natDigits n.natAbs) hw hne hfit hall
    -- the same cell, read as a signed number
    have hcell : parseIsize (trim (cell w (natDigits n.natAbs))) = parseIsize (natDigits n.natAbs) := by
      -- both sides are digit strings with the same value
      unfold cell
      have h0 : ¬ w = 0 := by omega
      have hm : (natDigits n.natAbs).length - min w (natDigits n.natAbs).length = 0 := by omega
      rw [if_neg h0]
      simp only [hm, List.drop_zero, hall, if_true]
      have hsub : ((natDigits n.natAbs).dropWhile (· == '0')).all isDigit = true := by
        rw [List.all_eq_true] at hall ⊢
        intro c hc; exact hall c ((List.dropWhile_sublist _).subset hc)
      by_cases he : (natDigits n.natAbs).dropWhile (· == '0') = []
      · have hz : digitsVal (natDigits n.natAbs) = 0 := by rw [← foldl_digits_zero, he]; rfl
        have : (!(natDigits n.natAbs).isEmpty && (List.dropWhile (fun x => x == '0') (natDigits n.natAbs)).isEmpty) = true := by
          simp [hne, he]
        rw [if_pos this]
        have ht : trim ('0' :: List.replicate (w - 1) ' ') = ['0'] := by
          have := C03_trim_padded ['0'] (w - 1) (by intro c hc; cases hc; decide) (by intro c hc; cases hc; decide)
          simpa using this
        rw [ht, parseIsize_digits _ hne hall, hz]; rfl
      · have : (!(natDigits n.natAbs).isEmpty && (List.dropWhile (fun x => x == '0') (natDigits n.natAbs)).isEmpty) = false := by
          simp [he]
        rw [if_neg (by simp [this])]
        have hall' := List.all_eq_true.mp hsub
        rw [C03_trim_padded _ _
          (by intro c hc; exact isDigit_not_ws c (hall' c (List.mem_of_mem_head? hc)))
          (by intro c hc; exact isDigit_not_ws c (hall' c (List.mem_of_mem_getLast? hc))),
          parseIsize_digits _ he hsub, parseIsize_digits _ hne hall, foldl_digits_zero]
    rw [hcell, parseIsize_digits _ hne hall, hval, if_pos hn]
    congr 1; omega

/-- **the residue number column**: a residue number that fits its four columns (−999 … 9999) is lexed back
unchanged -/
theorem C03_atom_record_resseq (lvl : Strictness) (ln : Nat) (a : Atom) (c : Conformer) (r : Residue) (ch : Chain)
    (hids : AsciiIds a c r ch) (hfit : (intText r.serial).length ≤ 4) (hn : r.serial.natAbs < 2 ^ 63) :
    fIsize ln (atomLine lvl a c r ch) 22 26 = (r.serial, []) := by
  obtain ⟨h1, h2, h3, h4, _⟩ := hids
  have hpl : ∀ fields, ∃ pad, printLine lvl fields = getLine fields ++ pad := by
    intro f
    unfold printLine
    simp only
    split
    · exact ⟨_, rfl⟩
    · exact ⟨[], by simp⟩
  obtain ⟨pad, hpad⟩ := hpl [(6, if a.hetero then S "HETATM" else S "ATOM  "), (0, atomLinePrefix a c r ch), (0, S "   "),
    (8, fmtFixed a.x 8 3), (8, fmtFixed a.y 8 3), (8, fmtFixed a.z 8 3), (6, fmtFixed a.occ 6 2), (6, fmtFixed a.b 6 2),
    (0, S "          "), (2, elementSymbol a.element), (0, pdbCharge a.charge)]
  obtain ⟨tail, hline⟩ : ∃ tail, atomLine lvl a c r ch =
      (cell 6 (if a.hetero then S "HETATM" else S "ATOM  ") ++ cell 5 (natDigits a.serial) ++ S " " ++ cell 4 (S a.name) ++
        cell 1 (c.alt.getD " ").toList ++ cell 4 (S c.name) ++ cell 1 (S ch.id)) ++ cell 4 (intText r.serial) ++ tail := by
    unfold atomLine
    rw [hpad]
    unfold getLine atomLinePrefix getLine
    simp only [List.flatMap_cons, List.flatMap_nil, C03_cell_copy, List.append_assoc, List.append_nil]
    exact ⟨_, rfl⟩
  rw [hline]
  have hpa : Ascii (cell 6 (if a.hetero then S "HETATM" else S "ATOM  ") ++ cell 5 (natDigits a.serial) ++ S " " ++
      cell 4 (S a.name) ++ cell 1 (c.alt.getD " ").toList ++ cell 4 (S c.name) ++ cell 1 (S ch.id)) := by
    refine ascii_append.mpr ⟨ascii_append.mpr ⟨ascii_append.mpr ⟨ascii_append.mpr ⟨ascii_append.mpr ⟨ascii_append.mpr
      ⟨ascii_cell _ _ ?_, ascii_cell _ _ (ascii_natDigits _)⟩, ?_⟩, ascii_cell _ _ h1⟩, ascii_cell _ _ h2⟩,
      ascii_cell _ _ h3⟩, ascii_cell _ _ h4⟩
    · split <;> (intro x hx; revert x; decide)
    · intro x hx; revert x; decide
  have hlen : (cell 6 (if a.hetero then S "HETATM" else S "ATOM  ") ++ cell 5 (natDigits a.serial) ++ S " " ++
      cell 4 (S a.name) ++ cell 1 (c.alt.getD " ").toList ++ cell 4 (S c.name) ++ cell 1 (S ch.id)).length = 22 := by
    simp only [List.length_append, C03_cell_width _ _ (by decide : 0 < 6), C03_cell_width _ _ (by decide : 0 < 5),
      C03_cell_width _ _ (by decide : 0 < 4), C03_cell_width _ _ (by decide : 0 < 1)]
    rfl
  have := fieldW_cell parseIsize 0 ln _ (cell 4 (intText r.serial)) tail hpa (ascii_cell _ _ (ascii_intText _)) r.serial
    (C03_int_field_round_trip 4 r.serial (by decide) hfit hn)
  rw [hlen, C03_cell_width _ _ (by decide : 0 < 4)] at this
  exact this

/-- a text the writer's cell keeps and the reader's trim returns: fits, is not a zero-led number, has no blank
at either end -/
def CellSafe (w : Nat) (t : List Char) : Prop :=
  t.length ≤ w ∧ t.all isDigit = false ∧ (∀ c, t.head? = some c → isRustWs c = false) ∧
  (∀ c, t.getLast? = some c → isRustWs c = false)

/-- **the atom name and residue name columns**: names that fit (4 and 3 characters) are lexed back unchanged -/
theorem C03_atom_record_names (lvl : Strictness) (ln : Nat) (a : Atom) (c : Conformer) (r : Residue) (ch : Chain)
    (hids : AsciiIds a c r ch) (hname : CellSafe 4 (S a.name)) (hres : CellSafe 3 (S c.name)) :
    fStr ln (atomLine lvl a c r ch) 12 16 = (S a.name, []) ∧ fStr ln (atomLine lvl a c r ch) 17 20 = (S c.name, []) := by
  obtain ⟨h1, h2, h3, _, _⟩ := hids
  have hpl : ∀ fields, ∃ pad, printLine lvl fields = getLine fields ++ pad := by
    intro f
    unfold printLine
    simp only
    split
    · exact ⟨_, rfl⟩
    · exact ⟨[], by simp⟩
  obtain ⟨pad, hpad⟩ := hpl [(6, if a.hetero then S "HETATM" else S "ATOM  "), (0, atomLinePrefix a c r ch), (0, S "   "),
    (8, fmtFixed a.x 8 3), (8, fmtFixed a.y 8 3), (8, fmtFixed a.z 8 3), (6, fmtFixed a.occ 6 2), (6, fmtFixed a.b 6 2),
    (0, S "          "), (2, elementSymbol a.element), (0, pdbCharge a.charge)]
  have htag : Ascii (cell 6 (if a.hetero then S "HETATM" else S "ATOM  ")) := by
    apply ascii_cell
    split <;> (intro x hx; revert x; decide)
  have hsp : Ascii (S " ") := by intro x hx; revert x; decide
  constructor
  · obtain ⟨tail, hline⟩ : ∃ tail, atomLine lvl a c r ch =
        (cell 6 (if a.hetero then S "HETATM" else S "ATOM  ") ++ cell 5 (natDigits a.serial) ++ S " ") ++
          cell 4 (S a.name) ++ tail := by
      unfold atomLine
      rw [hpad]
      unfold getLine atomLinePrefix getLine
      simp only [List.flatMap_cons, List.flatMap_nil, C03_cell_copy, List.append_assoc, List.append_nil]
      exact ⟨_, rfl⟩
    rw [hline]
    have := fieldW_cell (fun s => some s) [] ln
      (cell 6 (if a.hetero then S "HETATM" else S "ATOM  ") ++ cell 5 (natDigits a.serial) ++ S " ") (cell 4 (S a.name)) tail
      (ascii_append.mpr ⟨ascii_append.mpr ⟨htag, ascii_cell 5 _ (ascii_natDigits a.serial)⟩, hsp⟩) (ascii_cell _ _ h1) (S a.name)
      (by rw [C03_cell_text_round_trip 4 _ (by decide) hname.1 hname.2.1 hname.2.2.1 hname.2.2.2])
    simp only [List.length_append, C03_cell_width _ _ (by decide : 0 < 6), C03_cell_width _ _ (by decide : 0 < 5),
      C03_cell_width _ _ (by decide : 0 < 4)] at this
    exact this
  · -- the residue name cell is four wide; the reader looks at its first three columns
    obtain ⟨hl, hnd, hh, hla⟩ := hres
    have hcell : cell 4 (S c.name) = (S c.name ++ List.replicate (3 - (S c.name).length) ' ') ++ [' '] := by
      rw [C03_cell_text 4 _ (by decide) (by omega) hnd]
      have : 4 - (S c.name).length = (3 - (S c.name).length) + 1 := by omega
      rw [this, List.replicate_succ', List.append_assoc]
    obtain ⟨tail, hline⟩ : ∃ tail, atomLine lvl a c r ch =
        (cell 6 (if a.hetero then S "HETATM" else S "ATOM  ") ++ cell 5 (natDigits a.serial) ++ S " " ++ cell 4 (S a.name) ++
          cell 1 (c.alt.getD " ").toList) ++ (S c.name ++ List.replicate (3 - (S c.name).length) ' ') ++ tail := by
      unfold atomLine
      rw [hpad]
      unfold getLine atomLinePrefix getLine
      simp only [List.flatMap_cons, List.flatMap_nil, C03_cell_copy, hcell, List.append_assoc, List.append_nil]
      exact ⟨_, rfl⟩
    rw [hline]
    have hca : Ascii (S c.name ++ List.replicate (3 - (S c.name).length) ' ') :=
      ascii_append.mpr ⟨h3, ascii_replicate _ ' ' (by decide)⟩
    have := fieldW_cell (fun s => some s) [] ln
      (cell 6 (if a.hetero then S "HETATM" else S "ATOM  ") ++ cell 5 (natDigits a.serial) ++ S " " ++ cell 4 (S a.name) ++
          cell 1 (c.alt.getD " ").toList) (S c.name ++ List.replicate (3 - (S c.name).length) ' ') tail
      (ascii_append.mpr ⟨ascii_append.mpr ⟨ascii_append.mpr ⟨ascii_append.mpr ⟨htag, ascii_cell 5 _ (ascii_natDigits a.serial)⟩, hsp⟩,
        ascii_cell 4 _ h1⟩, ascii_cell 1 _ h2⟩) hca (S c.name)
      (by rw [C03_trim_padded _ _ hh hla])
    simp only [List.length_append, C03_cell_width _ _ (by decide : 0 < 6), C03_cell_width _ _ (by decide : 0 < 5),
      C03_cell_width _ _ (by decide : 0 < 4), C03_cell_width _ _ (by decide : 0 < 1), List.length_replicate] at this
    have hlen3 : (S c.name).length + (3 - (S c.name).length) = 3 := by omega
    have h17 : 6 + 5 + (S " ").length + 4 + 1 = 17 := rfl
    rw [h17, hlen3] at this
    exact this

end PdbModel
