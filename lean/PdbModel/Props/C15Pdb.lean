/-
C15 on the PDB reader model: with only-atomic-coordinates nothing but ATOM / HETATM / MODEL / ENDMDL / TER / END
records is lexed, and no metadata is read.
-/
import PdbModel.PdbRead
namespace PdbModel

/-- the items the reader still produces under `only_atomic_coords` -/
def LexItem.atomicOnly : LexItem → Bool
  | .atom .. => true
  | .model _ => true
  | .endModel => true
  | .ter => true
  | .endd => true
  | .empty => true
  | _ => false

theorem lexAtom_atomicOnly (ln : Nat) (line : List Char) (het : Bool) :
    (lexAtom ln line het).1.atomicOnly = true := by
  unfold lexAtom
  rfl

/-- **only ATOM-type records are lexed**: under `only_atomic_coords` every line yields an atom, a model
delimiter, TER, END or nothing -/
theorem C15_pdb_atomic_items (line : List Char) (ln : Nat) (lvl : Strictness) (item : LexItem) (ds : List LDiag)
    (h : lexLineRaw line ln lvl true = .ok (item, ds)) : item.atomicOnly = true := by
  unfold lexLineRaw at h
  simp only [Bool.not_true, Bool.false_and, Bool.false_eq_true, if_false] at h
  repeat' split at h
  all_goals first
    | (cases h; first | rfl | exact lexAtom_atomicOnly _ _ _)
    | skip

/-- everything of the parser state that feeds the metadata of the result -/
structure MetaPart where
  info : Meta
  scale : List (Option (List Flt))
  origx : List (Option (List Flt))
  mtrix : List (Nat × List (Option (List Flt)) × Bool)
  dbrefs : List (String × DbRef × Bool)
  modifications : List ((Nat × List Char) × LexItem)
  bonds : List ((Nat × List Char) × LexItem)
  seqres : List (Char × List (Nat × Nat × List (List Char)))
  seqresLines : List (Nat × List Char)

def PState.metaPart (s : PState) : MetaPart :=
  ⟨s.info, s.scale, s.origx, s.mtrix, s.dbrefs, s.modifications, s.bonds, s.seqres, s.seqresLines⟩

theorem stepItem_atomic_meta (o : ReadOpts) (s : PState) (ctx : Nat × List Char) (item : LexItem)
    (h : item.atomicOnly = true) : (stepItem o s ctx item).1.metaPart = s.metaPart := by
  cases item <;> simp only [LexItem.atomicOnly, Bool.false_eq_true] at h
  all_goals (unfold stepItem; simp only)
  · -- atom
    repeat' split
    all_goals rfl
  · -- model
    repeat' split
    all_goals (first | rfl | (unfold flushModel; split <;> rfl))
  all_goals rfl

theorem stepLine_atomic_meta (o : ReadOpts) (ho : o.onlyAtomicCoords = true) (s : PState) (ln : Nat)
    (line : List Char) : (stepLine o s ln line).metaPart = s.metaPart := by
  unfold stepLine
  split
  · rfl
  · split
    · rfl
    · next item errs hlex =>
      -- which item was lexed
      have hat : item.atomicOnly = true := by
        unfold lexLine at hlex
        rw [ho] at hlex
        split at hlex
        · cases hlex
        · rename_i itm ds hraw
          cases hlex
          exact C15_pdb_atomic_items line ln o.level _ _ hraw
      have := stepItem_atomic_meta o { s with errors := [] } (ln, line) item hat
      simpa [PState.metaPart] using this

theorem foldl_atomic_meta (o : ReadOpts) (ho : o.onlyAtomicCoords = true) (l : List (Nat × List Char)) (s : PState) :
    (l.foldl (fun s (il : Nat × List Char) => stepLine o s (il.1 + 1) il.2) s).metaPart = s.metaPart := by
  induction l generalizing s with
  | nil => rfl
  | cons x xs ih => rw [List.foldl_cons, ih, stepLine_atomic_meta o ho]

/-- **no metadata under only-atomic-coordinates** (PDB reader): whatever the text, the structure that comes
back has no identifier, remarks, cell, space group, scale, origx, NCS operators, database references or bonds -/
theorem C15_pdb_atomic_no_metadata (o : ReadOpts) (ho : o.onlyAtomicCoords = true) (lines : List (List Char))
    (f : PdbFile) (errs : List PDiag) (h : readPdbCore o lines = (f, errs)) :
    f.info.identifier = none ∧ f.info.remarks = [] ∧ f.info.cell = none ∧ f.info.symmetry = none ∧
    f.info.scale = none ∧ f.info.origx = none ∧ f.info.mtrix = [] ∧ f.info.dbrefs = [] ∧ f.info.bonds = [] := by
  unfold readPdbCore at h
  have hm := foldl_atomic_meta o ho ((List.range lines.length).zip lines) ({} : PState)
  simp only at h
  · simp only [Prod.mk.injEq] at h
    obtain ⟨hf, _⟩ := h
    subst hf
    -- the metadata part of the final parser state is that of the empty state
    generalize hs : (List.foldl (fun s (il : Nat × List Char) => stepLine o s (il.1 + 1) il.2) ({} : PState)
      ((List.range lines.length).zip lines)) = st at hm
    have hflush : (flushModel st).metaPart = st.metaPart := by unfold flushModel; split <;> rfl
    have hall := hflush.trans hm
    simp only [PState.metaPart, MetaPart.mk.injEq] at hall
    obtain ⟨h1, h2, h3, h4, h5, h6, h7, h8, _⟩ := hall
    simp [h1, h2, h3, h4, h5, h6, h7, h8, rowsFull, rowsPartly, addBonds]

end PdbModel
