/-
C13 — transformations obey their algebra and move structures atom by atom.
The algebraic theorems hold in every commutative ring (hence for exact real arithmetic and for the `Int`
instance the correspondence runs); IEEE rounding and `sin_cos` are not modelled.
-/
import PdbModel.Geom
import Mathlib.Tactic.Ring
import Mathlib.Tactic.LinearCombination
namespace PdbModel
variable {R : Type} [CommRing R]

theorem C13_identity (p : R × R × R) : (Mat.identity (0 : R) 1).apply p = p := by
  obtain ⟨x, y, z⟩ := p
  simp [Mat.apply, Mat.identity, mulAdd]

/-- applying a combined transformation equals applying its two parts in the stated order -/
theorem C13_combine (s o : Mat R) (p : R × R × R) : (s.combine o).apply p = o.apply (s.apply p) := by
  obtain ⟨x, y, z⟩ := p
  simp only [Mat.apply, Mat.combine, mulAdd, Prod.mk.injEq]
  refine ⟨?_, ?_, ?_⟩ <;> ring

theorem C13_combine_assoc (a b c : Mat R) (p : R × R × R) :
    ((a.combine b).combine c).apply p = (a.combine (b.combine c)).apply p := by
  simp only [C13_combine]

theorem C13_combine_identity (m : Mat R) (p : R × R × R) :
    (m.combine (Mat.identity 0 1)).apply p = m.apply p ∧ ((Mat.identity 0 1).combine m).apply p = m.apply p := by
  simp only [C13_combine, C13_identity, and_self]

/-- squared distance and dot product of difference vectors -/
def d2 (p q : R × R × R) : R := (p.1 - q.1) ^ 2 + (p.2.1 - q.2.1) ^ 2 + (p.2.2 - q.2.2) ^ 2
def dot3 (o p q : R × R × R) : R :=
  (p.1 - o.1) * (q.1 - o.1) + (p.2.1 - o.2.1) * (q.2.1 - o.2.1) + (p.2.2 - o.2.2) * (q.2.2 - o.2.2)

/-- rotations (any `s`, `c` with `s² + c² = 1`, so every angle) preserve distances … -/
theorem C13_rotation_isometry (s c : R) (h : s ^ 2 + c ^ 2 = 1) (p q : R × R × R) :
    d2 ((Mat.rotX 0 1 s c).apply p) ((Mat.rotX 0 1 s c).apply q) = d2 p q ∧
    d2 ((Mat.rotY 0 1 s c).apply p) ((Mat.rotY 0 1 s c).apply q) = d2 p q ∧
    d2 ((Mat.rotZ 0 1 s c).apply p) ((Mat.rotZ 0 1 s c).apply q) = d2 p q := by
  obtain ⟨x, y, z⟩ := p; obtain ⟨x', y', z'⟩ := q
  simp only [d2, Mat.apply, Mat.rotX, Mat.rotY, Mat.rotZ, mulAdd]
  refine ⟨?_, ?_, ?_⟩
  · linear_combination ((y - y') ^ 2 + (z - z') ^ 2) * h
  · linear_combination ((x - x') ^ 2 + (z - z') ^ 2) * h
  · linear_combination ((x - x') ^ 2 + (y - y') ^ 2) * h

/-- … and angles (dot products of difference vectors) -/
theorem C13_rotation_angles (s c : R) (h : s ^ 2 + c ^ 2 = 1) (o p q : R × R × R) :
    dot3 ((Mat.rotX 0 1 s c).apply o) ((Mat.rotX 0 1 s c).apply p) ((Mat.rotX 0 1 s c).apply q) = dot3 o p q ∧
    dot3 ((Mat.rotY 0 1 s c).apply o) ((Mat.rotY 0 1 s c).apply p) ((Mat.rotY 0 1 s c).apply q) = dot3 o p q ∧
    dot3 ((Mat.rotZ 0 1 s c).apply o) ((Mat.rotZ 0 1 s c).apply p) ((Mat.rotZ 0 1 s c).apply q) = dot3 o p q := by
  obtain ⟨a, b, e⟩ := o; obtain ⟨x, y, z⟩ := p; obtain ⟨x', y', z'⟩ := q
  simp only [dot3, Mat.apply, Mat.rotX, Mat.rotY, Mat.rotZ, mulAdd]
  refine ⟨?_, ?_, ?_⟩
  · linear_combination ((y - b) * (y' - b) + (z - e) * (z' - e)) * h
  · linear_combination ((x - a) * (x' - a) + (z - e) * (z' - e)) * h
  · linear_combination ((x - a) * (x' - a) + (y - b) * (y' - b)) * h

theorem C13_translation (x y z : R) (p : R × R × R) :
    (Mat.translation 0 1 x y z).apply p = (p.1 + x, p.2.1 + y, p.2.2 + z) := by
  obtain ⟨a, b, c⟩ := p
  simp [Mat.apply, Mat.translation, mulAdd]

/-- magnification scales (squared) distances by the (squared) factor -/
theorem C13_magnify (f : R) (p q : R × R × R) :
    d2 ((Mat.magnify 0 f).apply p) ((Mat.magnify 0 f).apply q) = f ^ 2 * d2 p q := by
  obtain ⟨x, y, z⟩ := p; obtain ⟨x', y', z'⟩ := q
  simp only [d2, Mat.apply, Mat.magnify, mulAdd]; ring

/-- `multiply_translation`: rotation part untouched, translation scaled component-wise (C17: the absolute
operators are the fractional ones with translations scaled by the cell edges) -/
theorem C13_multiply_translation (m : Mat R) (f : R × R × R) (p : R × R × R) :
    (m.multiplyTranslation f).apply p =
      ((m.apply p).1 - m.a03 + m.a03 * f.1, (m.apply p).2.1 - m.a13 + m.a13 * f.2.1,
       (m.apply p).2.2 - m.a23 + m.a23 * f.2.2) := by
  obtain ⟨x, y, z⟩ := p
  simp only [Mat.apply, Mat.multiplyTranslation, mulAdd, Prod.mk.injEq]
  refine ⟨?_, ?_, ?_⟩ <;> ring

/-- applying a transformation at structure level moves every contained atom exactly as applying it to that
atom alone, keeps the order, and touches nothing else (identifiers, shape, other atom fields) -/
theorem C13_apply_levels (m : Mat Int) (p : PDB) :
    (p.applyT m).atoms = p.atoms.map (Atom.move m) ∧
    (p.applyT m).conformers.map (fun c => (c.name, c.alt, c.modification, c.atoms.length)) =
      p.conformers.map (fun c => (c.name, c.alt, c.modification, c.atoms.length)) ∧
    (p.applyT m).residues.map Residue.rid = p.residues.map Residue.rid ∧
    (p.applyT m).chains.map (·.id) = p.chains.map (·.id) ∧
    (p.applyT m).models.map (·.serial) = p.models.map (·.serial) ∧
    (∀ a : Atom, (a.move m).serial = a.serial ∧ (a.move m).id = a.id ∧ (a.move m).name = a.name ∧
      (a.move m).occ = a.occ ∧ (a.move m).b = a.b ∧ (a.move m).element = a.element ∧
      (a.move m).charge = a.charge ∧ (a.move m).atf = a.atf ∧ (a.move m).hetero = a.hetero) := by
  refine ⟨?_, ?_, ?_, ?_, ?_, fun a => ⟨rfl, rfl, rfl, rfl, rfl, rfl, rfl, rfl, rfl⟩⟩
  · simp only [PDB.atoms, Model.atoms, Chain.atoms, Residue.atoms, PDB.applyT, Model.applyT, Chain.applyT,
      Residue.applyT, Conformer.applyT, List.flatMap_map, List.map_flatMap]
  · simp only [PDB.conformers, Model.conformers, Chain.conformers, PDB.applyT, Model.applyT, Chain.applyT,
      Residue.applyT, List.flatMap_map, List.map_flatMap, List.map_map]
    congr 1; funext m'; congr 1; funext c; congr 1; funext r
    apply List.map_congr_left
    intro f _
    simp [Conformer.applyT]
  · simp only [PDB.residues, Model.residues, PDB.applyT, Model.applyT, Chain.applyT, Residue.applyT,
      List.flatMap_map, List.map_flatMap, List.map_map]
    rfl
  · simp only [PDB.chains, PDB.applyT, Model.applyT, Chain.applyT, List.flatMap_map, List.map_flatMap, List.map_map]
    rfl
  · simp only [PDB.applyT, Model.applyT, List.map_map]; rfl

/-- non-vacuity: quarter turn about z, then a shift -/
example : ((Mat.rotZ (0 : Int) 1 1 0).combine (Mat.translation 0 1 5 0 0)).apply (1, 0, 0) = (5, 1, 0) := by decide

end PdbModel
