/-
C15 — read options act as pure filters; path based open/save follow the file name.

Theorems about the models: the file-name decisions (`PathApi.lean`) and, for the mmCIF reader model, the
discard-hydrogens and only-atomic-coordinates options as filters.  The PDB-side filters, only-first-model and
the equality of the path based API with the in-memory API are decided by the oracles of the harness on the real
code (both reader models are tied to the code under all eight option sets by the correspondences of C05/C06
and of this property).
-/
import PdbModel.PathApi
import PdbModel.CifRead
namespace PdbModel

/-! ### file names -/

theorem span_until {α : Type} (p : α → Bool) (l : List α) (x : α) (rest : List α)
    (hl : ∀ c ∈ l, p c = true) (hx : p x = false) :
    (l ++ x :: rest).takeWhile p = l ∧ (l ++ x :: rest).dropWhile p = x :: rest := by
  induction l with
  | nil => simp [hx]
  | cons a r ih =>
    have ha := hl a (by simp)
    have ih' := ih (fun c hc => hl c (by simp [hc]))
    simp only [List.cons_append, List.takeWhile_cons, List.dropWhile_cons, ha, if_true]
    exact ⟨by rw [ih'.1], ih'.2⟩

/-- the split is at the last dot -/
theorem rsplitDot_spec (stem e : List Char) (he : '.' ∉ e) :
    rsplitDot (stem ++ '.' :: e) = some (stem, e) := by
  unfold rsplitDot
  have hrev : (stem ++ '.' :: e).reverse = e.reverse ++ '.' :: stem.reverse := by simp
  have hp : ∀ c ∈ e.reverse, (c != '.') = true := by
    intro c hc
    have : c ∈ e := by simpa using hc
    simp only [bne_iff_ne, ne_eq]
    intro h; subst h; exact he this
  have hs := span_until (fun c => c != '.') e.reverse '.' stem.reverse hp (by simp)
  simp only [hrev, hs.1, hs.2, List.reverse_reverse]

theorem dropWhile_nil_of_all {α : Type} (p : α → Bool) (l : List α) (h : ∀ c ∈ l, p c = true) :
    l.dropWhile p = [] := by
  induction l with
  | nil => rfl
  | cons a r ih => simp [List.dropWhile_cons, h a (by simp), ih (fun c hc => h c (by simp [hc]))]

theorem takeWhile_all {α : Type} (p : α → Bool) (l : List α) : ∀ c ∈ l.takeWhile p, p c = true := by
  induction l with
  | nil => simp
  | cons a r ih =>
    intro c hc
    rw [List.takeWhile_cons] at hc
    split at hc
    · next ha =>
      simp only [List.mem_cons] at hc
      rcases hc with rfl | hc
      · exact ha
      · exact ih c hc
    · simp at hc

theorem rsplitDot_none (name : List Char) (h : '.' ∉ name) : rsplitDot name = none := by
  unfold rsplitDot
  have : name.reverse.dropWhile (fun c => c != '.') = [] := by
    apply dropWhile_nil_of_all
    intro c hc
    have : c ∈ name := by simpa using hc
    simp only [bne_iff_ne, ne_eq]
    intro h'; subst h'; exact h this
  simp only [this]

/-- every name with a dot splits at its last dot -/
theorem rsplitDot_some {name stem e : List Char} (h : rsplitDot name = some (stem, e)) :
    name = stem ++ '.' :: e ∧ '.' ∉ e := by
  unfold rsplitDot at h
  simp only at h
  split at h
  · cases h
  · next c stemRev heq =>
    cases h
    have hsplit := List.takeWhile_append_dropWhile (p := fun c => c != '.') (l := name.reverse)
    rw [heq] at hsplit
    have hc : c = '.' := by
      have := List.head_dropWhile_not (fun c => c != '.') (l := name.reverse) (by rw [heq]; simp)
      simp only [heq, List.head_cons] at this
      simpa using this
    subst hc
    constructor
    · have := congrArg List.reverse hsplit
      simp only [List.reverse_append, List.reverse_cons, List.reverse_reverse, List.append_assoc,
        List.singleton_append] at this
      exact this.symm
    · intro hm
      have : '.' ∈ List.takeWhile (fun c => c != '.') name.reverse := by simpa using hm
      have := takeWhile_all _ _ _ this
      simp at this

/-- **opening: the documented extensions select the format** (any non-empty stem, which may itself contain
dots) -/
theorem C15_guess_plain (stem e : List Char) (hs : stem ≠ []) (he : '.' ∉ e) (hgz : e ≠ "gz".toList) :
    guessFormat (stem ++ '.' :: e) = (formatOfExt e).map fun f => (f, false) := by
  unfold guessFormat pathExtension
  rw [rsplitDot_spec stem e he]
  have : stem.isEmpty = false := by cases stem <;> simp_all
  simp only [this, Bool.false_eq_true, if_false]
  have hne : (e == "gz".toList) = false := by simpa using hgz
  simp only [hne, Bool.false_eq_true, if_false]

/-- … and a trailing `.gz` selects gzip decoding of that format -/
theorem C15_guess_gz (stem e : List Char) (hs : stem ≠ []) (he : '.' ∉ e) :
    guessFormat (stem ++ '.' :: e ++ ".gz".toList) = (formatOfExt e).map fun f => (f, true) := by
  have hgz : '.' ∉ "gz".toList := by decide
  have h1 : stem ++ '.' :: e ++ ".gz".toList = (stem ++ '.' :: e) ++ '.' :: "gz".toList := by simp
  unfold guessFormat pathExtension pathStem
  rw [h1, rsplitDot_spec (stem ++ '.' :: e) "gz".toList hgz]
  have hne : (stem ++ '.' :: e).isEmpty = false := by cases stem <;> simp
  simp only [hne, Bool.false_eq_true, if_false, beq_self_eq_true, if_true]
  rw [rsplitDot_spec stem e he]
  have : stem.isEmpty = false := by cases stem <;> simp_all
  simp only [this, Bool.false_eq_true, if_false]

example : guessFormat "two.dots.pdb1".toList = some (.pdb, false) ∧ guessFormat "x.mmcif.gz".toList = some (.mmcif, true) ∧
    guessFormat "x.PDB".toList = none ∧ guessFormat ".pdb".toList = none ∧ guessFormat "pdb".toList = none := by decide

/-- **nothing else is accepted**: whenever a format is chosen the name ends in one of the documented
extensions (followed by `.gz` exactly when gzip decoding is chosen) -/
theorem C15_guess_only_documented {name : List Char} {f : FileFormat} {gz : Bool}
    (h : guessFormat name = some (f, gz)) :
    ∃ stem e, stem ≠ [] ∧ formatOfExt e = some f ∧
      name = stem ++ '.' :: e ++ (if gz then ".gz".toList else []) := by
  unfold guessFormat pathExtension at h
  split at h
  · cases h
  · next e0 hext =>
    split at hext
    · next stem0 ext0 hsp =>
      split at hext
      · cases hext
      · next hne =>
        cases hext
        obtain ⟨hname, _⟩ := rsplitDot_some hsp
        have hstem0 : stem0 ≠ [] := by intro h0; subst h0; simp at hne
        split at h
        · next hgz =>
          have hgz' : e0 = "gz".toList := by simpa using hgz
          subst hgz'
          -- inner extension
          unfold pathStem at h
          rw [hsp] at h
          simp only [hne, Bool.false_eq_true, if_false] at h
          split at h
          · next e2 hext2 =>
            split at hext2
            · next stem2 ext2 hsp2 =>
              split at hext2
              · cases hext2
              · next hne2 =>
                cases hext2
                obtain ⟨hname2, _⟩ := rsplitDot_some hsp2
                cases hf : formatOfExt e2 with
                | none => rw [hf] at h; cases h
                | some f2 =>
                  rw [hf] at h
                  simp only [Option.map_some, Option.some.injEq, Prod.mk.injEq] at h
                  obtain ⟨rfl, rfl⟩ := h
                  refine ⟨stem2, e2, ?_, hf, ?_⟩
                  · intro h0; subst h0; simp at hne2
                  · rw [hname, hname2]; simp
            · cases hext2
          · cases h
        · next hgz =>
          cases hf : formatOfExt e0 with
          | none => rw [hf] at h; cases h
          | some f2 =>
            rw [hf] at h
            simp only [Option.map_some, Option.some.injEq, Prod.mk.injEq] at h
            obtain ⟨rfl, rfl⟩ := h
            exact ⟨stem0, e0, hstem0, hf, by rw [hname]; simp⟩
    · cases hext

/-- a name without a dot, or whose only dot is in front, has no format -/
theorem C15_no_extension (name : List Char) (h : '.' ∉ name) : guessFormat name = none ∧ saveFormat name = none := by
  unfold guessFormat pathExtension saveFormat checkExtension
  simp [rsplitDot_none name h]

/-- **saving: the extension selects the writer**, case-insensitively, whatever precedes the last dot -/
theorem C15_save_format (stem e : List Char) (he : '.' ∉ e) :
    saveFormat (stem ++ '.' :: e) =
      if e.map lowerAscii = "pdb".toList then some .pdb
      else if e.map lowerAscii = "cif".toList then some .mmcif else none := by
  unfold saveFormat checkExtension
  rw [rsplitDot_spec stem e he]
  have h1 : "pdb".toList.map lowerAscii = "pdb".toList := by decide
  have h2 : "cif".toList.map lowerAscii = "cif".toList := by decide
  simp only [h1, h2, beq_iff_eq]

example : saveFormat "a.b.PDB".toList = some .pdb ∧ saveFormat "x.Cif".toList = some .mmcif ∧
    saveFormat "pdb".toList = none ∧ saveFormat "x.pdb1".toList = none ∧
    saveGzFormat "x.cif.gz".toList = some .mmcif ∧ saveGzFormat "x.cif".toList = none ∧ saveGzFormat "gz".toList = none := by
  decide

/-! ### options as filters (mmCIF reader model) -/

/-- **discard-hydrogens = deleting the hydrogen rows**: reading the atom_site loop with the option equals
reading, without it, the loop from which the hydrogen rows were removed -/
theorem C15_discard_hydrogens_filter (o : ReadOpts) (ms : List Model) (header : List (List Char))
    (rows : List (List CifValue)) :
    parseAtoms { o with discardHydrogens := true } ms header rows =
    parseAtoms { o with discardHydrogens := false } ms header
      (rows.filter fun row => !isHydrogenRow (rowVals header row)) := by
  unfold parseAtoms
  have hfold : ∀ (s0 : AState),
      rows.foldl (fun s row => atomRow { o with discardHydrogens := true } s (rowVals header row)) s0 =
      (rows.filter fun row => !isHydrogenRow (rowVals header row)).foldl
        (fun s row => atomRow { o with discardHydrogens := false } s (rowVals header row)) s0 := by
    induction rows with
    | nil => intro s0; rfl
    | cons r rs ih =>
      intro s0
      simp only [List.foldl_cons, List.filter_cons]
      by_cases hh : isHydrogenRow (rowVals header r) = true
      · simp only [hh, Bool.not_true, Bool.false_eq_true, if_false]
        have : atomRow { o with discardHydrogens := true } s0 (rowVals header r) = s0 := by
          unfold atomRow; simp [hh]
        rw [this]; exact ih s0
      · have hf : isHydrogenRow (rowVals header r) = false := by simpa using hh
        simp only [hf, Bool.not_false, if_true, List.foldl_cons]
        have : atomRow { o with discardHydrogens := true } s0 (rowVals header r) =
            atomRow { o with discardHydrogens := false } s0 (rowVals header r) := by
          unfold atomRow; simp [hf]
        rw [this]; exact ih _
  simp only [hfold]

/-- **only-atomic-coordinates keeps the atoms**: with the option the models built from a data block are the
same as without it … -/
theorem C15_atomic_coords_same_models (o : ReadOpts) (items : List Item) (s1 s2 : CState)
    (h : s1.models = s2.models) :
    (items.foldl (stepCifItem { o with onlyAtomicCoords := true }) s1).models =
    (items.foldl (stepCifItem { o with onlyAtomicCoords := false }) s2).models := by
  induction items generalizing s1 s2 with
  | nil => exact h
  | cons it rest ih =>
    simp only [List.foldl_cons]
    apply ih
    cases it with
    | frame n its => exact h
    | data d =>
      cases d with
      | single name v =>
        simp only [stepCifItem, Bool.false_eq_true, if_false, if_true, h]
      | loop header rows =>
        simp only [stepCifItem]
        split
        · simp only [h]; rfl
        · exact h

/-- … and no metadata is read: the parser state keeps the metadata it started with -/
theorem C15_atomic_coords_no_metadata (o : ReadOpts) (items : List Item) (s : CState) :
    (items.foldl (stepCifItem { o with onlyAtomicCoords := true }) s).md.info = s.md.info ∧
    (items.foldl (stepCifItem { o with onlyAtomicCoords := true }) s).md.cell = s.md.cell := by
  induction items generalizing s with
  | nil => exact ⟨rfl, rfl⟩
  | cons it rest ih =>
    simp only [List.foldl_cons]
    have hstep : (stepCifItem { o with onlyAtomicCoords := true } s it).md.info = s.md.info ∧
        (stepCifItem { o with onlyAtomicCoords := true } s it).md.cell = s.md.cell := by
      cases it with
      | frame n its => exact ⟨rfl, rfl⟩
      | data d =>
        cases d with
        | single name v => simp [stepCifItem]
        | loop header rows =>
          simp only [stepCifItem]
          split <;> exact ⟨rfl, rfl⟩
    have := ih (stepCifItem { o with onlyAtomicCoords := true } s it)
    exact ⟨this.1.trans hstep.1, this.2.trans hstep.2⟩

end PdbModel
