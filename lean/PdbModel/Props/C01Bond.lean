/-
C01 — SSBOND records: the position an SSBOND end resolves to is an `SG` atom of the conformer, residue and chain
the record names, counted in the traversal order of `pdb.atoms()` (so the bond that is stored connects exactly
the two atoms the record speaks of); an end that names nothing is refused with a diagnostic, never resolved to
some other atom.
-/
import PdbModel.PdbRead
namespace PdbModel

theorem findIdx?_get {α : Type} (p : α → Bool) (l : List α) (i : Nat) (h : l.findIdx? p = some i) :
    ∃ x, l[i]? = some x ∧ p x = true := by
  obtain ⟨hi, hp, _⟩ := List.findIdx?_eq_some_iff_getElem.mp h
  exact ⟨l[i], by simp [hi], hp⟩

/-- the element `j` of child `i` stands in the flattened list behind all elements of the children before it -/
theorem flatMap_index {α β : Type} (l : List α) (f : α → List β) (i j : Nat) (x : α) (y : β)
    (hx : l[i]? = some x) (hy : (f x)[j]? = some y) :
    (l.flatMap f)[((l.take i).map (fun a => (f a).length)).sum + j]? = some y := by
  induction l generalizing i with
  | nil => simp at hx
  | cons a as ih =>
    cases i with
    | zero =>
      simp only [List.getElem?_cons_zero, Option.some.injEq] at hx
      subst hx
      simp only [List.take_zero, List.map_nil, List.sum_nil, Nat.zero_add, List.flatMap_cons]
      rw [List.getElem?_append_left (by
        have := List.getElem?_eq_some_iff.mp hy
        exact this.1)]
      exact hy
    | succ k =>
      simp only [List.getElem?_cons_succ] at hx
      have := ih k hx
      simp only [List.take_succ_cons, List.map_cons, List.sum_cons, List.flatMap_cons]
      rw [Nat.add_assoc, List.getElem?_append_right (by omega)]
      simpa [Nat.add_sub_cancel_left] using this

theorem pdb_atoms_by_chain (p : PDB) : p.atoms = p.chains.flatMap (·.atoms) := by
  unfold PDB.atoms PDB.chains Model.atoms
  rw [List.flatMap_assoc]

/-- **an SSBOND end resolves to the atom the record names**: when `findSG` answers with a position, the atom at
that position of `pdb.atoms()` is called `SG` and sits in a conformer with the given residue name, of a residue
with the given number and insertion code, of a chain with the given id -/
theorem C01_ssbond_end_resolves (p : PDB) (resName : List Char) (seq : Int) (icode : Option (List Char))
    (chain : List Char) (k : Nat) (h : findSG p resName seq icode chain = some k) :
    ∃ ch ∈ p.chains, ∃ r ∈ ch.residues, ∃ f ∈ r.conformers, ∃ a ∈ f.atoms,
      ch.id = String.ofList chain ∧ r.serial = seq ∧ r.icode = icode.map String.ofList ∧
      f.name = String.ofList resName ∧ a.name = "SG" ∧ p.atoms[k]? = some a := by
  unfold findSG at h
  simp only at h
  split at h
  · cases h
  · next gi hgi =>
    obtain ⟨ch, hch, hchp⟩ := findIdx?_get _ _ _ hgi
    rw [hch] at h
    simp only at h
    split at h
    · cases h
    · next ri hri =>
      obtain ⟨r, hr, hrp⟩ := findIdx?_get _ _ _ hri
      rw [hr] at h
      simp only at h
      split at h
      · cases h
      · next fi hfi =>
        obtain ⟨f, hf, hfp⟩ := findIdx?_get _ _ _ hfi
        rw [hf] at h
        simp only at h
        split at h
        · cases h
        · next ai hai =>
          obtain ⟨a, ha, hap⟩ := findIdx?_get _ _ _ hai
          simp only [Option.some.injEq] at h
          subst h
          simp only [Bool.and_eq_true, beq_iff_eq] at hchp hrp hfp hap
          refine ⟨ch, List.mem_of_getElem? hch, r, List.mem_of_getElem? hr, f, List.mem_of_getElem? hf, a,
            List.mem_of_getElem? ha, hchp, hrp.1, hrp.2, hfp, hap, ?_⟩
          rw [pdb_atoms_by_chain]
          have h1 : r.atoms[((r.conformers.take fi).map (fun c => c.atoms.length)).sum + ai]? = some a :=
            flatMap_index r.conformers (·.atoms) fi ai f a hf ha
          have h2 : ch.atoms[((ch.residues.take ri).map (fun x => x.atoms.length)).sum +
              (((r.conformers.take fi).map (fun c => c.atoms.length)).sum + ai)]? = some a :=
            flatMap_index ch.residues (·.atoms) ri _ r a hr h1
          have h3 := flatMap_index p.chains (·.atoms) gi _ ch a hch h2
          rw [← h3]
          congr 1
          simp only [Nat.add_assoc]

/-- what it means for a stored pair to come from a record of the list -/
def FromRecord (p : PDB) (all : List ((Nat × List Char) × LexItem)) (q : Nat × Nat) : Prop :=
  ∃ b ∈ all, ∃ r1 s1 i1 c1 r2 s2 i2 c2, b.2 = LexItem.ssbond r1 s1 i1 c1 r2 s2 i2 c2 ∧
    findSG p r1 s1 i1 c1 = some q.1 ∧ findSG p r2 s2 i2 c2 = some q.2

theorem addBonds_fold (p : PDB) (all bonds : List ((Nat × List Char) × LexItem)) (hsub : ∀ b ∈ bonds, b ∈ all)
    (acc : List (Nat × Nat) × List PDiag) (hacc : ∀ q ∈ acc.1, FromRecord p all q) :
    ∀ q ∈ (bonds.foldl (fun (acc : List (Nat × Nat) × List PDiag) (b : (Nat × List Char) × LexItem) =>
      match b.2 with
      | .ssbond r1 s1 i1 c1 r2 s2 i2 c2 =>
        match findSG p r1 s1 i1 c1, findSG p r2 s2 i2 c2 with
        | some x, some y => (acc.1 ++ [(x, y)], acc.2)
        | _, _ => (acc.1, acc.2 ++ [PDiag.mk .invalidating "Could not find a bond partner" [b.1]])
      | _ => acc) acc).1, FromRecord p all q := by
  induction bonds generalizing acc with
  | nil => exact hacc
  | cons b bs ih =>
    rw [List.foldl_cons]
    apply ih (fun x hx => hsub x (by simp [hx]))
    split
    · next r1 s1 i1 c1 r2 s2 i2 c2 hb =>
      split
      · next x y hx hy =>
        intro q hq
        rcases List.mem_append.mp hq with h | h
        · exact hacc q h
        · simp only [List.mem_singleton] at h
          subst h
          exact ⟨b, hsub b (by simp), r1, s1, i1, c1, r2, s2, i2, c2, hb, hx, hy⟩
      · exact hacc
    · exact hacc

/-- **a bond is stored only between two resolved ends**: every pair of positions `add_bonds` stores comes from
an SSBOND record of the file both of whose ends resolve (by `C01_ssbond_end_resolves`: to the `SG` atoms of the
residues the record names) -/
theorem C01_bonds_from_records (p : PDB) (bonds : List ((Nat × List Char) × LexItem)) (q : Nat × Nat)
    (h : q ∈ (addBonds p bonds).1) : FromRecord p bonds q := by
  unfold addBonds at h
  exact addBonds_fold p bonds bonds (fun _ hb => hb) ([], []) (by intro q hq; cases hq) q h

end PdbModel
