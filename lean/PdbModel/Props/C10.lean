/-
C10 — editing operations do exactly what they say and nothing else: one frame-and-effect theorem per
operation family. (`none` models both a documented refusal and a Rust panic: nothing is returned, so
nothing can have changed.)
-/
import PdbModel.Edit
namespace PdbModel

/-! ### removal by predicate -/

theorem filter_flatMap' {α β} (l : List α) (f : α → List β) (p : β → Bool) :
    (l.flatMap f).filter p = l.flatMap (fun x => (f x).filter p) := List.filter_flatMap

/-- removing atoms by predicate: the atoms are exactly the survivors in order; every container keeps
its identifier and position (it may become empty) -/
theorem C10_remove_atoms_by (p : Atom → Bool) (s : PDB) :
    (s.removeAtomsBy p).atoms = s.atoms.filter (fun a => !p a) ∧
    (s.removeAtomsBy p).conformers.map (fun c => (c.name, c.alt, c.modification)) =
      s.conformers.map (fun c => (c.name, c.alt, c.modification)) ∧
    (s.removeAtomsBy p).residues.map Residue.rid = s.residues.map Residue.rid ∧
    (s.removeAtomsBy p).chains.map (·.id) = s.chains.map (·.id) ∧
    (s.removeAtomsBy p).models.map (·.serial) = s.models.map (·.serial) := by
  refine ⟨?_, ?_, ?_, ?_, ?_⟩
  · simp only [PDB.atoms, Model.atoms, Chain.atoms, Residue.atoms, PDB.removeAtomsBy, Model.removeAtomsBy,
      Chain.removeAtomsBy, Residue.removeAtomsBy, Conformer.removeAtomsBy, List.flatMap_map, List.filter_flatMap]
  · simp only [PDB.conformers, Model.conformers, Chain.conformers, PDB.removeAtomsBy, Model.removeAtomsBy,
      Chain.removeAtomsBy, Residue.removeAtomsBy, Conformer.removeAtomsBy, List.flatMap_map, List.map_flatMap,
      List.map_map]
    rfl
  · simp only [PDB.residues, Model.residues, PDB.removeAtomsBy, Model.removeAtomsBy,
      Chain.removeAtomsBy, Residue.removeAtomsBy, List.flatMap_map, List.map_flatMap, List.map_map]
    rfl
  · simp only [PDB.chains, PDB.removeAtomsBy, Model.removeAtomsBy, Chain.removeAtomsBy,
      List.flatMap_map, List.map_flatMap, List.map_map]
    rfl
  · simp only [PDB.removeAtomsBy, Model.removeAtomsBy, List.map_map]; rfl

theorem C10_remove_conformers_by (p : Conformer → Bool) (s : PDB) :
    (s.removeConformersBy p).conformers = s.conformers.filter (fun c => !p c) ∧
    (s.removeConformersBy p).residues.map Residue.rid = s.residues.map Residue.rid ∧
    (s.removeConformersBy p).chains.map (·.id) = s.chains.map (·.id) := by
  refine ⟨?_, ?_, ?_⟩
  · simp only [PDB.conformers, Model.conformers, Chain.conformers, PDB.removeConformersBy,
      Model.removeConformersBy, Chain.removeConformersBy, Residue.removeConformersBy, List.flatMap_map,
      List.filter_flatMap]
  · simp only [PDB.residues, Model.residues, PDB.removeConformersBy, Model.removeConformersBy,
      Chain.removeConformersBy, Residue.removeConformersBy, List.flatMap_map, List.map_flatMap, List.map_map]
    rfl
  · simp only [PDB.chains, PDB.removeConformersBy, Model.removeConformersBy, Chain.removeConformersBy,
      List.flatMap_map, List.map_flatMap, List.map_map]
    rfl

theorem C10_remove_residues_by (p : Residue → Bool) (s : PDB) :
    (s.removeResiduesBy p).residues = s.residues.filter (fun r => !p r) ∧
    (s.removeResiduesBy p).chains.map (·.id) = s.chains.map (·.id) := by
  refine ⟨?_, ?_⟩
  · simp only [PDB.residues, Model.residues, PDB.removeResiduesBy, Model.removeResiduesBy,
      Chain.removeResiduesBy, List.flatMap_map, List.filter_flatMap]
  · simp only [PDB.chains, PDB.removeResiduesBy, Model.removeResiduesBy, Chain.removeResiduesBy,
      List.flatMap_map, List.map_flatMap, List.map_map]
    rfl

theorem C10_remove_chains_by (p : Chain → Bool) (s : PDB) :
    (s.removeChainsBy p).chains = s.chains.filter (fun c => !p c) ∧
    (s.removeChainsBy p).models.map (·.serial) = s.models.map (·.serial) := by
  refine ⟨?_, ?_⟩
  · simp only [PDB.chains, PDB.removeChainsBy, Model.removeChainsBy, List.flatMap_map, List.filter_flatMap]
  · simp only [PDB.removeChainsBy, Model.removeChainsBy, List.map_map]; rfl

theorem C10_remove_models_by (p : Model → Bool) (s : PDB) :
    (s.removeModelsBy p).models = s.models.filter (fun m => !p m) := rfl

/-! ### removal by identifier / serial number / name: first match only, reports whether one existed -/

theorem findIdx?_eq_none_iff_all {α} (p : α → Bool) (l : List α) :
    l.findIdx? p = none ↔ ∀ x ∈ l, p x = false := by
  rw [List.findIdx?_eq_none_iff]

theorem C10_remove_first {α} (p : α → Bool) (l : List α) :
    (removeFirst p l).1 = l.eraseP p ∧ (removeFirst p l).2 = l.any p := by
  induction l with
  | nil => simp [removeFirst]
  | cons x xs ih =>
    unfold removeFirst at ih ⊢
    simp only [List.findIdx?_cons]
    cases hx : p x
    · simp only [Bool.false_eq_true, if_false]
      cases h : xs.findIdx? p with
      | none =>
        rw [h] at ih
        simp only [Option.map_none, List.eraseP_cons, hx, List.any_cons, Bool.false_or] at ih ⊢
        exact ⟨by rw [← ih.1]; rfl, ih.2⟩
      | some i =>
        rw [h] at ih
        simp only [Option.map_some, List.eraseIdx_cons_succ, List.eraseP_cons, hx, List.any_cons,
          Bool.false_or] at ih ⊢
        exact ⟨by rw [ih.1]; rfl, ih.2⟩
    · simp [List.eraseP_cons, hx]

/-- what `eraseP` means: the first match is gone, everything before it and after it is kept in order -/
theorem C10_remove_first_frame {α} (p : α → Bool) (l : List α) :
    (∀ x ∈ l, p x = false) ∧ l.eraseP p = l ∨
    ∃ a l₁ l₂, (∀ b ∈ l₁, p b = false) ∧ p a = true ∧ l = l₁ ++ a :: l₂ ∧ l.eraseP p = l₁ ++ l₂ := by
  rcases List.exists_or_eq_self_of_eraseP p l with h | ⟨a, l₁, l₂, h1, h2, h3, h4⟩
  · left
    refine ⟨?_, h⟩
    intro x hx
    cases hpx : p x
    · rfl
    · exfalso
      have := List.length_eraseP_of_mem hx hpx
      rw [h] at this
      have : 0 < l.length := List.length_pos_of_mem hx
      omega
  · right
    exact ⟨a, l₁, l₂, fun b hb => by simpa using h1 b hb, h2, h3, h4⟩

/-! ### removal / insertion by index: refused (panic in Rust) when out of range, exact otherwise -/

theorem C10_remove_idx {α} (l : List α) (i : Nat) :
    (i < l.length → removeIdx? l i = some (l.eraseIdx i)) ∧ (l.length ≤ i → removeIdx? l i = none) := by
  unfold removeIdx?
  constructor
  · intro h; simp [h]
  · intro h; simp [Nat.not_lt.mpr h]

theorem C10_insert_idx {α} (l : List α) (i : Nat) (x : α) :
    (i ≤ l.length → insertIdx? l i x = some (l.take i ++ x :: l.drop i)) ∧
    (l.length < i → insertIdx? l i x = none) := by
  unfold insertIdx?
  exact ⟨fun h => by rw [if_pos h], fun h => by rw [if_neg (Nat.not_le.mpr h)]⟩

/-! ### remove_empty -/

theorem C10_remove_empty_no_empty (s : PDB) :
    ∀ m ∈ s.removeEmpty.models, m.chains ≠ [] ∧ ∀ c ∈ m.chains, c.residues ≠ [] ∧
      ∀ r ∈ c.residues, r.conformers ≠ [] ∧ ∀ f ∈ r.conformers, f.atoms ≠ [] := by
  intro m hm
  simp only [PDB.removeEmpty, List.mem_filter, List.mem_map, Model.chainCount, decide_eq_true_eq] at hm
  obtain ⟨⟨m0, _, rfl⟩, hpos⟩ := hm
  refine ⟨List.ne_nil_of_length_pos (of_decide_eq_true hpos), ?_⟩
  intro c hc
  simp only [Model.removeEmpty, List.mem_filter, List.mem_map, Chain.residueCount, decide_eq_true_eq] at hc
  obtain ⟨⟨c0, _, rfl⟩, hcpos⟩ := hc
  refine ⟨List.ne_nil_of_length_pos (of_decide_eq_true hcpos), ?_⟩
  intro r hr
  simp only [Chain.removeEmpty, List.mem_filter, List.mem_map, Residue.conformerCount, decide_eq_true_eq] at hr
  obtain ⟨⟨r0, _, rfl⟩, hrpos⟩ := hr
  refine ⟨List.ne_nil_of_length_pos (of_decide_eq_true hrpos), ?_⟩
  intro f hf
  simp only [Residue.removeEmpty, List.mem_filter, Conformer.atomCount, decide_eq_true_eq] at hf
  exact List.ne_nil_of_length_pos (of_decide_eq_true hf.2)

theorem flatMap_filter_of_empty {α β} (l : List α) (keep : α → Bool) (f : α → List β)
    (h : ∀ x, keep x = false → f x = []) : (l.filter keep).flatMap f = l.flatMap f := by
  induction l with
  | nil => rfl
  | cons x xs ih =>
    simp only [List.filter_cons]
    cases hk : keep x
    · simp only [Bool.false_eq_true, if_false, List.flatMap_cons, h x hk, List.nil_append]; exact ih
    · simp only [if_true, List.flatMap_cons, ih]

/-- nothing but empty containers disappears: the atoms (with their order) are untouched -/
theorem C10_remove_empty_atoms (s : PDB) : s.removeEmpty.atoms = s.atoms := by
  have hr : ∀ r : Residue, r.removeEmpty.atoms = r.atoms := by
    intro r; unfold Residue.removeEmpty Residue.atoms
    apply flatMap_filter_of_empty
    intro f hf
    have := of_decide_eq_false hf
    exact List.eq_nil_of_length_eq_zero (by simp only [Conformer.atomCount] at this; omega)
  have hc : ∀ c : Chain, c.removeEmpty.atoms = c.atoms := by
    intro c
    unfold Chain.removeEmpty Chain.atoms
    simp only
    rw [flatMap_filter_of_empty, List.flatMap_map]
    · congr 1; funext r; exact hr r
    · intro r hrr
      have h0 := of_decide_eq_false hrr
      have : r.conformers = [] :=
        List.eq_nil_of_length_eq_zero (by simp only [Residue.conformerCount] at h0; omega)
      simp [Residue.atoms, this]
  have hm : ∀ m : Model, m.removeEmpty.atoms = m.atoms := by
    intro m
    unfold Model.removeEmpty Model.atoms
    simp only
    rw [flatMap_filter_of_empty, List.flatMap_map]
    · congr 1; funext c; exact hc c
    · intro c hcc
      have h0 := of_decide_eq_false hcc
      have : c.residues = [] :=
        List.eq_nil_of_length_eq_zero (by simp only [Chain.residueCount] at h0; omega)
      simp [Chain.atoms, this]
  unfold PDB.removeEmpty PDB.atoms
  simp only
  rw [flatMap_filter_of_empty, List.flatMap_map]
  · congr 1; funext m; exact hm m
  · intro m hmm
    have h0 := of_decide_eq_false hmm
    have : m.chains = [] :=
      List.eq_nil_of_length_eq_zero (by simp only [Model.chainCount] at h0; omega)
    simp [Model.atoms, this]

/-! ### keeping selected models -/

theorem removeModelsExcept_refused (s : PDB) (idxs : List Nat)
    (h : s.models = [] ∨ idxs = [] ∨ ∃ i ∈ idxs, i ≥ s.models.length) :
    s.removeModelsExcept idxs = (s, none) := by
  unfold PDB.removeModelsExcept
  by_cases he : s.models.isEmpty = true
  · rw [if_pos he]
  · rw [if_neg he]
    cases hmx : idxs.max? with
    | none => rfl
    | some mx =>
      show (if mx ≥ s.models.length then (s, none) else _) = _
      have : mx ≥ s.models.length := by
        rcases h with h | h | ⟨i, hi, hge⟩
        · exfalso; apply he; simp [h]
        · subst h; simp at hmx
        · have : i ≤ mx := (List.max?_eq_some_iff.mp hmx).2 i hi
          omega
      rw [if_pos this]

theorem removeModelsExcept_done (s : PDB) (idxs : List Nat)
    (h1 : s.models ≠ []) (h2 : idxs ≠ []) (h3 : ∀ i ∈ idxs, i < s.models.length) :
    s.removeModelsExcept idxs =
      ({ s with models := (s.models.zipIdx.filter (fun mi => idxs.contains mi.2)).map (·.1) },
       some (s.models.length - ((s.models.zipIdx.filter (fun mi => idxs.contains mi.2)).map (·.1)).length)) := by
  unfold PDB.removeModelsExcept
  have he : ¬ s.models.isEmpty = true := by
    intro h; apply h1; exact List.isEmpty_iff.mp h
  rw [if_neg he]
  cases hmx : idxs.max? with
  | none => exfalso; exact h2 (List.max?_eq_none_iff.mp hmx)
  | some mx =>
    show (if mx ≥ s.models.length then (s, none) else _) = _
    have hm : mx ∈ idxs := List.max?_mem hmx
    rw [if_neg (Nat.not_le.mpr (h3 mx hm))]

/-- keeping selected models: refused without change when there are no models, no indices, or an index
is out of range; otherwise exactly the models at the listed indices, in original order, and the number
removed is reported -/
theorem C10_models_except (s : PDB) (idxs : List Nat) :
    ((s.models = [] ∨ idxs = [] ∨ ∃ i ∈ idxs, i ≥ s.models.length) →
      s.removeModelsExcept idxs = (s, none)) ∧
    ((s.models ≠ [] ∧ idxs ≠ [] ∧ ∀ i ∈ idxs, i < s.models.length) →
      (s.removeModelsExcept idxs).1.models =
        (s.models.zipIdx.filter (fun mi => idxs.contains mi.2)).map (·.1) ∧
      (s.removeModelsExcept idxs).2 =
        some (s.models.length - (s.removeModelsExcept idxs).1.models.length)) := by
  refine ⟨removeModelsExcept_refused s idxs, ?_⟩
  intro ⟨h1, h2, h3⟩
  rw [removeModelsExcept_done s idxs h1 h2 h3]
  exact ⟨rfl, rfl⟩

/-! ### join / extend: concatenation, the receiver's own data kept -/

theorem C10_join_conformer (c o : Conformer) :
    (c.join o).atoms = c.atoms ++ o.atoms ∧ (c.join o).name = c.name ∧ (c.join o).alt = c.alt ∧
    (c.join o).modification = c.modification := ⟨rfl, rfl, rfl, rfl⟩

theorem C10_join_levels (r o : Residue) (c oc : Chain) (m om : Model) :
    (r.join o).conformers = r.conformers ++ o.conformers ∧ (r.join o).rid = r.rid ∧
    (c.join oc).residues = c.residues ++ oc.residues ∧ (c.join oc).id = c.id ∧
    (m.join om).chains = m.chains ++ om.chains ∧ (m.join om).serial = m.serial :=
  ⟨rfl, rfl, rfl, rfl, rfl, rfl⟩

/-- `PDB::join`: models are appended when either side has several; two single-model structures are merged
into the receiver's model; an empty side is the identity -/
theorem C10_join_pdb (s o : PDB) :
    ((s.models.length > 1 ∨ o.models.length > 1) → (s.join o).models = s.models ++ o.models) ∧
    (s.models = [] → o.models.length ≤ 1 → (s.join o).models = o.models) ∧
    (o.models = [] → s.models.length ≤ 1 → (s.join o).models = s.models) ∧
    (∀ m om, s.models = [m] → o.models = [om] → (s.join o).models = [m.join om]) := by
  refine ⟨?_, ?_, ?_, ?_⟩
  · intro h
    unfold PDB.join
    have : (decide (s.models.length > 1) || decide (o.models.length > 1)) = true := by
      rcases h with h | h <;> simp [h]
    simp [this]
  · intro hs ho
    unfold PDB.join
    have : (decide (s.models.length > 1) || decide (o.models.length > 1)) = false := by
      simp [hs]; omega
    simp [this, hs]
  · intro ho hs
    unfold PDB.join
    have : (decide (s.models.length > 1) || decide (o.models.length > 1)) = false := by
      simp [ho]; omega
    rw [this]
    simp only [Bool.false_eq_true, if_false, ho]
    cases hms : s.models with
    | nil => exact ho
    | cons m ms => exact hms
  · intro m om hs ho
    unfold PDB.join
    simp [hs, ho]

/-! ### setters: a rejected value never becomes part of the structure; an accepted one is stored in
normalised form and nothing else changes -/

theorem C10_set_occupancy (a : Atom) (n : Num) :
    (a.setOccupancy n = none ↔ (n = .notFinite ∨ ∃ v, n = .fin v ∧ v < 0)) ∧
    (∀ a', a.setOccupancy n = some a' → ∃ v, n = .fin v ∧ 0 ≤ v ∧ a' = { a with occ := v }) := by
  cases n with
  | notFinite => simp [Atom.setOccupancy]
  | fin v =>
    by_cases h : v ≥ 0
    · simp [Atom.setOccupancy, h] <;> omega
    · simp [Atom.setOccupancy, h] <;> omega

theorem C10_set_b_factor (a : Atom) (n : Num) :
    (a.setBFactor n = none ↔ (n = .notFinite ∨ ∃ v, n = .fin v ∧ v < 0)) ∧
    (∀ a', a.setBFactor n = some a' → ∃ v, n = .fin v ∧ 0 ≤ v ∧ a' = { a with b := v }) := by
  cases n with
  | notFinite => simp [Atom.setBFactor]
  | fin v =>
    by_cases h : v ≥ 0
    · simp [Atom.setBFactor, h] <;> omega
    · simp [Atom.setBFactor, h] <;> omega

theorem C10_set_pos (a : Atom) (x y z : Num) :
    (a.setPos x y z = none ↔ (x = .notFinite ∨ y = .notFinite ∨ z = .notFinite)) ∧
    (∀ a', a.setPos x y z = some a' → ∃ vx vy vz, x = .fin vx ∧ y = .fin vy ∧ z = .fin vz ∧
      a' = { a with x := vx, y := vy, z := vz }) := by
  cases x <;> cases y <;> cases z <;> simp [Atom.setPos]

theorem C10_set_text (a : Atom) (c : Conformer) (r : Residue) (ch : Chain) (raw : String) :
    (a.setName raw = none ↔ validText raw.toList = false) ∧
    (∀ a', a.setName raw = some a' → a' = { a with name := String.ofList ((trim raw.toList).map upperAscii) }) ∧
    (c.setName raw = none ↔ prepIdUpS raw = none) ∧
    (∀ c', c.setName raw = some c' → ∃ n, prepIdUpS raw = some n ∧ c' = { c with name := n }) ∧
    (r.setIcode raw = none ↔ prepIdUpS raw = none) ∧
    (∀ r', r.setIcode raw = some r' → ∃ n, prepIdUpS raw = some n ∧ r' = { r with icode := some n }) ∧
    (ch.setId raw = none ↔ prepIdS raw = none) ∧
    (∀ c', ch.setId raw = some c' → ∃ n, prepIdS raw = some n ∧ c' = { ch with id := n }) := by
  refine ⟨?_, ?_, ?_, ?_, ?_, ?_, ?_, ?_⟩
  · unfold Atom.setName; cases validText raw.toList <;> simp
  · intro a' h; unfold Atom.setName at h; split at h <;> simp_all
  · unfold Conformer.setName; cases prepIdUpS raw <;> simp
  · intro c' h; unfold Conformer.setName at h; cases hp : prepIdUpS raw <;> simp_all
  · unfold Residue.setIcode; cases prepIdUpS raw <;> simp
  · intro r' h; unfold Residue.setIcode at h; cases hp : prepIdUpS raw <;> simp_all
  · unfold Chain.setId; cases prepIdS raw <;> simp
  · intro c' h; unfold Chain.setId at h; cases hp : prepIdS raw <;> simp_all

/-- non-vacuity -/
example :
    let a : Atom := { (default : Atom) with serial := 3 }
    let b : Atom := { (default : Atom) with serial := 4 }
    let s : PDB := ⟨[⟨1, [⟨"A", [⟨1, none, [⟨"ALA", none, [a, b], none⟩, ⟨"GLY", none, [], none⟩]⟩]⟩, ⟨"B", []⟩]⟩]⟩
    (s.removeAtomsBy (fun x => x.serial == 3)).atoms = [b] ∧ s.removeEmpty.chains.length = 1 ∧
    s.removeEmpty.conformers.length = 1 ∧ (s.removeModelsExcept [0]).2 = some 0 ∧ (s.removeModelsExcept [1]).2 = none := by
  decide

end PdbModel
