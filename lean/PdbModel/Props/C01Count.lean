/-
C01 — no atom without a record: over any sequence of records, the number of atoms read never exceeds the number
of ATOM / HETATM records processed (every other record leaves the atom list alone, an ANISOU only its tensors,
and an ATOM / HETATM record adds its own atom or nothing).
-/
import PdbModel.Props.C01Aniso
namespace PdbModel

def LexItem.isAtomRecord : LexItem → Bool
  | .atom .. => true
  | _ => false

theorem stepItem_atom_count (o : ReadOpts) (s : PState) (ctx : Nat × List Char) (item : LexItem) :
    (stepItem o s ctx item).1.allAtoms.length ≤ s.allAtoms.length + (if item.isAtomRecord then 1 else 0) := by
  cases hi : item with
  | atom het serial name alt resName chain resSeq icode x y z occ b element charge =>
    have := C01_atom_record_adds_its_atom o s ctx het serial name alt resName chain resSeq icode x y z occ b element charge
    unfold afterAtom at this
    simp only [LexItem.isAtomRecord, if_true]
    rcases this with h | ⟨a, _, _, hp⟩
    · rw [h]; omega
    · rw [hp.length_eq]; simp
  | anisou serial u =>
    have := congrArg List.length (C01_anisou_only_sets_a_tensor o s ctx serial u)
    simp only [List.length_map] at this
    simp only [LexItem.isAtomRecord, Bool.false_eq_true, if_false, Nat.add_zero]
    omega
  | _ =>
    have := C01_only_atom_records_touch_atoms o s ctx item (by rw [hi]; rfl)
    rw [hi] at this
    rw [this]
    simp [LexItem.isAtomRecord]

/-- **no atom without a record** -/
theorem C01_no_atom_without_a_record (o : ReadOpts) (items : List ((Nat × List Char) × LexItem)) (s : PState) :
    (items.foldl (fun s ci => (stepItem o s ci.1 ci.2).1) s).allAtoms.length ≤
      s.allAtoms.length + (items.filter (fun ci => ci.2.isAtomRecord)).length := by
  induction items generalizing s with
  | nil => simp
  | cons ci rest ih =>
    rw [List.foldl_cons]
    have h1 := ih (stepItem o s ci.1 ci.2).1
    have h2 := stepItem_atom_count o s ci.1 ci.2
    rw [List.filter_cons]
    split
    · next hb => rw [hb] at h2; simp only [if_true] at h2; simp only [List.length_cons]; omega
    · next hb =>
      have : ci.2.isAtomRecord = false := by simpa using hb
      rw [this] at h2; simp only [Bool.false_eq_true, if_false] at h2; omega

end PdbModel
