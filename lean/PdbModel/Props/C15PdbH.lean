/-
C15 on the PDB reader model: discard-hydrogens is a pure filter.  Reading with the option set gives the same
structure (hierarchy, metadata, exactness flag) as reading, without the option, the text in which every hydrogen
record (an ATOM / HETATM line whose element field reads `H`) has been blanked out.  Blanking rather than deleting
keeps the line numbers, so the statement is exact for every other record; a blank line is lexed as nothing.
Only the diagnostics differ: a hydrogen record with an unreadable field still reports that field.
-/
import PdbModel.PdbRead
namespace PdbModel

/-- the parser state without its diagnostics -/
def PState.noErr (s : PState) : PState := { s with errors := [] }

/-- is this line a hydrogen record (for the given lexing options) -/
def isHLine (o : ReadOpts) (ln : Nat) (line : List Char) : Bool :=
  match lexLine line ln o.level o.onlyAtomicCoords with
  | .ok (.atom _ _ _ _ _ _ _ _ _ _ _ _ _ element _, _) => element == ['H']
  | _ => false

def withH (o : ReadOpts) (b : Bool) : ReadOpts := { o with discardHydrogens := b }

theorem lexLine_nil (ln : Nat) (lvl : Strictness) (oa : Bool) : lexLine [] ln lvl oa = .ok (.empty, []) := by
  unfold lexLine lexLineRaw
  rfl

/-- the state after a line depends on the earlier diagnostics only through the diagnostics -/
theorem stepLine_noErr (o : ReadOpts) (s : PState) (ln : Nat) (line : List Char) :
    (stepLine o s ln line).noErr = (stepLine o s.noErr ln line).noErr := by
  unfold stepLine PState.noErr
  simp only
  split
  · rfl
  · split <;> rfl

/-- a blank line changes nothing -/
theorem stepLine_blank (o : ReadOpts) (s : PState) (ln : Nat) : (stepLine o s ln []).noErr = s.noErr := by
  unfold stepLine
  split
  · rfl
  · rw [lexLine_nil]
    simp only [stepItem, PState.noErr]

/-- the option matters to hydrogen atoms only -/
theorem stepItem_discard (o : ReadOpts) (s : PState) (ctx : Nat × List Char) (item : LexItem)
    (h : ∀ a b c d e f g i j k l m n el ch, item = .atom a b c d e f g i j k l m n el ch → (el == ['H']) = false) :
    stepItem (withH o true) s ctx item = stepItem (withH o false) s ctx item := by
  cases item with
  | atom a b c d e f g i j k l m n el ch =>
    have := h a b c d e f g i j k l m n el ch rfl
    simp only [stepItem, withH, this, Bool.and_false, Bool.false_eq_true, if_false]
  | model n => rfl
  | _ => rfl

/-- **a hydrogen record is skipped, every other line is processed as without the option** -/
theorem stepLine_discard (o : ReadOpts) (s : PState) (ln : Nat) (line : List Char) :
    (stepLine (withH o true) s ln line).noErr =
      (if isHLine o ln line then s.noErr else (stepLine (withH o false) s ln line).noErr) := by
  unfold stepLine isHLine
  simp only [withH]
  split
  · split <;> (try split) <;> rfl
  · cases hl : lexLine line ln o.level o.onlyAtomicCoords with
    | error e => simp only [PState.noErr]; split <;> rfl
    | ok p =>
      obtain ⟨item, errs⟩ := p
      cases item with
      | atom a b c d e f g i j k l m n el ch =>
        simp only
        cases hel : (el == ['H'])
        · simp only [Bool.false_eq_true, if_false]
          have := stepItem_discard o { s with errors := [] } (ln, line) (.atom a b c d e f g i j k l m n el ch)
            (by intro _ _ _ _ _ _ _ _ _ _ _ _ _ _ _ he; cases he; exact hel)
          simp only [withH] at this
          rw [this]
        · simp only [if_true, stepItem, hel, Bool.and_true, PState.noErr]
      | _ =>
        simp only
        first
          | rfl
          | (simp only [Bool.false_eq_true, if_false]
             have := stepItem_discard o { s with errors := [] } (ln, line) _ (by intro _ _ _ _ _ _ _ _ _ _ _ _ _ _ _ he; cases he)
             simp only [withH] at this
             rw [this])

/-- the text with its hydrogen records blanked out (line numbers are kept) -/
def blankH (o : ReadOpts) (lines : List (List Char)) : List (List Char) :=
  ((List.range lines.length).zip lines).map fun il => if isHLine o (il.1 + 1) il.2 then [] else il.2

theorem zip_range'_map (k : Nat) (lines : List (List Char)) (g : Nat × List Char → List Char) :
    (List.range' k lines.length).zip (((List.range' k lines.length).zip lines).map g) =
      ((List.range' k lines.length).zip lines).map (fun il => (il.1, g il)) := by
  induction lines generalizing k with
  | nil => rfl
  | cons a as ih =>
    simp only [List.length_cons, List.range'_succ, List.zip_cons_cons, List.map_cons]
    rw [ih (k + 1)]

theorem blankH_length (o : ReadOpts) (lines : List (List Char)) : (blankH o lines).length = lines.length := by
  unfold blankH
  simp

theorem fold_discard (o : ReadOpts) (zl : List (Nat × List Char)) (s s' : PState) (h : s.noErr = s'.noErr) :
    (zl.foldl (fun s (il : Nat × List Char) => stepLine (withH o true) s (il.1 + 1) il.2) s).noErr =
      (zl.foldl (fun s (il : Nat × List Char) => stepLine (withH o false) s (il.1 + 1)
        (if isHLine o (il.1 + 1) il.2 then [] else il.2)) s').noErr := by
  induction zl generalizing s s' with
  | nil => exact h
  | cons il rest ih =>
    simp only [List.foldl_cons]
    apply ih
    rw [stepLine_discard]
    split
    · rw [stepLine_blank]; exact h
    · rw [stepLine_noErr, h, ← stepLine_noErr]

theorem flushModel_noErr (s : PState) : (flushModel s).noErr = flushModel s.noErr := by
  unfold flushModel PState.noErr
  simp only
  split <;> rfl

/-- the structure that is returned does not depend on the diagnostics collected on the way -/
theorem readPdbCore_file (o o' : ReadOpts) (lines lines' : List (List Char))
    (h : (((List.range lines.length).zip lines).foldl (fun s (il : Nat × List Char) => stepLine o s (il.1 + 1) il.2)
            ({} : PState)).noErr =
         (((List.range lines'.length).zip lines').foldl (fun s (il : Nat × List Char) => stepLine o' s (il.1 + 1) il.2)
            ({} : PState)).noErr) :
    (readPdbCore o lines).1 = (readPdbCore o' lines').1 := by
  unfold readPdbCore
  simp only
  generalize (((List.range lines.length).zip lines).foldl (fun s (il : Nat × List Char) => stepLine o s (il.1 + 1) il.2)
    ({} : PState)) = s at h ⊢
  generalize (((List.range lines'.length).zip lines').foldl (fun s (il : Nat × List Char) => stepLine o' s (il.1 + 1) il.2)
    ({} : PState)) = s' at h ⊢
  have hf : (flushModel s).noErr = (flushModel s').noErr := by rw [flushModel_noErr, flushModel_noErr, h]
  generalize flushModel s = t at hf ⊢
  generalize flushModel s' = t' at hf ⊢
  have h1 : t.models = t'.models := by have := congrArg PState.models hf; exact this
  have h2 : t.dbrefs = t'.dbrefs := by have := congrArg PState.dbrefs hf; exact this
  have h3 : t.scale = t'.scale := by have := congrArg PState.scale hf; exact this
  have h4 : t.origx = t'.origx := by have := congrArg PState.origx hf; exact this
  have h5 : t.mtrix = t'.mtrix := by have := congrArg PState.mtrix hf; exact this
  have h6 : t.modifications = t'.modifications := by have := congrArg PState.modifications hf; exact this
  have h7 : t.bonds = t'.bonds := by have := congrArg PState.bonds hf; exact this
  have h8 : t.info = t'.info := by have := congrArg PState.info hf; exact this
  have h9 : t.exact = t'.exact := by have := congrArg PState.exact hf; exact this
  have h10 : t.seqres = t'.seqres := by have := congrArg PState.seqres hf; exact this
  have h11 : t.seqresLines = t'.seqresLines := by have := congrArg PState.seqresLines hf; exact this
  simp only [h1, h2, h3, h4, h5, h6, h7, h8, h9, h10, h11]

/-- **discard-hydrogens is a pure filter** (PDB reader): the structure read with the option set is the structure
read without it from the text whose hydrogen records are blanked out; in particular whether the input is
the hierarchy, every atom, the metadata and the bonds agree -/
theorem C15_pdb_discard_hydrogens (o : ReadOpts) (lines : List (List Char)) :
    (readPdbCore (withH o true) lines).1 = (readPdbCore (withH o false) (blankH o lines)).1 := by
  apply readPdbCore_file
  rw [blankH_length]
  have hz : (List.range lines.length).zip (blankH o lines) =
      ((List.range lines.length).zip lines).map (fun il => (il.1, if isHLine o (il.1 + 1) il.2 then [] else il.2)) := by
    unfold blankH
    rw [List.range_eq_range']
    exact zip_range'_map 0 lines _
  rw [hz, List.foldl_map]
  exact fold_discard o _ _ _ rfl

/-- a text without hydrogen records is read the same with and without the option -/
theorem C15_pdb_discard_nothing_to_discard (o : ReadOpts) (lines : List (List Char))
    (h : ∀ il ∈ (List.range lines.length).zip lines, isHLine o (il.1 + 1) il.2 = false) :
    (readPdbCore (withH o true) lines).1 = (readPdbCore (withH o false) lines).1 := by
  rw [C15_pdb_discard_hydrogens]
  congr 2
  unfold blankH
  have : ((List.range lines.length).zip lines).map (fun il => if isHLine o (il.1 + 1) il.2 then [] else il.2) =
      ((List.range lines.length).zip lines).map (·.2) := by
    apply List.map_congr_left
    intro il hil
    rw [h il hil]; rfl
  rw [this, List.map_snd_zip]
  simp

/-- non-vacuity: a hydrogen record is recognised, a carbon record is not -/
example : isHLine {} 1 "ATOM      1  H   ALA A   1       1.000   2.000   3.000  1.00 10.00           H  ".toList = true ∧
    isHLine {} 2 "ATOM      2  CA  ALA A   1       1.000   2.000   3.000  1.00 10.00           C  ".toList = false := by
  constructor <;> decide +kernel

end PdbModel
