/-
C16 — reading the same text twice gives the same diagnostics: the SEQRES data are collected in a hash map, whose
iteration order differs from run to run; the checks visit the chains in the order of their ids instead, so whatever
order the map hands the chains out in, the same chains are checked in the same order.
-/
import PdbModel.PdbRead
namespace PdbModel

def keyLe {α} (a b : Char × α) : Prop := a.1.toNat ≤ b.1.toNat

theorem insertByKey_perm {α} (x : Char × α) (l : List (Char × α)) : (insertByKey x l).Perm (x :: l) := by
  induction l with
  | nil => exact List.Perm.refl _
  | cons y r ih =>
    unfold insertByKey
    split
    · exact List.Perm.refl _
    · exact (List.Perm.cons y ih).trans (List.Perm.swap x y r)

theorem insertByKey_sorted {α} (x : Char × α) (l : List (Char × α)) (h : l.Pairwise keyLe) :
    (insertByKey x l).Pairwise keyLe := by
  induction l with
  | nil => exact List.pairwise_singleton _ _
  | cons y r ih =>
    unfold insertByKey
    split
    · next hxy =>
      refine List.Pairwise.cons ?_ h
      intro z hz
      rcases List.mem_cons.mp hz with rfl | hz
      · exact hxy
      · exact Nat.le_trans hxy ((List.pairwise_cons.mp h).1 z hz)
    · next hxy =>
      refine List.Pairwise.cons ?_ (ih (List.pairwise_cons.mp h).2)
      intro z hz
      rcases List.mem_cons.mp ((insertByKey_perm x r).subset hz) with rfl | hz
      · unfold keyLe; omega
      · exact (List.pairwise_cons.mp h).1 z hz

theorem sortByKey_perm {α} (l : List (Char × α)) : (sortByKey l).Perm l := by
  induction l with
  | nil => exact List.Perm.refl _
  | cons x r ih =>
    unfold sortByKey
    rw [List.foldr_cons]
    exact (insertByKey_perm x _).trans (List.Perm.cons x ih)

theorem sortByKey_sorted {α} (l : List (Char × α)) : (sortByKey l).Pairwise keyLe := by
  induction l with
  | nil => exact List.Pairwise.nil
  | cons x r ih =>
    unfold sortByKey
    rw [List.foldr_cons]
    exact insertByKey_sorted x _ ih

theorem eq_of_nodup_map {α β} (f : α → β) (l : List α) (hd : (l.map f).Nodup) (a b : α) (ha : a ∈ l) (hb : b ∈ l)
    (h : f a = f b) : a = b := by
  induction l with
  | nil => cases ha
  | cons x r ih =>
    simp only [List.map_cons, List.nodup_cons] at hd
    rcases List.mem_cons.mp ha with rfl | ha' <;> rcases List.mem_cons.mp hb with rfl | hb'
    · rfl
    · exact absurd (List.mem_map.mpr ⟨b, hb', h.symm⟩) hd.1
    · exact absurd (List.mem_map.mpr ⟨a, ha', h⟩) hd.1
    · exact ih hd.2 ha' hb'

/-- **the order in which the map hands out the chains does not matter**: two listings of the same SEQRES data (one
entry per chain id) are visited in the same order -/
theorem C16_seqres_visit_order_fixed {α} (l1 l2 : List (Char × α)) (hp : l1.Perm l2)
    (hd : (l1.map (·.1)).Nodup) : sortByKey l1 = sortByKey l2 := by
  apply List.Perm.eq_of_pairwise (le := keyLe) _ (sortByKey_sorted l1) (sortByKey_sorted l2)
    ((sortByKey_perm l1).trans (hp.trans (sortByKey_perm l2).symm))
  intro a b ha hb hab hba
  -- equal keys: the same entry, because the ids are distinct
  have ha1 : a ∈ l1 := (sortByKey_perm l1).subset ha
  have hb1 : b ∈ l1 := hp.symm.subset ((sortByKey_perm l2).subset hb)
  have hk : a.1 = b.1 := by
    unfold keyLe at hab hba
    exact Char.toNat_inj.mp (Nat.le_antisymm hab hba)
  -- distinct first components in `l1`
  exact eq_of_nodup_map (·.1) l1 hd a b ha1 hb1 hk

/-- … hence the SEQRES checks give the same structure and the same diagnostics for both listings -/
theorem C16_seqres_checks_deterministic (p : PDB) (dbrefs : List (Nat × DbRef))
    (l1 l2 : List (Char × List (Nat × Nat × List (List Char)))) (lines : List (Nat × List Char))
    (hp : l1.Perm l2) (hd : (l1.map (·.1)).Nodup) :
    validateSeqres p dbrefs l1 lines = validateSeqres p dbrefs l2 lines := by
  unfold validateSeqres
  rw [C16_seqres_visit_order_fixed l1 l2 hp hd]

end PdbModel
