/-
C18 — validation reports exactly the documented inconsistencies.
-/
import PdbModel.Validate
import PdbModel.Props.C09
namespace PdbModel

/-- `Atom::corresponds` is exactly equality on serial number, name, element, charge and presence of an
anisotropic tensor -/
theorem C18_corresponds (a b : Atom) :
    a.corresponds b = true ↔
      (a.serial = b.serial ∧ a.name = b.name ∧ a.element = b.element ∧ a.charge = b.charge ∧
        (a.atf.isSome = b.atf.isSome)) := by
  unfold Atom.corresponds
  cases ha : a.atf <;> cases hb : b.atf <;> simp [and_assoc]

theorem correspondLoop_eq (first cur : List Atom) (h : first.length = cur.length) (fuel i : Nat)
    (hf : fuel = cur.length - i) :
    correspondLoop first cur fuel i = mismatches (first.drop i) (cur.drop i) := by
  induction fuel generalizing i with
  | zero =>
    have hi : cur.length ≤ i := by omega
    have : cur.drop i = [] := List.drop_eq_nil_of_le hi
    simp [correspondLoop, mismatches, this]
  | succ f ih =>
    have hi : i < cur.length := by omega
    have hi' : i < first.length := by omega
    unfold correspondLoop
    rw [List.getElem?_eq_getElem hi, List.getElem?_eq_getElem hi']
    simp only
    rw [ih (i + 1) (by omega)]
    rw [List.drop_eq_getElem_cons hi, List.drop_eq_getElem_cons hi']
    unfold mismatches
    simp only [List.zip_cons_cons, List.flatMap_cons]
    cases first[i].corresponds cur[i] <;> simp

/-- General validation is exactly the documented rule list, in order and multiplicity: for every later
model a size diagnostic (all atoms, then non-hetero atoms) when the counts differ from the first model's,
otherwise one correspondence diagnostic per position whose atom differs; and 'No Atoms' exactly when the
structure has no atom. -/
theorem C18_validate_exact (p : PDB) : validate p = specValidate p := by
  unfold validate specValidate
  congr 1
  · unfold PDB.modelCount validateModels
    match hm : p.models with
    | [] => simp
    | [_] => simp
    | first :: second :: rest =>
      simp only [List.length_cons, show rest.length + 1 + 1 > 1 by omega, if_true]
      have key : ∀ l : List Model, ∀ (f g : Model → List Diag), (∀ m, f m = g m) → l.flatMap f = l.flatMap g := by
        intro l f g hfg; congr 1; funext m; exact hfg m
      apply key
      intro m
      rw [(C09_counts_model m).2.2.2, (C09_counts_model first).2.2.2]
      by_cases h1 : m.atoms.length = first.atoms.length
      · simp only [h1, bne_self_eq_false, Bool.false_eq_true, if_false, ne_eq, not_true_eq_false]
        by_cases h2 : (m.atoms.filter (fun a => !a.hetero)).length = (first.atoms.filter (fun a => !a.hetero)).length
        · simp only [h2, bne_self_eq_false, Bool.false_eq_true, if_false, ne_eq, not_true_eq_false]
          rw [← h1, correspondLoop_eq first.atoms m.atoms h1.symm m.atoms.length 0 (by omega)]
          simp
        · simp [h2]
      · simp [h1]
  · cases h : p.atoms <;> simp

theorem C18_no_atoms_iff (p : PDB) :
    (ErrorLevel.breaking, "No Atoms") ∈ validate p ↔ p.atoms = [] := by
  rw [C18_validate_exact]
  unfold specValidate
  constructor
  · intro h
    rw [List.mem_append] at h
    rcases h with h | h
    · exfalso
      split at h
      · simp only [List.mem_flatMap] at h
        obtain ⟨m, _, hm⟩ := h
        split at hm
        · simp at hm
        · split at hm
          · simp at hm
          · unfold mismatches at hm
            simp only [List.mem_flatMap] at hm
            obtain ⟨x, _, hx⟩ := hm
            split at hx <;> simp at hx
      · simp at h
    · by_cases hp : p.atoms = []
      · exact hp
      · simp [hp] at h
  · intro h; simp [h]

/-- a correspondence diagnostic for exactly the positions whose atom differs from the first model's -/
theorem C18_mismatch_count (first cur : List Atom) :
    (mismatches first cur).length = ((List.zip first cur).filter (fun sc => !sc.1.corresponds sc.2)).length := by
  unfold mismatches
  induction List.zip first cur with
  | nil => rfl
  | cons x xs ih =>
    simp only [List.flatMap_cons, List.length_append, List.filter_cons, ih]
    cases x.1.corresponds x.2 <;> simp <;> omega

/-! ### PDB column validation -/

theorem whenD_length (c : Bool) (s : String) : (whenD c s).length = if c then 1 else 0 := by
  cases c <;> rfl

/-- exactly one diagnostic per atom value that does not fit its column, none otherwise -/
theorem C18_atom_column_count (a : Atom) :
    (atomColumnDiags a).length =
      (if a.name.length > 4 then 1 else 0) + (if a.serial > 99999 then 1 else 0) +
      (if a.charge > 9 ∨ a.charge < -9 then 1 else 0) +
      (if a.occ > 999990000 ∨ a.occ < -99990000 then 1 else 0) +
      (if a.b > 999990000 ∨ a.b < -99990000 then 1 else 0) +
      (if a.x > 9999999000 ∨ a.x < -999999000 then 1 else 0) +
      (if a.y > 9999999000 ∨ a.y < -999999000 then 1 else 0) +
      (if a.z > 9999999000 ∨ a.z < -999999000 then 1 else 0) := by
  unfold atomColumnDiags
  simp only [List.length_append, whenD_length, Bool.or_eq_true, decide_eq_true_eq]

theorem whenD_nil (c : Bool) (s : String) : whenD c s = [] ↔ c = false := by
  cases c <;> simp [whenD, L]

theorem atomColumnDiags_nil (a : Atom) : atomColumnDiags a = [] ↔ atomFits a = true := by
  unfold atomColumnDiags atomFits
  simp only [List.append_eq_nil_iff, whenD_nil, Bool.and_eq_true, decide_eq_true_eq, decide_eq_false_iff_not,
    Bool.or_eq_false_iff]
  omega

theorem flatMap_nil_iff {α β} (l : List α) (f : α → List β) : l.flatMap f = [] ↔ ∀ x ∈ l, f x = [] := by
  induction l with
  | nil => simp
  | cons x xs ih => simp [List.flatMap_cons, List.append_eq_nil_iff, ih]

theorem conformerColumnDiags_nil (c : Conformer) :
    conformerColumnDiags c = [] ↔ (conformerFits c = true ∧ ∀ a ∈ c.atoms, atomFits a = true) := by
  unfold conformerColumnDiags conformerFits
  simp only [List.append_eq_nil_iff, whenD_nil, flatMap_nil_iff, atomColumnDiags_nil]
  cases c.alt <;> cases c.modification <;>
    simp [whenD_nil, List.append_eq_nil_iff, Nat.not_lt, and_assoc]

theorem residueColumnDiags_nil (r : Residue) :
    residueColumnDiags r = [] ↔ (residueFits r = true ∧ ∀ c ∈ r.conformers,
      (conformerFits c = true ∧ ∀ a ∈ c.atoms, atomFits a = true)) := by
  unfold residueColumnDiags residueFits
  simp only [List.append_eq_nil_iff, whenD_nil, flatMap_nil_iff, conformerColumnDiags_nil]
  cases r.icode <;> simp [whenD_nil, and_assoc, Int.not_lt]
  all_goals exact ⟨fun ⟨a, b, c⟩ => ⟨b, a, c⟩, fun ⟨a, b, c⟩ => ⟨b, a, c⟩⟩

/-- PDB validation = general validation followed by the column diagnostics; there is no column
diagnostic exactly when every value lies in the documented range (both ends) -/
theorem C18_validate_pdb_exact (p : PDB) :
    validatePdb p = validate p ++ p.models.flatMap modelColumnDiags ∧
    (p.models.flatMap modelColumnDiags = [] ↔ fitsPdbColumns p = true) := by
  refine ⟨rfl, ?_⟩
  unfold fitsPdbColumns
  simp only [flatMap_nil_iff, modelColumnDiags, chainColumnDiags, List.append_eq_nil_iff, whenD_nil,
    residueColumnDiags_nil, Bool.and_eq_true, List.all_eq_true, PDB.chains, PDB.residues, PDB.conformers,
    PDB.atoms, Model.residues, Model.conformers, Model.atoms, Chain.conformers, Chain.atoms, Residue.atoms,
    List.mem_flatMap, decide_eq_false_iff_not, decide_eq_true_eq, Nat.not_lt]
  constructor
  · intro h
    refine ⟨⟨⟨⟨fun m hm => (h m hm).1, ?_⟩, ?_⟩, ?_⟩, ?_⟩
    · intro c ⟨m, hm, hc⟩; exact ((h m hm).2 c hc).1
    · intro r ⟨m, hm, c, hc, hr⟩; exact (((h m hm).2 c hc).2 r hr).1
    · intro f ⟨m, hm, c, hc, r, hr, hf⟩; exact ((((h m hm).2 c hc).2 r hr).2 f hf).1
    · intro a ⟨m, hm, c, hc, r, hr, f, hf, ha⟩; exact ((((h m hm).2 c hc).2 r hr).2 f hf).2 a ha
  · intro ⟨⟨⟨⟨h1, h2⟩, h3⟩, h4⟩, h5⟩ m hm
    refine ⟨h1 m hm, fun c hc => ⟨h2 c ⟨m, hm, hc⟩, fun r hr => ⟨h3 r ⟨m, hm, c, hc, hr⟩, fun f hf =>
      ⟨h4 f ⟨m, hm, c, hc, r, hr, hf⟩, fun a ha => h5 a ⟨m, hm, c, hc, r, hr, f, hf, ha⟩⟩⟩⟩⟩

/-- non-vacuity: both ends of a range are reported, the ends themselves are not -/
example :
    let a : Atom := default
    atomColumnDiags { a with x := -999999000, occ := 999990000 } = [] ∧
    atomColumnDiags { a with x := -1000000000 } = L "Atom x position out of bounds" ∧
    atomColumnDiags { a with occ := -100000000 } = L "Atom occupancy out of bounds" ∧
    residueColumnDiags ⟨-1000, none, []⟩ = L "Residue serial number too low" := by
  decide

end PdbModel
