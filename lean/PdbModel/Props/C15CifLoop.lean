/-
C15 — only-first-model on the whole atom_site loop (mmCIF reader model).  The diagnostics a row leaves behind never
influence what later rows do to the models; a row of another model than the first kept one leaves nothing but
diagnostics.  Hence reading the loop with the option gives the models of reading, with the option, only the rows of
that model — and those rows are processed exactly as without the option.
-/
import PdbModel.Props.C15First
import PdbModel.Props.C02Atom
namespace PdbModel

/-- a parser state without its diagnostics -/
def AState.core (s : AState) : AState := { s with errors := [], exact := true }

theorem reqCol_core {α} (c : Col α) (s : AState) :
    (reqCol c s).1 = (reqCol c s.core).1 ∧ (reqCol c s).2.core = (reqCol c s.core).2.core := by
  unfold reqCol AState.core
  split <;> exact ⟨rfl, rfl⟩

theorem rowResNum_core (s : AState) (vals : List (Option CifValue)) :
    (rowResNum s vals).1 = (rowResNum s.core vals).1 ∧ (rowResNum s vals).2.core = (rowResNum s.core vals).2.core := by
  unfold rowResNum AState.core
  simp only
  split <;> exact ⟨rfl, rfl⟩

theorem rowChain_core (s : AState) (vals : List (Option CifValue)) :
    (rowChain s vals).1 = (rowChain s.core vals).1 ∧ (rowChain s vals).2.core = (rowChain s.core vals).2.core := by
  unfold rowChain
  simp only
  split
  · exact ⟨rfl, rfl⟩
  · have := reqCol_core (colText ((vals[10]?).join))
      { s with exact := s.exact && (colText ((vals[11]?).join)).exact }
    have h2 := reqCol_core (colText ((vals[10]?).join))
      { s.core with exact := s.core.exact && (colText ((vals[11]?).join)).exact }
    have hc : ({ s with exact := s.exact && (colText ((vals[11]?).join)).exact } : AState).core =
        ({ s.core with exact := s.core.exact && (colText ((vals[11]?).join)).exact } : AState).core := rfl
    rw [hc] at this
    exact ⟨this.1.trans h2.1.symm, this.2.trans h2.2.symm⟩

/-- the two states agree apart from their diagnostics -/
def Rel (s t : AState) : Prop := s.core = t.core

theorem rel_of_core {α} (f : AState → α × AState)
    (h : ∀ s, (f s).1 = (f s.core).1 ∧ (f s).2.core = (f s.core).2.core) (s t : AState) (hr : Rel s t) :
    (f s).1 = (f t).1 ∧ Rel (f s).2 (f t).2 := by
  unfold Rel at hr ⊢
  exact ⟨(h s).1.trans (hr ▸ (h t).1.symm), (h s).2.trans (hr ▸ (h t).2.symm)⟩

theorem reqCol_rel {α} (c : Col α) (s t : AState) (h : Rel s t) :
    (reqCol c s).1 = (reqCol c t).1 ∧ Rel (reqCol c s).2 (reqCol c t).2 :=
  rel_of_core (reqCol c) (reqCol_core c) s t h

theorem rowResNum_rel (vals : List (Option CifValue)) (s t : AState) (h : Rel s t) :
    (rowResNum s vals).1 = (rowResNum t vals).1 ∧ Rel (rowResNum s vals).2 (rowResNum t vals).2 :=
  rel_of_core (fun s => rowResNum s vals) (fun s => rowResNum_core s vals) s t h

theorem rowChain_rel (vals : List (Option CifValue)) (s t : AState) (h : Rel s t) :
    (rowChain s vals).1 = (rowChain t vals).1 ∧ Rel (rowChain s vals).2 (rowChain t vals).2 :=
  rel_of_core (fun s => rowChain s vals) (fun s => rowChain_core s vals) s t h

theorem bindS_rel {α β} (p q : Option α × AState) (k k' : α → AState → Option β × AState)
    (h1 : p.1 = q.1) (h2 : Rel p.2 q.2)
    (hk : ∀ a s t, Rel s t → (k a s).1 = (k' a t).1 ∧ Rel (k a s).2 (k' a t).2) :
    (bindS p k).1 = (bindS q k').1 ∧ Rel (bindS p k).2 (bindS q k').2 := by
  obtain ⟨o, s⟩ := p
  obtain ⟨o', t⟩ := q
  simp only at h1 h2
  subst h1
  cases o with
  | none => exact ⟨rfl, h2⟩
  | some a => exact hk a s t h2

/-- the mandatory cells do not depend on earlier diagnostics -/
theorem rowCells_rel (vals : List (Option CifValue)) (s t : AState) (h : Rel s t) :
    (rowCells s vals).1 = (rowCells t vals).1 ∧ Rel (rowCells s vals).2 (rowCells t vals).2 := by
  unfold rowCells
  simp only
  refine bindS_rel _ _ _ _ (reqCol_rel _ s t h).1 (reqCol_rel _ s t h).2 ?_
  intro name s1 t1 h1
  refine bindS_rel _ _ _ _ (reqCol_rel _ s1 t1 h1).1 (reqCol_rel _ s1 t1 h1).2 ?_
  intro id s2 t2 h2
  refine bindS_rel _ _ _ _ (reqCol_rel _ s2 t2 h2).1 (reqCol_rel _ s2 t2 h2).2 ?_
  intro resName s3 t3 h3
  obtain ⟨hn, hnr⟩ := rowResNum_rel vals s3 t3 h3
  refine bindS_rel _ _ _ _ (rowChain_rel vals _ _ hnr).1 (rowChain_rel vals _ _ hnr).2 ?_
  intro chain s4 t4 h4
  refine bindS_rel _ _ _ _ (reqCol_rel _ s4 t4 h4).1 (reqCol_rel _ s4 t4 h4).2 ?_
  intro x s5 t5 h5
  refine bindS_rel _ _ _ _ (reqCol_rel _ s5 t5 h5).1 (reqCol_rel _ s5 t5 h5).2 ?_
  intro y s6 t6 h6
  refine bindS_rel _ _ _ _ (reqCol_rel _ s6 t6 h6).1 (reqCol_rel _ s6 t6 h6).2 ?_
  intro z s7 t7 h7
  exact ⟨by rw [hn], h7⟩

theorem rowOptional_core (s : AState) (vals : List (Option CifValue)) :
    (rowOptional s vals).1 = (rowOptional s.core vals).1 ∧ (rowOptional s vals).2.core = (rowOptional s.core vals).2.core := by
  unfold rowOptional AState.core
  simp only
  split <;> (try split) <;> exact ⟨rfl, rfl⟩

theorem placeAtom_core (s : AState) (mn : Nat) (at_ el : List Char) (c : RowCells) (o : RowOpt) :
    (placeAtom s mn at_ el c o).core = (placeAtom s.core mn at_ el c o).core := by
  unfold placeAtom AState.core
  simp only
  split <;> rfl

theorem placeRow_core (s : AState) (vals : List (Option CifValue)) (mn : Nat) (at_ el : List Char) (c : RowCells) :
    (placeRow s vals mn at_ el c).core = (placeRow s.core vals mn at_ el c).core := by
  unfold placeRow
  obtain ⟨ho, hs⟩ := rowOptional_core s vals
  rcases h1 : rowOptional s vals with ⟨o, s1⟩
  rcases h2 : rowOptional s.core vals with ⟨o', s2⟩
  rw [h1, h2] at ho hs
  simp only at ho hs ⊢
  subst ho
  generalize ((prepareIdentifier c.chain).isNone || (prepareIdentifierUpper c.resName).isNone ||
      (match o.ins with | some ic => (prepareIdentifierUpper ic).isNone | none => false)) = bad
  cases bad
  · simp only [Bool.false_eq_true, if_false]
    rw [placeAtom_core s1, placeAtom_core s2, hs]
  · simp only [if_true]
    have : ∀ u : AState, ({ u with errors := u.errors ++ [(ErrorLevel.invalidating, "Invalid identifier")] } : AState).core = u.core := fun _ => rfl
    rw [this s1, this s2, hs]

theorem placeRow_rel (vals : List (Option CifValue)) (mn : Nat) (at_ el : List Char) (c : RowCells) (s t : AState)
    (h : Rel s t) : Rel (placeRow s vals mn at_ el c) (placeRow t vals mn at_ el c) := by
  unfold Rel at h ⊢
  rw [placeRow_core s, placeRow_core t, h]

theorem rel_diag (s t : AState) (e e' : List CDiag) (x x' : Bool) (h : Rel s t) :
    Rel { s with errors := e, exact := x } { t with errors := e', exact := x' } := by
  unfold Rel AState.core at h ⊢
  simp only [AState.mk.injEq] at h ⊢
  exact h

theorem gate_rel (b : Bool) (n : Nat) (s t : AState) (h : Rel s t) :
    (firstModelGate b s n).2 = (firstModelGate b t n).2 ∧ Rel (firstModelGate b s n).1 (firstModelGate b t n).1 := by
  have hfm : s.firstModel = t.firstModel := by
    unfold Rel AState.core at h
    simp only [AState.mk.injEq] at h
    exact h.2.2.2.2.1
  unfold firstModelGate
  rw [hfm]
  split
  · split
    · refine ⟨rfl, ?_⟩
      unfold Rel AState.core at h ⊢
      simp only [AState.mk.injEq] at h ⊢
      exact ⟨h.1, h.2.1, h.2.2.1, h.2.2.2.1, trivial, h.2.2.2.2.2⟩
    · exact ⟨rfl, h⟩
  · exact ⟨rfl, h⟩

/-- **the diagnostics a row leaves behind do not influence later rows**: two states that agree apart from their
diagnostics still do after the same row -/
theorem atomRowCore_rel (b : Bool) (vals : List (Option CifValue)) (s t : AState) (h : Rel s t) :
    Rel (atomRowCore b s vals) (atomRowCore b t vals) := by
  unfold atomRowCore
  simp only
  have h0 := rel_diag s t (s.errors ++ (colUsize ((vals[18]?).join)).err) (t.errors ++ (colUsize ((vals[18]?).join)).err)
    (s.exact && (colText ((vals[23]?).join)).exact && (colUsize ((vals[18]?).join)).exact)
    (t.exact && (colText ((vals[23]?).join)).exact && (colUsize ((vals[18]?).join)).exact) h
  generalize ({ s with errors := s.errors ++ (colUsize ((vals[18]?).join)).err, exact := s.exact && (colText ((vals[23]?).join)).exact && (colUsize ((vals[18]?).join)).exact } : AState) = s0 at h0 ⊢
  generalize ({ t with errors := t.errors ++ (colUsize ((vals[18]?).join)).err, exact := t.exact && (colText ((vals[23]?).join)).exact && (colUsize ((vals[18]?).join)).exact } : AState) = t0 at h0 ⊢
  obtain ⟨hg2, hg1⟩ := gate_rel b ((colUsize ((vals[18]?).join)).val.getD 1) s0 t0 h0
  rcases hgs : firstModelGate b s0 ((colUsize ((vals[18]?).join)).val.getD 1) with ⟨s1, skip⟩
  rcases hgt : firstModelGate b t0 ((colUsize ((vals[18]?).join)).val.getD 1) with ⟨t1, skip'⟩
  rw [hgs, hgt] at hg2 hg1
  simp only at hg2 hg1 ⊢
  subst hg2
  cases skip
  · simp only [Bool.false_eq_true, if_false]
    have h2 := rel_diag s1 t1 s1.errors t1.errors (s1.exact && (colText ((vals[15]?).join)).exact)
      (t1.exact && (colText ((vals[15]?).join)).exact) hg1
    obtain ⟨hc, hr⟩ := rowCells_rel vals _ _ h2
    rcases hcs : rowCells { s1 with exact := s1.exact && (colText ((vals[15]?).join)).exact } vals with ⟨c1, s3⟩
    rcases hct : rowCells { t1 with exact := t1.exact && (colText ((vals[15]?).join)).exact } vals with ⟨c2, t3⟩
    have e1 : ({ s1 with errors := s1.errors, exact := s1.exact && (colText ((vals[15]?).join)).exact } : AState) =
        { s1 with exact := s1.exact && (colText ((vals[15]?).join)).exact } := rfl
    have e2 : ({ t1 with errors := t1.errors, exact := t1.exact && (colText ((vals[15]?).join)).exact } : AState) =
        { t1 with exact := t1.exact && (colText ((vals[15]?).join)).exact } := rfl
    rw [e1, e2, hcs, hct] at hc hr
    simp only at hc hr ⊢
    subst hc
    cases c1 with
    | none => exact hr
    | some c => exact placeRow_rel vals _ _ _ c s3 t3 hr
  · simp only [if_true]
    exact hg1

/-! ### the first model number, once fixed, stays -/

theorem reqCol_fm {α} (c : Col α) (s : AState) : (reqCol c s).2.firstModel = s.firstModel := by
  unfold reqCol; split <;> rfl
theorem rowResNum_fm (s : AState) (vals : List (Option CifValue)) : (rowResNum s vals).2.firstModel = s.firstModel := by
  unfold rowResNum; simp only; split <;> rfl
theorem rowChain_fm (s : AState) (vals : List (Option CifValue)) : (rowChain s vals).2.firstModel = s.firstModel := by
  unfold rowChain; simp only; split
  · rfl
  · rw [reqCol_fm]
theorem bindS_fm {α β} (p : Option α × AState) (k : α → AState → Option β × AState)
    (hk : ∀ a s, (k a s).2.firstModel = s.firstModel) : (bindS p k).2.firstModel = p.2.firstModel := by
  obtain ⟨o, s⟩ := p
  cases o with
  | none => rfl
  | some a => exact hk a s
theorem rowCells_fm (s : AState) (vals : List (Option CifValue)) : (rowCells s vals).2.firstModel = s.firstModel := by
  unfold rowCells
  simp only
  rw [bindS_fm, reqCol_fm]
  intro _ s1
  rw [bindS_fm, reqCol_fm]
  intro _ s2
  rw [bindS_fm, reqCol_fm]
  intro _ s3
  rw [bindS_fm, rowChain_fm, rowResNum_fm]
  intro _ s4
  rw [bindS_fm, reqCol_fm]
  intro _ s5
  rw [bindS_fm, reqCol_fm]
  intro _ s6
  rw [bindS_fm, reqCol_fm]
  intro _ s7
  rfl
theorem rowOptional_fm (s : AState) (vals : List (Option CifValue)) : (rowOptional s vals).2.firstModel = s.firstModel := by
  unfold rowOptional; simp only; split <;> (try split) <;> rfl
theorem placeAtom_fm (s : AState) (mn : Nat) (at_ el : List Char) (c : RowCells) (o : RowOpt) :
    (placeAtom s mn at_ el c o).firstModel = s.firstModel := by
  unfold placeAtom; simp only; split <;> rfl
theorem placeRow_fm (s : AState) (vals : List (Option CifValue)) (mn : Nat) (at_ el : List Char) (c : RowCells) :
    (placeRow s vals mn at_ el c).firstModel = s.firstModel := by
  unfold placeRow
  have hm := rowOptional_fm s vals
  rcases hro : rowOptional s vals with ⟨o, s'⟩
  rw [hro] at hm
  simp only at hm ⊢
  generalize ((prepareIdentifier c.chain).isNone || (prepareIdentifierUpper c.resName).isNone ||
      (match o.ins with | some ic => (prepareIdentifierUpper ic).isNone | none => false)) = bad
  cases bad
  · simp only [Bool.false_eq_true, if_false]; rw [placeAtom_fm, hm]
  · simp only [if_true]; exact hm

theorem atomRowCore_fm (b : Bool) (s : AState) (vals : List (Option CifValue)) (f : Nat) (h : s.firstModel = some f) :
    (atomRowCore b s vals).firstModel = some f := by
  unfold atomRowCore
  simp only
  generalize hs0 : ({ s with errors := s.errors ++ (colUsize ((vals[18]?).join)).err, exact := s.exact && (colText ((vals[23]?).join)).exact && (colUsize ((vals[18]?).join)).exact } : AState) = s0
  have h0 : s0.firstModel = some f := by rw [← hs0]; exact h
  have hg : (firstModelGate b s0 ((colUsize ((vals[18]?).join)).val.getD 1)).1.firstModel = some f := by
    unfold firstModelGate
    rw [h0]
    split <;> exact h0
  rcases hgs : firstModelGate b s0 ((colUsize ((vals[18]?).join)).val.getD 1) with ⟨s1, skip⟩
  rw [hgs] at hg
  simp only at hg ⊢
  cases skip
  · simp only [Bool.false_eq_true, if_false]
    have hc := rowCells_fm { s1 with exact := s1.exact && (colText ((vals[15]?).join)).exact } vals
    rcases hcs : rowCells { s1 with exact := s1.exact && (colText ((vals[15]?).join)).exact } vals with ⟨c1, s3⟩
    rw [hcs] at hc
    simp only at hc ⊢
    cases c1 with
    | none => rw [hc]; exact hg
    | some c => rw [placeRow_fm, hc]; exact hg
  · simp only [if_true]; exact hg

/-! ### the whole loop -/

def firstOnly (o : ReadOpts) : ReadOpts := { o with onlyFirstModel := true }

theorem atomRow_rel (o : ReadOpts) (vals : List (Option CifValue)) (s t : AState) (h : Rel s t) :
    Rel (atomRow o s vals) (atomRow o t vals) := by
  unfold atomRow
  split
  · exact h
  · exact atomRowCore_rel _ vals s t h

theorem atomRow_fm (o : ReadOpts) (s : AState) (vals : List (Option CifValue)) (f : Nat) (h : s.firstModel = some f) :
    (atomRow o s vals).firstModel = some f := by
  unfold atomRow
  split
  · exact h
  · exact atomRowCore_fm _ s vals f h

/-- a row of another model than the first kept one leaves nothing but diagnostics -/
theorem atomRow_skip (o : ReadOpts) (s : AState) (vals : List (Option CifValue)) (f : Nat)
    (h : s.firstModel = some f) (hn : rowModelNumber vals ≠ f) : Rel (atomRow (firstOnly o) s vals) s := by
  unfold atomRow
  split
  · rfl
  · obtain ⟨h1, h2, h3, h4, h5⟩ := C15_cif_first_model_skip s vals f h hn
    unfold Rel AState.core
    simp only [AState.mk.injEq]
    exact ⟨h1, trivial, trivial, h2, h5, h3, h4⟩

theorem rel_trans {s t u : AState} (h1 : Rel s t) (h2 : Rel t u) : Rel s u := h1.trans h2

/-- **only-first-model over the whole loop**: once the first kept row has fixed the model number `f`, reading the
remaining rows with the option gives — apart from diagnostics — the state of reading only the rows that state model `f`;
in particular the same models, atom counts and atom-id bookkeeping -/
theorem C15_cif_first_model_loop (o : ReadOpts) (header : List (List Char)) (rows : List (List CifValue)) (s : AState)
    (f : Nat) (h : s.firstModel = some f) :
    Rel (rows.foldl (fun (s : AState) (row : List CifValue) => atomRow (firstOnly o) s (rowVals header row)) s)
      ((rows.filter fun row => rowModelNumber (rowVals header row) = f).foldl
        (fun (s : AState) (row : List CifValue) => atomRow (firstOnly o) s (rowVals header row)) s) := by
  -- generalised: the two runs may already differ in their diagnostics
  suffices hgen : ∀ (s t : AState), s.firstModel = some f → Rel s t →
      Rel (rows.foldl (fun (s : AState) (row : List CifValue) => atomRow (firstOnly o) s (rowVals header row)) s)
        ((rows.filter fun row => rowModelNumber (rowVals header row) = f).foldl
          (fun (s : AState) (row : List CifValue) => atomRow (firstOnly o) s (rowVals header row)) t) from
    hgen s s h rfl
  induction rows with
  | nil => intro s t _ hr; exact hr
  | cons r rs ih =>
    intro s t hs hr
    simp only [List.foldl_cons, List.filter_cons]
    by_cases hk : rowModelNumber (rowVals header r) = f
    · simp only [hk, decide_true, if_true, List.foldl_cons]
      exact ih _ _ (atomRow_fm _ s _ f hs) (atomRow_rel _ _ s t hr)
    · simp only [hk, decide_false, Bool.false_eq_true, if_false]
      exact ih _ _ (atomRow_fm _ s _ f hs) (rel_trans (atomRow_skip o s _ f hs hk) hr)

/-- … and the rows of model `f` are processed exactly as without the option (`C15_cif_first_model_same`) -/
theorem C15_cif_first_model_rows_as_without (o : ReadOpts) (s : AState) (vals : List (Option CifValue)) (f : Nat)
    (h : s.firstModel = some f) (hn : rowModelNumber vals = f) :
    atomRow (firstOnly o) s vals = atomRow { o with onlyFirstModel := false } s vals := by
  unfold atomRow firstOnly
  simp only
  split
  · rfl
  · exact C15_cif_first_model_same s vals f h hn

end PdbModel
