/-
C04 — the table rows the mmCIF writer prints are lexed back cell by cell.

`C04_bare_word_read_back` and `C04_print_float_read_back` speak about one token.  Here they are lifted to the
value loop of the lexer (`collectValues`, the `while let Ok(value) = parse_value(input)` of `parse_loop`):
whatever the column padding, a line of words is read back as exactly the values those words spell, in order,
and the loop continues with the next line; a whole table followed by the `#` line that closes it and the next
reserved word is read back as the concatenation of its rows and the loop stops there.
-/
import PdbModel.Props.C04
import PdbModel.Props.C04Num
namespace PdbModel

/-- what the lexer makes of a single word: a number when it parses as one, the text otherwise -/
def classify (t : List Char) : CifValue :=
  if t = ['.'] then .inapplicable
  else if t = ['?'] then .unknown
  else match parseNumeric t with
    | some v => v
    | none => .text t

/-- a word as the writer puts it into a table cell: starts with an ordinary character other than `?` and `.`,
contains no white space and does not begin like a reserved word -/
def Word (t : List Char) : Prop :=
  (∃ c r, t = c :: r ∧ isOrdinary c = true ∧ c ≠ '.' ∧ c ≠ '?') ∧ (∀ c ∈ t, isAsciiWs c = false) ∧
  reservedStart t = false

theorem lowerAscii_ws (w : Char) (h : isAsciiWs w = true) : lowerAscii w = w := by
  unfold lowerAscii
  split
  · next hh =>
    exfalso
    unfold isAsciiWs at h
    simp only [Bool.or_eq_true, beq_iff_eq] at h
    have h65 : 'A'.toNat = 65 := by decide
    rcases h with (((h | h) | h) | h) | h
    · subst h; revert hh; decide
    · subst h; revert hh; decide
    · subst h; revert hh; decide
    · subst h; revert hh; decide
    · rw [h65] at hh; omega
  · rfl

/-- a white-space character right behind a short word cannot complete a reserved prefix -/
theorem take_append_ws_ne (pat t rest : List Char) (w : Char) (hw : isAsciiWs w = true)
    (hp : ∀ p ∈ pat, isAsciiWs p = false) :
    (((t ++ w :: rest).take pat.length).map lowerAscii == pat) = ((t.take pat.length).map lowerAscii == pat) := by
  induction pat generalizing t with
  | nil => simp
  | cons p ps ih =>
    cases t with
    | nil =>
      have hne : lowerAscii w ≠ p := by
        rw [lowerAscii_ws w hw]
        intro he; subst he
        have := hp w (by simp)
        rw [hw] at this; cases this
      simp only [List.nil_append, List.length_cons, List.take_succ_cons, List.map_cons, List.take_nil, List.map_nil]
      have h1 : (lowerAscii w :: List.map lowerAscii (List.take ps.length rest) == p :: ps) = false := by
        rw [List.cons_beq_cons]
        have : (lowerAscii w == p) = false := by simpa using hne
        rw [this]; rfl
      rw [h1]; rfl
    | cons c t' =>
      have ih' := ih t' (fun q hq => hp q (by simp [hq]))
      simp only [List.cons_append, List.length_cons, List.take_succ_cons, List.map_cons, List.cons_beq_cons]
      rw [ih']

theorem startWith_append_ws (pat t rest : List Char) (w : Char) (hw : isAsciiWs w = true)
    (hp : ∀ p ∈ pat, isAsciiWs p = false) :
    (startWith pat (t ++ w :: rest)).isSome = (startWith pat t).isSome := by
  unfold startWith
  rw [take_append_ws_ne pat t rest w hw hp]
  split <;> simp

/-- **reserved words are decided by the word alone**, not by what follows the white space behind it -/
theorem reservedStart_append_ws (t rest : List Char) (w : Char) (hw : isAsciiWs w = true) :
    reservedStart (t ++ w :: rest) = reservedStart t := by
  unfold reservedStart
  rw [startWith_append_ws _ t rest w hw (by decide), startWith_append_ws _ t rest w hw (by decide),
    startWith_append_ws _ t rest w hw (by decide), startWith_append_ws _ t rest w hw (by decide),
    startWith_append_ws _ t rest w hw (by decide)]

theorem identOf_append_wsc (t rest : List Char) (w : Char) (hw : isAsciiWs w = true)
    (ht : ∀ c ∈ t, isAsciiWs c = false) :
    identOf (t ++ w :: rest) = t ∧ afterIdent (t ++ w :: rest) = w :: rest := by
  unfold identOf afterIdent
  induction t with
  | nil => simp [hw]
  | cons c r ih =>
    have hc := ht c (by simp)
    have ih' := ih (fun x hx => ht x (by simp [hx]))
    simp only [List.cons_append, List.takeWhile_cons, List.dropWhile_cons, hc, Bool.not_false, if_true]
    exact ⟨by rw [ih'.1], ih'.2⟩

/-- **one word**: after any padding, a word followed by white space is lexed as the value it spells and the
input continues at that white space -/
theorem parseValue_word (pad t rest : List Char) (w : Char) (hp : Pad pad) (hw : isAsciiWs w = true)
    (ht : Word t) : parseValue (pad ++ (t ++ w :: rest)) = .ok (classify t, w :: rest) := by
  obtain ⟨⟨c, r, rfl, hord, hdot, hq⟩, hws, hres⟩ := ht
  rw [C02_value_layout hp]
  unfold parseValue
  have hcws : isCifWs c = false := by
    have := hws c (by simp)
    unfold isAsciiWs at this; unfold isCifWs
    simp only [Bool.or_eq_false_iff] at this ⊢
    exact this.1
  have hord' := hord
  unfold isOrdinary at hord'
  simp only [Bool.and_eq_true, Bool.not_eq_true', Bool.or_eq_false_iff] at hord'
  have hhash : (c == '#') = false := hord'.1.1.1.1.1.1.1.1.1.1
  have htrim : trimCW false (c :: r ++ w :: rest) = c :: (r ++ w :: rest) := by
    simp only [List.cons_append, trimCW, hcws, Bool.false_eq_true, if_false, hhash]
  rw [htrim]
  have hid := identOf_append_wsc (c :: r) rest w hw hws
  have hres' := reservedStart_append_ws (c :: r) rest w hw
  rw [hres] at hres'
  simp only [List.cons_append] at hid hres'
  have hquote : (c == '\'' || c == '"') = false := by
    simp only [Bool.or_eq_false_iff]
    exact ⟨hord'.1.1.1.1.1.1.1.1.2, hord'.1.1.1.1.1.1.1.2⟩
  have hsemi : (c == ';') = false := hord'.1.1.1.2
  have hd : (c == '.') = false := by simpa using hdot
  have hqq : (c == '?') = false := by simpa using hq
  simp only [hres', Bool.false_eq_true, if_false, hd, hqq, hquote, hsemi, hord, if_true, hid.1, hid.2]
  have hn1 : ¬ (c :: r = ['.']) := by
    intro h; simp only [List.cons.injEq] at h; exact hdot h.1
  have hn2 : ¬ (c :: r = ['?']) := by
    intro h; simp only [List.cons.injEq] at h; exact hq h.1
  unfold classify
  simp only [hn1, hn2, if_false]
  cases parseNumeric (c :: r) <;> rfl

/-- what the writer puts into a table cell: a word, or the `.` / `?` that stand for "no value" -/
def Cell (t : List Char) : Prop := Word t ∨ t = ['.'] ∨ t = ['?']

/-- **one cell**: after any padding, a cell followed by white space is lexed as the value it spells and the
input continues at that white space -/
theorem parseValue_cell (pad t rest : List Char) (w : Char) (hp : Pad pad) (hw : isAsciiWs w = true)
    (ht : Cell t) : parseValue (pad ++ (t ++ w :: rest)) = .ok (classify t, w :: rest) := by
  rcases ht with ht | rfl | rfl
  · exact parseValue_word pad t rest w hp hw ht
  · rw [C02_value_layout hp]
    have hcw : isCifWs '.' = false := by decide
    have hres : reservedStart ('.' :: w :: rest) = false := by
      have := reservedStart_append_ws ['.'] rest w hw
      simp only [List.cons_append, List.nil_append] at this
      rw [this]; decide
    have hid : identOf ('.' :: w :: rest) = ['.'] := by
      have := (identOf_append_wsc ['.'] rest w hw (by decide)).1
      simpa using this
    unfold parseValue
    simp only [List.cons_append, List.nil_append, trimCW, hcw, Bool.false_eq_true, if_false,
      show ('.' == '#') = false by decide, hres, beq_self_eq_true, if_true, hid]
    rfl
  · rw [C02_value_layout hp]
    have hcw : isCifWs '?' = false := by decide
    have hres : reservedStart ('?' :: w :: rest) = false := by
      have := reservedStart_append_ws ['?'] rest w hw
      simp only [List.cons_append, List.nil_append] at this
      rw [this]; decide
    unfold parseValue
    simp only [List.cons_append, List.nil_append, trimCW, hcw, Bool.false_eq_true, if_false,
      show ('?' == '#') = false by decide, hres, show ('?' == '.') = false by decide, beq_self_eq_true, if_true]
    rfl

/-- the unfolding equation of the value loop on an accepted value -/
theorem collectValues_ok {s rest : List Char} {v : CifValue} (h : parseValue s = .ok (v, rest)) :
    collectValues s = (v :: (collectValues rest).1, (collectValues rest).2) := by
  rw [collectValues]
  split
  · next v' rest' h' =>
    rw [h] at h'
    simp only [Except.ok.injEq, Prod.mk.injEq] at h'
    obtain ⟨rfl, rfl⟩ := h'
    rfl
  · next e h' => rw [h] at h'; cases h'

theorem collectValues_err {s : List Char} {e : String} (h : parseValue s = .error e) :
    collectValues s = ([], trimCW false s) := by
  rw [collectValues]
  split
  · next v' rest' h' => rw [h] at h'; cases h'
  · rfl

theorem pad_replicate (k : Nat) : Pad (List.replicate k ' ') := by
  induction k with
  | zero => exact Pad.nil
  | succ n ih => rw [List.replicate_succ]; exact Pad.ws ' ' _ (by decide) ih

/-- the table ends at the first thing that is not a value: here the `#` line the writer prints after the rows,
followed by a reserved word or a tag -/
theorem collectValues_stops (s : List Char) (h : reservedStart (trimCW false s) = true ∨
    (∃ r, trimCW false s = '_' :: r) ∨ trimCW false s = []) :
    collectValues s = ([], trimCW false s) := by
  have : ∃ e, parseValue s = .error e := by
    unfold parseValue
    rcases h with h | ⟨r, h⟩ | h
    · split
      · exact ⟨_, rfl⟩
      · next c r hc => rw [hc] at h; simp only [h, if_true]; exact ⟨_, rfl⟩
    · rw [h]
      simp only
      split
      · exact ⟨_, rfl⟩
      · refine ⟨"Invalid value", ?_⟩
        simp only [show ('_' == '.') = false by decide, show ('_' == '?') = false by decide,
          show ('_' == '\'' || '_' == '"') = false by decide, show ('_' == ';') = false by decide,
          show isOrdinary '_' = false by decide, Bool.false_eq_true, if_false]
    · rw [h]; exact ⟨_, rfl⟩
  obtain ⟨e, he⟩ := this
  exact collectValues_err he

/-! ### the layout of `alignRows` -/

theorem collectValues_layout {pad : List Char} (hp : Pad pad) (s : List Char) :
    collectValues (pad ++ s) = collectValues s := by
  have hpv := C02_value_layout hp s
  have htr := C02_padding_trimmed hp s
  cases h : parseValue s with
  | ok p =>
    obtain ⟨v, rest⟩ := p
    rw [collectValues_ok h, collectValues_ok (hpv.trans h)]
  | error e =>
    rw [collectValues_err h, collectValues_err (hpv.trans h), htr]

/-- a cell that is not the first of its line: a blank, the word, its padding -/
def cellT (c : List Char × Nat) : List Char := ' ' :: (c.1 ++ List.replicate c.2 ' ')

/-- a table line as the writer lays it out (`cells`: word and the padding behind it) -/
def tableLine : List (List Char × Nat) → List Char
  | [] => []
  | c :: cs => c.1 ++ List.replicate c.2 ' ' ++ cs.flatMap cellT

theorem replicate_append_cons (k : Nat) (l : List Char) :
    List.replicate k ' ' ++ ' ' :: l = List.replicate (k + 1) ' ' ++ l := by
  induction k with
  | zero => rfl
  | succ n ih => rw [List.replicate_succ, List.cons_append, ih]; rfl

/-- what stands behind a word is white space: its padding, the blank of the next cell, or the line end -/
theorem remainder_ws (p : Nat) (cs : List (List Char × Nat)) (w : Char) (rest : List Char) (hw : isAsciiWs w = true) :
    ∃ w' R', List.replicate p ' ' ++ (cs.flatMap cellT ++ w :: rest) = w' :: R' ∧ isAsciiWs w' = true := by
  cases p with
  | succ q => exact ⟨' ', _, by rw [List.replicate_succ]; rfl, by decide⟩
  | zero =>
    cases cs with
    | nil => exact ⟨w, rest, by simp, hw⟩
    | cons c cs => exact ⟨' ', _, by simp only [List.replicate_zero, List.nil_append, List.flatMap_cons, cellT, List.cons_append]; rfl, by decide⟩

/-- a word with what the writer puts behind it, after any padding -/
theorem word_then (pad t : List Char) (p : Nat) (cs : List (List Char × Nat)) (w : Char) (rest : List Char)
    (hp : Pad pad) (hw : isAsciiWs w = true) (ht : Cell t) :
    collectValues (pad ++ (t ++ (List.replicate p ' ' ++ (cs.flatMap cellT ++ w :: rest)))) =
      (classify t :: (collectValues (List.replicate p ' ' ++ (cs.flatMap cellT ++ w :: rest))).1,
        (collectValues (List.replicate p ' ' ++ (cs.flatMap cellT ++ w :: rest))).2) := by
  obtain ⟨w', R', hR, hw'⟩ := remainder_ws p cs w rest hw
  rw [hR]
  exact collectValues_ok (parseValue_cell pad t R' w' hp hw' ht)

theorem cells_read_back (cs : List (List Char × Nat)) (k : Nat) (w : Char) (rest : List Char)
    (hw : isAsciiWs w = true) (hwords : ∀ c ∈ cs, Cell c.1) :
    collectValues (List.replicate k ' ' ++ (cs.flatMap cellT ++ w :: rest)) =
      (cs.map (fun c => classify c.1) ++ (collectValues (w :: rest)).1, (collectValues (w :: rest)).2) := by
  induction cs generalizing k with
  | nil =>
    simp only [List.flatMap_nil, List.nil_append, List.map_nil]
    rw [collectValues_layout (pad_replicate k)]
  | cons c cs ih =>
    obtain ⟨t, p⟩ := c
    have ht : Cell t := hwords (t, p) (by simp)
    have ih' := ih p (fun x hx => hwords x (by simp [hx]))
    simp only [List.flatMap_cons, cellT, List.cons_append, List.append_assoc, List.map_cons]
    rw [replicate_append_cons, word_then _ t p cs w rest (pad_replicate (k + 1)) hw ht, ih']

/-- **a line of the table is read back**, whatever the column widths -/
theorem C04_line_read_back (cells : List (List Char × Nat)) (w : Char) (rest : List Char)
    (hw : isAsciiWs w = true) (hwords : ∀ c ∈ cells, Cell c.1) :
    collectValues (tableLine cells ++ w :: rest) =
      (cells.map (fun c => classify c.1) ++ (collectValues (w :: rest)).1, (collectValues (w :: rest)).2) := by
  cases cells with
  | nil => simp [tableLine]
  | cons c cs =>
    obtain ⟨t, p⟩ := c
    have ht : Cell t := hwords (t, p) (by simp)
    have h1 := word_then [] t p cs w rest Pad.nil hw ht
    have h2 := cells_read_back cs p w rest hw (fun x hx => hwords x (by simp [hx]))
    simp only [List.nil_append] at h1
    simp only [tableLine, List.append_assoc, List.map_cons]
    rw [h1, h2]
    rfl

/-- **a written table is read back**: the lines of a table, each closed by a line feed, are collected as the
values of their cells in row-major order, and the loop continues behind the table -/
theorem C04_lines_read_back (rows : List (List (List Char × Nat))) (tail : List Char)
    (hwords : ∀ r ∈ rows, ∀ c ∈ r, Cell c.1) :
    collectValues (rows.flatMap (fun r => tableLine r ++ ['\n']) ++ tail) =
      (rows.flatMap (fun r => r.map (fun c => classify c.1)) ++ (collectValues tail).1, (collectValues tail).2) := by
  induction rows with
  | nil => simp
  | cons r rs ih =>
    have ih' := ih (fun x hx => hwords x (by simp [hx]))
    simp only [List.flatMap_cons, List.append_assoc, List.cons_append, List.nil_append]
    rw [C04_line_read_back r '\n' _ (by decide) (hwords r (by simp))]
    have hnl := collectValues_layout (pad := ['\n']) (Pad.ws '\n' [] (by decide) Pad.nil)
      (rs.flatMap (fun r => tableLine r ++ ['\n']) ++ tail)
    simp only [List.cons_append, List.nil_append] at hnl
    rw [hnl, ih']

/-! ### `alignRows` produces such lines -/

theorem flatten_map_range' {β : Type} (l : List (List Char)) (k : Nat) (f : Nat → List Char → List β) :
    (List.range' k l.length).flatMap (fun i => f i ((l[i - k]?).getD [])) = (l.zipIdx k).flatMap (fun p => f p.2 p.1) := by
  induction l generalizing k with
  | nil => rfl
  | cons a as ih =>
    simp only [List.length_cons, List.range'_succ, List.flatMap_cons, List.zipIdx_cons, Nat.sub_self,
      List.getElem?_cons_zero, Option.getD_some]
    congr 1
    rw [← ih (k + 1)]
    rw [List.flatMap_def, List.flatMap_def]
    congr 1
    apply List.map_congr_left
    intro i hi
    obtain ⟨j, _, rfl⟩ := List.mem_range'.mp hi
    have : k + 1 + 1 * j - k = (k + 1 + 1 * j - (k + 1)) + 1 := by omega
    rw [this, List.getElem?_cons_succ]

theorem dropWhile_ne_nil {α : Type} (p : α → Bool) (l : List α) (x : α) (hx : x ∈ l) (hp : p x = false) :
    l.dropWhile p ≠ [] := by
  induction l with
  | nil => cases hx
  | cons a as ih =>
    rw [List.dropWhile_cons]
    split
    · rcases List.mem_cons.mp hx with rfl | h
      · rename_i hpa; rw [hp] at hpa; cases hpa
      · exact ih h
    · exact List.cons_ne_nil _ _

/-- a word is not blank, so the writer prints it rather than `?` -/
theorem word_not_blank (t : List Char) (ht : Word t) : (trim t).isEmpty = false := by
  obtain ⟨⟨c, r, rfl, hord, _, _⟩, _, _⟩ := ht
  have hc : isRustWs c = false := by
    unfold isOrdinary at hord
    simp only [Bool.and_eq_true, decide_eq_true_eq] at hord
    obtain ⟨_, hlo, hhi⟩ := hord
    unfold isRustWs
    simp only [Bool.or_eq_false_iff, Bool.and_eq_false_iff, decide_eq_false_iff_not, beq_eq_false_iff_ne, ne_eq]
    omega
  have h1 : trimStart (c :: r) = c :: r := by
    unfold trimStart; rw [List.dropWhile_cons]; simp [hc]
  unfold trim
  rw [h1]
  unfold trimEnd
  have h2 := dropWhile_ne_nil isRustWs (c :: r).reverse c (by simp) hc
  cases hd : List.dropWhile isRustWs (c :: r).reverse with
  | nil => exact absurd hd h2
  | cons a as => simp

theorem cell_not_blank (t : List Char) (ht : Cell t) : (trim t).isEmpty = false := by
  rcases ht with ht | rfl | rfl
  · exact word_not_blank t ht
  · decide
  · decide

/-- the column widths `alignRows` computes -/
def colWidths (rows : List (List (List Char))) : List Nat :=
  match rows with
  | [] => []
  | first :: _ => (List.range first.length).map fun i =>
      rows.foldl (fun mx row => max mx ((row[i]?.getD []).length)) 1

/-- the cells of a row with the padding `alignRows` gives each -/
def paddedCells (widths : List Nat) (row : List (List Char)) : List (List Char × Nat) :=
  row.zipIdx.map fun p => (p.1, (widths[p.2]?.getD 1) - p.1.length)

theorem flatMap_congr_mem {α β : Type} (l : List α) (f g : α → List β) (h : ∀ a ∈ l, f a = g a) :
    l.flatMap f = l.flatMap g := by
  rw [List.flatMap_def, List.flatMap_def, List.map_congr_left h]

/-- **`alignRows` lays every row out as a table line** (no cell blank, as the round trip assumes) -/
theorem alignRows_lines (rows : List (List (List Char)))
    (hne : ∀ row ∈ rows, ∀ t ∈ row, (trim t).isEmpty = false) :
    alignRows rows = rows.map (fun row => tableLine (paddedCells (colWidths rows) row)) := by
  cases rows with
  | nil => rfl
  | cons first more =>
    unfold alignRows
    simp only
    apply List.map_congr_left
    intro row hrow
    have hw : (List.range first.length).map (fun i =>
        (first :: more).foldl (fun mx row => max mx ((row[i]?.getD []).length)) 1) = colWidths (first :: more) := rfl
    rw [hw]
    generalize colWidths (first :: more) = widths
    rw [List.range_eq_range']
    have key := flatten_map_range' row 0 (fun i t =>
      if i = 0 then t ++ List.replicate ((widths[i]?.getD 1) - t.length) ' '
      else if !(trim t).isEmpty then ' ' :: (t ++ List.replicate ((widths[i]?.getD 1) - t.length) ' ')
      else ' ' :: '?' :: List.replicate ((widths[i]?.getD 1) - 1) ' ')
    simp only [Nat.sub_zero] at key
    rw [key]
    cases row with
    | nil => rfl
    | cons t0 r =>
      simp only [List.zipIdx_cons, List.flatMap_cons, if_true, paddedCells, List.map_cons, tableLine, Nat.zero_add]
      congr 1
      rw [List.flatMap_map]
      apply flatMap_congr_mem
      intro p hp
      have h1 : 1 ≤ p.2 := List.le_snd_of_mem_zipIdx hp
      have h2 : p.1 ∈ t0 :: r := List.mem_cons_of_mem _ (List.fst_mem_of_mem_zipIdx hp)
      have h3 := hne _ hrow _ h2
      have h0 : ¬ p.2 = 0 := by omega
      simp only [h0, if_false, h3, Bool.not_false, if_true, cellT]

theorem map_classify_zipIdx (widths : List Nat) (row : List (List Char)) (k : Nat) :
    List.map ((fun c => classify c.1) ∘ fun p => (p.1, widths[p.2]?.getD 1 - p.1.length)) (row.zipIdx k) =
      row.map classify := by
  induction row generalizing k with
  | nil => rfl
  | cons a as ih => simp only [List.zipIdx_cons, List.map_cons, Function.comp]; rw [← ih (k + 1)]

/-- **what the writer prints as a table is read back as its cells**: for rows of words, the lines `alignRows`
produces (each ended by a line feed) are collected by the value loop as the values the cells spell, row by
row, whatever widths the alignment chose -/
theorem C04_written_table_read_back (rows : List (List (List Char))) (tail : List Char)
    (hwords : ∀ row ∈ rows, ∀ t ∈ row, Cell t) :
    collectValues ((alignRows rows).flatMap (fun l => l ++ ['\n']) ++ tail) =
      (rows.flatMap (fun row => row.map classify) ++ (collectValues tail).1, (collectValues tail).2) := by
  rw [alignRows_lines rows (fun row hr t ht => cell_not_blank t (hwords row hr t ht))]
  rw [List.flatMap_map]
  have h := C04_lines_read_back (rows.map (paddedCells (colWidths rows))) tail (by
    intro r hr c hc
    obtain ⟨row, hrow, rfl⟩ := List.mem_map.mp hr
    unfold paddedCells at hc
    obtain ⟨p, hp, rfl⟩ := List.mem_map.mp hc
    exact hwords row hrow p.1 (List.fst_mem_of_mem_zipIdx hp))
  rw [List.flatMap_map, List.flatMap_map] at h
  rw [h]
  congr 2
  apply flatMap_congr_mem
  intro row _
  unfold paddedCells
  rw [List.map_map]
  exact map_classify_zipIdx (colWidths rows) row 0

/-! ### the number cells are words -/

/-- characters of a printed number -/
def numChar (c : Char) : Bool := isDigit c || c == '.' || c == '-'

theorem numChar_props (c : Char) (h : numChar c = true) :
    isAsciiWs c = false ∧ lowerAscii c = c ∧ (c ≠ '.' → isOrdinary c = true) ∧ c ≠ '?' := by
  unfold numChar at h
  simp only [Bool.or_eq_true, beq_iff_eq] at h
  rcases h with (h | rfl) | rfl
  · unfold isDigit at h
    simp only [Bool.and_eq_true, decide_eq_true_eq] at h
    have h0 : '0'.toNat = 48 := by decide
    have h9 : '9'.toNat = 57 := by decide
    rw [h0, h9] at h
    refine ⟨?_, ?_, ?_, ?_⟩
    · unfold isAsciiWs
      simp only [Bool.or_eq_false_iff, beq_eq_false_iff_ne, ne_eq]
      refine ⟨⟨⟨⟨?_, ?_⟩, ?_⟩, ?_⟩, by omega⟩ <;> (intro he; subst he; revert h; decide)
    · unfold lowerAscii
      have h65 : 'A'.toNat = 65 := by decide
      rw [h65]
      split
      · omega
      · rfl
    · intro _
      unfold isOrdinary
      simp only [Bool.and_eq_true, Bool.not_eq_true', Bool.or_eq_false_iff, beq_eq_false_iff_ne, ne_eq,
        decide_eq_true_eq]
      refine ⟨⟨⟨⟨⟨⟨⟨⟨⟨⟨?_, ?_⟩, ?_⟩, ?_⟩, ?_⟩, ?_⟩, ?_⟩, ?_⟩, ?_⟩, ?_⟩, by omega, by omega⟩ <;>
        (intro he; subst he; revert h; decide)
    · intro he; subst he; revert h; decide
  · exact ⟨by decide, by decide, fun h => absurd rfl h, by decide⟩
  · exact ⟨by decide, by decide, fun _ => by decide, by decide⟩

theorem startWith_head_ne (pat : List Char) (p c : Char) (r : List Char) (h : lowerAscii c ≠ p) :
    startWith (p :: pat) (c :: r) = none := by
  unfold startWith
  simp only [List.length_cons, List.take_succ_cons, List.map_cons, List.cons_beq_cons]
  have : (lowerAscii c == p) = false := by simpa using h
  rw [this]; rfl

/-- **a printed number is a word**: digits, `.` and `-`, not starting with `.` -/
theorem numeric_word (c : Char) (r : List Char) (hall : ∀ x ∈ c :: r, numChar x = true) (hdot : c ≠ '.') :
    Word (c :: r) := by
  have hc := numChar_props c (hall c (by simp))
  refine ⟨⟨c, r, rfl, hc.2.2.1 hdot, hdot, hc.2.2.2⟩, fun x hx => (numChar_props x (hall x hx)).1, ?_⟩
  have hl := hc.2.1
  have hne : ∀ p : Char, p ∈ ['d', 'g', 'l', 's'] → lowerAscii c ≠ p := by
    intro p hp he
    rw [hl] at he
    subst he
    have := hall c (by simp)
    simp only [List.mem_cons, List.not_mem_nil, or_false] at hp
    rcases hp with rfl | rfl | rfl | rfl <;> revert this <;> decide
  unfold reservedStart
  rw [show "data_".toList = 'd' :: "ata_".toList from rfl, show "global_".toList = 'g' :: "lobal_".toList from rfl,
    show "loop_".toList = 'l' :: "oop_".toList from rfl, show "save_".toList = 's' :: "ave_".toList from rfl,
    show "stop_".toList = 's' :: "top_".toList from rfl,
    startWith_head_ne _ _ c r (hne 'd' (by simp)), startWith_head_ne _ _ c r (hne 'g' (by simp)),
    startWith_head_ne _ _ c r (hne 'l' (by simp)), startWith_head_ne "ave_".toList _ c r (hne 's' (by simp)),
    startWith_head_ne "top_".toList _ c r (hne 's' (by simp))]
  rfl

theorem digits_numChar (l : List Char) (h : l.all isDigit = true) : ∀ x ∈ l, numChar x = true := by
  intro x hx
  have := List.all_eq_true.mp h x hx
  unfold numChar; rw [this]; rfl

/-- the serial-number, residue-number, charge and model cells -/
theorem natDigits_word (n : Nat) : Word (natDigits n) := by
  obtain ⟨hne, hall, _⟩ := natDigits_spec n
  cases hd : natDigits n with
  | nil => exact absurd hd hne
  | cons c r =>
    rw [hd] at hall
    refine numeric_word c r (digits_numChar _ hall) ?_
    intro he; subst he
    have := List.all_eq_true.mp hall '.' (by simp)
    revert this; decide

theorem intText_word (i : Int) : Word (intText i) := by
  unfold intText
  obtain ⟨_, hall, _⟩ := natDigits_spec i.natAbs
  split
  · refine numeric_word '-' _ ?_ (by decide)
    intro x hx
    rcases List.mem_cons.mp hx with rfl | h
    · decide
    · exact digits_numChar _ hall x h
  · exact natDigits_word _

/-- the coordinate, occupancy, B-factor and tensor cells -/
theorem printFloat_word (v : Int) : Word (printFloat v).1 := by
  have hfp : ((v.natAbs + 5) / 10) % 100000 < 10 ^ 5 := Nat.mod_lt _ (by decide)
  obtain ⟨hne, hall, _⟩ := natDigits_spec (((v.natAbs + 5) / 10) / 100000)
  obtain ⟨_, hpall, _⟩ := natPad_spec _ hfp
  -- the body: digits, a dot, digits
  have hbody : ∀ x ∈ (if ((v.natAbs + 5) / 10) % 100000 = 0 then natDigits (((v.natAbs + 5) / 10) / 100000) ++ ".0".toList
      else natDigits (((v.natAbs + 5) / 10) / 100000) ++
        ('.' :: ((natPad (((v.natAbs + 5) / 10) % 100000) 5).reverse.dropWhile (· == '0')).reverse)),
      numChar x = true := by
    intro x hx
    split at hx
    · rcases List.mem_append.mp hx with h | h
      · exact digits_numChar _ hall x h
      · rw [show ".0".toList = ['.', '0'] from rfl] at h
        simp only [List.mem_cons, List.not_mem_nil, or_false] at h
        rcases h with rfl | rfl <;> decide
    · rcases List.mem_append.mp hx with h | h
      · exact digits_numChar _ hall x h
      · rcases List.mem_cons.mp h with rfl | h
        · decide
        · rw [List.mem_reverse] at h
          have h' := (List.dropWhile_sublist _).subset h
          rw [List.mem_reverse] at h'
          exact digits_numChar _ hpall x h'
  have hhead : ∃ c r, (if ((v.natAbs + 5) / 10) % 100000 = 0 then natDigits (((v.natAbs + 5) / 10) / 100000) ++ ".0".toList
      else natDigits (((v.natAbs + 5) / 10) / 100000) ++
        ('.' :: ((natPad (((v.natAbs + 5) / 10) % 100000) 5).reverse.dropWhile (· == '0')).reverse)) = c :: r ∧ c ≠ '.' := by
    cases hd : natDigits (((v.natAbs + 5) / 10) / 100000) with
    | nil => exact absurd hd hne
    | cons c r =>
      rw [hd] at hall
      have hc : c ≠ '.' := by
        intro he; subst he
        have := List.all_eq_true.mp hall '.' (by simp)
        revert this; decide
      split
      · exact ⟨c, _, rfl, hc⟩
      · exact ⟨c, _, rfl, hc⟩
  obtain ⟨c, r, hcr, hc⟩ := hhead
  unfold printFloat
  simp only
  rw [hcr] at hbody ⊢
  split
  · refine numeric_word '-' _ ?_ (by decide)
    intro x hx
    rcases List.mem_cons.mp hx with rfl | h
    · decide
    · exact hbody x h
  · exact numeric_word c r hbody hc

/-- **every number cell of the atom_site table is a word** (serial numbers, residue numbers, charges, model
numbers; coordinates, occupancies, B-factors and tensor entries), so `C04_written_table_read_back` applies to
them without a side condition -/
theorem C04_number_cells (n : Nat) (i v : Int) :
    Cell (natDigits n) ∧ Cell (intText i) ∧ Cell (printFloat v).1 :=
  ⟨Or.inl (natDigits_word n), Or.inl (intText_word i), Or.inl (printFloat_word v)⟩

/-- non-vacuity: a row of the kind the writer prints, closed by a line feed -/
example : Word "ATOM".toList ∧ Word "1".toList ∧ Word "N".toList ∧ Word "-1.5".toList ∧ Word "SER".toList ∧
    Word "LEU".toList ∧ Word "D".toList := by
  refine ⟨?_, ?_, ?_, ?_, ?_, ?_, ?_⟩ <;>
    exact ⟨⟨_, _, rfl, by decide, by decide, by decide⟩, by decide, by decide⟩

end PdbModel
