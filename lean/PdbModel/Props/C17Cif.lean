/-
C17 — the space group through the mmCIF symmetry items, for all 230 groups: the quoted Hermann–Mauguin symbol
the writer prints is lexed back as exactly that text, whatever follows it, and looking that text up gives the
group back; the table number it prints is the number of the same group.
-/
import PdbModel.CifRead
import PdbModel.Props.C04Row
import PdbModel.Props.C17
namespace PdbModel

/-- the symbol of group `k + 1` as characters -/
def hmChars (k : Nat) : List Char := ((hmSymbol (k + 1)).getD []).map Char.ofNat

/-- per group: the symbol contains no quote and no line break, and looking it up gives the group back -/
def cifOkAt (k : Nat) : Bool :=
  (hmChars k).all (fun c => !(c == '\'' || c == '\n' || c == '\r')) &&
  symmetryNew (charsToCodes (hmChars k)) == some (k + 1)

theorem cif_all_ok : (List.range 230).all cifOkAt = true := by decide +kernel

theorem parseEnclosed_closed (pat : Char) (t rest : List Char)
    (h : ∀ c ∈ t, (c == pat || c == '\n' || c == '\r') = false) :
    parseEnclosed pat (t ++ pat :: rest) = some (t, rest) := by
  unfold parseEnclosed
  have hd : (t ++ pat :: rest).dropWhile (fun c => !(c == pat || c == '\n' || c == '\r')) = pat :: rest := by
    induction t with
    | nil => simp
    | cons a as ih =>
      have ha := h a (by simp)
      simp only [List.cons_append, List.dropWhile_cons, ha, Bool.not_false, if_true]
      exact ih (fun c hc => h c (by simp [hc]))
  have ht : (t ++ pat :: rest).takeWhile (fun c => !(c == pat || c == '\n' || c == '\r')) = t := by
    clear hd
    induction t with
    | nil => simp
    | cons a as ih =>
      have ha := h a (by simp)
      simp only [List.cons_append, List.takeWhile_cons, ha, Bool.not_false, if_true]
      rw [ih (fun c hc => h c (by simp [hc]))]
  simp only [hd, ht, beq_self_eq_true, if_true]

/-- **a space group through the mmCIF items**: for every one of the 230 groups the value `'<symbol>'` is
lexed as the text `<symbol>` with the input continuing right behind the closing quote, that text names the
group, and so does the table number -/
theorem C17_cif_symbol_read_back (i : Nat) (h1 : 1 ≤ i) (h2 : i ≤ 230) (rest : List Char) :
    parseValue ('\'' :: (hmChars (i - 1) ++ '\'' :: rest)) = .ok (.text (hmChars (i - 1)), rest) ∧
    symmetryNew (charsToCodes (hmChars (i - 1))) = some i ∧ symmetryFromIndex i = some i := by
  obtain ⟨k, rfl⟩ : ∃ k, i = k + 1 := ⟨i - 1, by omega⟩
  have hk : cifOkAt k = true := List.all_eq_true.mp cif_all_ok k (by simp; omega)
  unfold cifOkAt at hk
  simp only [Bool.and_eq_true, beq_iff_eq, Nat.add_sub_cancel] at hk ⊢
  obtain ⟨hq, hs⟩ := hk
  refine ⟨?_, hs, (C17_index_roundtrip (k + 1) h1 h2).1⟩
  have hres : reservedStart ('\'' :: (hmChars k ++ '\'' :: rest)) = false := by
    unfold reservedStart
    rw [show "data_".toList = 'd' :: "ata_".toList from rfl, show "global_".toList = 'g' :: "lobal_".toList from rfl,
      show "loop_".toList = 'l' :: "oop_".toList from rfl, show "save_".toList = 's' :: "ave_".toList from rfl,
      show "stop_".toList = 's' :: "top_".toList from rfl,
      startWith_head_ne _ 'd' '\'' _ (by decide), startWith_head_ne _ 'g' '\'' _ (by decide),
      startWith_head_ne _ 'l' '\'' _ (by decide), startWith_head_ne "ave_".toList 's' '\'' _ (by decide),
      startWith_head_ne "top_".toList 's' '\'' _ (by decide)]
    rfl
  have hpe := parseEnclosed_closed '\'' (hmChars k) rest (by
    intro c hc
    have := List.all_eq_true.mp hq c hc
    simpa using this)
  unfold parseValue
  simp only [trimCW, show isCifWs '\'' = false by decide, Bool.false_eq_true, if_false,
    show ('\'' == '#') = false by decide, hres, show ('\'' == '.') = false by decide,
    show ('\'' == '?') = false by decide, beq_self_eq_true, Bool.true_or, if_true, hpe]

end PdbModel
