/-
C05 — the PDB reader always classifies: for every text and every option set the model reader answers with a
structure and diagnostics none of which fails the level, or with a rejection list that contains a diagnostic
failing the level (so it is never empty) — or, for texts with SEQRES records, declines to predict (those inputs
are held to the property by the implementation-side oracles only).
-/
import PdbModel.PdbRead
namespace PdbModel

theorem C05_classifies (o : ReadOpts) (lines : List (List Char)) :
    readPdb o lines = .unsupported ∨
    (∃ f ds, readPdb o lines = .ok f ds ∧ ds.any (fun e => e.level.fails o.level) = false) ∨
    (∃ ds, readPdb o lines = .err ds ∧ ds.any (fun e => e.level.fails o.level) = true ∧ ds ≠ []) := by
  unfold readPdb
  split
  · exact Or.inl rfl
  · next f errors _ =>
    split
    · next h =>
      refine Or.inr (Or.inr ⟨errors, rfl, h, ?_⟩)
      intro he; rw [he] at h; simp at h
    · next h => exact Or.inr (Or.inl ⟨f, errors, rfl, by simpa using h⟩)

/-- only texts with SEQRES records are declined -/
theorem C05_unsupported_only_seqres (o : ReadOpts) (lines : List (List Char)) (h : readPdb o lines = .unsupported) :
    (((List.range lines.length).zip lines).foldl (fun s (il : Nat × List Char) => stepLine o s (il.1 + 1) il.2)
      ({} : PState)).sawSeqres = true := by
  unfold readPdb at h
  split at h
  · next hc =>
    unfold readPdbCore at hc
    simp only at hc
    split at hc
    · next hs => exact hs
    · cases hc
  · split at h <;> cases h

end PdbModel
