/-
C05 — the PDB reader always classifies: for every text and every option set the model reader answers with a
structure and diagnostics none of which fails the level, or with a rejection list that contains a diagnostic
failing the level (so it is never empty). Texts with SEQRES records are no exception: the SEQRES checks are part
of the model (`validateSeqres`).
-/
import PdbModel.PdbRead
namespace PdbModel

theorem C05_classifies (o : ReadOpts) (lines : List (List Char)) :
    (∃ f ds, readPdb o lines = .ok f ds ∧ ds.any (fun e => e.level.fails o.level) = false) ∨
    (∃ ds, readPdb o lines = .err ds ∧ ds.any (fun e => e.level.fails o.level) = true ∧ ds ≠ []) := by
  unfold readPdb
  rcases hc : readPdbCore o lines with ⟨f, errors⟩
  simp only
  split
  · next h =>
    refine Or.inr ⟨errors, rfl, h, ?_⟩
    intro he; rw [he] at h; simp at h
  · next h => exact Or.inl ⟨f, errors, rfl, by simpa using h⟩

end PdbModel
