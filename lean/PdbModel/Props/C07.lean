/-
C07 — strictness level alone decides accept/reject, monotonically.
Property theorems only; statements are kept apart from the model (PdbModel/Level.lean).
-/
import PdbModel.Level
namespace PdbModel

/-- The 15 entries of the table exactly as the property states them:
Strict: any diagnostic; Medium: anything above a general warning; Loose: anything above a loose warning. -/
theorem C07_fails_table (e : ErrorLevel) :
    e.fails .strict = true ∧
    (e.fails .medium = true ↔ e ≠ .generalWarning) ∧
    (e.fails .loose = true ↔ (e ≠ .generalWarning ∧ e ≠ .looseWarning)) := by
  cases e <;> simp [ErrorLevel.fails]

/-- Monotone: failing at a looser level implies failing at every stricter one. -/
theorem C07_fails_monotone (e : ErrorLevel) :
    (e.fails .loose = true → e.fails .medium = true) ∧
    (e.fails .medium = true → e.fails .strict = true) := by
  cases e <;> simp [ErrorLevel.fails]

theorem gate_err_of {α δ} {lvl : δ → ErrorLevel} {s : Strictness} {v : α} {ds : List δ}
    (h : ds.any (fun d => (lvl d).fails s) = true) : gate lvl s v ds = .err ds := by
  unfold gate; rw [if_pos h]

theorem gate_ok_of {α δ} {lvl : δ → ErrorLevel} {s : Strictness} {v : α} {ds : List δ}
    (h : ds.any (fun d => (lvl d).fails s) = false) : gate lvl s v ds = .ok v ds := by
  unfold gate; rw [if_neg (by simp [h])]

theorem any_true_iff {δ} (lvl : δ → ErrorLevel) (s : Strictness) (ds : List δ) :
    ds.any (fun d => (lvl d).fails s) = true ↔ ∃ d ∈ ds, (lvl d).fails s = true := by
  simp

theorem any_false_iff {δ} (lvl : δ → ErrorLevel) (s : Strictness) (ds : List δ) :
    ds.any (fun d => (lvl d).fails s) = false ↔ ∀ d ∈ ds, (lvl d).fails s = false := by
  simp

/-- Rejected exactly when some diagnostic fails the level; a rejection list is never empty;
a returned value is accompanied only by non-failing diagnostics. -/
theorem C07_gate_iff {α δ} (lvl : δ → ErrorLevel) (s : Strictness) (v : α) (ds : List δ) :
    (gate lvl s v ds = .err ds ↔ ∃ d ∈ ds, (lvl d).fails s = true) ∧
    (gate lvl s v ds = .err ds → ds ≠ []) ∧
    (gate lvl s v ds = .ok v ds ↔ ∀ d ∈ ds, (lvl d).fails s = false) ∧
    (gate lvl s v ds = .err ds ∨ gate lvl s v ds = .ok v ds) := by
  cases h : ds.any (fun d => (lvl d).fails s)
  · have hok := gate_ok_of (v := v) h
    have hall := (any_false_iff lvl s ds).mp h
    refine ⟨?_, ?_, ?_, Or.inr hok⟩
    · rw [hok]
      constructor
      · intro hc; cases hc
      · intro ⟨d, hd, hf⟩; rw [hall d hd] at hf; cases hf
    · rw [hok]; intro hc; cases hc
    · exact ⟨fun _ => hall, fun _ => hok⟩
  · have herr := gate_err_of (v := v) h
    have hex := (any_true_iff lvl s ds).mp h
    refine ⟨?_, ?_, ?_, Or.inl herr⟩
    · exact ⟨fun _ => hex, fun _ => herr⟩
    · intro _ hnil; subst hnil; simp at h
    · rw [herr]
      constructor
      · intro hc; cases hc
      · intro hall; obtain ⟨d, hd, hf⟩ := hex; rw [hall d hd] at hf; cases hf

/-- Whatever the gate accepts at a stricter level it accepts at every looser level, with the very
same value (the same diagnostics being presented). -/
theorem C07_accept_monotone {α δ} (lvl : δ → ErrorLevel) (v : α) (ds : List δ) :
    (gate lvl .strict v ds = .ok v ds → gate lvl .medium v ds = .ok v ds) ∧
    (gate lvl .medium v ds = .ok v ds → gate lvl .loose v ds = .ok v ds) := by
  have key : ∀ s t : Strictness, (∀ e : ErrorLevel, e.fails t = true → e.fails s = true) →
      gate lvl s v ds = .ok v ds → gate lvl t v ds = .ok v ds := by
    intro s t hmono h
    rw [(C07_gate_iff lvl s v ds).2.2.1] at h
    rw [(C07_gate_iff lvl t v ds).2.2.1]
    intro d hd
    cases hf : (lvl d).fails t
    · rfl
    · have := hmono _ hf; rw [h d hd] at this; cases this
  exact ⟨key .strict .medium (fun e => (C07_fails_monotone e).2),
         key .medium .loose (fun e => (C07_fails_monotone e).1)⟩

/-- The validating savers create or truncate nothing when they refuse, and refuse exactly when
some validation diagnostic fails the level. -/
theorem C07_save_refuses_clean (fs : FS) (path : String) (s : Strictness)
    (diags : List ErrorLevel) (bytes : List Nat) :
    ((saveGated fs path s diags bytes).2 = false ↔ ∃ d ∈ diags, d.fails s = true) ∧
    ((saveGated fs path s diags bytes).2 = false → (saveGated fs path s diags bytes).1 = fs) ∧
    ((saveGated fs path s diags bytes).2 = true →
        (saveGated fs path s diags bytes).1 path = some bytes ∧
        ∀ q, q ≠ path → (saveGated fs path s diags bytes).1 q = fs q) := by
  unfold saveGated
  rcases (C07_gate_iff id s () diags).2.2.2 with h | h
  · have hex := (C07_gate_iff id s () diags).1.mp h
    rw [h]
    exact ⟨⟨fun _ => hex, fun _ => rfl⟩, fun _ => rfl, fun hc => (by cases hc)⟩
  · have hall := (C07_gate_iff id s () diags).2.2.1.mp h
    rw [h]
    refine ⟨⟨fun hc => (by cases hc), ?_⟩, fun hc => (by cases hc), fun _ => ⟨by simp [FS.write], ?_⟩⟩
    · intro ⟨d, hd, hf⟩; have := hall d hd; simp only [id] at this; rw [this] at hf; cases hf
    · intro q hq; simp [FS.write, hq]

/-- non-vacuity: a concrete diagnostics list that is accepted at Loose, rejected at Medium -/
example : gate id .loose () [ErrorLevel.looseWarning, .generalWarning] = .ok () [.looseWarning, .generalWarning]
    ∧ gate id .medium () [ErrorLevel.looseWarning, .generalWarning] = .err [.looseWarning, .generalWarning] := by
  decide

end PdbModel
