/-
C15 — only-first-model on the PDB reader, line by line.  The option matters at exactly one place: a MODEL record
that follows a non-empty model stops the reading.  Until then the reader does what it does without the option; from
then on nothing changes any more; and without the option the models finished so far are never touched again.  Hence
the models read with the option are the first models read without it (`C15_pdb_first_model_is_prefix`), and when no
second model follows, the two reads are the same (`C15_pdb_first_model_no_stop`).
-/
import PdbModel.PdbRead
namespace PdbModel

def withFirst (o : ReadOpts) (b : Bool) : ReadOpts := { o with onlyFirstModel := b }

/-- once stopped, always stopped and nothing moves -/
theorem C15_pdb_stopped_is_final (o : ReadOpts) (s : PState) (ln : Nat) (line : List Char) (h : s.stopped = true) :
    stepLine o s ln line = s := by
  unfold stepLine; simp [h]

theorem flushModel_models (s : PState) : ∃ t, (flushModel s).models = s.models ++ t := by
  unfold flushModel
  split
  · exact ⟨[], by simp⟩
  · exact ⟨_, rfl⟩

/-- **finished models are never touched again**: a line only ever appends to the list of finished models -/
theorem stepItem_models_prefix (o : ReadOpts) (s : PState) (ctx : Nat × List Char) (item : LexItem) :
    ∃ t, (stepItem o s ctx item).1.models = s.models ++ t := by
  obtain ⟨t, ht⟩ := flushModel_models s
  cases item <;> simp only [stepItem] <;> (repeat' split) <;>
    first
      | exact ⟨t, ht⟩
      | exact ⟨[], (List.append_nil _).symm⟩

theorem stepLine_models_prefix (o : ReadOpts) (s : PState) (ln : Nat) (line : List Char) :
    ∃ t, (stepLine o s ln line).models = s.models ++ t := by
  unfold stepLine
  split
  · exact ⟨[], by simp⟩
  · split
    · exact ⟨[], by simp⟩
    · exact stepItem_models_prefix o { s with errors := [] } (ln, line) _

theorem fold_models_prefix (o : ReadOpts) (zl : List (Nat × List Char)) (s : PState) :
    ∃ t, (zl.foldl (fun s (il : Nat × List Char) => stepLine o s (il.1 + 1) il.2) s).models = s.models ++ t := by
  induction zl generalizing s with
  | nil => exact ⟨[], by simp⟩
  | cons x xs ih =>
    obtain ⟨t1, h1⟩ := stepLine_models_prefix o s (x.1 + 1) x.2
    obtain ⟨t2, h2⟩ := ih (stepLine o s (x.1 + 1) x.2)
    exact ⟨t1 ++ t2, by rw [List.foldl_cons, h2, h1, List.append_assoc]⟩

/-- what one item does with and without the option: the same, unless it is the MODEL record that stops the read -/
theorem stepItem_first (o : ReadOpts) (s : PState) (ctx : Nat × List Char) (item : LexItem) :
    stepItem (withFirst o true) s ctx item = stepItem (withFirst o false) s ctx item ∨
    ((stepItem (withFirst o true) s ctx item).1 = { flushModel s with stopped := true } ∧
     (stepItem (withFirst o true) s ctx item).2 = [] ∧
     (stepItem (withFirst o false) s ctx item).1.models = (flushModel s).models ∧ s.cur.isEmpty = false) := by
  cases item
  case model n =>
    cases hc : s.cur.isEmpty
    · right
      simp [stepItem, withFirst, hc]
    · left
      simp [stepItem, withFirst, hc]
  all_goals exact Or.inl rfl

theorem flushModel_cur (s : PState) : (flushModel s).cur = [] := by
  unfold flushModel
  split
  · next h => simpa using h
  · rfl

/-- the two reads side by side: equal so far, or the read with the option has stopped on a complete list of models
that the other read only extends -/
def FirstRel (s1 s0 : PState) : Prop :=
  (s1 = s0 ∧ s1.stopped = false) ∨ (s1.stopped = true ∧ s1.cur = [] ∧ ∃ t, s0.models = s1.models ++ t)

theorem stepItem_unstopped (o : ReadOpts) (s : PState) (ctx : Nat × List Char) (item : LexItem) :
    (stepItem (withFirst o false) s ctx item).1.stopped = s.stopped := by
  have hf : (flushModel s).stopped = s.stopped := by unfold flushModel; split <;> rfl
  cases item <;> simp only [stepItem, withFirst] <;> (repeat' split) <;> first | rfl | exact hf

theorem stepLine_first (o : ReadOpts) (s1 s0 : PState) (ln : Nat) (line : List Char) (h : FirstRel s1 s0) :
    FirstRel (stepLine (withFirst o true) s1 ln line) (stepLine (withFirst o false) s0 ln line) := by
  rcases h with ⟨rfl, hs⟩ | ⟨hst, hcur, t, ht⟩
  · -- equal so far
    have hns : ¬ s1.stopped = true := by rw [hs]; simp
    unfold stepLine
    simp only [if_neg hns]
    have hlex : lexLine line ln (withFirst o true).level (withFirst o true).onlyAtomicCoords =
        lexLine line ln (withFirst o false).level (withFirst o false).onlyAtomicCoords := rfl
    rw [hlex]
    cases hl : lexLine line ln (withFirst o false).level (withFirst o false).onlyAtomicCoords with
    | error e => exact Or.inl ⟨rfl, hs⟩
    | ok p =>
      obtain ⟨item, errs⟩ := p
      simp only
      rcases stepItem_first o { s1 with errors := [] } (ln, line) item with heq | ⟨h1, h2, h3, _⟩
      · rw [heq]
        refine Or.inl ⟨rfl, ?_⟩
        show (stepItem (withFirst o false) { s1 with errors := [] } (ln, line) item).1.stopped = false
        rw [stepItem_unstopped]; exact hs
      · refine Or.inr ⟨?_, ?_, ?_⟩
        · show (stepItem (withFirst o true) { s1 with errors := [] } (ln, line) item).1.stopped = true
          rw [h1]
        · show (stepItem (withFirst o true) { s1 with errors := [] } (ln, line) item).1.cur = []
          rw [h1]; exact flushModel_cur _
        · show ∃ t, (stepItem (withFirst o false) { s1 with errors := [] } (ln, line) item).1.models =
            (stepItem (withFirst o true) { s1 with errors := [] } (ln, line) item).1.models ++ t
          rw [h1, h3]; exact ⟨[], by simp⟩
  · -- already stopped
    rw [C15_pdb_stopped_is_final _ s1 ln line hst]
    obtain ⟨t', ht'⟩ := stepLine_models_prefix (withFirst o false) s0 ln line
    exact Or.inr ⟨hst, hcur, t ++ t', by rw [ht', ht, List.append_assoc]⟩

theorem fold_first (o : ReadOpts) (zl : List (Nat × List Char)) (s1 s0 : PState) (h : FirstRel s1 s0) :
    FirstRel (zl.foldl (fun s (il : Nat × List Char) => stepLine (withFirst o true) s (il.1 + 1) il.2) s1)
      (zl.foldl (fun s (il : Nat × List Char) => stepLine (withFirst o false) s (il.1 + 1) il.2) s0) := by
  induction zl generalizing s1 s0 with
  | nil => exact h
  | cons x xs ih => exact ih _ _ (stepLine_first o s1 s0 (x.1 + 1) x.2 h)

/-- **only-first-model keeps the first models of the unrestricted read** (PDB reader, before the post-processing):
the list of models read with the option is an initial part of the list read without it — and when the reading was
never stopped (no second model follows), the two parser states are the same altogether -/
theorem C15_pdb_first_model_is_prefix (o : ReadOpts) (lines : List (List Char)) :
    ∃ t, (flushModel (((List.range lines.length).zip lines).foldl
            (fun s (il : Nat × List Char) => stepLine (withFirst o false) s (il.1 + 1) il.2) ({} : PState))).models =
         (flushModel (((List.range lines.length).zip lines).foldl
            (fun s (il : Nat × List Char) => stepLine (withFirst o true) s (il.1 + 1) il.2) ({} : PState))).models ++ t := by
  have h := fold_first o ((List.range lines.length).zip lines) ({} : PState) ({} : PState) (Or.inl ⟨rfl, rfl⟩)
  rcases h with ⟨heq, _⟩ | ⟨_, hcur, t, ht⟩
  · rw [heq]; exact ⟨[], by simp⟩
  · obtain ⟨t', ht'⟩ := flushModel_models (((List.range lines.length).zip lines).foldl
      (fun s (il : Nat × List Char) => stepLine (withFirst o false) s (il.1 + 1) il.2) ({} : PState))
    refine ⟨t ++ t', ?_⟩
    rw [ht', ht]
    have hfl : ∀ s : PState, s.cur = [] → flushModel s = s := by
      intro s hc; unfold flushModel; rw [hc]; rfl
    rw [hfl _ hcur, List.append_assoc]

/-- **a text with a single model is read the same with and without the option**: when the reading never stops, the
two parser states agree in every component -/
theorem C15_pdb_first_model_no_stop (o : ReadOpts) (lines : List (List Char))
    (h : (((List.range lines.length).zip lines).foldl
      (fun s (il : Nat × List Char) => stepLine (withFirst o true) s (il.1 + 1) il.2) ({} : PState)).stopped = false) :
    ((List.range lines.length).zip lines).foldl
      (fun s (il : Nat × List Char) => stepLine (withFirst o true) s (il.1 + 1) il.2) ({} : PState) =
    ((List.range lines.length).zip lines).foldl
      (fun s (il : Nat × List Char) => stepLine (withFirst o false) s (il.1 + 1) il.2) ({} : PState) := by
  rcases fold_first o ((List.range lines.length).zip lines) ({} : PState) ({} : PState) (Or.inl ⟨rfl, rfl⟩) with
    ⟨heq, _⟩ | ⟨hst, _⟩
  · exact heq
  · rw [h] at hst; cases hst

end PdbModel
