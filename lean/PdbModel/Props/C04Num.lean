/-
C04 — numbers: what `print_float` writes, `parse_numeric` reads back as the original rounded to five decimals.
(Model functions `printFloat` of `CifWrite.lean` and `parseNumeric` of `Cif.lean`; digit lemmas from `Props/C03.lean`.)
-/
import PdbModel.CifWrite
import PdbModel.Cif
import PdbModel.Props.C03
namespace PdbModel

/-- the value `parse_numeric` assigns to mantissa digits `mantN` with sign `neg`, `sig` significant digits and
decimal exponent `e` -/
def numValue (neg : Bool) (mantN sig : Nat) (e : Int) : Flt :=
  if mantN = 0 then .fin 0 0
  else if (sig : Int) + e < -330 then .fin 0 0
  else if (Flt.fin (if neg then -(mantN : Int) else mantN) e).isFinite then .fin (if neg then -(mantN : Int) else mantN) e
  else .inf neg

/-- `parse_numeric` on an unsigned decimal `digits.digits` -/
theorem parseNumeric_plain (ipd fpd : List Char) (hi0 : ipd ≠ []) (hi : ipd.all isDigit = true)
    (hf : fpd.all isDigit = true) :
    parseNumeric (ipd ++ '.' :: fpd) =
      some (.num (numValue false (digitsVal (ipd ++ fpd)) (((ipd ++ fpd).dropWhile (· == '0')).length)
        (0 - (fpd.length : Int))) (((ipd ++ fpd).dropWhile (· == '0')).length) (ipd ++ '.' :: fpd)) := by
  obtain ⟨d, r, rfl⟩ : ∃ d r, ipd = d :: r := by
    cases ipd with
    | nil => exact absurd rfl hi0
    | cons d r => exact ⟨d, r, rfl⟩
  have hd : isDigit d = true := by simp only [List.all_cons, Bool.and_eq_true] at hi; exact hi.1
  obtain ⟨hm, hp, _, _⟩ := digit_facts d hd
  have hdot : isDigit '.' = false := by decide
  have hsp := span_stop isDigit (d :: r) '.' fpd hi hdot
  have hfp := span_all isDigit fpd hf
  unfold parseNumeric
  split
  · next neg body hmatch =>
    split at hmatch
    · next r' heq => cases heq; exact absurd rfl hm
    · next r' heq => cases heq; exact absurd rfl hp
    · next r' =>
      cases hmatch
      simp only [hsp.1, hsp.2, hfp.1, hfp.2]
      simp [numValue]

/-- … and with a minus sign -/
theorem parseNumeric_minus (ipd fpd : List Char) (hi0 : ipd ≠ []) (hi : ipd.all isDigit = true)
    (hf : fpd.all isDigit = true) :
    parseNumeric ('-' :: (ipd ++ '.' :: fpd)) =
      some (.num (numValue true (digitsVal (ipd ++ fpd)) (((ipd ++ fpd).dropWhile (· == '0')).length)
        (0 - (fpd.length : Int))) (((ipd ++ fpd).dropWhile (· == '0')).length) ('-' :: (ipd ++ '.' :: fpd))) := by
  obtain ⟨d, r, rfl⟩ : ∃ d r, ipd = d :: r := by
    cases ipd with
    | nil => exact absurd rfl hi0
    | cons d r => exact ⟨d, r, rfl⟩
  have hdot : isDigit '.' = false := by decide
  have hsp := span_stop isDigit (d :: r) '.' fpd hi hdot
  have hfp := span_all isDigit fpd hf
  unfold parseNumeric
  split
  · next neg body hmatch =>
    split at hmatch
    · next r' heq =>
      cases heq
      cases hmatch
      simp only [hsp.1, hsp.2, hfp.1, hfp.2]
      simp [numValue]
    · next r' heq => cases heq
    · next r' hne1 hne2 => exact absurd rfl (hne1 _)

/-! trailing zeros of the fraction -/

/-- `trim_end_matches('0')` as the writer model does it -/
def stripZeros (l : List Char) : List Char := (l.reverse.dropWhile (· == '0')).reverse

theorem takeWhile_mem {α : Type} (p : α → Bool) (l : List α) : ∀ c ∈ l.takeWhile p, p c = true := by
  induction l with
  | nil => simp
  | cons a r ih =>
    intro c hc
    rw [List.takeWhile_cons] at hc
    split at hc
    · next ha =>
      simp only [List.mem_cons] at hc
      rcases hc with rfl | hc
      · exact ha
      · exact ih c hc
    · simp at hc

theorem stripZeros_spec (l : List Char) :
    ∃ z, l = stripZeros l ++ List.replicate z '0' ∧ (∀ c, (stripZeros l).getLast? = some c → c ≠ '0') := by
  unfold stripZeros
  have hsplit := List.takeWhile_append_dropWhile (p := fun c => c == '0') (l := l.reverse)
  have htw : List.takeWhile (fun c => c == '0') l.reverse =
      List.replicate (List.takeWhile (fun c => c == '0') l.reverse).length '0' := by
    rw [List.eq_replicate_iff]
    exact ⟨rfl, fun c hc => by simpa using takeWhile_mem _ _ c hc⟩
  refine ⟨(List.takeWhile (fun c => c == '0') l.reverse).length, ?_, ?_⟩
  · have h := congrArg List.reverse hsplit
    rw [List.reverse_append, List.reverse_reverse] at h
    rw [← List.reverse_replicate, ← htw]
    exact h.symm
  · intro c hc
    rw [List.getLast?_reverse] at hc
    have := List.head?_dropWhile_not (fun c => c == '0') l.reverse
    rw [hc] at this
    simpa using this

/-! values -/

theorem isFinite_small (m : Int) (e : Int) (he : e ≤ 0) (hm : m.natAbs < 10 ^ 19) :
    (Flt.fin m e).isFinite = true := by
  unfold Flt.isFinite
  simp only
  split
  · rfl
  · split
    · next h0 =>
      have : e = 0 := by omega
      subst this
      simp only [Int.toNat_zero, Nat.pow_zero, Nat.mul_one]
      split
      · omega
      · rw [decide_eq_true_eq]
        exact Nat.lt_of_lt_of_le hm (by decide +kernel)
    · split
      · rfl
      · rw [decide_eq_true_eq]
        have hB : 10 ^ 19 ≤ 2 ^ 1024 - 2 ^ 970 := by decide +kernel
        exact Nat.lt_of_lt_of_le hm (Nat.le_trans hB (Nat.le_mul_of_pos_right _ (Nat.pow_pos (by decide))))

theorem micro_small (m : Int) (k : Nat) (hk : k ≤ 6) :
    (Flt.fin m (-(k : Int))).micro? = some (m * 10 ^ (6 - k)) := by
  unfold Flt.micro?
  by_cases hm : m = 0
  · simp [hm]
  · simp only [hm, if_false]
    have h1 : (-(k : Int)) ≥ -6 := by omega
    rw [if_pos h1]
    have h2 : ¬ (-(k : Int) + 6 > 30) := by omega
    rw [if_neg h2]
    have : (-(k : Int) + 6).toNat = 6 - k := by omega
    rw [this]

/-- the original value rounded to five decimals (half away from zero), in units of 10⁻⁶ -/
def rounded5 (v : Int) : Int :=
  let r5 : Nat := (v.natAbs + 5) / 10
  if v < 0 then -((r5 * 10 : Nat) : Int) else ((r5 * 10 : Nat) : Int)

theorem digitsVal_zeros_only (z : Nat) : digitsVal (List.replicate z '0') = 0 := by
  have := digitsVal_zeros z []
  simpa [digitsVal] using this

theorem natPad_spec (fp : Nat) (h : fp < 10 ^ 5) :
    (natPad fp 5).length = 5 ∧ (natPad fp 5).all isDigit = true ∧ digitsVal (natPad fp 5) = fp := by
  obtain ⟨_, hall, hval⟩ := natDigits_spec fp
  have hlen := natDigits_length 4 fp h
  unfold natPad
  refine ⟨?_, ?_, ?_⟩
  · simp only [List.length_append, List.length_replicate]; omega
  · rw [List.all_append, hall, Bool.and_true, List.all_replicate]
    simp [show isDigit '0' = true by decide]
  · rw [digitsVal_zeros, hval]

/-- **`print_float` is read back exactly**: for every value of realistic magnitude the text the writer produces
is a CIF number whose value is the original rounded to five decimals -/
theorem C04_print_float_read_back (v : Int) (hv : v.natAbs < 10 ^ 18) :
    ∃ f sig, parseNumeric (printFloat v).1 = some (.num f sig (printFloat v).1) ∧
      f.micro? = some (rounded5 v) := by
  -- names for the pieces of `printFloat`
  obtain ⟨r5, hr5⟩ : ∃ r5, r5 = (v.natAbs + 5) / 10 := ⟨_, rfl⟩
  obtain ⟨ip, hip⟩ : ∃ ip, ip = r5 / 100000 := ⟨_, rfl⟩
  obtain ⟨fp, hfp⟩ : ∃ fp, fp = r5 % 100000 := ⟨_, rfl⟩
  have hsplit : r5 = ip * 100000 + fp := by rw [hip, hfp, Nat.mul_comm]; exact (Nat.div_add_mod r5 100000).symm
  have hfplt : fp < 10 ^ 5 := by rw [hfp]; exact Nat.mod_lt _ (by decide)
  have hr5lt : r5 < 10 ^ 18 := by omega
  obtain ⟨hine, hiall, hival⟩ := natDigits_spec ip
  have hround : rounded5 v = if v < 0 then -((r5 * 10 : Nat) : Int) else ((r5 * 10 : Nat) : Int) := by
    unfold rounded5; rw [hr5]
  -- the digits after the point and their value
  obtain ⟨fpd, hfpd⟩ : ∃ fpd, fpd = if fp = 0 then ['0'] else stripZeros (natPad fp 5) := ⟨_, rfl⟩
  have hfacts : fpd.all isDigit = true ∧ fpd.length ≤ 5 ∧ 1 ≤ fpd.length ∧
      digitsVal fpd * 10 ^ (5 - fpd.length) = fp := by
    by_cases h0 : fp = 0
    · rw [hfpd, if_pos h0, h0]; decide
    · rw [hfpd, if_neg h0]
      obtain ⟨plen, pall, pval⟩ := natPad_spec fp hfplt
      obtain ⟨z, hz, _⟩ := stripZeros_spec (natPad fp 5)
      have hlen : (stripZeros (natPad fp 5)).length + z = 5 := by
        have := congrArg List.length hz
        simp only [List.length_append, List.length_replicate] at this
        omega
      have hval : digitsVal (stripZeros (natPad fp 5)) * 10 ^ z = fp := by
        have := congrArg digitsVal hz
        rw [digitsVal_append, digitsVal_zeros_only, List.length_replicate, Nat.add_zero, pval] at this
        exact this.symm
      have hall : (stripZeros (natPad fp 5)).all isDigit = true := by
        rw [List.all_eq_true] at pall ⊢
        intro c hc
        apply pall c
        rw [hz]; simp [hc]
      refine ⟨hall, by omega, ?_, ?_⟩
      · cases hl : (stripZeros (natPad fp 5)).length with
        | zero =>
          have : stripZeros (natPad fp 5) = [] := List.length_eq_zero_iff.mp hl
          rw [this] at hval
          simp [digitsVal] at hval
          exact absurd hval.symm h0
        | succ n => omega
      · have : 5 - (stripZeros (natPad fp 5)).length = z := by omega
        rw [this]; exact hval
  obtain ⟨hfall, hflen5, hflen1, hfval⟩ := hfacts
  -- the text
  have htext : (printFloat v).1 =
      (if (decide (v < 0) && (r5 != 0)) then '-' :: (natDigits ip ++ '.' :: fpd) else natDigits ip ++ '.' :: fpd) := by
    unfold printFloat
    simp only [← hr5, ← hip, ← hfp]
    by_cases h0 : fp = 0
    · rw [hfpd, if_pos h0]
      simp only [h0, if_true]
      rfl
    · rw [hfpd, if_neg h0]
      simp only [h0, if_false]
      rfl
  -- mantissa and value
  have hmant : digitsVal (natDigits ip ++ fpd) = ip * 10 ^ fpd.length + digitsVal fpd := by
    rw [digitsVal_append, hival]
  have hvalue : (ip * 10 ^ fpd.length + digitsVal fpd) * 10 ^ (6 - fpd.length) = r5 * 10 := by
    have h1 : 6 - fpd.length = (5 - fpd.length) + 1 := by omega
    have h2 : fpd.length + (5 - fpd.length) = 5 := by omega
    rw [h1, Nat.pow_succ, ← Nat.mul_assoc, Nat.add_mul, Nat.mul_assoc ip, ← Nat.pow_add, h2, hfval, hsplit]
  have hmlt : ip * 10 ^ fpd.length + digitsVal fpd < 10 ^ 19 := by
    have hle : ip * 10 ^ fpd.length + digitsVal fpd ≤ r5 * 10 := by
      rw [← hvalue]; exact Nat.le_mul_of_pos_right _ (Nat.pow_pos (by decide))
    omega
  have hk : (0 - (fpd.length : Int)) = -(fpd.length : Int) := by omega
  by_cases hneg : (decide (v < 0) && (r5 != 0)) = true
  · -- a minus sign is written
    have hv0 : v < 0 := by
      simp only [Bool.and_eq_true, decide_eq_true_eq] at hneg; exact hneg.1
    have hr0 : r5 ≠ 0 := by
      simp only [Bool.and_eq_true, bne_iff_ne] at hneg; exact hneg.2
    rw [htext, if_pos hneg, parseNumeric_minus _ fpd hine hiall hfall]
    refine ⟨_, _, rfl, ?_⟩
    rw [hmant]
    have hm0 : ip * 10 ^ fpd.length + digitsVal fpd ≠ 0 := by
      intro h; rw [h] at hvalue; omega
    unfold numValue
    rw [if_neg hm0, if_neg (by omega), hk]
    simp only [if_true]
    rw [isFinite_small _ _ (by omega) (by rw [Int.natAbs_neg, Int.natAbs_natCast]; exact hmlt), if_pos rfl,
      micro_small _ _ (by omega), hround, if_pos hv0]
    rw [Int.neg_mul]
    exact_mod_cast (congrArg (fun n : Nat => some (-(n : Int))) hvalue)
  · have hneg' : (decide (v < 0) && (r5 != 0)) = false := by simpa using hneg
    rw [htext, if_neg hneg, parseNumeric_plain _ fpd hine hiall hfall]
    refine ⟨_, _, rfl, ?_⟩
    rw [hmant]
    unfold numValue
    by_cases hm0 : ip * 10 ^ fpd.length + digitsVal fpd = 0
    · rw [if_pos hm0]
      have hr0 : r5 = 0 := by rw [hm0] at hvalue; omega
      rw [hround, hr0]
      simp [Flt.micro?]
    · rw [if_neg hm0, if_neg (by omega), hk]
      simp only [Bool.false_eq_true, if_false]
      have hr0 : r5 ≠ 0 := by
        intro h
        rw [h, Nat.zero_mul] at hvalue
        rcases Nat.mul_eq_zero.mp hvalue with h1 | h1
        · exact hm0 h1
        · exact absurd h1 (Nat.ne_of_gt (Nat.pow_pos (by decide)))
      have hv0 : ¬ v < 0 := by
        intro h
        simp only [Bool.and_eq_false_iff, decide_eq_false_iff_not, bne_eq_false_iff_eq] at hneg'
        rcases hneg' with h1 | h1
        · exact h1 h
        · exact hr0 h1
      rw [isFinite_small _ _ (by omega) (by rw [Int.natAbs_natCast]; exact hmlt), if_pos rfl,
        micro_small _ _ (by omega), hround, if_neg hv0]
      congr 1
      exact_mod_cast hvalue

end PdbModel
