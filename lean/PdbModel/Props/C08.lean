/-
C08 — adding atoms builds a hierarchy with one child per identifier, in order of first insertion,
every atom under exactly the identifiers it was added with (identifiers compared in the trimmed,
case-normalised form in which they are stored).
-/
import PdbModel.Lemmas.Add
namespace PdbModel
open Grp

/-- Any history of add-atom calls with valid identifiers on an empty residue / chain / model yields
exactly the declarative nested grouping of the normalised calls. `mapM … = some` is the guard
"all identifiers valid": it is exactly what the real code does not panic on. -/
theorem C08_group_spec_residue (ops : List RawROp) (nops : List ROp) (k : ResId)
    (h : ops.mapM normROp = some nops) :
    ops.foldlM Residue.addAtom (Residue.empty k) =
      some { serial := k.1, icode := k.2, conformers := specConfs nops } := by
  rw [← residue_build]
  generalize Residue.empty k = r
  induction ops generalizing nops r with
  | nil => simp at h; subst h; rfl
  | cons o ops ih =>
    simp only [List.mapM_cons, Option.bind_eq_bind, Option.bind_eq_some_iff] at h
    obtain ⟨n, hn, ns, hns, hq⟩ := h
    simp at hq; subst hq
    simp only [List.foldlM_cons, Residue.addAtom, hn, Option.map_some, Option.bind_eq_bind,
      Option.bind_some, List.foldl_cons]
    exact ih ns hns _

theorem C08_group_spec_chain (ops : List RawCOp) (nops : List COp) (id : String)
    (h : ops.mapM normCOp = some nops) :
    ops.foldlM Chain.addAtom (Chain.empty id) = some { id := id, residues := specResidues nops } := by
  rw [← chain_build]
  generalize Chain.empty id = c
  induction ops generalizing nops c with
  | nil => simp at h; subst h; rfl
  | cons o ops ih =>
    simp only [List.mapM_cons, Option.bind_eq_bind, Option.bind_eq_some_iff] at h
    obtain ⟨n, hn, ns, hns, hq⟩ := h
    simp at hq; subst hq
    simp only [List.foldlM_cons, Chain.addAtom, hn, Option.map_some, Option.bind_eq_bind,
      Option.bind_some, List.foldl_cons]
    exact ih ns hns _

theorem C08_group_spec_model (ops : List RawMOp) (nops : List MOp) (n : Nat)
    (h : ops.mapM normMOp = some nops) :
    ops.foldlM Model.addAtom { serial := n, chains := [] } =
      some { serial := n, chains := specChains nops } := by
  rw [← model_build]
  generalize ({ serial := n, chains := [] } : Model) = m
  induction ops generalizing nops m with
  | nil => simp at h; subst h; rfl
  | cons o ops ih =>
    simp only [List.mapM_cons, Option.bind_eq_bind, Option.bind_eq_some_iff] at h
    obtain ⟨n, hn, ns, hns, hq⟩ := h
    simp at hq; subst hq
    simp only [List.foldlM_cons, Model.addAtom, hn, Option.map_some, Option.bind_eq_bind,
      Option.bind_some, List.foldl_cons]
    exact ih ns hns _

/-- One child per distinct identifier at every level, children in order of first insertion. -/
theorem C08_one_child_in_order (ops : List MOp) :
    (specChains ops).map (·.id) = dedupK (ops.map (·.1)) ∧
    ((specChains ops).map (·.id)).Nodup ∧
    (∀ c ∈ specChains ops, (c.residues.map Residue.rid).Nodup ∧
      ∀ r ∈ c.residues, (r.conformers.map Conformer.cid).Nodup) := by
  have hkeys : (specChains ops).map (·.id) = dedupK (ops.map (·.1)) := by
    unfold specChains; exact map_key_spec Chain.id _ (fun _ => rfl) _
  refine ⟨hkeys, hkeys ▸ nodup_dedup _, ?_⟩
  intro c hc
  unfold specChains at hc
  obtain ⟨k, _, rfl⟩ := List.mem_map.mp hc
  refine ⟨?_, ?_⟩
  · show ((specResidues _).map Residue.rid).Nodup
    unfold specResidues; rw [map_key_spec Residue.rid _ (fun _ => rfl)]
    exact nodup_dedup _
  · intro r hr
    change r ∈ specResidues _ at hr
    unfold specResidues at hr
    obtain ⟨k', _, rfl⟩ := List.mem_map.mp hr
    show ((specConfs _).map Conformer.cid).Nodup
    unfold specConfs; rw [map_key_spec Conformer.cid _ (fun _ => rfl)]
    exact nodup_dedup _

/-- the invariant form: one add-atom call keeps identifiers pairwise distinct at every level it touches -/
theorem C08_inv_residue (r : Residue) (o : ROp) (h : (r.conformers.map Conformer.cid).Nodup) :
    ((r.addAtomN o).conformers.map Conformer.cid).Nodup :=
  nodup_upsertC Conformer.cid Conformer.empty (Conformer.push o.2) (cid_push o.2) cid_empty _ _ h

theorem C08_inv_chain (c : Chain) (o : COp) (h : (c.residues.map Residue.rid).Nodup) :
    ((c.addAtomN o).residues.map Residue.rid).Nodup := by
  unfold Chain.addAtomN
  simp only
  rw [upsertLastC_eq_upsertC _ _ _ _ _ h]
  exact nodup_upsertC Residue.rid Residue.empty _ (rid_addAtomN o.2) rid_empty _ _ h

theorem C08_inv_model (m : Model) (o : MOp) (h : (m.chains.map Chain.id).Nodup) :
    ((m.addAtomN o).chains.map Chain.id).Nodup :=
  nodup_upsertC Chain.id Chain.empty _ (id_addAtomN o.2) (fun _ => rfl) _ _ h

/-- the atoms found under an identifier path -/
def atomsAt (cs : List Chain) (c : String) (r : ResId) (k : ConfId) : List Atom :=
  match cs.find? (fun x => x.id = c) with
  | none => []
  | some ch => match ch.residues.find? (fun x => x.rid = r) with
    | none => []
    | some rs => match rs.conformers.find? (fun x => x.cid = k) with
      | none => []
      | some cf => cf.atoms

/-- Every atom is found, in insertion order, under exactly the identifiers it was added with: the atoms
at a path are precisely the calls carrying that path, in call order (hence nothing lost or duplicated). -/
theorem C08_atoms_under_ids (ops : List MOp) (c : String) (r : ResId) (k : ConfId) :
    atomsAt (specChains ops) c r k =
      (ops.filter (fun o => o.1 = c ∧ o.2.1 = r ∧ o.2.2.1 = k)).map (·.2.2.2) := by
  unfold atomsAt
  unfold specChains
  rw [find_spec Chain.id _ (fun _ => rfl)]
  by_cases hc : c ∈ dedupK (ops.map (·.1))
  · simp only [hc, if_true]
    unfold specResidues
    rw [find_spec Residue.rid _ (fun _ => rfl)]
    by_cases hr : r ∈ dedupK (((ops.filter (fun o => o.1 = c)).map (·.2)).map (·.1))
    · simp only [hr, if_true]
      unfold specConfs
      rw [find_spec Conformer.cid _ (fun _ => rfl)]
      by_cases hk : k ∈ dedupK ((((ops.filter (fun o => o.1 = c)).map (·.2)).filter (fun o => o.1 = r)).map (·.2) |>.map (·.1))
      · simp only [hk, if_true]
        simp only [List.filter_map, List.map_map, List.filter_filter]
        congr 1
        · apply List.filter_congr
          intro o _
          by_cases h1 : o.1 = c <;> by_cases h2 : o.2.1 = r <;> by_cases h3 : o.2.2.1 = k <;>
            simp [Function.comp, h1, h2, h3]
      · simp only [hk, if_false]
        symm
        rw [List.map_eq_nil_iff, List.filter_eq_nil_iff]
        intro o ho hcond
        simp only [decide_eq_true_eq] at hcond
        apply hk
        rw [dedupK_eq, mem_dedup]
        simp only [List.mem_map, List.mem_filter, decide_eq_true_eq]
        exact ⟨o.2.2, ⟨o.2, ⟨⟨o, ⟨ho, hcond.1⟩, rfl⟩, hcond.2.1⟩, rfl⟩, hcond.2.2⟩
    · simp only [hr, if_false]
      symm
      rw [List.map_eq_nil_iff, List.filter_eq_nil_iff]
      intro o ho hcond
      simp only [decide_eq_true_eq] at hcond
      apply hr
      rw [dedupK_eq, mem_dedup]
      simp only [List.mem_map, List.mem_filter, decide_eq_true_eq]
      exact ⟨o.2, ⟨o, ⟨ho, hcond.1⟩, rfl⟩, hcond.2.1⟩
  · simp only [hc, if_false]
    symm
    rw [List.map_eq_nil_iff, List.filter_eq_nil_iff]
    intro o ho hcond
    simp only [decide_eq_true_eq] at hcond
    apply hc
    rw [dedupK_eq, mem_dedup]
    exact List.mem_map.mpr ⟨o, ho, hcond.1⟩

/-- non-vacuity: mixed-case and padded identifiers normalise and land in one child -/
example :
    (normMOp (" A ", (5, some "a"), ("ala", some "b"), default)).map (fun o => (o.1, o.2.1, o.2.2.1)) =
      some ("A", (5, some "A"), ("ALA", some "B")) ∧
    (normMOp ("A", (5, some "A"), ("ALA ", some " B"), default)).map (fun o => (o.1, o.2.1, o.2.2.1)) =
      some ("A", (5, some "A"), ("ALA", some "B")) := by
  decide

end PdbModel
