/-
C01 — residue numbers that wrapped past 9999 keep counting upward, for any number of wraps.  The reader keeps the last
COLUMN value (not the internal number) next to the offset, so the wrap test fires at every 9999 → 0 step.  The statement
is the one of `C01_serial_wrap`, carried over to the signed arithmetic the residue numbers use.
-/
import PdbModel.Props.C01
namespace PdbModel

/-- the reader's bookkeeping over a run of residue numbers (signed, as in the code) -/
def wrapRunI (top : Int) : (Int × Int) → List Int → List Int
  | _, [] => []
  | (last, add), s :: rest =>
    let add' := wrapAddI top last add s
    (s + add') :: wrapRunI top (s, add') rest

theorem wrapAddI_cast (top last add serial : Nat) :
    wrapAddI (top : Int) (last : Int) (add : Int) (serial : Int) = ((wrapAddN top last add serial : Nat) : Int) := by
  unfold wrapAddI wrapAddN
  by_cases h : serial = 0 ∧ last = top
  · obtain ⟨h1, h2⟩ := h
    subst h1; subst h2
    simp
  · have hN : (serial == 0 && last == top) = false := by
      rw [Bool.eq_false_iff]; intro hc
      simp only [Bool.and_eq_true, beq_iff_eq] at hc
      exact h hc
    have hI : ((serial : Int) == 0 && (last : Int) == (top : Int)) = false := by
      rw [Bool.eq_false_iff]; intro hc
      simp only [Bool.and_eq_true, beq_iff_eq] at hc
      exact h ⟨by omega, by omega⟩
    rw [hN, hI]
    simp

theorem wrapRunI_cast (top : Nat) (last add : Nat) (l : List Nat) :
    wrapRunI (top : Int) ((last : Int), (add : Int)) (l.map (fun (i : Nat) => (i : Int))) =
      (wrapRun top (last, add) l).map (fun (i : Nat) => (i : Int)) := by
  induction l generalizing last add with
  | nil => rfl
  | cons s rest ih =>
    simp only [List.map_cons, wrapRunI, wrapRun]
    rw [wrapAddI_cast]
    rw [ih s _]
    simp

/-- **wrapped residue numbers count on, however often they wrap**: consecutive residues written as `n mod 10000`
(for any start `n ≥ 0` and any length of run, so through any number of 9999 → 0 steps) are read back as `n` -/
theorem C01_residue_wrap (n k : Nat) :
    wrapRunI 9999 (((n % 10000 : Nat) : Int), ((n / 10000 * 10000 : Nat) : Int))
      ((List.range' (n + 1) k).map (fun (i : Nat) => ((i % 10000 : Nat) : Int))) =
    (List.range' (n + 1) k).map (fun (i : Nat) => (i : Int)) := by
  have h := C01_serial_wrap 9999 n k
  have hc := wrapRunI_cast 9999 (n % 10000) (n / 10000 * 10000) ((List.range' (n + 1) k).map (· % 10000))
  rw [List.map_map] at hc
  have e : ((9999 : Nat) : Int) = (9999 : Int) := rfl
  rw [e] at hc
  simp only [Function.comp_def] at hc
  rw [hc]
  show List.map (fun (i : Nat) => (i : Int)) (wrapRun 9999 (n % (9999 + 1), n / (9999 + 1) * (9999 + 1))
    (List.map (fun x => x % (9999 + 1)) (List.range' (n + 1) k))) = _
  rw [h]

/-- non-vacuity: 19998, 19999, 20000, 20001 are written 9998, 9999, 0, 1 and read back — the second wrap of a chain -/
example : wrapRunI 9999 (9997, 10000) [9998, 9999, 0, 1] = [19998, 19999, 20000, 20001] := by decide

end PdbModel
