/-
C15 on the mmCIF row parser: only-first-model, row by row.  The model number of the first row that is kept
becomes "the first model"; every later row with that number is processed exactly as without the option; every
row with another number changes nothing but the diagnostics (no atom, no model, no serial-number bookkeeping).
-/
import PdbModel.CifRead
namespace PdbModel

/-- the model number a row states (1 when the cell is absent or has no value) -/
def rowModelNumber (vals : List (Option CifValue)) : Nat := (colUsize ((vals[18]?).join)).val.getD 1

/-- **the first kept row fixes the model**: with no first model yet, the row is processed as without the option
and its model number is remembered -/
theorem C15_cif_first_model_first (s : AState) (vals : List (Option CifValue)) (h : s.firstModel = none) :
    atomRowCore true s vals = atomRowCore false { s with firstModel := some (rowModelNumber vals) } vals := by
  unfold atomRowCore firstModelGate rowModelNumber
  simp only [h, if_true, Bool.false_eq_true, if_false]

/-- **rows of the first model are processed as without the option** -/
theorem C15_cif_first_model_same (s : AState) (vals : List (Option CifValue)) (f : Nat)
    (h : s.firstModel = some f) (hm : rowModelNumber vals = f) :
    atomRowCore true s vals = atomRowCore false s vals := by
  unfold atomRowCore firstModelGate rowModelNumber at *
  simp only [h, if_true, Bool.false_eq_true, if_false, hm, bne_self_eq_false]

/-- **rows of any other model are skipped**: nothing but diagnostics of the model-number cell is kept -/
theorem C15_cif_first_model_skip (s : AState) (vals : List (Option CifValue)) (f : Nat)
    (h : s.firstModel = some f) (hm : rowModelNumber vals ≠ f) :
    (atomRowCore true s vals).models = s.models ∧ (atomRowCore true s vals).counts = s.counts ∧
    (atomRowCore true s vals).ids = s.ids ∧ (atomRowCore true s vals).dupIds = s.dupIds ∧
    (atomRowCore true s vals).firstModel = s.firstModel := by
  have hne : (rowModelNumber vals != f) = true := by simpa using hm
  unfold rowModelNumber at hne
  unfold atomRowCore firstModelGate
  simp only [h, if_true, hne]
  exact ⟨trivial, trivial, trivial, trivial, trivial⟩

end PdbModel
