/-
C02 — mmCIF reading does not depend on the layout.

Theorems about the reader model (`Cif.lean`, `CifRead.lean`):
* white space and comments between tokens are invisible to every token parser;
* the atom_site loop depends on its columns only through the tag → value association of each row, so any
  reordering of the columns (applied to header and rows alike) and any foreign column leave the result unchanged;
* unrelated single items, loops and save frames leave the parser state untouched;
* a non-numeric token in a numeric column is an `InvalidatingError`, which no strictness level accepts.
-/
import PdbModel.CifRead
namespace PdbModel

/-! ### white space and comments -/

/-- padding: any sequence of white-space characters and complete `#` comments -/
inductive Pad : List Char → Prop where
  | nil : Pad []
  | ws (c : Char) (p : List Char) : isCifWs c = true → Pad p → Pad (c :: p)
  | comment (body : List Char) (nl : Char) (p : List Char) :
      (∀ c ∈ body, (c == '\n' || c == '\r') = false) → (nl == '\n' || nl == '\r') = true → Pad p →
      Pad ('#' :: (body ++ nl :: p))

theorem trimCW_comment (body : List Char) (nl : Char) (rest : List Char)
    (hb : ∀ c ∈ body, (c == '\n' || c == '\r') = false) (hn : (nl == '\n' || nl == '\r') = true) :
    trimCW true (body ++ nl :: rest) = trimCW false rest := by
  induction body with
  | nil => simp [trimCW, hn]
  | cons c r ih =>
    have hc := hb c (by simp)
    simp only [List.cons_append, trimCW, hc, Bool.false_eq_true, if_false]
    exact ih (fun x hx => hb x (by simp [hx]))

/-- **padding is invisible**: trimming after any white space / comments gives the same position -/
theorem C02_padding_trimmed {pad : List Char} (hp : Pad pad) (s : List Char) :
    trimCW false (pad ++ s) = trimCW false s := by
  induction hp with
  | nil => rfl
  | ws c p hc _ ih => simp only [List.cons_append, trimCW, hc, if_true, ih]
  | comment body nl p hb hn _ ih =>
    have hh : isCifWs '#' = false := by decide
    simp only [List.cons_append, trimCW, hh, Bool.false_eq_true, if_false, beq_self_eq_true, if_true]
    rw [List.append_assoc, List.cons_append, trimCW_comment body nl (p ++ s) hb hn, ih]

/-- … hence every value is read the same whatever white space and comments precede it -/
theorem C02_value_layout {pad : List Char} (hp : Pad pad) (s : List Char) :
    parseValue (pad ++ s) = parseValue s := by
  unfold parseValue; rw [C02_padding_trimmed hp]

/-- … and every data item (tag + value, or a whole loop) as well -/
theorem C02_item_layout {pad : List Char} (hp : Pad pad) (s : List Char) :
    parseDataItem (pad ++ s) = parseDataItem s := by
  unfold parseDataItem; rw [C02_padding_trimmed hp]

example : Pad " \t# a comment 'x' loop_\n  \r\n".toList := by
  refine .ws _ _ (by decide) (.ws _ _ (by decide) ?_)
  exact .comment " a comment 'x' loop_".toList '\n' "  \r\n".toList (by decide) (by decide)
    (.ws _ _ (by decide) (.ws _ _ (by decide) (.ws _ _ (by decide) (.ws _ _ (by decide) .nil))))

/-! ### column order -/

theorem colLookup_eq_lookup (header : List (List Char)) (row : List CifValue) (t : List Char) :
    colLookup header row t = (header.zip row).lookup t := by
  unfold colLookup
  induction header generalizing row with
  | nil => simp
  | cons h hs ih =>
    cases row with
    | nil => cases hf : List.findIdx? (fun x => x == t) (h :: hs) <;> simp
    | cons r rs =>
      rw [List.zip_cons_cons, List.lookup_cons, List.findIdx?_cons]
      by_cases hht : h = t
      · subst hht; simp
      · have h1 : (h == t) = false := by simpa using hht
        have h2 : (t == h) = false := by simpa using fun e => hht e.symm
        simp only [h1, h2]
        rw [← ih rs]
        cases List.findIdx? (fun x => x == t) hs <;> simp

theorem lookup_perm {β : Type} {l₁ l₂ : List (List Char × β)} (p : l₁.Perm l₂)
    (nd : (l₁.map Prod.fst).Nodup) (k : List Char) : l₁.lookup k = l₂.lookup k := by
  induction p with
  | nil => rfl
  | cons x _ ih =>
    simp only [List.map_cons, List.nodup_cons] at nd
    obtain ⟨a, b⟩ := x
    simp only [List.lookup_cons]
    rw [ih nd.2]
  | swap x y l =>
    obtain ⟨a, b⟩ := x
    obtain ⟨c, d⟩ := y
    simp only [List.map_cons, List.nodup_cons, List.mem_cons, not_or] at nd
    have hne : c ≠ a := nd.1.1
    simp only [List.lookup_cons]
    by_cases h1 : k = a
    · subst h1
      have : (k == c) = false := by simpa using fun e => hne e.symm
      simp [this]
    · have : (k == a) = false := by simpa using h1
      simp [this]
  | trans p₁ _ ih₁ ih₂ =>
    rw [ih₁ nd, ih₂ ((p₁.map Prod.fst).nodup nd)]

/-- **column order is irrelevant**: if the (tag, value) pairs of a row are a rearrangement of those of another
row, every column lookup gives the same value -/
theorem C02_column_order (header header' : List (List Char)) (row row' : List CifValue)
    (hlen : header.length = row.length) (hnd : header.Nodup)
    (hp : (header'.zip row').Perm (header.zip row)) (t : List Char) :
    colLookup header' row' t = colLookup header row t := by
  rw [colLookup_eq_lookup, colLookup_eq_lookup]
  have hk : ((header.zip row).map Prod.fst) = header := by
    rw [List.map_fst_zip]; omega
  exact (lookup_perm hp.symm (by rw [hk]; exact hnd) t).symm

/-- … so the 27 values handed to the row parser are the same -/
theorem C02_row_values_order (header header' : List (List Char)) (row row' : List CifValue)
    (hlen : header.length = row.length) (hnd : header.Nodup)
    (hp : (header'.zip row').Perm (header.zip row)) : rowVals header' row' = rowVals header row := by
  unfold rowVals
  exact List.map_congr_left fun c _ => C02_column_order header header' row row' hlen hnd hp _

/-- **foreign columns are ignored**: a column whose tag is none of the 27 recognised ones changes no lookup -/
theorem C02_foreign_column (header : List (List Char)) (row : List CifValue) (tag : List Char) (v : CifValue)
    (hf : ∀ c ∈ atomColumns, c.1.toList ≠ tag) : rowVals (tag :: header) (v :: row) = rowVals header row := by
  unfold rowVals
  refine List.map_congr_left fun c hc => ?_
  rw [colLookup_eq_lookup, colLookup_eq_lookup, List.zip_cons_cons, List.lookup_cons]
  have : (c.1.toList == tag) = false := by simpa using hf c hc
  simp [this]

/-- the whole loop: same rows in a different column order (and the same set of tags) — same result -/
theorem C02_loop_column_order (o : ReadOpts) (ms : List Model) (header header' : List (List Char))
    (rows rows' : List (List CifValue)) (hnd : header.Nodup) (hperm : header'.Perm header)
    (hlen : rows'.length = rows.length)
    (hrows : ∀ i (h : i < rows.length), header.length = rows[i].length ∧
      (header'.zip (rows'[i]'(by omega))).Perm (header.zip rows[i])) :
    parseAtoms o ms header' rows' = parseAtoms o ms header rows := by
  have hmiss : missingCols header' = missingCols header := by
    unfold missingCols
    congr 1
    refine List.filter_congr fun c _ => ?_
    have : header'.contains c.1.toList = header.contains c.1.toList := by
      rw [Bool.eq_iff_iff]; simp only [List.contains_iff_mem]; exact hperm.mem_iff
    rw [this]
  have hvals : rows'.map (rowVals header') = rows.map (rowVals header) := by
    apply List.ext_getElem (by simp [hlen])
    intro i h1 h2
    simp only [List.getElem_map]
    have hi : i < rows.length := by simpa using h2
    exact C02_row_values_order header header' _ _ (hrows i hi).1 hnd (hrows i hi).2
  unfold parseAtoms
  rw [hmiss]
  have hf : ∀ (hd : List (List Char)) (rs : List (List CifValue)) (s0 : AState),
      rs.foldl (fun s row => atomRow o s (rowVals hd row)) s0 =
      (rs.map (rowVals hd)).foldl (fun s v => atomRow o s v) s0 := by
    intro hd rs s0; rw [List.foldl_map]
  simp only [hf, hvals]

/-! ### unrelated content -/

/-- names of the single items the parser looks at -/
def recognisedItem (name : List Char) : Bool :=
  let nm := String.ofList name
  nm == "cell.length_a" || nm == "cell.length_b" || nm == "cell.length_c" || nm == "cell.angle_alpha" ||
  nm == "cell.angle_beta" || nm == "cell.angle_gamma" || nm == "symmetry.Int_Tables_number" ||
  nm == "space_group.IT_number" || nm == "symmetry.space_group_name_H-M" ||
  nm == "symmetry.space_group_name_Hall" || nm == "space_group.name_H-M_alt" || nm == "space_group.name_Hall" ||
  startsWithL name "atom_sites.Cartn_transf".toList || startsWithL name "database_PDB_matrix.origx".toList ||
  startsWithL name "struct_ncs_oper.".toList

/-- **unrelated data items are skipped**: a single item with any other name leaves the state as it is -/
theorem C02_unrelated_single (o : ReadOpts) (s : CState) (name : List Char) (v : CifValue)
    (h : recognisedItem name = false) : stepCifItem o s (.data (.single name v)) = s := by
  unfold recognisedItem at h
  simp only [Bool.or_eq_false_iff] at h
  obtain ⟨⟨⟨⟨⟨⟨⟨⟨⟨⟨⟨⟨⟨⟨h1, h2⟩, h3⟩, h4⟩, h5⟩, h6⟩, h7⟩, h8⟩, h9⟩, h10⟩, h11⟩, h12⟩, h13⟩, h14⟩, h15⟩ := h
  show (if o.onlyAtomicCoords then s else { s with md := stepSingle s.md name v }) = s
  split
  · rfl
  · have : stepSingle s.md name v = s.md := by
      unfold stepSingle
      simp only [h1, h2, h3, h4, h5, h6, h7, h8, h9, h10, h11, h12, h13, h14, h15, Bool.false_eq_true, if_false,
        Bool.or_self]
    rw [this]

/-- … so is every save frame -/
theorem C02_save_frame_skipped (o : ReadOpts) (s : CState) (n : List Char) (items : List DataItem) :
    stepCifItem o s (.frame n items) = s := rfl

/-- … and every loop that does not carry `_atom_site.group_PDB` -/
theorem C02_unrelated_loop (o : ReadOpts) (s : CState) (header : List (List Char)) (rows : List (List CifValue))
    (h : header.contains "atom_site.group_PDB".toList = false) :
    stepCifItem o s (.data (.loop header rows)) = s := by
  simp only [stepCifItem, h, Bool.false_eq_true, if_false]

/-! ### no defaults for unusable values -/

/-- a token that is not a number is refused by every numeric accessor -/
theorem C02_text_is_not_a_number (t : List Char) :
    getF64 (.text t) = .error (.invalidating, "Not a number") ∧
    getUsize (.text t) = .error (.invalidating, "Not a number") ∧
    getIsize (.text t) = .error (.invalidating, "Not a number") := by
  refine ⟨rfl, rfl, rfl⟩

theorem invalidating_fails (l : Strictness) : ErrorLevel.invalidating.fails l = true := by cases l <;> rfl

/-- an `InvalidatingError` among the diagnostics makes the read fail at every level -/
theorem C02_invalidating_rejects (o : ReadOpts) (text : List Char) (b : DataBlock) (hl : lexCif text = .ok b)
    (d : PDiag) (hd : d ∈ (readCifCore o b).2) (hlev : d.level = .invalidating) :
    ∃ ds, readCif o text = .err ds := by
  unfold readCif
  rw [hl]
  unfold readCifBlock
  simp only
  have : (readCifCore o b).2.any (fun e => e.level.fails o.level) = true := by
    rw [List.any_eq_true]; exact ⟨d, hd, by rw [hlev]; exact invalidating_fails _⟩
  rw [if_pos this]
  exact ⟨_, rfl⟩

end PdbModel
