/-
C14 — the result map of `chains_in_contact`: exactly the ordered pairs of distinct chain ids with an atom pair
closer than the cut-off.
-/
import PdbModel.Props.C14
namespace PdbModel

/-- `v` is listed under `k` -/
def Listed (m : List (String × List String)) (k v : String) : Prop :=
  ∃ vs, m.lookup k = some vs ∧ v ∈ vs

theorem listed_addContact (m : List (String × List String)) (k v k' v' : String) :
    Listed (addContact m k v) k' v' ↔ Listed m k' v' ∨ (k' = k ∧ v' = v) := by
  induction m with
  | nil =>
    unfold addContact Listed
    by_cases hk : k' = k
    · subst hk; simp
    · have : (k' == k) = false := by simpa using hk
      simp [List.lookup_cons, this, hk]
  | cons p rest ih =>
    obtain ⟨k0, vs0⟩ := p
    unfold addContact
    by_cases h0 : k0 = k
    · subst h0
      simp only [if_true]
      unfold Listed
      by_cases hk : k' = k0
      · subst hk
        simp only [List.lookup_cons, beq_self_eq_true]
        by_cases hc : vs0.contains v = true
        · simp only [hc, if_true]
          constructor
          · rintro ⟨vs, h, hm⟩; exact Or.inl ⟨vs, h, hm⟩
          · rintro (⟨vs, h, hm⟩ | ⟨_, rfl⟩)
            · exact ⟨vs, h, hm⟩
            · exact ⟨vs0, rfl, by simpa using hc⟩
        · simp only [hc, Bool.false_eq_true, if_false]
          constructor
          · rintro ⟨vs, h, hm⟩
            cases h
            rw [List.mem_append] at hm
            rcases hm with hm | hm
            · exact Or.inl ⟨vs0, rfl, hm⟩
            · exact Or.inr ⟨trivial, by simpa using hm⟩
          · rintro (⟨vs, h, hm⟩ | ⟨_, rfl⟩)
            · cases h; exact ⟨_, rfl, by simp [hm]⟩
            · exact ⟨_, rfl, by simp⟩
      · have : (k' == k0) = false := by simpa using hk
        simp only [List.lookup_cons, this, hk, false_and, or_false]
    · simp only [h0, if_false]
      unfold Listed at ih ⊢
      by_cases hk : k' = k0
      · subst hk
        have hne : ¬ k' = k := h0
        simp only [List.lookup_cons, beq_self_eq_true, hne, false_and, or_false]
      · have : (k' == k0) = false := by simpa using hk
        simp only [List.lookup_cons, this]
        exact ih

/-- membership after a fold of conditional insertions -/
theorem listed_foldl {α : Type} (l : List α) (cond : α → Bool) (k v : String)
    (m : List (String × List String)) (k' v' : String) :
    Listed (l.foldl (fun m a => if cond a then addContact m k v else m) m) k' v' ↔
      Listed m k' v' ∨ (k' = k ∧ v' = v ∧ ∃ a ∈ l, cond a = true) := by
  induction l generalizing m with
  | nil => simp
  | cons a as ih =>
    rw [List.foldl_cons, ih]
    by_cases hc : cond a = true
    · simp only [hc, if_true, listed_addContact]
      constructor
      · rintro ((h | ⟨h1, h2⟩) | ⟨h1, h2, b, hb, hcb⟩)
        · exact Or.inl h
        · exact Or.inr ⟨h1, h2, a, by simp, hc⟩
        · exact Or.inr ⟨h1, h2, b, by simp [hb], hcb⟩
      · rintro (h | ⟨h1, h2, b, hb, hcb⟩)
        · exact Or.inl (Or.inl h)
        · exact Or.inl (Or.inr ⟨h1, h2⟩)
    · have hf : cond a = false := by simpa using hc
      simp only [hf, Bool.false_eq_true, if_false]
      constructor
      · rintro (h | ⟨h1, h2, b, hb, hcb⟩)
        · exact Or.inl h
        · exact Or.inr ⟨h1, h2, b, by simp [hb], hcb⟩
      · rintro (h | ⟨h1, h2, b, hb, hcb⟩)
        · exact Or.inl h
        · simp only [List.mem_cons] at hb
          rcases hb with rfl | hb
          · rw [hf] at hcb; cases hcb
          · exact Or.inr ⟨h1, h2, b, hb, hcb⟩

/-- fold over the partner chains -/
theorem listed_inner (c : Int) (c1 : Chain) (cs : List Chain) (m : List (String × List String)) (k' v' : String) :
    Listed (cs.foldl (fun m c2 =>
      if c1.id = c2.id then m
      else c1.atoms.foldl (fun m a1 =>
        if c > 0 && c2.atoms.any (fun a2 => decide (a1.d2 a2 < sq c)) then addContact m c1.id c2.id else m) m) m) k' v' ↔
      Listed m k' v' ∨ (k' = c1.id ∧ ∃ c2 ∈ cs, v' = c2.id ∧ c1.id ≠ c2.id ∧ inContact c c1 c2 = true) := by
  induction cs generalizing m with
  | nil => simp
  | cons c2 rest ih =>
    rw [List.foldl_cons, ih]
    by_cases hid : c1.id = c2.id
    · simp only [hid, if_true]
      constructor
      · rintro (h | ⟨h1, c3, hc3, h2, h3, h4⟩)
        · exact Or.inl h
        · exact Or.inr ⟨h1, c3, by simp [hc3], h2, h3, h4⟩
      · rintro (h | ⟨h1, c3, hc3, h2, h3, h4⟩)
        · exact Or.inl h
        · simp only [List.mem_cons] at hc3
          rcases hc3 with rfl | hc3
          · exact absurd rfl h3
          · exact Or.inr ⟨h1, c3, hc3, h2, h3, h4⟩
    · simp only [hid, if_false]
      rw [listed_foldl c1.atoms (fun a1 => c > 0 && c2.atoms.any (fun a2 => decide (a1.d2 a2 < sq c))) c1.id c2.id]
      have hcontact : (∃ a ∈ c1.atoms, (decide (c > 0) && c2.atoms.any (fun a2 => decide (a.d2 a2 < sq c))) = true) ↔
          inContact c c1 c2 = true := by
        unfold inContact
        simp only [Bool.and_eq_true, decide_eq_true_eq, List.any_eq_true]
        constructor
        · rintro ⟨a, ha, hc, a2, h2, hd⟩; exact ⟨hc, a, ha, a2, h2, hd⟩
        · rintro ⟨hc, a, ha, a2, h2, hd⟩; exact ⟨a, ha, hc, a2, h2, hd⟩
      constructor
      · rintro ((h | ⟨h1, h2, h3⟩) | ⟨h1, c3, hc3, h2, h3, h4⟩)
        · exact Or.inl h
        · exact Or.inr ⟨h1, c2, by simp, h2, hid, hcontact.mp h3⟩
        · exact Or.inr ⟨h1, c3, by simp [hc3], h2, h3, h4⟩
      · rintro (h | ⟨h1, c3, hc3, h2, h3, h4⟩)
        · exact Or.inl (Or.inl h)
        · simp only [List.mem_cons] at hc3
          rcases hc3 with rfl | hc3
          · exact Or.inl (Or.inr ⟨h1, h2, hcontact.mpr h4⟩)
          · exact Or.inr ⟨h1, c3, hc3, h2, h3, h4⟩

theorem listed_outer (c : Int) (all : List Chain) (cs : List Chain) (m : List (String × List String))
    (k' v' : String) :
    Listed (cs.foldl (fun m c1 => all.foldl (fun m c2 =>
      if c1.id = c2.id then m
      else c1.atoms.foldl (fun m a1 =>
        if c > 0 && c2.atoms.any (fun a2 => decide (a1.d2 a2 < sq c)) then addContact m c1.id c2.id else m) m) m) m) k' v' ↔
      Listed m k' v' ∨ ∃ c1 ∈ cs, ∃ c2 ∈ all, k' = c1.id ∧ v' = c2.id ∧ c1.id ≠ c2.id ∧ inContact c c1 c2 = true := by
  induction cs generalizing m with
  | nil => simp
  | cons c1 rest ih =>
    rw [List.foldl_cons, ih, listed_inner]
    constructor
    · rintro ((h | ⟨h1, c2, hc2, h2, h3, h4⟩) | ⟨c3, hc3, c2, hc2, h⟩)
      · exact Or.inl h
      · exact Or.inr ⟨c1, by simp, c2, hc2, h1, h2, h3, h4⟩
      · exact Or.inr ⟨c3, by simp [hc3], c2, hc2, h⟩
    · rintro (h | ⟨c3, hc3, c2, hc2, h1, h2, h3, h4⟩)
      · exact Or.inl (Or.inl h)
      · simp only [List.mem_cons] at hc3
        rcases hc3 with rfl | hc3
        · exact Or.inl (Or.inr ⟨h1, c2, hc2, h2, h3, h4⟩)
        · exact Or.inr ⟨c3, hc3, c2, hc2, h1, h2, h3, h4⟩

/-- **the contact map is exact**: chain id `v` is listed under chain id `k` in the result of
`chains_in_contact` exactly when two chains with these (different) ids have a pair of atoms closer than the
cut-off -/
theorem C14_contact_map_exact (p : PDB) (c : Int) (k v : String) :
    Listed (chainsInContact p c) k v ↔
      ∃ c1 ∈ p.chains, ∃ c2 ∈ p.chains, k = c1.id ∧ v = c2.id ∧ c1.id ≠ c2.id ∧ inContact c c1 c2 = true := by
  unfold chainsInContact
  rw [listed_outer]
  simp [Listed]

end PdbModel
