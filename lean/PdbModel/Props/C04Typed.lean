/-
C04 — the typed column accessors on what the lexer collected: the cells the writer prints come back through
`get_text` / `get_f64` / `get_usize` / `get_isize` as the original text, the original number rounded to five
decimals, the original serial or model number and the original residue number or charge.  Together with
`C04_written_table_read_back` (the table is collected as its cells) this is the cell-level half of the round trip;
how `parse_atoms` assembles the typed cells into atoms is tied to the code by the correspondence.
-/
import PdbModel.CifRead
import PdbModel.Props.C04Row
namespace PdbModel

/-- `parse_numeric` on an unsigned integer literal -/
theorem parseNumeric_digits (ds : List Char) (h0 : ds ≠ []) (hd : ds.all isDigit = true) :
    parseNumeric ds = some (.num (numValue false (digitsVal ds) ((ds.dropWhile (· == '0')).length) 0)
      ((ds.dropWhile (· == '0')).length) ds) := by
  obtain ⟨d, r, rfl⟩ : ∃ d r, ds = d :: r := by
    cases ds with
    | nil => exact absurd rfl h0
    | cons d r => exact ⟨d, r, rfl⟩
  have hdd : isDigit d = true := by simp only [List.all_cons, Bool.and_eq_true] at hd; exact hd.1
  obtain ⟨hm, hp, _, _⟩ := digit_facts d hdd
  have hsp := span_all isDigit (d :: r) hd
  unfold parseNumeric
  split
  · next neg body hmatch =>
    split at hmatch
    · next r' heq => cases heq; exact absurd rfl hm
    · next r' heq => cases heq; exact absurd rfl hp
    · next r' =>
      cases hmatch
      simp only [hsp.1, hsp.2]
      simp [numValue]

/-- … and on a negative one -/
theorem parseNumeric_neg_digits (ds : List Char) (h0 : ds ≠ []) (hd : ds.all isDigit = true) :
    parseNumeric ('-' :: ds) = some (.num (numValue true (digitsVal ds) ((ds.dropWhile (· == '0')).length) 0)
      ((ds.dropWhile (· == '0')).length) ('-' :: ds)) := by
  have hsp := span_all isDigit ds hd
  unfold parseNumeric
  split
  · next neg body hmatch =>
    split at hmatch
    · next r' heq =>
      cases heq
      cases hmatch
      simp only [hsp.1, hsp.2]
      cases ds with
      | nil => exact absurd rfl h0
      | cons d r => simp [numValue]
    · next r' heq => cases heq
    · next r' hne1 hne2 => exact absurd rfl (hne1 _)

theorem int?_fin_zero_exp (m : Int) : (Flt.fin m 0).int? = some m := by
  unfold Flt.int?
  simp

theorem isFinite_i64 (m : Int) (hn : m.natAbs < 2 ^ 64) : (Flt.fin m 0).isFinite = true := by
  unfold Flt.isFinite
  simp only
  split
  · rfl
  · simp only [ge_iff_le, Int.le_refl, if_true, Int.toNat_zero, Nat.pow_zero, Nat.mul_one]
    split
    · omega
    · rw [decide_eq_true_eq]
      exact Nat.lt_of_lt_of_le hn (by decide +kernel)

theorem isFinite_u64 (n : Nat) (hn : n < 2 ^ 64) : (Flt.fin (n : Int) 0).isFinite = true := by
  unfold Flt.isFinite
  simp only [Int.natAbs_natCast]
  split
  · rfl
  · simp only [ge_iff_le, Int.le_refl, if_true, Int.toNat_zero, Nat.pow_zero, Nat.mul_one]
    split
    · omega
    · rw [decide_eq_true_eq]
      exact Nat.lt_of_lt_of_le hn (by decide +kernel)

/-- **a text cell comes back as its text** -/
theorem C04_text_cell (t : List Char) (ht : BareWord t) : getText (classify t) = (some t, true) := by
  obtain ⟨⟨c, r, rfl, _, hdot, hq⟩, hws, _, hnum⟩ := ht
  have hn1 : ¬ (c :: r = ['.']) := by intro h; simp only [List.cons.injEq] at h; exact hdot h.1
  have hn2 : ¬ (c :: r = ['?']) := by intro h; simp only [List.cons.injEq] at h; exact hq h.1
  unfold classify
  simp only [hn1, hn2, if_false, hnum, getText]
  -- no line break at the end of a word
  have hstrip : stripEol (c :: r) = c :: r := by
    unfold stripEol
    have hlast : ∀ x ∈ (c :: r).reverse, x ≠ '\n' ∧ x ≠ '\r' := by
      intro x hx
      have := hws x (List.mem_reverse.mp hx)
      unfold isAsciiWs at this
      simp only [Bool.or_eq_false_iff, beq_eq_false_iff_ne, ne_eq] at this
      exact ⟨this.1.1.2, this.1.2⟩
    split
    · next r' he => exact absurd rfl (hlast '\n' (by rw [he]; simp)).1
    · next r' he => exact absurd rfl (hlast '\r' (by rw [he]; simp)).2
    · next r' he => exact absurd rfl (hlast '\n' (by rw [he]; simp)).1
    · next r' he => exact absurd rfl (hlast '\r' (by rw [he]; simp)).2
    · rfl
  rw [hstrip]

/-- **a serial / model number cell comes back as the number** -/
theorem C04_nat_cell (n : Nat) (hn : n < 2 ^ 64) :
    ∃ ex, getUsize (classify (natDigits n)) = .ok (some n, ex) := by
  obtain ⟨hne, hall, hval⟩ := natDigits_spec n
  have hw := natDigits_word n
  obtain ⟨⟨c, r, hcr, _, hdot, hq⟩, _, _⟩ := hw
  have hn1 : ¬ (natDigits n = ['.']) := by rw [hcr]; intro h; simp only [List.cons.injEq] at h; exact hdot h.1
  have hn2 : ¬ (natDigits n = ['?']) := by rw [hcr]; intro h; simp only [List.cons.injEq] at h; exact hq h.1
  unfold classify
  simp only [hn1, hn2, if_false, parseNumeric_digits _ hne hall, hval, getUsize, getF64]
  have hfin : (Flt.fin (n : Int) 0).isFinite = true := isFinite_u64 n hn
  unfold numValue
  by_cases h0 : n = 0
  · subst h0
    simp only [if_true, int?_fin_zero_exp]
    exact ⟨_, rfl⟩
  · have hsig : ¬ (((List.dropWhile (fun x => x == '0') (natDigits n)).length : Int) + 0 < -330) := by omega
    simp only [h0, if_false, hsig, Bool.false_eq_true, hfin, if_true, int?_fin_zero_exp]
    have h1 : (0 : Int) ≤ (n : Int) ∧ (n : Int) < 2 ^ 64 := ⟨by omega, by exact_mod_cast hn⟩
    simp only [h1, and_self, if_true, Int.toNat_natCast]
    exact ⟨_, rfl⟩

/-- **a residue number / charge cell comes back as the number** -/
theorem C04_int_cell (i : Int) (hlo : -(2 ^ 63 : Int) ≤ i) (hhi : i < 2 ^ 63) :
    ∃ ex, getIsize (classify (intText i)) = .ok (some i, ex) := by
  obtain ⟨hne, hall, hval⟩ := natDigits_spec i.natAbs
  obtain ⟨⟨c, r, hcr, _, hdot, hq⟩, _, _⟩ := intText_word i
  have hn1 : ¬ (intText i = ['.']) := by rw [hcr]; intro h; simp only [List.cons.injEq] at h; exact hdot h.1
  have hn2 : ¬ (intText i = ['?']) := by rw [hcr]; intro h; simp only [List.cons.injEq] at h; exact hq h.1
  have habs : i.natAbs < 2 ^ 64 := by omega
  have hfin : (Flt.fin i 0).isFinite = true := isFinite_i64 i habs
  have h1 : -(2 ^ 63 : Int) ≤ i ∧ i < 2 ^ 63 := ⟨hlo, hhi⟩
  have hsig : ¬ (((List.dropWhile (fun x => x == '0') (natDigits i.natAbs)).length : Int) + 0 < -330) := by omega
  unfold classify
  simp only [hn1, hn2, if_false]
  unfold intText
  by_cases hneg : i < 0
  · have h0 : ¬ i.natAbs = 0 := by omega
    have hm : -(i.natAbs : Int) = i := by omega
    simp only [hneg, if_true, parseNumeric_neg_digits _ hne hall, hval, getIsize, getF64, numValue, h0, if_false, hsig]
    rw [hm]
    simp only [hfin, if_true, int?_fin_zero_exp, h1, and_self]
    exact ⟨_, rfl⟩
  · have hm : (i.natAbs : Int) = i := by omega
    simp only [hneg, if_false, parseNumeric_digits _ hne hall, hval, getIsize, getF64, numValue]
    by_cases h0 : i.natAbs = 0
    · have hi0 : i = 0 := by omega
      subst hi0
      simp only [Int.natAbs_zero, if_true, int?_fin_zero_exp]
      exact ⟨_, rfl⟩
    · simp only [h0, if_false, hsig, Bool.false_eq_true]
      rw [hm]
      simp only [hfin, if_true, int?_fin_zero_exp, h1, and_self]
      exact ⟨_, rfl⟩

/-- **a coordinate / occupancy / B-factor / tensor cell comes back as the value rounded to five decimals** -/
theorem C04_float_cell (v : Int) (hv : v.natAbs < 10 ^ 18) :
    ∃ f ex, getF64 (classify (printFloat v).1) = .ok (some f, ex) ∧ f.micro? = some (rounded5 v) := by
  obtain ⟨f, sig, hp, hm⟩ := C04_print_float_read_back v hv
  obtain ⟨⟨c, r, hcr, _, hdot, hq⟩, _, _⟩ := printFloat_word v
  have hn1 : ¬ ((printFloat v).1 = ['.']) := by rw [hcr]; intro h; simp only [List.cons.injEq] at h; exact hdot h.1
  have hn2 : ¬ ((printFloat v).1 = ['?']) := by rw [hcr]; intro h; simp only [List.cons.injEq] at h; exact hq h.1
  unfold classify
  simp only [hn1, hn2, if_false, hp, getF64]
  exact ⟨f, _, rfl, hm⟩

end PdbModel
