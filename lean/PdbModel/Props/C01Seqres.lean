/-
C01 — the SEQRES checks (`validate_seqres`) add no atom and lose none: whatever the SEQRES records say, the
chain they are held against keeps exactly its residues, possibly joined by atom-less residues made from SEQRES
names and put in residue order; hence the atoms of the structure after the checks are a rearrangement of the
atoms before them, and for a chain the records describe completely (every name finds its residue) nothing moves.
-/
import PdbModel.PdbRead
namespace PdbModel

/-- the residues the walk works on are the chain's residues plus atom-less ones, in some order -/
def SeqInv (orig : List Residue) (st : SeqSt) : Prop :=
  ∃ ins : List Residue, (∀ r ∈ ins, r.atoms = []) ∧ List.Perm st.residues (orig ++ ins)

theorem seqresResidue_atoms (seq : List Char) (index : Int) (r : Residue) (h : seqresResidue seq index = some r) :
    r.atoms = [] := by
  unfold seqresResidue at h
  cases hp : prepIdUpS (String.ofList seq) with
  | none => rw [hp] at h; cases h
  | some n => rw [hp] at h; simp only [Option.map] at h; cases h; rfl

theorem seqStep_inv (orig : List Residue) (st : SeqSt) (index : Int) (seq : List Char) (pos : Nat × Nat)
    (h : SeqInv orig st) : SeqInv orig (seqStep st index seq pos) := by
  have hins : ∀ st : SeqSt, SeqInv orig st → SeqInv orig
      (match seqresResidue seq index with
       | some r => { st with residues := (st.residues ++ [r]).mergeSort resLe }
       | none => { st with errs := st.errs ++ [⟨.invalidating, "SEQRES residue name invalid", []⟩] }) := by
    intro st hst
    obtain ⟨ins, hatoms, hperm⟩ := hst
    cases hr : seqresResidue seq index with
    | none => exact ⟨ins, hatoms, hperm⟩
    | some r =>
      refine ⟨ins ++ [r], ?_, ?_⟩
      · intro x hx
        rcases List.mem_append.mp hx with hx | hx
        · exact hatoms x hx
        · simp only [List.mem_singleton] at hx; subst hx; exact seqresResidue_atoms seq index _ hr
      · simp only
        refine (List.mergeSort_perm _ _).trans ?_
        rw [← List.append_assoc]
        exact List.Perm.append_right [r] hperm
  unfold seqStep
  simp only
  split
  · split
    · obtain ⟨ins, hatoms, hperm⟩ := h
      split <;> (try split) <;> exact ⟨ins, hatoms, hperm⟩
    · split
      · exact hins st h
      · obtain ⟨ins, hatoms, hperm⟩ := h
        split <;> exact ⟨ins, hatoms, hperm⟩
  · exact hins st h

theorem foldl_inv' {σ α} (P : σ → Prop) (f : σ → α → σ) (l : List α)
    (hstep : ∀ s x, P s → P (f s x)) (init : σ) (h0 : P init) : P (l.foldl f init) := by
  induction l generalizing init with
  | nil => exact h0
  | cons x xs ih => exact ih _ (hstep _ _ h0)

theorem seqresWalk_inv (ch : Chain) (offset : Int) (names : List (List Char × Nat × Nat)) :
    SeqInv ch.residues (seqresWalk ch offset names) := by
  unfold seqresWalk
  apply foldl_inv' (SeqInv ch.residues)
  · intro st x hst; exact seqStep_inv _ st _ _ _ hst
  · exact ⟨[], fun _ hx => (by cases hx), by simp⟩

theorem flatMap_atoms_nil (ins : List Residue) (h : ∀ r ∈ ins, r.atoms = []) : ins.flatMap (·.atoms) = [] := by
  induction ins with
  | nil => rfl
  | cons r rs ih =>
    rw [List.flatMap_cons, h r (List.mem_cons_self ..), ih (fun x hx => h x (List.mem_cons_of_mem _ hx))]; rfl

/-- **a chain keeps exactly its atoms through the SEQRES checks** (as a multiset: inserting an atom-less residue
re-sorts the chain) -/
theorem C01_seqres_chain_keeps_atoms (ch : Chain) (db : Option DbRef) (cid : Char)
    (data : List (Nat × Nat × List (List Char))) (lines : List (Nat × List Char)) :
    List.Perm (validateSeqresChain ch db cid data lines).1.atoms ch.atoms := by
  unfold validateSeqresChain
  simp only [Chain.atoms]
  obtain ⟨ins, hatoms, hperm⟩ := seqresWalk_inv ch (seqresOffset db) (seqresNames data)
  refine (List.Perm.flatMap_right _ hperm).trans ?_
  rw [List.flatMap_append, flatMap_atoms_nil ins hatoms, List.append_nil]

/-- the id of the chain is not touched -/
theorem C01_seqres_chain_keeps_id (ch : Chain) (db : Option DbRef) (cid : Char)
    (data : List (Nat × Nat × List (List Char))) (lines : List (Nat × List Char)) :
    (validateSeqresChain ch db cid data lines).1.id = ch.id := rfl

theorem set_flatMap_perm {α β} (f : α → List β) (l : List α) (k : Nat) (x y : α) (hx : l[k]? = some x)
    (hy : List.Perm (f y) (f x)) : List.Perm ((l.set k y).flatMap f) (l.flatMap f) := by
  induction l generalizing k with
  | nil => simp at hx
  | cons a as ih =>
    cases k with
    | zero =>
      simp only [List.getElem?_cons_zero, Option.some.injEq] at hx
      subst hx
      simp only [List.set_cons_zero, List.flatMap_cons]
      exact List.Perm.append_right _ hy
    | succ k =>
      simp only [List.getElem?_cons_succ] at hx
      simp only [List.set_cons_succ, List.flatMap_cons]
      exact List.Perm.append_left _ (ih k hx)

theorem setChainAt_go_perm (c' : Chain) (ms : List Model) (k : Nat) (ch : Chain)
    (hk : (ms.flatMap (·.chains))[k]? = some ch) (hc : List.Perm c'.atoms ch.atoms) :
    List.Perm ((setChainAt.go c' ms k).flatMap Model.atoms) (ms.flatMap Model.atoms) := by
  induction ms generalizing k with
  | nil => simp at hk
  | cons m ms ih =>
    unfold setChainAt.go
    simp only [List.flatMap_cons] at hk ⊢
    split
    · next hlt =>
      simp only [List.flatMap_cons]
      refine List.Perm.append_right _ ?_
      rw [List.getElem?_append_left hlt] at hk
      exact set_flatMap_perm Chain.atoms m.chains k ch c' hk hc
    · next hge =>
      simp only [List.flatMap_cons]
      refine List.Perm.append_left _ (ih (k - m.chains.length) ?_)
      rw [List.getElem?_append_right (by omega)] at hk
      exact hk

theorem setChainAt_perm (p : PDB) (gi : Nat) (ch c' : Chain) (hk : p.chains[gi]? = some ch)
    (hc : List.Perm c'.atoms ch.atoms) : List.Perm (setChainAt p gi c').atoms p.atoms :=
  setChainAt_go_perm c' p.models gi ch hk hc

/-- **the SEQRES checks add no atom and lose none**: the atoms of the structure after `validate_seqres` are the
atoms before it (rearranged only where an atom-less residue was put into a chain and the chain re-sorted) -/
theorem C01_seqres_keeps_atoms (p : PDB) (dbrefs : List (Nat × DbRef))
    (seqres : List (Char × List (Nat × Nat × List (List Char)))) (lines : List (Nat × List Char)) :
    List.Perm (validateSeqres p dbrefs seqres lines).1.atoms p.atoms := by
  unfold validateSeqres
  apply foldl_inv' (fun acc : PDB × List PDiag => List.Perm acc.1.atoms p.atoms)
  · intro acc cd hacc
    split
    · exact hacc
    · next gi _ =>
      split
      · exact hacc
      · next ch hch =>
        exact (setChainAt_perm acc.1 gi ch _ hch (C01_seqres_chain_keeps_atoms ch _ cd.1 cd.2 lines)).trans hacc
  · exact List.Perm.refl _

/-! ### a chain the records describe completely is left as it is -/

theorem seqresWalk_aux (offset : Int) (names : List (List Char × Nat × Nat)) :
    ∀ (k : Nat) (st : SeqSt) (suffix : List Residue),
      st.next = suffix.head? → st.rest = suffix.tail →
      suffix.map (·.serial) = (List.range' k names.length).map (fun (i : Nat) => (i : Int) + offset) →
      (((List.range' k names.length).zip names).foldl (fun st (ri : Nat × List Char × Nat × Nat) =>
        seqStep st ((ri.1 : Int) + offset) ri.2.1 ri.2.2) st).residues = st.residues := by
  induction names with
  | nil => intro k st suffix _ _ _; rfl
  | cons nm names ih =>
    intro k st suffix hn hr hs
    simp only [List.length_cons, List.range'_succ, List.zip_cons_cons, List.foldl_cons, List.map_cons] at hs ⊢
    cases suffix with
    | nil => simp at hs
    | cons r suffix =>
      simp only [List.map_cons, List.cons.injEq] at hs
      obtain ⟨hser, hs⟩ := hs
      simp only [List.head?_cons, List.tail_cons] at hn hr
      have hstep : (seqStep st ((k : Int) + offset) nm.1 nm.2).residues = st.residues ∧
          (seqStep st ((k : Int) + offset) nm.1 nm.2).next = suffix.head? ∧
          (seqStep st ((k : Int) + offset) nm.1 nm.2).rest = suffix.tail := by
        unfold seqStep
        simp only [hn, hser, BEq.rfl, if_true, hr]
        split <;> (try split) <;> simp [hr]
      rw [ih (k + 1) _ suffix hstep.2.1 hstep.2.2 hs]
      exact hstep.1

/-- **a chain whose residues are numbered consecutively from the SEQRES offset, one per SEQRES name, comes out
of the SEQRES checks with exactly its residues in exactly their order** (whatever the names are: a mismatch is
reported, never repaired) -/
theorem C01_seqres_complete_chain_unchanged (ch : Chain) (db : Option DbRef) (cid : Char)
    (data : List (Nat × Nat × List (List Char))) (lines : List (Nat × List Char))
    (h : ch.residues.map (·.serial) = (List.range (seqresNames data).length).map (fun (i : Nat) => (i : Int) + seqresOffset db)) :
    (validateSeqresChain ch db cid data lines).1 = ch := by
  unfold validateSeqresChain
  simp only
  have := seqresWalk_aux (seqresOffset db) (seqresNames data) 0
    { residues := ch.residues, rest := ch.residues.tail, next := ch.residues.head? } ch.residues rfl rfl
    (by rw [← List.range_eq_range']; exact h)
  unfold seqresWalk
  rw [List.range_eq_range', this]

/-- the same walk when more residues follow the described ones (hetero groups behind the polymer) -/
theorem seqresWalk_aux_prefix (offset : Int) (names : List (List Char × Nat × Nat)) :
    ∀ (k : Nat) (st : SeqSt) (suffix : List Residue),
      st.next = suffix.head? → st.rest = suffix.tail →
      (suffix.take names.length).map (·.serial) = (List.range' k names.length).map (fun (i : Nat) => (i : Int) + offset) →
      (((List.range' k names.length).zip names).foldl (fun st (ri : Nat × List Char × Nat × Nat) =>
        seqStep st ((ri.1 : Int) + offset) ri.2.1 ri.2.2) st).residues = st.residues := by
  induction names with
  | nil => intro k st suffix _ _ _; rfl
  | cons nm names ih =>
    intro k st suffix hn hr hs
    simp only [List.length_cons, List.range'_succ, List.zip_cons_cons, List.foldl_cons, List.map_cons] at hs ⊢
    cases suffix with
    | nil => simp at hs
    | cons r suffix =>
      simp only [List.take_succ_cons, List.map_cons, List.cons.injEq] at hs
      obtain ⟨hser, hs⟩ := hs
      simp only [List.head?_cons, List.tail_cons] at hn hr
      have hstep : (seqStep st ((k : Int) + offset) nm.1 nm.2).residues = st.residues ∧
          (seqStep st ((k : Int) + offset) nm.1 nm.2).next = suffix.head? ∧
          (seqStep st ((k : Int) + offset) nm.1 nm.2).rest = suffix.tail := by
        unfold seqStep
        simp only [hn, hser, BEq.rfl, if_true, hr]
        split <;> (try split) <;> simp [hr]
      rw [ih (k + 1) _ suffix hstep.2.1 hstep.2.2 hs]
      exact hstep.1

/-- **a chain whose first residues are the ones the SEQRES records describe — numbered consecutively from the SEQRES
offset, one per name — followed by anything else (hetero groups, waters, in any order) comes out of the SEQRES checks
with exactly its residues in exactly their order** -/
theorem C01_seqres_described_prefix_unchanged (ch : Chain) (db : Option DbRef) (cid : Char)
    (data : List (Nat × Nat × List (List Char))) (lines : List (Nat × List Char))
    (h : (ch.residues.take (seqresNames data).length).map (·.serial) =
      (List.range (seqresNames data).length).map (fun (i : Nat) => (i : Int) + seqresOffset db)) :
    (validateSeqresChain ch db cid data lines).1 = ch := by
  unfold validateSeqresChain
  simp only
  have := seqresWalk_aux_prefix (seqresOffset db) (seqresNames data) 0
    { residues := ch.residues, rest := ch.residues.tail, next := ch.residues.head? } ch.residues rfl rfl
    (by rw [← List.range_eq_range']; exact h)
  unfold seqresWalk
  rw [List.range_eq_range', this]

/-! ### what is inserted comes from the records -/

/-- the residues the walk works on are the chain's residues plus residues made from SEQRES names of the walk -/
def SeqInvN (orig : List Residue) (names : List (List Char)) (st : SeqSt) : Prop :=
  ∃ ins : List Residue, (∀ r ∈ ins, ∃ seq ∈ names, ∃ idx, seqresResidue seq idx = some r) ∧
    List.Perm st.residues (orig ++ ins)

theorem seqStep_invN (orig : List Residue) (names : List (List Char)) (st : SeqSt) (index : Int) (seq : List Char)
    (pos : Nat × Nat) (hseq : seq ∈ names) (h : SeqInvN orig names st) : SeqInvN orig names (seqStep st index seq pos) := by
  have hins : ∀ st : SeqSt, SeqInvN orig names st → SeqInvN orig names
      (match seqresResidue seq index with
       | some r => { st with residues := (st.residues ++ [r]).mergeSort resLe }
       | none => { st with errs := st.errs ++ [⟨.invalidating, "SEQRES residue name invalid", []⟩] }) := by
    intro st hst
    obtain ⟨ins, hfrom, hperm⟩ := hst
    cases hr : seqresResidue seq index with
    | none => exact ⟨ins, hfrom, hperm⟩
    | some r =>
      refine ⟨ins ++ [r], ?_, ?_⟩
      · intro x hx
        rcases List.mem_append.mp hx with hx | hx
        · exact hfrom x hx
        · simp only [List.mem_singleton] at hx; subst hx; exact ⟨seq, hseq, index, hr⟩
      · simp only
        refine (List.mergeSort_perm _ _).trans ?_
        rw [← List.append_assoc]
        exact List.Perm.append_right [r] hperm
  unfold seqStep
  simp only
  split
  · split
    · obtain ⟨ins, hfrom, hperm⟩ := h
      split <;> (try split) <;> exact ⟨ins, hfrom, hperm⟩
    · split
      · exact hins st h
      · obtain ⟨ins, hfrom, hperm⟩ := h
        split <;> exact ⟨ins, hfrom, hperm⟩
  · exact hins st h

theorem foldl_inv_mem {σ α} (P : σ → Prop) (f : σ → α → σ) (l : List α) (Q : α → Prop) (hl : ∀ x ∈ l, Q x)
    (hstep : ∀ s x, Q x → P s → P (f s x)) (init : σ) (h0 : P init) : P (l.foldl f init) := by
  induction l generalizing init with
  | nil => exact h0
  | cons x xs ih =>
    exact ih (fun y hy => hl y (List.mem_cons_of_mem _ hy)) _ (hstep _ _ (hl x (List.mem_cons_self ..)) h0)

/-- **every residue of a chain after the SEQRES checks is a residue it had, or an atom-less residue named by one of
the chain's own SEQRES names** -/
theorem C01_seqres_inserted_from_records (ch : Chain) (db : Option DbRef) (cid : Char)
    (data : List (Nat × Nat × List (List Char))) (lines : List (Nat × List Char)) :
    ∃ ins : List Residue,
      (∀ r ∈ ins, ∃ seq ∈ (seqresNames data).map (·.1), ∃ idx, seqresResidue seq idx = some r) ∧
      List.Perm (validateSeqresChain ch db cid data lines).1.residues (ch.residues ++ ins) := by
  unfold validateSeqresChain
  simp only
  unfold seqresWalk
  apply foldl_inv_mem (SeqInvN ch.residues ((seqresNames data).map (·.1))) _ _
    (fun ri : Nat × List Char × Nat × Nat => ri.2.1 ∈ (seqresNames data).map (·.1))
  · intro ri hri
    have := (List.of_mem_zip hri).2
    exact List.mem_map.mpr ⟨ri.2, this, rfl⟩
  · intro st ri hq hst
    exact seqStep_invN _ _ st _ _ _ hq hst
  · exact ⟨[], fun _ hx => (by cases hx), by simp⟩

/-- non-vacuity: residues 0 and 1 under a two-name SEQRES record without database reference meet the premise -/
example : ([⟨0, none, []⟩, ⟨1, none, []⟩] : List Residue).map (·.serial) =
    (List.range (seqresNames [(1, 2, [['A', 'L', 'A'], ['G', 'L', 'Y']])]).length).map (fun (i : Nat) => (i : Int) + seqresOffset none) := by
  decide

end PdbModel
