/-
C07 on the PDB reader model.  The strictness level takes part in two places only: the lexer adds a general warning
to an over-long REMARK line at Medium and Strict, and the final gate.  Hence the structure that is read does not
depend on the level at all, Medium and Strict produce the same diagnostics, every diagnostic of a Loose read is also a
diagnostic of the stricter reads, and whatever is accepted at a stricter level is accepted — with the same structure —
at every more lenient one.
-/
import PdbModel.Props.C15PdbH
import PdbModel.Props.C07
namespace PdbModel

def withLevel (o : ReadOpts) (l : Strictness) : ReadOpts := { o with level := l }

/-- diagnostics of a line at level `a` are among those at level `b` -/
def SubLevel (a b : Strictness) : Prop := a = b ∨ a = .loose ∨ (a ≠ .loose ∧ b ≠ .loose)

theorem lexRemark_item (ln : Nat) (line : List Char) (a b : Strictness) :
    (lexRemark ln line a).1 = (lexRemark ln line b).1 := by
  unfold lexRemark; simp only; split <;> rfl

theorem lexRemark_sub (ln : Nat) (line : List Char) (a b : Strictness) (h : SubLevel a b) :
    ∀ d ∈ (lexRemark ln line a).2, d ∈ (lexRemark ln line b).2 := by
  intro d hd
  rcases h with rfl | rfl | ⟨ha, hb⟩
  · exact hd
  · unfold lexRemark at hd ⊢
    simp only at hd ⊢
    split
    · next hlen =>
      rw [if_pos hlen] at hd
      simp only [bne_self_eq_false, Bool.and_false, Bool.false_eq_true, if_false, List.append_nil] at hd
      exact List.mem_append_left _ hd
    · next hlen => rw [if_neg hlen] at hd; exact hd
  · have : (a != Strictness.loose) = (b != Strictness.loose) := by
      cases a <;> cases b <;> first | rfl | simp_all
    unfold lexRemark at hd ⊢
    simp only [this] at hd ⊢
    exact hd

/-- the lexer at two levels: the same item (or the same refusal), diagnostics of the lower level among the higher -/
theorem lexLineRaw_level (line : List Char) (ln : Nat) (a b : Strictness) (oa : Bool) (h : SubLevel a b) :
    (∃ e, lexLineRaw line ln a oa = .error e ∧ lexLineRaw line ln b oa = .error e) ∨
    (∃ item ea eb, lexLineRaw line ln a oa = .ok (item, ea) ∧ lexLineRaw line ln b oa = .ok (item, eb) ∧
      ∀ d ∈ ea, d ∈ eb) := by
  unfold lexLineRaw
  by_cases h1 : byteLen line > 6
  · simp only [h1, if_true]
    by_cases hrem : (!oa && String.ofList ((getBytes line 0 6).getD []) == "REMARK") = true
    · by_cases hhead : (!oa && String.ofList ((getBytes line 0 6).getD []) == "HEADER") = true
      · simp only [hhead, if_true]
        cases hh : lexHeader ln line with
        | error e => exact Or.inl ⟨e, rfl, rfl⟩
        | ok p => exact Or.inr ⟨p.1, p.2, p.2, rfl, rfl, fun d hd => hd⟩
      · simp only [hhead, hrem, if_true, Bool.false_eq_true, if_false]
        refine Or.inr ⟨(lexRemark ln line a).1, (lexRemark ln line a).2, (lexRemark ln line b).2, rfl, ?_, lexRemark_sub ln line a b h⟩
        rw [lexRemark_item ln line a b]
    · simp only [hrem, Bool.false_eq_true, if_false]
      -- no other branch looks at the level: both sides are the same term
      generalize hres : (if (!oa && String.ofList ((getBytes line 0 6).getD []) == "HEADER") = true then lexHeader ln line
        else _ : Except LDiag (W LexItem)) = res
      cases res with
      | error e => exact Or.inl ⟨e, rfl, rfl⟩
      | ok p => exact Or.inr ⟨p.1, p.2, p.2, rfl, rfl, fun d hd => hd⟩
  · simp only [h1, if_false]
    generalize hres : (if byteLen line > 2 then _ else _ : Except LDiag (W LexItem)) = res
    cases res with
    | error e => exact Or.inl ⟨e, rfl, rfl⟩
    | ok p => exact Or.inr ⟨p.1, p.2, p.2, rfl, rfl, fun d hd => hd⟩

theorem stepItem_level (o : ReadOpts) (a b : Strictness) (s : PState) (ctx : Nat × List Char) (item : LexItem) :
    stepItem (withLevel o a) s ctx item = stepItem (withLevel o b) s ctx item := by
  cases item <;> rfl

/-- two reads side by side: the same parser state apart from the diagnostics, those of the first among the second -/
def LevRel (sa sb : PState) : Prop := sa.noErr = sb.noErr ∧ ∀ d ∈ sa.errors, d ∈ sb.errors

theorem attachLine_mem (ln : Nat) (line : List Char) (ea eb : List LDiag) (h : ∀ d ∈ ea, d ∈ eb) :
    ∀ d ∈ attachLine ln line ea, d ∈ attachLine ln line eb := by
  intro d hd
  unfold attachLine at hd ⊢
  obtain ⟨x, hx, rfl⟩ := List.mem_map.mp hd
  exact List.mem_map.mpr ⟨x, h x hx, rfl⟩

/-- `stepLine` with the lexer's two layers folded into one case distinction -/
theorem stepLine_eq (o : ReadOpts) (s : PState) (ln : Nat) (line : List Char) :
    stepLine o s ln line =
      if s.stopped = true then s else
      match lexLineRaw line ln o.level o.onlyAtomicCoords with
      | .error d => { s with errors := s.errors ++ [PDiag.mk d.1 d.2 [(ln, line)]] }
      | .ok (item, ds) =>
        { (stepItem o s.noErr (ln, line) item).1 with
          errors := s.errors ++ attachLine ln line ds ++ attachLine ln line (stepItem o s.noErr (ln, line) item).2 } := by
  unfold stepLine lexLine PState.noErr
  split
  · rfl
  · cases lexLineRaw line ln o.level o.onlyAtomicCoords with
    | error d => rfl
    | ok p => rfl

theorem stepLine_level (o : ReadOpts) (a b : Strictness) (hab : SubLevel a b) (sa sb : PState) (ln : Nat)
    (line : List Char) (h : LevRel sa sb) :
    LevRel (stepLine (withLevel o a) sa ln line) (stepLine (withLevel o b) sb ln line) := by
  obtain ⟨hne, hsub⟩ := h
  have hstop : sa.stopped = sb.stopped := by have := congrArg PState.stopped hne; exact this
  rw [stepLine_eq, stepLine_eq]
  by_cases hs : sa.stopped = true
  · rw [if_pos hs, if_pos (hstop ▸ hs)]
    exact ⟨hne, hsub⟩
  · rw [if_neg hs, if_neg (hstop ▸ hs)]
    have hl := lexLineRaw_level line ln a b o.onlyAtomicCoords hab
    show LevRel
      (match lexLineRaw line ln a o.onlyAtomicCoords with
        | .error d => { sa with errors := sa.errors ++ [PDiag.mk d.1 d.2 [(ln, line)]] }
        | .ok (item, ds) =>
          { (stepItem (withLevel o a) sa.noErr (ln, line) item).1 with
            errors := sa.errors ++ attachLine ln line ds ++
              attachLine ln line (stepItem (withLevel o a) sa.noErr (ln, line) item).2 })
      (match lexLineRaw line ln b o.onlyAtomicCoords with
        | .error d => { sb with errors := sb.errors ++ [PDiag.mk d.1 d.2 [(ln, line)]] }
        | .ok (item, ds) =>
          { (stepItem (withLevel o b) sb.noErr (ln, line) item).1 with
            errors := sb.errors ++ attachLine ln line ds ++
              attachLine ln line (stepItem (withLevel o b) sb.noErr (ln, line) item).2 })
    rcases hl with ⟨e, h1, h2⟩ | ⟨item, ea, eb, h1, h2, hsubl⟩
    · rw [h1, h2]
      refine ⟨hne, ?_⟩
      intro d hd
      simp only [List.mem_append, List.mem_singleton] at hd ⊢
      rcases hd with hd | hd
      · exact Or.inl (hsub d hd)
      · exact Or.inr hd
    · rw [h1, h2]
      simp only
      rw [stepItem_level o a b, hne]
      refine ⟨rfl, ?_⟩
      intro d hd
      simp only [List.mem_append] at hd ⊢
      rcases hd with (hd | hd) | hd
      · exact Or.inl (Or.inl (hsub d hd))
      · exact Or.inl (Or.inr (attachLine_mem ln line ea eb hsubl d hd))
      · exact Or.inr hd

theorem fold_level (o : ReadOpts) (a b : Strictness) (hab : SubLevel a b) (zl : List (Nat × List Char))
    (sa sb : PState) (h : LevRel sa sb) :
    LevRel (zl.foldl (fun s (il : Nat × List Char) => stepLine (withLevel o a) s (il.1 + 1) il.2) sa)
      (zl.foldl (fun s (il : Nat × List Char) => stepLine (withLevel o b) s (il.1 + 1) il.2) sb) := by
  induction zl generalizing sa sb with
  | nil => exact h
  | cons x xs ih => exact ih _ _ (stepLine_level o a b hab sa sb (x.1 + 1) x.2 h)

/-- **the level does not shape the structure**: hierarchy, metadata, bonds and exactness flag of what the PDB
reader builds are the same at every strictness level -/
theorem C07_pdb_level_only_gates_structure (o : ReadOpts) (a b : Strictness) (lines : List (List Char)) :
    (readPdbCore (withLevel o a) lines).1 = (readPdbCore (withLevel o b) lines).1 := by
  -- compare both with the Loose read
  have key : ∀ l, (readPdbCore (withLevel o .loose) lines).1 = (readPdbCore (withLevel o l) lines).1 := by
    intro l
    apply readPdbCore_file
    exact (fold_level o .loose l (Or.inr (Or.inl rfl)) _ _ _ ⟨rfl, fun _ h => (by cases h)⟩).1
  rw [← key a, ← key b]

/-! ### the diagnostics across levels, and acceptance -/

theorem merge_sub (xa xb : List PDiag) (h : ∀ d ∈ xa, d ∈ xb) :
    ∀ d ∈ mergeRemarkWarnings xa, d ∈ mergeRemarkWarnings xb ∨ d.level = .generalWarning := by
  intro d hd
  have hrest : ∀ d ∈ xa.filter (·.short != "Remark too long"), d ∈ mergeRemarkWarnings xb := by
    intro d hd
    obtain ⟨h1, h2⟩ := List.mem_filter.mp hd
    have : d ∈ xb.filter (·.short != "Remark too long") := List.mem_filter.mpr ⟨h d h1, h2⟩
    unfold mergeRemarkWarnings
    simp only
    split
    · exact this
    · exact List.mem_append_left _ this
  unfold mergeRemarkWarnings at hd
  simp only at hd
  split at hd
  · exact Or.inl (hrest d hd)
  · rcases List.mem_append.mp hd with hd | hd
    · exact Or.inl (hrest d hd)
    · simp only [List.mem_singleton] at hd
      exact Or.inr (by rw [hd])

theorem append_sub {α} (ea eb r : List α) (h : ∀ d ∈ ea, d ∈ eb) : ∀ d ∈ ea ++ r, d ∈ eb ++ r := by
  intro d hd
  rcases List.mem_append.mp hd with hd | hd
  · exact List.mem_append_left _ (h d hd)
  · exact List.mem_append_right _ hd

theorem flushModel_levRel (sa sb : PState) (h : LevRel sa sb) : LevRel (flushModel sa) (flushModel sb) := by
  obtain ⟨hne, hsub⟩ := h
  refine ⟨?_, ?_⟩
  · rw [flushModel_noErr, flushModel_noErr, hne]
  · have ha : (flushModel sa).errors = sa.errors := by unfold flushModel; split <;> rfl
    have hb : (flushModel sb).errors = sb.errors := by unfold flushModel; split <;> rfl
    rw [ha, hb]; exact hsub

/-- every diagnostic of the read at the lower level is a diagnostic of the read at the higher one, or a general
warning (the merged over-long-REMARK warning, which only Strict refuses) -/
theorem core_diags_sub (o : ReadOpts) (a b : Strictness) (hab : SubLevel a b) (lines : List (List Char)) :
    ∀ d ∈ (readPdbCore (withLevel o a) lines).2, d ∈ (readPdbCore (withLevel o b) lines).2 ∨ d.level = .generalWarning := by
  have hrel := flushModel_levRel _ _ (fold_level o a b hab ((List.range lines.length).zip lines) ({} : PState) ({} : PState)
    ⟨rfl, fun _ h => (by cases h)⟩)
  unfold readPdbCore
  simp only
  generalize flushModel (((List.range lines.length).zip lines).foldl
    (fun s (il : Nat × List Char) => stepLine (withLevel o a) s (il.1 + 1) il.2) ({} : PState)) = t at hrel ⊢
  generalize flushModel (((List.range lines.length).zip lines).foldl
    (fun s (il : Nat × List Char) => stepLine (withLevel o b) s (il.1 + 1) il.2) ({} : PState)) = t' at hrel ⊢
  obtain ⟨hf, hsub⟩ := hrel
  have h1 : t.models = t'.models := by have := congrArg PState.models hf; exact this
  have h2 : t.dbrefs = t'.dbrefs := by have := congrArg PState.dbrefs hf; exact this
  have h3 : t.scale = t'.scale := by have := congrArg PState.scale hf; exact this
  have h4 : t.origx = t'.origx := by have := congrArg PState.origx hf; exact this
  have h5 : t.mtrix = t'.mtrix := by have := congrArg PState.mtrix hf; exact this
  have h6 : t.modifications = t'.modifications := by have := congrArg PState.modifications hf; exact this
  have h7 : t.bonds = t'.bonds := by have := congrArg PState.bonds hf; exact this
  have h10 : t.seqres = t'.seqres := by have := congrArg PState.seqres hf; exact this
  have h11 : t.seqresLines = t'.seqresLines := by have := congrArg PState.seqresLines hf; exact this
  simp only [h1, h2, h3, h4, h5, h6, h7, h10, h11]
  intro d hd
  simp only [List.mem_append] at hd ⊢
  rcases hd with (((hd | hd) | hd) | hd) | hd
  · -- the merged reader diagnostics
    have := merge_sub _ _ (append_sub _ _ _ (append_sub _ _ _ (append_sub _ _ _ (append_sub _ _ _ hsub)))) d hd
    rcases this with h | h
    · exact Or.inl (Or.inl (Or.inl (Or.inl (Or.inl h))))
    · exact Or.inr h
  · exact Or.inl (Or.inl (Or.inl (Or.inl (Or.inr hd))))
  · exact Or.inl (Or.inl (Or.inl (Or.inr hd)))
  · exact Or.inl (Or.inl (Or.inr hd))
  · exact Or.inl (Or.inr hd)

/-- **accepted at a stricter level, accepted at a more lenient one, with the same structure** (PDB reader):
Strict → Medium and Medium → Loose (hence Strict → Loose) -/
theorem C07_pdb_accept_monotone (o : ReadOpts) (lines : List (List Char)) (f : PdbFile) (ds : List PDiag) :
    (readPdb (withLevel o .strict) lines = .ok f ds → ∃ ds', readPdb (withLevel o .medium) lines = .ok f ds') ∧
    (readPdb (withLevel o .medium) lines = .ok f ds → ∃ ds', readPdb (withLevel o .loose) lines = .ok f ds') := by
  have key : ∀ (hi lo : Strictness), SubLevel lo hi →
      (∀ e : ErrorLevel, e.fails lo = true → e.fails hi = true) → (ErrorLevel.generalWarning.fails lo = false) →
      readPdb (withLevel o hi) lines = .ok f ds → ∃ ds', readPdb (withLevel o lo) lines = .ok f ds' := by
    intro hi lo hsub hmono hgen h
    unfold readPdb at h ⊢
    have hfile := C07_pdb_level_only_gates_structure o lo hi lines
    have hdiag := core_diags_sub o lo hi hsub lines
    rcases hlo : readPdbCore (withLevel o lo) lines with ⟨flo, elo⟩
    rcases hhi : readPdbCore (withLevel o hi) lines with ⟨fhi, ehi⟩
    rw [hlo, hhi] at hfile hdiag
    rw [hhi] at h
    simp only at hfile hdiag h ⊢
    have hl1 : (withLevel o hi).level = hi := rfl
    have hl2 : (withLevel o lo).level = lo := rfl
    rw [hl1] at h
    rw [hl2]
    split at h
    · cases h
    · next hno =>
      simp only [Outcome.ok.injEq] at h
      obtain ⟨rfl, rfl⟩ := h
      have hno2 : (elo.any fun e => e.level.fails lo) = false := by
        rw [List.any_eq_false]
        intro e he hf
        rcases hdiag e he with hin | hg
        · apply hno
          rw [List.any_eq_true]
          exact ⟨e, hin, hmono _ hf⟩
        · rw [hg, hgen] at hf; cases hf
      rw [if_neg (by simp [hno2])]
      exact ⟨elo, by rw [hfile]⟩
  refine ⟨key .strict .medium (Or.inr (Or.inr ⟨by decide, by decide⟩)) (fun e _ => by cases e <;> rfl) rfl,
          key .medium .loose (Or.inr (Or.inl rfl)) (fun e h => by cases e <;> simp_all [ErrorLevel.fails]) rfl⟩

end PdbModel
