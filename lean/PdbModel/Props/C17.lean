/-
C17 — space-group tables are coherent for all 230 groups. All table statements are decided by the kernel
(`decide +kernel`) over the whole finite domain on data regenerated from src/reference/*.txt on every run.
-/
import PdbModel.SGSym
import PdbModel.Lemmas.SG
namespace PdbModel

theorem C17_lengths :
    Gen.hmSymbols.length = 230 ∧ Gen.hallSymbols.length = 230 ∧ Gen.sgOps.length = 230 := by
  decide +kernel

theorem symbols_all_ok : (List.range 230).all symbolsOkAt = true := by decide +kernel

/-- for each of the 230 groups: creating the symmetry from its index, from its Hermann–Mauguin symbol and
from its Hall symbol gives the same group -/
theorem C17_index_roundtrip (i : Nat) (h1 : 1 ≤ i) (h2 : i ≤ 230) :
    symmetryFromIndex i = some i ∧
    (∃ s, hmSymbol i = some s ∧ symmetryNew s = some i) ∧
    (∃ s, hallSymbol i = some s ∧ symmetryNew s = some i) := by
  have hk : symbolsOkAt (i - 1) = true := by
    have := List.all_eq_true.mp symbols_all_ok (i - 1) (by simp; omega)
    exact this
  have hi : i - 1 + 1 = i := by omega
  have h0 : ¬ i = 0 := by omega
  unfold symbolsOkAt at hk
  rw [hi] at hk
  simp only [Bool.and_eq_true, beq_iff_eq] at hk
  obtain ⟨⟨a, b⟩, c⟩ := hk
  refine ⟨a, ?_, ?_⟩
  · unfold hmSymbol; rw [if_neg h0]
    cases hs : Gen.hmSymbols[i - 1]? with
    | none => rw [hs] at b; cases b
    | some s => rw [hs] at b; exact ⟨s, rfl, by simpa using b⟩
  · unfold hallSymbol; rw [if_neg h0]
    cases hs : Gen.hallSymbols[i - 1]? with
    | none => rw [hs] at c; cases c
    | some s => rw [hs] at c; exact ⟨s, rfl, by simpa using c⟩

/-- the out-of-range neighbours are refused, not crashed on -/
theorem C17_out_of_range :
    symmetryFromIndex 0 = none ∧ symmetryFromIndex 231 = none ∧
    transformations 0 = none ∧ transformations 231 = none ∧ zOf 0 = none ∧ zOf 231 = none := by
  decide +kernel

/-- Z is the number of operators, the identity comes first -/
theorem C17_z (i : Nat) :
    zOf i = (transformations i).map List.length ∧
    ∀ l, transformations i = some l → l.head? = some identity12 := by
  unfold zOf transformations
  by_cases h : i = 0
  · simp [h]
  · simp only [h, if_false]
    cases Gen.sgOps[i - 1]? with
    | none => simp
    | some ops => simp [allOps]

theorem mem_sgOps (ops : List Nat) (h : ops ∈ Gen.sgOps) : ∃ t, (t, ops) ∈ Gen.sgTable := by
  unfold Gen.sgOps at h
  obtain ⟨p, hp, rfl⟩ := List.mem_map.mp h
  exact ⟨p.1, hp⟩

/-- for every group: operators pairwise distinct, rotation entries −1/0/1 with determinant ±1 (residue
form), translations proper twelfths, closed under composition modulo whole-cell translations -/
theorem C17_operators (i : Nat) (l : List Nat) (h : transformations i = some l) :
    (∀ o ∈ l, opOk o = true) ∧ l.Nodup ∧ (∀ a ∈ l, ∀ b ∈ l, compose12 a b ∈ l) := by
  unfold transformations at h
  by_cases h0 : i = 0
  · simp [h0] at h
  · simp only [h0, if_false] at h
    cases hs : Gen.sgOps[i - 1]? with
    | none => rw [hs] at h; cases h
    | some ops =>
      rw [hs] at h
      simp only [Option.map_some, Option.some.injEq] at h
      subst h
      have hm : ops ∈ Gen.sgOps := List.mem_of_getElem? hs
      obtain ⟨t, ht⟩ := mem_sgOps ops hm
      exact groupOk_spec t ops (Gen.sgAllOk (t, ops) ht)

/-- reading the residues back as integers: every rotation entry is −1, 0 or 1 and every translation a
multiple of one twelfth below one cell -/
theorem C17_entries_integral (o : Nat) (h : opOk o = true) :
    (∀ d ∈ [e0 o, e1 o, e2 o, e4 o, e5 o, e6 o, e8 o, e9 o, e10 o], toZ d = -1 ∨ toZ d = 0 ∨ toZ d = 1) ∧
    e3 o < 12 ∧ e7 o < 12 ∧ e11 o < 12 := by
  unfold opOk at h
  simp only [Bool.and_eq_true, decide_eq_true_eq] at h
  obtain ⟨⟨⟨⟨⟨⟨⟨⟨⟨⟨⟨⟨⟨h0, h1⟩, h2⟩, h4⟩, h5⟩, h6⟩, h8⟩, h9⟩, h10⟩, t3⟩, t7⟩, t11⟩, _⟩, _⟩ := h
  refine ⟨?_, t3, t7, t11⟩
  intro d hd
  simp only [List.mem_cons, List.mem_nil_iff, or_false] at hd
  rcases hd with rfl | rfl | rfl | rfl | rfl | rfl | rfl | rfl | rfl <;>
    first | exact rotEntryOk_toZ _ h0 | exact rotEntryOk_toZ _ h1 | exact rotEntryOk_toZ _ h2
          | exact rotEntryOk_toZ _ h4 | exact rotEntryOk_toZ _ h5 | exact rotEntryOk_toZ _ h6
          | exact rotEntryOk_toZ _ h8 | exact rotEntryOk_toZ _ h9 | exact rotEntryOk_toZ _ h10

/-- integer determinant of a 3x3 matrix -/
def detZ (a b c d e f g h i : Int) : Int := a * (e * i - f * h) - b * (d * i - f * g) + c * (d * h - e * g)

def detNat (a b c d e f g h i : Nat) : Nat :=
  (a * (e * i + 11 * (f * h)) + 11 * (b * (d * i + 11 * (f * g))) + c * (d * h + 11 * (e * g))) % 12

def resVals : List Nat := [0, 1, 11]

/-- on all 3⁹ matrices with entries −1/0/1 the residue determinant is the residue of the integer one -/
theorem det_bridge_all :
    (resVals.all fun a => resVals.all fun b => resVals.all fun c => resVals.all fun d => resVals.all fun e =>
      resVals.all fun f => resVals.all fun g => resVals.all fun h => resVals.all fun i =>
        decide (toZ (detNat a b c d e f g h i) = detZ (toZ a) (toZ b) (toZ c) (toZ d) (toZ e) (toZ f) (toZ g) (toZ h) (toZ i))) = true := by
  decide +kernel

theorem rotEntryOk_mem (d : Nat) (h : rotEntryOk d = true) : d ∈ resVals := by
  simp only [rotEntryOk, Bool.or_eq_true, beq_iff_eq] at h
  rcases h with (h | h) | h <;> subst h <;> decide

/-- integer determinant ±1 for every operator that passes the table check -/
theorem C17_determinant (o : Nat) (h : opOk o = true) :
    detZ (toZ (e0 o)) (toZ (e1 o)) (toZ (e2 o)) (toZ (e4 o)) (toZ (e5 o)) (toZ (e6 o)) (toZ (e8 o)) (toZ (e9 o))
      (toZ (e10 o)) = 1 ∨
    detZ (toZ (e0 o)) (toZ (e1 o)) (toZ (e2 o)) (toZ (e4 o)) (toZ (e5 o)) (toZ (e6 o)) (toZ (e8 o)) (toZ (e9 o))
      (toZ (e10 o)) = -1 := by
  unfold opOk at h
  simp only [Bool.and_eq_true, decide_eq_true_eq] at h
  obtain ⟨⟨⟨⟨⟨⟨⟨⟨⟨⟨⟨⟨⟨h0, h1⟩, h2⟩, h4⟩, h5⟩, h6⟩, h8⟩, h9⟩, h10⟩, _⟩, _⟩, _⟩, hdet⟩, _⟩ := h
  have hb := det_bridge_all
  simp only [List.all_eq_true, decide_eq_true_eq] at hb
  have := hb _ (rotEntryOk_mem _ h0) _ (rotEntryOk_mem _ h1) _ (rotEntryOk_mem _ h2) _ (rotEntryOk_mem _ h4)
    _ (rotEntryOk_mem _ h5) _ (rotEntryOk_mem _ h6) _ (rotEntryOk_mem _ h8) _ (rotEntryOk_mem _ h9)
    _ (rotEntryOk_mem _ h10)
  rw [← this]
  have hd : detNat (e0 o) (e1 o) (e2 o) (e4 o) (e5 o) (e6 o) (e8 o) (e9 o) (e10 o) = det12 o := rfl
  rw [hd]
  simp only [Bool.or_eq_true, beq_iff_eq] at hdet
  rcases hdet with h | h <;> rw [h] <;> simp [toZ]

/-- the product of two table operators read back as integers is the integer matrix product (rotation) and
the affine image reduced modulo whole cells (translation): row 0, column 0 and row 0 translation shown,
the other entries are the same lemma (`dot_residue`, `translation_residue`) -/
theorem C17_compose_is_matrix_product (a b : Nat) (ha : opOk a = true) (hb : opOk b = true) :
    toZ ((e0 a * e0 b + e1 a * e4 b + e2 a * e8 b) % 12) =
      toZ (e0 a) * toZ (e0 b) + toZ (e1 a) * toZ (e4 b) + toZ (e2 a) * toZ (e8 b) ∧
    (((e0 a * e3 b + e1 a * e7 b + e2 a * e11 b + e3 a) % 12 : Nat) : Int) =
      (toZ (e0 a) * e3 b + toZ (e1 a) * e7 b + toZ (e2 a) * e11 b + e3 a) % 12 := by
  unfold opOk at ha hb
  simp only [Bool.and_eq_true, decide_eq_true_eq] at ha hb
  obtain ⟨⟨⟨⟨⟨⟨⟨⟨⟨⟨⟨⟨⟨a0, a1⟩, a2⟩, _⟩, _⟩, _⟩, _⟩, _⟩, _⟩, _⟩, _⟩, _⟩, _⟩, _⟩ := ha
  obtain ⟨⟨⟨⟨⟨⟨⟨⟨⟨⟨⟨⟨⟨b0, _⟩, _⟩, b4⟩, _⟩, _⟩, b8⟩, _⟩, _⟩, _⟩, _⟩, _⟩, _⟩, _⟩ := hb
  exact ⟨dot_residue _ _ _ _ _ _ a0 a1 a2 b0 b4 b8, translation_residue _ _ _ _ _ _ _ a0 a1 a2⟩

/-- non-vacuity: group 19 (P 21 21 21) has Z = 4 and its table passes -/
example : zOf 19 = some 4 ∧ (transformations 19).isSome = true := by decide +kernel

end PdbModel
