/-
C01 — PDB-format reading recovers exactly what the records state (theorems about the reader model
`PdbModel/PdbRead.lean`; the model is tied to the code by the correspondence on generated well-formed
texts and on every single-field corruption).
-/
import PdbModel.PdbRead
namespace PdbModel

/-- a field that produced no diagnostic IS the parsed text of its columns: the value is never the default -/
theorem C01_field_exact {α} (p : List Char → Option α) (dflt : α) (ln : Nat) (line : List Char) (a b : Nat) (v : α)
    (h : fieldW p dflt ln line a b = (v, [])) :
    b ≤ byteLen line ∧ ∃ f, getBytes line a b = some f ∧ p (trim f) = some v := by
  unfold fieldW at h
  by_cases hl : byteLen line < b
  · simp [hl] at h
  · simp only [hl, if_false] at h
    refine ⟨by omega, ?_⟩
    cases hg : getBytes line a b with
    | none => simp [hg] at h
    | some f =>
      simp only [hg, Option.bind_some] at h
      cases hp : p (trim f) with
      | none => simp [hp] at h
      | some w =>
        simp only [hp] at h
        exact ⟨f, rfl, by rw [← (Prod.mk.inj h).1]; exact hp⟩

/-- a missing or unparsable field yields the default together with an InvalidatingError (anchored to the line by
`lexLine`, which attaches the line being lexed to every lexer diagnostic) -/
theorem C01_field_default_flagged {α} (p : List Char → Option α) (dflt : α) (ln : Nat) (line : List Char) (a b : Nat)
    (h : byteLen line < b ∨ getBytes line a b = none ∨ ∃ f, getBytes line a b = some f ∧ p (trim f) = none) :
    ∃ d, fieldW p dflt ln line a b = (dflt, [d]) ∧ d.1 = ErrorLevel.invalidating := by
  unfold fieldW
  by_cases hl : byteLen line < b
  · exact ⟨tooShort ln line, by simp [hl], rfl⟩
  · simp only [hl, if_false]
    rcases h with h | h | ⟨f, hf, hp⟩
    · exact absurd h hl
    · exact ⟨invalidData ln line, by simp [h], rfl⟩
    · exact ⟨invalidData ln line, by simp [hf, hp], rfl⟩

/-- a successfully returned structure is accompanied only by diagnostics that do not fail the level; in
particular never by an InvalidatingError — so no record of it took a default for a numeric field -/
theorem C01_no_made_up_value (o : ReadOpts) (lines : List (List Char)) (f : PdbFile) (ds : List PDiag)
    (h : readPdb o lines = .ok f ds) :
    (∀ d ∈ ds, d.level.fails o.level = false) ∧ (∀ d ∈ ds, d.level ≠ .invalidating ∧ d.level ≠ .breaking) := by
  have key : ∀ d ∈ ds, d.level.fails o.level = false := by
    unfold readPdb at h
    cases hc : readPdbCore o lines with
    | none => rw [hc] at h; cases h
    | some fe =>
      obtain ⟨f', errors⟩ := fe
      rw [hc] at h
      simp only at h
      by_cases hany : errors.any (fun e => e.level.fails o.level) = true
      · rw [if_pos hany] at h; cases h
      · rw [if_neg hany] at h
        simp only [Outcome.ok.injEq] at h
        obtain ⟨_, rfl⟩ := h
        intro d hd
        cases hf : d.level.fails o.level
        · rfl
        · exfalso; apply hany
          rw [List.any_eq_true]; exact ⟨d, hd, hf⟩
  refine ⟨key, ?_⟩
  intro d hd
  have := key d hd
  constructor <;> intro hl <;> rw [hl] at this <;> revert this <;> cases o.level <;> simp [ErrorLevel.fails]

end PdbModel
