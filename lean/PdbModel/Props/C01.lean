/-
C01 — PDB-format reading recovers exactly what the records state (theorems about the reader model
`PdbModel/PdbRead.lean`; the model is tied to the code by the correspondence on generated well-formed
texts and on every single-field corruption).
-/
import PdbModel.PdbRead
import PdbModel.Lemmas.Add
namespace PdbModel

/-- a field that produced no diagnostic IS the parsed text of its columns: the value is never the default -/
theorem C01_field_exact {α} (p : List Char → Option α) (dflt : α) (ln : Nat) (line : List Char) (a b : Nat) (v : α)
    (h : fieldW p dflt ln line a b = (v, [])) :
    b ≤ byteLen line ∧ ∃ f, getBytes line a b = some f ∧ p (trim f) = some v := by
  unfold fieldW at h
  by_cases hl : byteLen line < b
  · simp [hl] at h
  · simp only [hl, if_false] at h
    refine ⟨by omega, ?_⟩
    cases hg : getBytes line a b with
    | none => simp [hg] at h
    | some f =>
      simp only [hg, Option.bind_some] at h
      cases hp : p (trim f) with
      | none => simp [hp] at h
      | some w =>
        simp only [hp] at h
        exact ⟨f, rfl, by rw [← (Prod.mk.inj h).1]; exact hp⟩

/-- a missing or unparsable field yields the default together with an InvalidatingError (anchored to the line by
`lexLine`, which attaches the line being lexed to every lexer diagnostic) -/
theorem C01_field_default_flagged {α} (p : List Char → Option α) (dflt : α) (ln : Nat) (line : List Char) (a b : Nat)
    (h : byteLen line < b ∨ getBytes line a b = none ∨ ∃ f, getBytes line a b = some f ∧ p (trim f) = none) :
    ∃ d, fieldW p dflt ln line a b = (dflt, [d]) ∧ d.1 = ErrorLevel.invalidating := by
  unfold fieldW
  by_cases hl : byteLen line < b
  · exact ⟨tooShort ln line, by simp [hl], rfl⟩
  · simp only [hl, if_false]
    rcases h with h | h | ⟨f, hf, hp⟩
    · exact absurd h hl
    · exact ⟨invalidData ln line, by simp [h], rfl⟩
    · exact ⟨invalidData ln line, by simp [hf, hp], rfl⟩

/-- a successfully returned structure is accompanied only by diagnostics that do not fail the level; in
particular never by an InvalidatingError — so no record of it took a default for a numeric field -/
theorem C01_no_made_up_value (o : ReadOpts) (lines : List (List Char)) (f : PdbFile) (ds : List PDiag)
    (h : readPdb o lines = .ok f ds) :
    (∀ d ∈ ds, d.level.fails o.level = false) ∧ (∀ d ∈ ds, d.level ≠ .invalidating ∧ d.level ≠ .breaking) := by
  have key : ∀ d ∈ ds, d.level.fails o.level = false := by
    unfold readPdb at h
    rcases hc : readPdbCore o lines with ⟨f', errors⟩
    rw [hc] at h
    simp only at h
    by_cases hany : errors.any (fun e => e.level.fails o.level) = true
    · rw [if_pos hany] at h; cases h
    · rw [if_neg hany] at h
      simp only [Outcome.ok.injEq] at h
      obtain ⟨_, rfl⟩ := h
      intro d hd
      cases hf : d.level.fails o.level
      · rfl
      · exfalso; apply hany
        rw [List.any_eq_true]; exact ⟨d, hd, hf⟩
  refine ⟨key, ?_⟩
  intro d hd
  have := key d hd
  constructor <;> intro hl <;> rw [hl] at this <;> revert this <;> cases o.level <;> simp [ErrorLevel.fails]

/-! ### grouping: one chain per chain id, one residue per (number, insertion code), one conformer per
(name, alternate location), each in order of first appearance

The reader keeps the current model as an insertion-ordered map of chains, each an insertion-ordered map of
residues (`IndexMap` in the code, `assocUpsert` in the model), and adds the atom to the residue with
`Residue::add_atom`. -/

section Grouping
variable {K V : Type} [BEq K] [LawfulBEq K] [DecidableEq K]

theorem keys_assocUpsert (l : List (K × V)) (k : K) (g : Option V → V) :
    (assocUpsert l k g).map Prod.fst =
      if k ∈ l.map Prod.fst then l.map Prod.fst else l.map Prod.fst ++ [k] := by
  induction l with
  | nil => simp [assocUpsert]
  | cons p r ih =>
    obtain ⟨a, v⟩ := p
    unfold assocUpsert
    by_cases h : a = k
    · subst h; simp
    · have h1 : (a == k) = false := by simpa using h
      have h2 : ¬ k = a := fun e => h e.symm
      simp only [h1, Bool.false_eq_true, if_false, List.map_cons, ih, List.mem_cons, h2, false_or]
      split <;> simp

/-- the keys of the map after any sequence of entries: the distinct keys in order of first appearance -/
theorem keys_foldl_assocUpsert {Op : Type} (key : Op → K) (g : Op → Option V → V) (ops : List Op)
    (l : List (K × V)) :
    (ops.foldl (fun m o => assocUpsert m (key o) (g o)) l).map Prod.fst =
      ops.foldl (fun acc o => if key o ∈ acc then acc else acc ++ [key o]) (l.map Prod.fst) := by
  induction ops generalizing l with
  | nil => rfl
  | cons o os ih => simp only [List.foldl_cons]; rw [ih, keys_assocUpsert]

end Grouping

/-- **one chain per chain id, in order of first appearance**: whatever ATOM/HETATM records are placed into
the current model, its chain ids are the distinct chain ids of the records in their order of first
appearance (`dedupK` = keep the first occurrence) -/
theorem C01_chains_first_appearance (ops : List (String × ResId × (Option Residue → Residue))) :
    (ops.foldl (fun m o => upsertChain m o.1 o.2.1 o.2.2) []).map Prod.fst = dedupK (ops.map (·.1)) := by
  unfold upsertChain
  rw [keys_foldl_assocUpsert (key := fun o : String × ResId × (Option Residue → Residue) => o.1)
    (g := fun o rs? => assocUpsert (rs?.getD []) o.2.1 o.2.2)]
  unfold dedupK
  simp only [List.map_nil]
  rw [List.foldl_map]

/-- … and no chain id occurs twice -/
theorem C01_chain_ids_distinct (ops : List (String × ResId × (Option Residue → Residue))) :
    ((ops.foldl (fun m o => upsertChain m o.1 o.2.1 o.2.2) []).map Prod.fst).Nodup := by
  rw [C01_chains_first_appearance, dedupK_eq]
  exact Grp.nodup_dedup _

/-- **one residue per (number, insertion code)** inside a chain: placing an atom keeps the residue keys of
every chain free of repetitions -/
theorem C01_residue_ids_distinct (m : ChainMap) (cid : String) (key : ResId) (f : Option Residue → Residue)
    (h : ∀ c ∈ m, (c.2.map Prod.fst).Nodup) : ∀ c ∈ upsertChain m cid key f, (c.2.map Prod.fst).Nodup := by
  unfold upsertChain
  induction m with
  | nil =>
    intro c hc
    simp only [assocUpsert, List.mem_singleton] at hc
    subst hc
    simp [assocUpsert]
  | cons p r ih =>
    obtain ⟨a, rs⟩ := p
    intro c hc
    unfold assocUpsert at hc
    split at hc
    · simp only [List.mem_cons] at hc
      rcases hc with rfl | hc
      · have hrs := h (a, rs) (by simp)
        simp only [Option.getD_some]
        rw [keys_assocUpsert]
        split
        · exact hrs
        · next hk =>
          rw [List.nodup_append]
          refine ⟨hrs, by simp, ?_⟩
          intro x hx y hy
          simp at hy; subst hy
          intro e; subst e; exact hk hx
      · exact h c (by simp [hc])
    · simp only [List.mem_cons] at hc
      rcases hc with rfl | hc
      · exact h _ (by simp)
      · exact ih (fun c hc => h c (by simp [hc])) c hc

/-- **one conformer per (residue name, alternate location)**: `Residue::add_atom` as the reader calls it keeps
the conformer identifiers distinct and appends the atom to the conformer with that identifier -/
theorem C01_conformer_ids_distinct (r : Residue) (a : Atom) (name : String) (alt : Option String)
    (h : (r.conformers.map Conformer.cid).Nodup) :
    ((r.addAtomRaw a name alt).conformers.map Conformer.cid).Nodup := by
  unfold Residue.addAtomRaw Residue.addAtomN
  exact nodup_upsertC Conformer.cid Conformer.empty (Conformer.push a) (fun _ => rfl) (fun _ => rfl) _ _ h

/-! ### serial numbers that wrapped keep counting upward -/

/-- the reader's bookkeeping over a run of records: (last column value, offset) and the internal numbers -/
def wrapRun (top : Nat) : (Nat × Nat) → List Nat → List Nat
  | _, [] => []
  | (last, add), s :: rest =>
    let add' := wrapAddN top last add s
    (s + add') :: wrapRun top (s, add') rest

/-- **wrapped serial numbers count on**: if consecutive records carry `n mod (top+1)` for consecutive `n`
(what a writer limited to the column width produces), the reader's internal numbers are `n` again — for the
atom serial column (`top = 99999`) and any length of run -/
theorem C01_serial_wrap (top : Nat) (n k : Nat) :
    wrapRun top (n % (top + 1), n / (top + 1) * (top + 1))
      ((List.range' (n + 1) k).map (· % (top + 1))) = List.range' (n + 1) k := by
  induction k generalizing n with
  | zero => rfl
  | succ k ih =>
    rw [List.range'_succ, List.map_cons]
    unfold wrapRun
    simp only
    have hpos : 0 < top + 1 := Nat.succ_pos top
    obtain ⟨q, r, hr, hn⟩ : ∃ q r, r < top + 1 ∧ n = (top + 1) * q + r :=
      ⟨n / (top + 1), n % (top + 1), Nat.mod_lt _ hpos, (Nat.div_add_mod n (top + 1)).symm⟩
    have em : n % (top + 1) = r := by rw [hn, Nat.mul_add_mod, Nat.mod_eq_of_lt hr]
    have ed : n / (top + 1) = q := by rw [hn, Nat.mul_add_div hpos, Nat.div_eq_of_lt hr, Nat.add_zero]
    have facts : (n + 1) % (top + 1) + wrapAddN top r (q * (top + 1)) ((n + 1) % (top + 1)) = n + 1 ∧
        wrapAddN top r (q * (top + 1)) ((n + 1) % (top + 1)) = (n + 1) / (top + 1) * (top + 1) := by
      by_cases hc : r + 1 < top + 1
      · have h1 : n + 1 = (top + 1) * q + (r + 1) := by omega
        have e1 : (n + 1) % (top + 1) = r + 1 := by rw [h1, Nat.mul_add_mod, Nat.mod_eq_of_lt hc]
        have e2 : (n + 1) / (top + 1) = q := by rw [h1, Nat.mul_add_div hpos, Nat.div_eq_of_lt hc, Nat.add_zero]
        unfold wrapAddN
        rw [e1, e2]
        have : (r + 1 == 0) = false := by simp
        simp only [this, Bool.false_and, Bool.false_eq_true, if_false]
        exact ⟨by rw [Nat.mul_comm q]; omega, trivial⟩
      · have hrt : r = top := by omega
        have h1 : n + 1 = (top + 1) * (q + 1) := by
          rw [Nat.mul_add, Nat.mul_one, hn, hrt]; generalize (top + 1) * q = a; omega
        have e1 : (n + 1) % (top + 1) = 0 := by rw [h1, Nat.mul_mod_right]
        have e2 : (n + 1) / (top + 1) = q + 1 := by rw [h1, Nat.mul_div_cancel_left _ hpos]
        unfold wrapAddN
        rw [e1, e2, hrt]
        simp only [beq_self_eq_true, Bool.and_self, if_true]
        refine ⟨?_, by rw [Nat.add_mul, Nat.one_mul]⟩
        rw [h1, Nat.mul_comm (top + 1) (q + 1), Nat.add_mul, Nat.one_mul, Nat.zero_add]
    rw [em, ed, facts.2]
    congr 1
    · rw [← facts.2]; exact facts.1
    · exact ih (n + 1)

/-- the atom serial column: records …, 99998, 99999, 0, 1, … are read as …, 99998, 99999, 100000, 100001, … -/
example : wrapRun 99999 (99998, 0) [99999, 0, 1, 2] = [99999, 100000, 100001, 100002] := by decide

/-! ### shared atoms: occupancies add up -/

/-- **the shared atom's occupancy is split, not multiplied**: an atom without alternate location that is copied
into the `k` labelled conformers of its residue carries `occ / k` in each; whenever that division is exact (the
model's exactness flag) the copies add up to the original occupancy -/
theorem C01_shared_occupancy_sum (occ : Int) (k : Nat) (hk : 0 < k) (hex : occ % (k : Int) = 0) :
    ((List.replicate k (occ / (k : Int))).sum) = occ := by
  have : (List.replicate k (occ / (k : Int))).sum = (k : Int) * (occ / (k : Int)) := by
    induction k with
    | zero => simp
    | succ j ih =>
      rw [List.replicate_succ, List.sum_cons]
      cases j with
      | zero => simp
      | succ i =>
        have hrec : ∀ (m : Nat) (x : Int), (List.replicate m x).sum = (m : Int) * x := by
          intro m x
          induction m with
          | zero => simp
          | succ m ihm => rw [List.replicate_succ, List.sum_cons, ihm]; push_cast; rw [Int.add_mul, Int.one_mul, Int.add_comm]
        rw [hrec]; push_cast; rw [Int.add_mul, Int.add_mul, Int.one_mul, Int.add_mul, Int.one_mul]; omega
  rw [this]
  exact Int.mul_ediv_cancel' (Int.dvd_of_emod_eq_zero hex)

end PdbModel
