/-
C01 — no ATOM / HETATM record is dropped silently: the record is a hydrogen discarded on request, or it leaves a
diagnostic on its line (an identifier or a value the structs refuse), or its atom is added.
-/
import PdbModel.Props.C01Frame
namespace PdbModel

theorem C01_atom_record_placed_or_reported (o : ReadOpts) (s : PState) (ctx : Nat × List Char)
    (het : Bool) (serial : Nat) (name : List Char) (alt : Option (List Char)) (resName chain : List Char)
    (resSeq : Int) (icode : Option (List Char)) (x y z occ b : Flt) (element : List Char) (charge : Int) :
    (o.discardHydrogens = true ∧ element = ['H']) ∨
    (stepItem o s ctx (.atom het serial name alt resName chain resSeq icode x y z occ b element charge)).2 ≠ [] ∨
    ∃ a, (afterAtom o s ctx het serial name alt resName chain resSeq icode x y z occ b element charge).allAtoms.Perm
      (s.allAtoms ++ [a]) := by
  by_cases hd : (o.discardHydrogens && element == ['H']) = true
  · left
    simp only [Bool.and_eq_true, beq_iff_eq] at hd
    exact hd
  · right
    have hstep : ∀ r, stepItem o s ctx (.atom het serial name alt resName chain resSeq icode x y z occ b element charge) = r →
        r.2 ≠ [] ∨ ∃ a ex cid key fresh,
          atomNew het (serial + wrapAddN 99999 s.lastAtom s.atomAdd serial) (toString s.nextId).toList name
            x y z occ b element charge = some (a, ex) ∧ fresh.atoms = [a] ∧
          r.1.cur = upsertChain s.cur cid key (fun
            | some r => r.addAtomRaw a (String.ofList resName) (alt.map String.ofList)
            | none => fresh) ∧ r.1.models = s.models := by
      intro r hr
      rw [← hr]
      simp only [stepItem, hd, Bool.false_eq_true, if_false]
      repeat' split
      all_goals first
        | (left; simp; done)
        | (rename_i a ex ha
           exact Or.inr ⟨a, ex, _, _, _, ha, by simp [Residue.atoms], rfl, rfl⟩)
    rcases hstep _ rfl with h | ⟨a, ex, cid, key, fresh, ha, hf, hc, hm⟩
    · exact Or.inl h
    · right
      refine ⟨a, ?_⟩
      unfold afterAtom PState.allAtoms
      rw [hc, hm, List.append_assoc]
      exact List.Perm.append_left _ (upsertChain_atoms _ _ _ a _ _ fresh hf)

end PdbModel
