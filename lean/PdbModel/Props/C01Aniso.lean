/-
C01 — an ANISOU record only attaches a tensor: the atoms read so far are the same atoms, in the same order, with
every field but the anisotropic tensor unchanged.
-/
import PdbModel.Props.C01Frame
namespace PdbModel

/-- an atom without its tensor -/
def Atom.noAtf (a : Atom) : Atom := { a with atf := none }

theorem modify_noAtf (l : List Atom) (j : Nat) (t : List Int) :
    (l.modify j fun x => { x with atf := some t }).map Atom.noAtf = l.map Atom.noAtf := by
  induction l generalizing j with
  | nil => rw [List.modify_nil]
  | cons a as ih =>
    cases j with
    | zero => simp [List.modify, Atom.noAtf]
    | succ k =>
      simp only [List.modify_succ_cons, List.map_cons]
      rw [ih k]

/-- the conformer loop of `setAtf` -/
def confStep (serial : Nat) (t : List Int) (a : List Conformer × Bool) (c : Conformer) : List Conformer × Bool :=
  if a.2 then (a.1 ++ [c], true)
  else match c.atoms.findIdx? (·.serial == serial) with
    | some j => (a.1 ++ [{ c with atoms := c.atoms.modify j fun x => { x with atf := some t } }], true)
    | none => (a.1 ++ [c], false)

theorem confFold_noAtf (serial : Nat) (t : List Int) (cs : List Conformer) (acc : List Conformer × Bool) :
    ((cs.foldl (confStep serial t) acc).1.flatMap (·.atoms)).map Atom.noAtf =
      ((acc.1 ++ cs).flatMap (·.atoms)).map Atom.noAtf := by
  induction cs generalizing acc with
  | nil => simp
  | cons c cs ih =>
    rw [List.foldl_cons, ih]
    unfold confStep
    split
    · simp
    · split
      · simp only [List.append_assoc, List.cons_append, List.nil_append, List.flatMap_append, List.flatMap_cons,
          List.map_append, modify_noAtf]
      · simp

/-- the residue loop of `setAtf` -/
def resStep (serial : Nat) (t : List Int) (acc : List (ResId × Residue) × Bool) (kr : ResId × Residue) :
    List (ResId × Residue) × Bool :=
  if acc.2 then (acc.1 ++ [(kr.1, kr.2)], true)
  else
    let p := kr.2.conformers.foldl (confStep serial t) ([], false)
    (acc.1 ++ [(kr.1, { kr.2 with conformers := p.1 })], p.2)

theorem resFold_noAtf (serial : Nat) (t : List Int) (rs : List (ResId × Residue)) (acc : List (ResId × Residue) × Bool) :
    ((rs.foldl (resStep serial t) acc).1.flatMap (fun q => q.2.atoms)).map Atom.noAtf =
      ((acc.1 ++ rs).flatMap (fun q => q.2.atoms)).map Atom.noAtf := by
  induction rs generalizing acc with
  | nil => simp
  | cons kr rs ih =>
    rw [List.foldl_cons, ih]
    unfold resStep
    split
    · simp
    · have h := confFold_noAtf serial t kr.2.conformers ([], false)
      simp only [List.nil_append] at h
      simp only [List.append_assoc, List.cons_append, List.nil_append, List.flatMap_append, List.flatMap_cons,
        List.map_append, Residue.atoms, h]

theorem set_flatMap_noAtf {α : Type} (l : List α) (f : α → List Atom) (i : Nat) (x y : α) (hi : l[i]? = some y)
    (h : (f x).map Atom.noAtf = (f y).map Atom.noAtf) :
    ((l.set i x).flatMap f).map Atom.noAtf = (l.flatMap f).map Atom.noAtf := by
  induction l generalizing i with
  | nil => simp
  | cons a as ih =>
    cases i with
    | zero =>
      simp only [List.getElem?_cons_zero, Option.some.injEq] at hi
      subst hi
      simp only [List.set_cons_zero, List.flatMap_cons, List.map_append, h]
    | succ k =>
      simp only [List.getElem?_cons_succ] at hi
      simp only [List.set_cons_succ, List.flatMap_cons, List.map_append, ih k hi]

theorem mapAtoms_set_noAtf (m : ChainMap) (ci : Nat) (id : String) (rs rs' : List (ResId × Residue))
    (hi : m[ci]? = some (id, rs))
    (h : (rs'.flatMap (fun q => q.2.atoms)).map Atom.noAtf = (rs.flatMap (fun q => q.2.atoms)).map Atom.noAtf) :
    (mapAtoms (m.set ci (id, rs'))).map Atom.noAtf = (mapAtoms m).map Atom.noAtf := by
  rw [mapAtoms_eq, mapAtoms_eq]
  exact set_flatMap_noAtf m (fun p => p.2.flatMap (fun q => q.2.atoms)) ci (id, rs') (id, rs) hi h

theorem setAtf_go_noAtf (m : ChainMap) (serial : Nat) (t : List Int) (idxs : List Nat) (m' : ChainMap)
    (h : setAtf.go m serial t idxs = some m') : (mapAtoms m').map Atom.noAtf = (mapAtoms m).map Atom.noAtf := by
  induction idxs with
  | nil => simp [setAtf.go] at h
  | cons ci rest ih =>
    unfold setAtf.go at h
    split at h
    · exact ih h
    · next id rs hm =>
      simp only at h
      split at h
      · simp only [Option.some.injEq] at h
        subst h
        apply mapAtoms_set_noAtf m ci id rs _ hm
        have := resFold_noAtf serial t rs ([], false)
        simp only [List.nil_append] at this
        exact this
      · exact ih h

theorem setAtf_noAtf (m : ChainMap) (serial : Nat) (t : List Int) :
    (mapAtoms (setAtf m serial t)).map Atom.noAtf = (mapAtoms m).map Atom.noAtf := by
  unfold setAtf
  simp only
  cases h : setAtf.go m serial t (List.range m.length).reverse with
  | none => rfl
  | some m' => exact setAtf_go_noAtf m serial t _ m' h

/-- **an ANISOU record changes nothing but a tensor**: same atoms, same order, every other field as before -/
theorem C01_anisou_only_sets_a_tensor (o : ReadOpts) (s : PState) (ctx : Nat × List Char) (serial : Nat)
    (u : List Int) :
    (stepItem o s ctx (.anisou serial u)).1.allAtoms.map Atom.noAtf = s.allAtoms.map Atom.noAtf := by
  simp only [stepItem]
  split
  · unfold PState.allAtoms
    simp only [List.map_append]
    congr 1
    exact setAtf_noAtf s.cur _ _
  · rfl

end PdbModel
