/-
C02 — a missing mandatory value is an error, never a default.  For each mandatory cell of an atom_site row
(atom name, atom id, residue name, chain id, x, y, z) in the order the parser asks for them: when the cell holds
`.` or `?` (or its column is absent), the row contributes no atom — the models are exactly what they were — and the
diagnostics end with the InvalidatingError "Missing value in coordinate atoms data loop", which rejects the read at
every strictness level (`C02_invalidating_rejects`).  The chain id prefers the author's: the label id is only asked
for when the author id has no value.
-/
import PdbModel.CifRead
namespace PdbModel

/-- a cell without a value: `.` or `?`, or a column that is not there -/
def NoValue (v : Option CifValue) : Prop := v = some .inapplicable ∨ v = some .unknown ∨ v = none

theorem colText_noValue (v : Option CifValue) (h : NoValue v) : (colText v).val = none ∧ (colText v).err = [] := by
  rcases h with rfl | rfl | rfl <;> exact ⟨rfl, rfl⟩

theorem colF64_noValue (v : Option CifValue) (h : NoValue v) : (colF64 v).val = none ∧ (colF64 v).err = [] := by
  rcases h with rfl | rfl | rfl <;> exact ⟨rfl, rfl⟩

/-- what every statement below concludes: no atom, and a "Missing value" diagnostic last -/
def RowRefused (s r : AState) : Prop :=
  r.models = s.models ∧ ∃ pre, r.errors = s.errors ++ pre ++ [missingValue]

theorem C02_missing_atom_name (s : AState) (vals : List (Option CifValue))
    (h : NoValue ((vals[19]?).join)) : RowRefused s (atomRowCore false s vals) := by
  obtain ⟨hv, he⟩ := colText_noValue _ h
  refine ⟨?_, ?_⟩
  · unfold atomRowCore firstModelGate rowCells bindS rowResNum rowChain reqCol
    simp only [Bool.false_eq_true, if_false, hv, he]
  · unfold atomRowCore firstModelGate rowCells bindS rowResNum rowChain reqCol
    simp only [Bool.false_eq_true, if_false, hv, he]
    exact ⟨_, rfl⟩

theorem C02_missing_atom_id (s : AState) (vals : List (Option CifValue)) (nm : List Char)
    (h19 : (colText ((vals[19]?).join)).val = some nm)
    (h : NoValue ((vals[16]?).join)) : RowRefused s (atomRowCore false s vals) := by
  obtain ⟨hv, he⟩ := colText_noValue _ h
  refine ⟨?_, ?_⟩
  · unfold atomRowCore firstModelGate rowCells bindS rowResNum rowChain reqCol
    simp only [Bool.false_eq_true, if_false, hv, he, h19]
  · unfold atomRowCore firstModelGate rowCells bindS rowResNum rowChain reqCol
    simp only [Bool.false_eq_true, if_false, hv, he, h19]
    exact ⟨_, rfl⟩

theorem C02_missing_residue_name (s : AState) (vals : List (Option CifValue)) (nm id : List Char)
    (h19 : (colText ((vals[19]?).join)).val = some nm) (h16 : (colText ((vals[16]?).join)).val = some id)
    (h : NoValue ((vals[14]?).join)) : RowRefused s (atomRowCore false s vals) := by
  obtain ⟨hv, he⟩ := colText_noValue _ h
  refine ⟨?_, ?_⟩
  · unfold atomRowCore firstModelGate rowCells bindS rowResNum rowChain reqCol
    simp only [Bool.false_eq_true, if_false, hv, he, h19, h16]
  · unfold atomRowCore firstModelGate rowCells bindS rowResNum rowChain reqCol
    simp only [Bool.false_eq_true, if_false, hv, he, h19, h16]
    exact ⟨_, rfl⟩

/-- no author chain id and no label chain id -/
theorem C02_missing_chain_id (s : AState) (vals : List (Option CifValue)) (nm id rn : List Char)
    (h19 : (colText ((vals[19]?).join)).val = some nm) (h16 : (colText ((vals[16]?).join)).val = some id)
    (h14 : (colText ((vals[14]?).join)).val = some rn)
    (ha : NoValue ((vals[11]?).join)) (hl : NoValue ((vals[10]?).join)) :
    RowRefused s (atomRowCore false s vals) := by
  obtain ⟨hva, _⟩ := colText_noValue _ ha
  obtain ⟨hvl, hel⟩ := colText_noValue _ hl
  refine ⟨?_, ?_⟩
  · unfold atomRowCore firstModelGate rowCells bindS rowResNum rowChain reqCol
    simp only [Bool.false_eq_true, if_false, hva, hvl, hel, h19, h16, h14]
    split <;> rfl
  · unfold atomRowCore firstModelGate rowCells bindS rowResNum rowChain reqCol
    simp only [Bool.false_eq_true, if_false, hva, hvl, hel, h19, h16, h14]
    split
    · exact ⟨(colUsize ((vals[18]?).join)).err ++ (colIsize ((vals[22]?).join)).err, by simp only [List.append_assoc]⟩
    · exact ⟨(colUsize ((vals[18]?).join)).err ++ ((colIsize ((vals[22]?).join)).err ++ (colIsize ((vals[21]?).join)).err),
        by simp only [List.append_assoc]⟩

/-- the chain id is there: the author's, or else the label's -/
def HasChain (vals : List (Option CifValue)) : Prop :=
  (∃ c, (colText ((vals[11]?).join)).val = some c) ∨
  ((colText ((vals[11]?).join)).val = none ∧ ∃ c, (colText ((vals[10]?).join)).val = some c)

theorem C02_missing_x (s : AState) (vals : List (Option CifValue)) (nm id rn : List Char)
    (h19 : (colText ((vals[19]?).join)).val = some nm) (h16 : (colText ((vals[16]?).join)).val = some id)
    (h14 : (colText ((vals[14]?).join)).val = some rn) (hc : HasChain vals)
    (h : NoValue ((vals[24]?).join)) : RowRefused s (atomRowCore false s vals) := by
  obtain ⟨hv, he⟩ := colF64_noValue _ h
  rcases hc with ⟨c, hc⟩ | ⟨hn, c, hc⟩
  · refine ⟨?_, ?_⟩
    · unfold atomRowCore firstModelGate rowCells bindS rowResNum rowChain reqCol
      simp only [Bool.false_eq_true, if_false, hv, he, h19, h16, h14, hc]
      split <;> rfl
    · unfold atomRowCore firstModelGate rowCells bindS rowResNum rowChain reqCol
      simp only [Bool.false_eq_true, if_false, hv, he, h19, h16, h14, hc]
      split
      · exact ⟨(colUsize ((vals[18]?).join)).err ++ (colIsize ((vals[22]?).join)).err, by simp only [List.append_assoc]⟩
      · exact ⟨(colUsize ((vals[18]?).join)).err ++ ((colIsize ((vals[22]?).join)).err ++ (colIsize ((vals[21]?).join)).err),
          by simp only [List.append_assoc]⟩
  · refine ⟨?_, ?_⟩
    · unfold atomRowCore firstModelGate rowCells bindS rowResNum rowChain reqCol
      simp only [Bool.false_eq_true, if_false, hv, he, h19, h16, h14, hc, hn]
      split <;> rfl
    · unfold atomRowCore firstModelGate rowCells bindS rowResNum rowChain reqCol
      simp only [Bool.false_eq_true, if_false, hv, he, h19, h16, h14, hc, hn]
      split
      · exact ⟨(colUsize ((vals[18]?).join)).err ++ (colIsize ((vals[22]?).join)).err, by simp only [List.append_assoc]⟩
      · exact ⟨(colUsize ((vals[18]?).join)).err ++ ((colIsize ((vals[22]?).join)).err ++ (colIsize ((vals[21]?).join)).err),
          by simp only [List.append_assoc]⟩

theorem C02_missing_y (s : AState) (vals : List (Option CifValue)) (nm id rn : List Char)
    (h19 : (colText ((vals[19]?).join)).val = some nm) (h16 : (colText ((vals[16]?).join)).val = some id)
    (h14 : (colText ((vals[14]?).join)).val = some rn) (hc : HasChain vals)
    (fx : Flt) (h24 : (colF64 ((vals[24]?).join)).val = some fx)
    (h : NoValue ((vals[25]?).join)) : RowRefused s (atomRowCore false s vals) := by
  obtain ⟨hv, he⟩ := colF64_noValue _ h
  rcases hc with ⟨c, hc⟩ | ⟨hn, c, hc⟩
  · refine ⟨?_, ?_⟩
    · unfold atomRowCore firstModelGate rowCells bindS rowResNum rowChain reqCol
      simp only [Bool.false_eq_true, if_false, hv, he, h19, h16, h14, hc, h24]
      split <;> rfl
    · unfold atomRowCore firstModelGate rowCells bindS rowResNum rowChain reqCol
      simp only [Bool.false_eq_true, if_false, hv, he, h19, h16, h14, hc, h24]
      split
      · exact ⟨(colUsize ((vals[18]?).join)).err ++ (colIsize ((vals[22]?).join)).err, by simp only [List.append_assoc]⟩
      · exact ⟨(colUsize ((vals[18]?).join)).err ++ ((colIsize ((vals[22]?).join)).err ++ (colIsize ((vals[21]?).join)).err),
          by simp only [List.append_assoc]⟩
  · refine ⟨?_, ?_⟩
    · unfold atomRowCore firstModelGate rowCells bindS rowResNum rowChain reqCol
      simp only [Bool.false_eq_true, if_false, hv, he, h19, h16, h14, hc, hn, h24]
      split <;> rfl
    · unfold atomRowCore firstModelGate rowCells bindS rowResNum rowChain reqCol
      simp only [Bool.false_eq_true, if_false, hv, he, h19, h16, h14, hc, hn, h24]
      split
      · exact ⟨(colUsize ((vals[18]?).join)).err ++ (colIsize ((vals[22]?).join)).err, by simp only [List.append_assoc]⟩
      · exact ⟨(colUsize ((vals[18]?).join)).err ++ ((colIsize ((vals[22]?).join)).err ++ (colIsize ((vals[21]?).join)).err),
          by simp only [List.append_assoc]⟩

theorem C02_missing_z (s : AState) (vals : List (Option CifValue)) (nm id rn : List Char)
    (h19 : (colText ((vals[19]?).join)).val = some nm) (h16 : (colText ((vals[16]?).join)).val = some id)
    (h14 : (colText ((vals[14]?).join)).val = some rn) (hc : HasChain vals)
    (fx fy : Flt) (h24 : (colF64 ((vals[24]?).join)).val = some fx) (h25 : (colF64 ((vals[25]?).join)).val = some fy)
    (h : NoValue ((vals[26]?).join)) : RowRefused s (atomRowCore false s vals) := by
  obtain ⟨hv, he⟩ := colF64_noValue _ h
  rcases hc with ⟨c, hc⟩ | ⟨hn, c, hc⟩
  · refine ⟨?_, ?_⟩
    · unfold atomRowCore firstModelGate rowCells bindS rowResNum rowChain reqCol
      simp only [Bool.false_eq_true, if_false, hv, he, h19, h16, h14, hc, h24, h25]
      split <;> rfl
    · unfold atomRowCore firstModelGate rowCells bindS rowResNum rowChain reqCol
      simp only [Bool.false_eq_true, if_false, hv, he, h19, h16, h14, hc, h24, h25]
      split
      · exact ⟨(colUsize ((vals[18]?).join)).err ++ (colIsize ((vals[22]?).join)).err, by simp only [List.append_assoc]⟩
      · exact ⟨(colUsize ((vals[18]?).join)).err ++ ((colIsize ((vals[22]?).join)).err ++ (colIsize ((vals[21]?).join)).err),
          by simp only [List.append_assoc]⟩
  · refine ⟨?_, ?_⟩
    · unfold atomRowCore firstModelGate rowCells bindS rowResNum rowChain reqCol
      simp only [Bool.false_eq_true, if_false, hv, he, h19, h16, h14, hc, hn, h24, h25]
      split <;> rfl
    · unfold atomRowCore firstModelGate rowCells bindS rowResNum rowChain reqCol
      simp only [Bool.false_eq_true, if_false, hv, he, h19, h16, h14, hc, hn, h24, h25]
      split
      · exact ⟨(colUsize ((vals[18]?).join)).err ++ (colIsize ((vals[22]?).join)).err, by simp only [List.append_assoc]⟩
      · exact ⟨(colUsize ((vals[18]?).join)).err ++ ((colIsize ((vals[22]?).join)).err ++ (colIsize ((vals[21]?).join)).err),
          by simp only [List.append_assoc]⟩

theorem range9 : List.range 9 = [0, 1, 2, 3, 4, 5, 6, 7, 8] := by decide

/-- **the author's chain id is preferred**: when the auth_asym_id cell has a value, the label_asym_id cell does not
matter at all — whatever stands there (nothing, `?`, another id) the row is read the same -/
theorem C02_author_chain_preferred (b : Bool) (s : AState) (vals : List (Option CifValue)) (c : List Char)
    (h11 : (colText ((vals[11]?).join)).val = some c) (v' : Option CifValue) :
    atomRowCore b s (vals.set 10 v') = atomRowCore b s vals := by
  have hne : ∀ i, i ≠ 10 → (vals.set 10 v')[i]? = vals[i]? := by
    intro i hi
    rw [List.getElem?_set_ne (by omega)]
  unfold atomRowCore firstModelGate rowCells bindS rowResNum rowChain reqCol placeRow rowOptional placeAtom rowModel withTensor
  simp only [range9, List.map_cons, List.map_nil, Nat.zero_add, Nat.reduceAdd,
    hne 0 (by decide), hne 1 (by decide), hne 2 (by decide), hne 3 (by decide), hne 4 (by decide), hne 5 (by decide),
    hne 6 (by decide), hne 7 (by decide), hne 8 (by decide), hne 9 (by decide), hne 11 (by decide), hne 12 (by decide),
    hne 13 (by decide), hne 14 (by decide), hne 15 (by decide), hne 16 (by decide), hne 17 (by decide),
    hne 18 (by decide), hne 19 (by decide), hne 20 (by decide), hne 21 (by decide), hne 22 (by decide),
    hne 23 (by decide), hne 24 (by decide), hne 25 (by decide), hne 26 (by decide), h11]

/-- **the author's residue number is preferred**: when the auth_seq_id cell holds a number, the label_seq_id
cell does not matter -/
theorem C02_author_number_preferred (b : Bool) (s : AState) (vals : List (Option CifValue)) (n : Int)
    (h22 : (colIsize ((vals[22]?).join)).val = some n) (v' : Option CifValue) :
    atomRowCore b s (vals.set 21 v') = atomRowCore b s vals := by
  have hne : ∀ i, i ≠ 21 → (vals.set 21 v')[i]? = vals[i]? := by
    intro i hi
    rw [List.getElem?_set_ne (by omega)]
  unfold atomRowCore firstModelGate rowCells bindS rowResNum rowChain reqCol placeRow rowOptional placeAtom rowModel withTensor
  simp only [range9, List.map_cons, List.map_nil, Nat.zero_add, Nat.reduceAdd,
    hne 0 (by decide), hne 1 (by decide), hne 2 (by decide), hne 3 (by decide), hne 4 (by decide), hne 5 (by decide),
    hne 6 (by decide), hne 7 (by decide), hne 8 (by decide), hne 9 (by decide), hne 10 (by decide), hne 11 (by decide),
    hne 12 (by decide), hne 13 (by decide), hne 14 (by decide), hne 15 (by decide), hne 16 (by decide),
    hne 17 (by decide), hne 18 (by decide), hne 19 (by decide), hne 20 (by decide), hne 22 (by decide),
    hne 23 (by decide), hne 24 (by decide), hne 25 (by decide), hne 26 (by decide), h22]

/-- non-vacuity: a row whose atom name cell is `?` -/
example : NoValue ((([some (.text ['A'])] : List (Option CifValue))[19]?).join) := Or.inr (Or.inr rfl)

end PdbModel
