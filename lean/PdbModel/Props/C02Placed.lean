/-
C02 — nothing is dropped silently.  A row of the atom_site loop is skipped by only-first-model, or leaves at least one
more diagnostic, or adds its atom: there is no fourth way.  In particular a row whose identifiers pass the parser's own
check is never refused by `Model::add_atom` afterwards.
-/
import PdbModel.Props.C02Group
import PdbModel.Lemmas.Trim
namespace PdbModel

/-- the diagnostics only grow -/
def Ext (s t : AState) : Prop := ∃ e, t.errors = s.errors ++ e
/-- ... by at least one -/
def ExtNE (s t : AState) : Prop := ∃ e, e ≠ [] ∧ t.errors = s.errors ++ e

theorem Ext.refl (s : AState) : Ext s s := ⟨[], by simp⟩
theorem Ext.trans {s t u : AState} (h1 : Ext s t) (h2 : Ext t u) : Ext s u := by
  obtain ⟨e1, h1⟩ := h1; obtain ⟨e2, h2⟩ := h2
  exact ⟨e1 ++ e2, by rw [h2, h1, List.append_assoc]⟩
theorem ExtNE.of_ext_left {s t u : AState} (h1 : Ext s t) (h2 : ExtNE t u) : ExtNE s u := by
  obtain ⟨e1, h1⟩ := h1; obtain ⟨e2, hne, h2⟩ := h2
  exact ⟨e1 ++ e2, by simp [hne], by rw [h2, h1, List.append_assoc]⟩
theorem ExtNE.of_ext_right {s t u : AState} (h1 : ExtNE s t) (h2 : Ext t u) : ExtNE s u := by
  obtain ⟨e1, hne, h1⟩ := h1; obtain ⟨e2, h2⟩ := h2
  exact ⟨e1 ++ e2, by simp [hne], by rw [h2, h1, List.append_assoc]⟩
theorem ext_of_errors_eq {s t : AState} (h : t.errors = s.errors) : Ext s t := ⟨[], by simp [h]⟩

theorem reqCol_ext {α} (c : Col α) (s : AState) : Ext s (reqCol c s).2 := by
  unfold reqCol
  split
  · exact ext_of_errors_eq rfl
  · exact ⟨_, rfl⟩
  · exact ⟨_, rfl⟩

theorem reqCol_none {α} (c : Col α) (s : AState) (h : (reqCol c s).1 = none) : ExtNE s (reqCol c s).2 := by
  unfold reqCol at h ⊢
  cases hv : c.val with
  | some v => rw [hv] at h; simp at h
  | none =>
    cases he : c.err with
    | nil => exact ⟨[missingValue], by simp, rfl⟩
    | cons d ds => exact ⟨d :: ds, by simp, rfl⟩

theorem rowResNum_ext (s : AState) (vals : List (Option CifValue)) : Ext s (rowResNum s vals).2 := by
  unfold rowResNum
  simp only
  split
  · exact ⟨_, rfl⟩
  · exact ⟨(colIsize ((vals[22]?).join)).err ++ (colIsize ((vals[21]?).join)).err, by simp only [List.append_assoc]⟩

theorem rowChain_ext (s : AState) (vals : List (Option CifValue)) : Ext s (rowChain s vals).2 := by
  unfold rowChain
  simp only
  split
  · exact ext_of_errors_eq rfl
  · exact (ext_of_errors_eq (s := s) (t := { s with exact := s.exact && (colText ((vals[11]?).join)).exact }) rfl).trans
      (reqCol_ext _ _)

theorem rowChain_none (s : AState) (vals : List (Option CifValue)) (h : (rowChain s vals).1 = none) :
    ExtNE s (rowChain s vals).2 := by
  unfold rowChain at h ⊢
  simp only at h ⊢
  split
  · next hv => rw [hv] at h; simp at h
  · next hv =>
    rw [hv] at h
    simp only at h
    exact ExtNE.of_ext_left (ext_of_errors_eq (s := s) (t := { s with exact := s.exact && (colText ((vals[11]?).join)).exact }) rfl)
      (reqCol_none _ _ h)

theorem bindS_ext {α β} (s0 : AState) (p : Option α × AState) (k : α → AState → Option β × AState)
    (hp : Ext s0 p.2) (hk : ∀ a s, Ext s (k a s).2) : Ext s0 (bindS p k).2 := by
  obtain ⟨o, s⟩ := p
  cases o with
  | none => exact hp
  | some a => exact hp.trans (hk a s)

theorem bindS_none {α β} (s0 : AState) (p : Option α × AState) (k : α → AState → Option β × AState)
    (h : (bindS p k).1 = none) (hp : Ext s0 p.2) (hpn : p.1 = none → ExtNE s0 p.2)
    (hkn : ∀ a s, (k a s).1 = none → ExtNE s (k a s).2) : ExtNE s0 (bindS p k).2 := by
  obtain ⟨o, s⟩ := p
  cases o with
  | none => exact hpn rfl
  | some a => exact ExtNE.of_ext_left hp (hkn a s h)

/-- a row whose mandatory cells do not all come back has left a diagnostic -/
theorem rowCells_none (s : AState) (vals : List (Option CifValue)) (h : (rowCells s vals).1 = none) :
    ExtNE s (rowCells s vals).2 := by
  unfold rowCells at h ⊢
  simp only at h ⊢
  refine bindS_none s _ _ h (reqCol_ext _ _) (reqCol_none _ _) ?_
  intro name s1 h
  refine bindS_none s1 _ _ h (reqCol_ext _ _) (reqCol_none _ _) ?_
  intro id s2 h
  refine bindS_none s2 _ _ h (reqCol_ext _ _) (reqCol_none _ _) ?_
  intro resName s3 h
  refine bindS_none s3 _ _ h ((rowResNum_ext s3 vals).trans (rowChain_ext _ vals))
    (fun hn => ExtNE.of_ext_left (rowResNum_ext s3 vals) (rowChain_none _ vals hn)) ?_
  intro chain s4 h
  refine bindS_none s4 _ _ h (reqCol_ext _ _) (reqCol_none _ _) ?_
  intro x s5 h
  refine bindS_none s5 _ _ h (reqCol_ext _ _) (reqCol_none _ _) ?_
  intro y s6 h
  refine bindS_none s6 _ _ h (reqCol_ext _ _) (reqCol_none _ _) ?_
  intro z s7 h
  simp at h

theorem rowCells_ext (s : AState) (vals : List (Option CifValue)) : Ext s (rowCells s vals).2 := by
  unfold rowCells
  simp only
  refine bindS_ext s _ _ (reqCol_ext _ _) ?_
  intro _ s1
  refine bindS_ext s1 _ _ (reqCol_ext _ _) ?_
  intro _ s2
  refine bindS_ext s2 _ _ (reqCol_ext _ _) ?_
  intro _ s3
  refine bindS_ext s3 _ _ ((rowResNum_ext s3 vals).trans (rowChain_ext _ vals)) ?_
  intro _ s4
  refine bindS_ext s4 _ _ (reqCol_ext _ _) ?_
  intro _ s5
  refine bindS_ext s5 _ _ (reqCol_ext _ _) ?_
  intro _ s6
  refine bindS_ext s6 _ _ (reqCol_ext _ _) ?_
  intro _ s7
  exact Ext.refl _

theorem rowOptional_ext (s : AState) (vals : List (Option CifValue)) : Ext s (rowOptional s vals).2 := by
  unfold rowOptional Ext
  simp only
  split
  · simp only [List.append_assoc]; exact ⟨_, rfl⟩
  · split
    · simp only [List.append_assoc]; exact ⟨_, rfl⟩
    · simp only [List.append_assoc]; exact ⟨_, rfl⟩

/-- the identifiers the parser has checked are accepted by `Model::add_atom` -/
theorem normMOp_some (chain resName : List Char) (num : Int) (ins alt : Option (List Char)) (a : Atom)
    (h1 : (prepareIdentifier chain).isNone = false) (h2 : (prepareIdentifierUpper resName).isNone = false)
    (h3 : (match ins with | some ic => (prepareIdentifierUpper ic).isNone | none => false) = false) :
    ∃ op, normMOp (String.ofList chain, ((num, ins.map String.ofList), ((String.ofList resName, alt.map String.ofList), a))) = some op := by
  unfold normMOp normCOp normROp normConfId normResId normChainId prepIdS prepIdUpS
  simp only [String.toList_ofList]
  cases hc : prepareIdentifier chain with
  | none => rw [hc] at h1; cases h1
  | some t =>
    have ht : trim chain = t := by
      unfold prepareIdentifier at hc
      split at hc
      · simpa using hc
      · cases hc
    have := prepareIdentifier_trim chain t hc
    rw [ht, this]
    cases hr : prepareIdentifierUpper resName with
    | none => rw [hr] at h2; cases h2
    | some rn =>
      cases ins with
      | none => simp [bind, Option.bind, pure]
      | some ic =>
        simp only at h3
        cases hi : prepareIdentifierUpper ic with
        | none => rw [hi] at h3; cases h3
        | some icn => simp [bind, Option.bind, hi, pure, String.toList_ofList]

theorem rowModel_index (ms : List Model) (n : Nat) : ∃ m, (rowModel ms n).1[(rowModel ms n).2]? = some m := by
  unfold rowModel
  cases hf : ms.findIdx? (·.serial == n) with
  | some i =>
    have : i < ms.length := by
      rw [List.findIdx?_eq_some_iff_findIdx_eq] at hf
      exact hf.1
    exact ⟨ms[i], by simp [this]⟩
  | none => exact ⟨{ serial := n, chains := [] }, by simp⟩

/-- what a row that got as far as its atom can still do: leave a diagnostic, or add the atom -/
def Placed (s r : AState) : Prop := ∃ atom, (modelsAtoms r.models).Perm (modelsAtoms s.models ++ [atom])

theorem placeAtom_placed_or_reported (s : AState) (mn : Nat) (at_ el : List Char) (c : RowCells) (o : RowOpt)
    (h1 : (prepareIdentifier c.chain).isNone = false) (h2 : (prepareIdentifierUpper c.resName).isNone = false)
    (h3 : (match o.ins with | some ic => (prepareIdentifierUpper ic).isNone | none => false) = false) :
    ExtNE s (placeAtom s mn at_ el c o) ∨ (Ext s (placeAtom s mn at_ el c o) ∧ Placed s (placeAtom s mn at_ el c o)) := by
  have hrm := rowModel_atoms s.models mn
  obtain ⟨m, hm⟩ := rowModel_index s.models mn
  unfold placeAtom
  simp only
  split
  · -- `Atom::new` refuses: reported
    left
    exact ⟨(atomKind at_).2 ++ [(ErrorLevel.invalidating, "Atom definition incorrect")], by simp,
      by simp only [List.append_assoc]⟩
  · next atom0 ex hnew =>
    right
    refine ⟨⟨_, rfl⟩, ?_⟩
    -- the identifiers are fine, so `Model::add_atom` places the atom
    obtain ⟨op, hop⟩ := normMOp_some c.chain c.resName c.resNum o.ins o.alt (withTensor atom0 o.aniso).1 h1 h2 h3
    have hadd : ∃ m', m.addAtom (String.ofList c.chain, ((c.resNum, o.ins.map String.ofList),
        ((String.ofList c.resName, o.alt.map String.ofList), (withTensor atom0 o.aniso).1))) = some m' := by
      unfold Model.addAtom; rw [hop]; exact ⟨_, rfl⟩
    obtain ⟨m', hadd⟩ := hadd
    refine ⟨(withTensor atom0 o.aniso).1, ?_⟩
    show (modelsAtoms (placeIn (rowModel s.models mn).1 (rowModel s.models mn).2 _)).Perm _
    unfold placeIn
    rw [hm]
    simp only [hadd]
    have := place_perm (rowModel s.models mn).1 (rowModel s.models mn).2 m m' _ hm hadd
    rw [hrm] at this
    exact this

/-- **nothing is dropped silently**: a row is skipped by only-first-model (it states another model than the first kept
row), or it leaves at least one more diagnostic, or it adds one atom to the structure -/
theorem C02_row_placed_or_reported (olf : Bool) (s : AState) (vals : List (Option CifValue)) :
    (olf = true ∧ ∃ f, s.firstModel = some f ∧ rowNumber vals ≠ f) ∨
    ExtNE s (atomRowCore olf s vals) ∨ Placed s (atomRowCore olf s vals) := by
  unfold atomRowCore rowNumber
  simp only
  generalize hs0 : ({ s with errors := s.errors ++ (colUsize ((vals[18]?).join)).err, exact := s.exact && (colText ((vals[23]?).join)).exact && (colUsize ((vals[18]?).join)).exact } : AState) = s0
  have h0e : Ext s s0 := by rw [← hs0]; exact ⟨_, rfl⟩
  have h0m : s0.models = s.models := by rw [← hs0]
  have h0f : s0.firstModel = s.firstModel := by rw [← hs0]
  -- the gate
  have hgate : ∀ g, firstModelGate olf s0 ((colUsize ((vals[18]?).join)).val.getD 1) = g →
      (g.2 = true → olf = true ∧ ∃ f, s.firstModel = some f ∧ (colUsize ((vals[18]?).join)).val.getD 1 ≠ f) ∧
      g.1.errors = s0.errors ∧ g.1.models = s0.models := by
    intro g hg
    rw [← hg]
    unfold firstModelGate
    split
    · next holf =>
      split
      · exact ⟨fun h => (by cases h), rfl, rfl⟩
      · next f hf =>
        refine ⟨fun h => ⟨holf, f, by rw [← h0f]; exact hf, by simpa using h⟩, rfl, rfl⟩
    · exact ⟨fun h => (by cases h), rfl, rfl⟩
  rcases hgs : firstModelGate olf s0 ((colUsize ((vals[18]?).join)).val.getD 1) with ⟨s1, skip⟩
  obtain ⟨hskip, h1e, h1m⟩ := hgate _ hgs
  simp only at hskip h1e h1m ⊢
  cases skip
  · simp only [Bool.false_eq_true, if_false]
    right
    generalize hs2 : ({ s1 with exact := s1.exact && (colText ((vals[15]?).join)).exact } : AState) = s2
    have h2e : Ext s s2 := by
      rw [← hs2]; exact h0e.trans (ext_of_errors_eq h1e)
    have h2m : s2.models = s.models := by rw [← hs2]; exact h1m.trans h0m
    have hcm := rowCells_models s2 vals
    have hce := rowCells_ext s2 vals
    rcases hrc : rowCells s2 vals with ⟨_ | c, s3⟩
    · -- a mandatory cell is missing: reported
      left
      have := rowCells_none s2 vals (by rw [hrc])
      rw [hrc] at this
      exact ExtNE.of_ext_left h2e this
    · rw [hrc] at hcm hce
      simp only at hcm hce ⊢
      have h3e : Ext s s3 := h2e.trans hce
      have h3m : s3.models = s.models := hcm.trans h2m
      unfold placeRow
      have hoe := rowOptional_ext s3 vals
      have hom := rowOptional_models s3 vals
      rcases hro : rowOptional s3 vals with ⟨o, s4⟩
      rw [hro] at hoe hom
      simp only at hoe hom ⊢
      cases hbad : ((prepareIdentifier c.chain).isNone || (prepareIdentifierUpper c.resName).isNone ||
          (match o.ins with | some ic => (prepareIdentifierUpper ic).isNone | none => false))
      · simp only [Bool.false_eq_true, if_false]
        simp only [Bool.or_eq_false_iff] at hbad
        rcases placeAtom_placed_or_reported s4 ((colUsize ((vals[18]?).join)).val.getD 1)
          ((colText ((vals[15]?).join)).val.getD "ATOM".toList) ((colText ((vals[23]?).join)).val.getD []) c o
          hbad.1.1 hbad.1.2 hbad.2 with h | ⟨_, atom, hp⟩
        · exact Or.inl (ExtNE.of_ext_left (h3e.trans hoe) h)
        · exact Or.inr ⟨atom, by rw [hom, h3m] at hp; exact hp⟩
      · simp only [if_true]
        left
        exact ExtNE.of_ext_left (h3e.trans hoe) ⟨[(ErrorLevel.invalidating, "Invalid identifier")], by simp, rfl⟩
  · simp only [if_true]
    exact Or.inl (hskip rfl)

end PdbModel
