/-
C12 — structured search selects exactly the atoms for which the expression is true
(three-valued, unknown selects), at all five entry points, in traversal order.
All theorems are generic in the term type `T` and in the matchers of the five levels, hence hold for
every term kind at once; `Term` with the concrete matchers of pdbtbx is one instance (corollaries below).
-/
import PdbModel.Lemmas.Search
namespace PdbModel
variable {T : Type}

/-- `simplify` never changes the three-valued meaning, under any valuation. -/
theorem C12_simplify_sound (v : T → Option Bool) (s : Search T) :
    s.simplify.eval3 v = s.eval3 v := simplify_sound v s

/-- Adding one level's information = evaluating with that level's answers taking precedence. -/
theorem C12_add_info (m v : T → Option Bool) (s : Search T) :
    (s.addInfo m).eval3 v = s.eval3 (orElse m v) := addInfo_sound m v s

/-- After the last level, `complete` is exactly the Kleene value (`none` = unknown). -/
theorem C12_complete_eq_eval3 (m : T → Option Bool) (s : Search T) :
    (s.addInfo m).complete = (s.eval3 m).toOpt := complete_eq_eval3 m s

/-- Pruning is sound: an expression that is already `Known(false)` is false for every atom below. -/
theorem C12_prune_sound (s : Search T) (h : s.isKnownFalse = true) (v : T → Option Bool) :
    selected v s = false := by
  unfold selected; rw [isKnownFalse_eval s h v]; rfl

section
variable (mM : Model → T → Option Bool) (mC : Chain → T → Option Bool)
  (mR : Residue → T → Option Bool) (mF : Conformer → T → Option Bool) (mA : Atom → T → Option Bool)

/-- valuations from a hierarchy tuple: the outermost level present answers first -/
def valAC (h : HAC) : T → Option Bool := orElse (mF h.conformer) (mA h.atom)
def valACR (h : HACR) : T → Option Bool := orElse (mR h.residue) (valAC mF mA h.toHAC)
def valACRC (h : HACRC) : T → Option Bool := orElse (mC h.chain) (valACR mR mF mA h.toHACR)
def valACRCM (h : HACRCM) : T → Option Bool := orElse (mM h.model) (valACRC mC mR mF mA h.toHACRC)

theorem C12_find_conformer (s : Search T) (c : Conformer) :
    Conformer.findG mA s c = c.atoms.filter (fun a => selected (mA a) s) := by
  unfold Conformer.findG
  congr 1; funext a; exact complete_getD (mA a) s

/-- one level of pruned descent equals the unpruned filter with the merged valuation -/
theorem level_step {X H H' : Type} (children : List X) (mX : X → T → Option Bool) (s : Search T)
    (findBelow : Search T → X → List H) (allBelow : X → List H) (valBelow : H → T → Option Bool)
    (ext : X → H → H')
    (hbelow : ∀ s' x, findBelow s' x = (allBelow x).filter (fun h => selected (valBelow h) s')) :
    ((children.map fun x => (x, s.addInfo (mX x))).filter (fun p => !p.2.isKnownFalse)).flatMap
        (fun p => (findBelow p.2 p.1).map (ext p.1))
      = children.flatMap (fun x =>
          ((allBelow x).filter (fun h => selected (orElse (mX x) (valBelow h)) s)).map (ext x)) := by
  apply prune_flatMap
  · intro x _ _
    simp only [hbelow]
    congr 2; funext h
    unfold selected; rw [addInfo_sound]
  · intro x _ hk
    have hkf : (s.addInfo (mX x)).isKnownFalse = true := by
      simpa using hk
    rw [filter_eq_nil_of_all_false]
    · rfl
    · intro h _
      have := C12_prune_sound (s.addInfo (mX x)) hkf (valBelow h)
      unfold selected at this ⊢
      rw [addInfo_sound] at this; exact this

theorem C12_find_residue (s : Search T) (r : Residue) :
    Residue.findG mF mA s r = r.withHAC.filter (fun h => selected (valAC mF mA h) s) := by
  unfold Residue.findG
  rw [level_step r.conformers mF s (Conformer.findG mA) (·.atoms) mA (fun c a => (⟨a, c⟩ : HAC))
        (C12_find_conformer mA)]
  unfold Residue.withHAC Conformer.withH
  rw [List.filter_flatMap]
  congr 1; funext c
  rw [List.filter_map]; rfl

theorem C12_find_chain (s : Search T) (c : Chain) :
    Chain.findG mR mF mA s c = c.withHACR.filter (fun h => selected (valACR mR mF mA h) s) := by
  unfold Chain.findG
  rw [level_step c.residues mR s (Residue.findG mF mA) (·.withHAC) (valAC mF mA)
        (fun r h => ({ toHAC := h, residue := r } : HACR)) (C12_find_residue mF mA)]
  unfold Chain.withHACR
  rw [List.filter_flatMap]
  congr 1; funext r
  rw [List.filter_map]; rfl

theorem C12_find_model (s : Search T) (m : Model) :
    Model.findG mC mR mF mA s m = m.withHACRC.filter (fun h => selected (valACRC mC mR mF mA h) s) := by
  unfold Model.findG
  rw [level_step m.chains mC s (Chain.findG mR mF mA) (·.withHACR) (valACR mR mF mA)
        (fun c h => ({ toHACR := h, chain := c } : HACRC)) (C12_find_chain mR mF mA)]
  unfold Model.withHACRC
  rw [List.filter_flatMap]
  congr 1; funext c
  rw [List.filter_map]; rfl

/-- The structure-level `find`: for every expression tree and every structure, the tuples returned, in
traversal order, are exactly the atoms-with-hierarchy whose three-valued value is not false. -/
theorem C12_find_eq_filter (s : Search T) (p : PDB) :
    PDB.findG mM mC mR mF mA s p = p.withH.filter (fun h => selected (valACRCM mM mC mR mF mA h) s) := by
  unfold PDB.findG
  rw [level_step p.models mM s (Model.findG mC mR mF mA) (·.withHACRC) (valACRC mC mR mF mA)
        (fun m h => ({ toHACRC := h, model := m } : HACRCM)) (C12_find_model mC mR mF mA)]
  unfold PDB.withH
  rw [List.filter_flatMap]
  congr 1; funext m
  rw [List.filter_map]; rfl
end

/-- instance for pdbtbx's terms and matchers -/
theorem C12_find_eq_filter_pdbtbx (s : Search Term) (p : PDB) :
    p.find s = p.withH.filter (fun h =>
      selected (valACRCM matchModel matchChain matchResidue matchConformer matchAtom h) s) := by
  unfold PDB.find
  exact C12_find_eq_filter matchModel matchChain matchResidue matchConformer matchAtom s p

/-- the three-valued rule of the statement: an element term on an atom without element is unknown,
and an unknown overall result selects the atom -/
example : selected (matchAtom { (default : Atom) with element := 0 }) (Search.single (Term.element 6)) = true := by
  decide
example : selected (matchAtom { (default : Atom) with element := 7 }) (Search.single (Term.element 6)) = false := by
  decide
example : selected (matchAtom { (default : Atom) with element := 0 })
    (Search.ops .and (Search.single (Term.element 6)) (Search.single (.atomSerial 5))) = false := by
  decide

end PdbModel
