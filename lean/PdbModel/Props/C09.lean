/-
C09 — all ways of walking a structure agree (counts, flat iterators, index accessors, reverse,
hierarchy tuples). The walk functions of `PdbModel/Hier.lean` mirror the delegation structure of the
accessors (sums over children, `flat_map` compositions, first model only for the plain counts).
Parallel and mutable variants are specified to equal the sequential ones and are exercised by the tie
only (thread schedules are not modelled).
-/
import PdbModel.Hier
namespace PdbModel

theorem sum_map_length {α β} (l : List α) (f : α → List β) :
    (l.map fun x => (f x).length).sum = (l.flatMap f).length := by
  induction l with
  | nil => rfl
  | cons x xs ih => simp only [List.map_cons, List.sum_cons, List.flatMap_cons, List.length_append, ih]

theorem foldl_add_eq_sum {α} (l : List α) (f : α → Nat) (init : Nat) :
    l.foldl (fun a m => a + f m) init = init + (l.map f).sum := by
  induction l generalizing init with
  | nil => simp
  | cons x xs ih => simp [ih, Nat.add_assoc]

theorem foldl_add_eq_sum' {α} (l : List α) (f : α → Nat) (init : Nat) :
    l.foldl (fun s c => f c + s) init = init + (l.map f).sum := by
  induction l generalizing init with
  | nil => simp
  | cons x xs ih => simp [ih]; omega

/-- every count accessor equals the length of the corresponding traversal, at every level -/
theorem C09_counts_residue (r : Residue) :
    r.conformerCount = r.conformers.length ∧ r.atomCount = r.atoms.length := by
  refine ⟨rfl, ?_⟩
  unfold Residue.atomCount Residue.atoms
  rw [foldl_add_eq_sum', ← sum_map_length]; simp only [Nat.zero_add]; rfl

theorem C09_counts_chain (c : Chain) :
    c.residueCount = c.residues.length ∧ c.conformerCount = c.conformers.length ∧
    c.atomCount = c.atoms.length := by
  refine ⟨rfl, ?_, ?_⟩
  · unfold Chain.conformerCount Chain.conformers
    rw [← sum_map_length]; rfl
  · unfold Chain.atomCount Chain.atoms
    rw [← sum_map_length]; congr 1
    apply List.map_congr_left; intro r _; exact (C09_counts_residue r).2

theorem C09_counts_model (m : Model) :
    m.chainCount = m.chains.length ∧ m.residueCount = m.residues.length ∧
    m.conformerCount = m.conformers.length ∧ m.atomCount = m.atoms.length := by
  refine ⟨rfl, ?_, ?_, ?_⟩
  · unfold Model.residueCount Model.residues; rw [← sum_map_length]; rfl
  · unfold Model.conformerCount Model.conformers; rw [← sum_map_length]; congr 1
    apply List.map_congr_left; intro c _; exact (C09_counts_chain c).2.1
  · unfold Model.atomCount Model.atoms; rw [← sum_map_length]; congr 1
    apply List.map_congr_left; intro c _; exact (C09_counts_chain c).2.2

/-- plain structure-level counts refer to the first model, total counts to all models -/
theorem C09_counts_pdb (p : PDB) :
    p.modelCount = p.models.length ∧
    p.chainCount = (p.models.head?.map (·.chains.length)).getD 0 ∧
    p.residueCount = (p.models.head?.map (·.residues.length)).getD 0 ∧
    p.conformerCount = (p.models.head?.map (·.conformers.length)).getD 0 ∧
    p.atomCount = (p.models.head?.map (·.atoms.length)).getD 0 ∧
    p.totalChainCount = p.chains.length ∧ p.totalResidueCount = p.residues.length ∧
    p.totalConformerCount = p.conformers.length ∧ p.totalAtomCount = p.atoms.length := by
  refine ⟨rfl, ?_, ?_, ?_, ?_, ?_, ?_, ?_, ?_⟩
  · cases h : p.models <;> simp [PDB.chainCount, h, Model.chainCount]
  · cases h : p.models <;> simp [PDB.residueCount, h, (C09_counts_model _).2.1]
  · cases h : p.models <;> simp [PDB.conformerCount, h, (C09_counts_model _).2.2.1]
  · cases h : p.models <;> simp [PDB.atomCount, h, (C09_counts_model _).2.2.2]
  · unfold PDB.totalChainCount PDB.chains
    rw [foldl_add_eq_sum, ← sum_map_length]; simp only [Nat.zero_add]; rfl
  · unfold PDB.totalResidueCount PDB.residues
    rw [foldl_add_eq_sum, ← sum_map_length]; simp only [Nat.zero_add]; congr 1
    apply List.map_congr_left; intro m _; exact (C09_counts_model m).2.1
  · unfold PDB.totalConformerCount PDB.conformers
    rw [foldl_add_eq_sum, ← sum_map_length]; simp only [Nat.zero_add]; congr 1
    apply List.map_congr_left; intro m _; exact (C09_counts_model m).2.2.1
  · unfold PDB.totalAtomCount PDB.atoms
    rw [foldl_add_eq_sum, ← sum_map_length]; simp only [Nat.zero_add]; congr 1
    apply List.map_congr_left; intro m _; exact (C09_counts_model m).2.2.2

/-- flat iterators equal the nested traversal, whichever intermediate level one descends through -/
theorem C09_flat_eq_nested (p : PDB) :
    p.atoms = p.chains.flatMap (·.atoms) ∧
    p.atoms = p.residues.flatMap (·.atoms) ∧
    p.atoms = p.conformers.flatMap (·.atoms) ∧
    p.conformers = p.residues.flatMap (·.conformers) ∧
    p.conformers = p.chains.flatMap (·.conformers) ∧
    p.residues = p.chains.flatMap (·.residues) := by
  simp only [PDB.atoms, PDB.chains, PDB.residues, PDB.conformers, Model.atoms, Model.residues,
    Model.conformers, Chain.atoms, Chain.conformers, Residue.atoms, List.flatMap_assoc]
  exact ⟨trivial, trivial, trivial, trivial, trivial, trivial⟩

theorem C09_flat_eq_nested_model (m : Model) :
    m.atoms = m.residues.flatMap (·.atoms) ∧ m.atoms = m.conformers.flatMap (·.atoms) ∧
    m.conformers = m.residues.flatMap (·.conformers) := by
  simp only [Model.atoms, Model.residues, Model.conformers, Chain.atoms, Chain.conformers,
    Residue.atoms, List.flatMap_assoc]
  exact ⟨trivial, trivial, trivial⟩

theorem C09_flat_eq_nested_chain (c : Chain) : c.atoms = c.conformers.flatMap (·.atoms) := by
  simp only [Chain.atoms, Chain.conformers, Residue.atoms, List.flatMap_assoc]

/-- index accessors (`iter().nth(i)`) return the i-th element of the traversal or nothing;
reverse iteration is the exact reverse (`List` semantics, stated for completeness of the model) -/
theorem C09_nth {α} (l : List α) (i : Nat) :
    (l[i]? = none ↔ l.length ≤ i) ∧ (∀ h : i < l.length, l[i]? = some l[i]) := by
  exact ⟨List.getElem?_eq_none_iff, fun h => List.getElem?_eq_getElem h⟩

theorem C09_rev {α} (l : List α) (i : Nat) (h : i < l.length) :
    l.reverse[i]? = l[l.length - 1 - i]? := by
  rw [List.getElem?_reverse h]

/-- the atom components of the hierarchy tuples are the flat atom list, in order -/
theorem C09_hierarchy_atoms (p : PDB) : p.withH.map (·.atom) = p.atoms := by
  simp only [PDB.withH, PDB.atoms, Model.withHACRC, Model.atoms, Chain.withHACR, Chain.atoms,
    Residue.withHAC, Residue.atoms, Conformer.withH, List.map_flatMap, List.map_map]
  congr 1; funext m; congr 1; funext c; congr 1; funext r; congr 1; funext f
  induction f.atoms with
  | nil => rfl
  | cons a as ih => simp only [List.map_cons, Function.comp] at ih ⊢; rw [ih]

/-- every tuple names the atom's actual ancestors -/
theorem C09_hierarchy_tuples (p : PDB) (h : HACRCM) (hm : h ∈ p.withH) :
    h.atom ∈ h.conformer.atoms ∧ h.conformer ∈ h.residue.conformers ∧
    h.residue ∈ h.chain.residues ∧ h.chain ∈ h.model.chains ∧ h.model ∈ p.models := by
  simp only [PDB.withH, Model.withHACRC, Chain.withHACR, Residue.withHAC, Conformer.withH,
    List.mem_flatMap, List.mem_map] at hm
  obtain ⟨m, hmm, h3, ⟨c, hc, h2, ⟨r, hr, h1, ⟨f, hf, a, ha, rfl⟩, rfl⟩, rfl⟩, rfl⟩ := hm
  exact ⟨ha, hf, hr, hc, hmm⟩

/-- non-vacuity / a ragged example with an empty conformer and an empty chain -/
example :
    let a : Atom := default
    let p : PDB := ⟨[⟨1, [⟨"A", [⟨1, none, [⟨"ALA", none, [a, a], none⟩, ⟨"ALA", some "B", [], none⟩]⟩]⟩, ⟨"B", []⟩]⟩, ⟨2, []⟩]⟩
    p.atomCount = 2 ∧ p.totalAtomCount = 2 ∧ p.conformerCount = 2 ∧ p.chainCount = 2 ∧ p.withH.length = 2 := by
  decide

end PdbModel
