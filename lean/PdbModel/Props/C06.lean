/-
C06 — reading mmCIF input is total.

The model (`Cif.lean`, `CifRead.lean`) is a total function on every character sequence: Lean accepted each loop
of the lexer only with a proof that it consumes input (`termination_by … decreasing_by`).  Those proofs are
restated here as the "never loops" theorems, followed by the classification theorem of the whole reader.
That the Rust code itself does not panic is decided by the fault enumeration of the harness, every outcome of
which is compared with this model.
-/
import PdbModel.CifRead
namespace PdbModel

/-- `while let Ok(value) = parse_value(input)` makes progress: an accepted value consumes at least one
character -/
theorem C06_value_consumes {s rest : List Char} {v : CifValue} (h : parseValue s = .ok (v, rest)) :
    rest.length < s.length := parseValue_length h

/-- `while let Ok(item) = parse_data_item(input)` (save frames) makes progress -/
theorem C06_data_item_consumes {s : List Char} {d : DataItem} (h : (parseDataItem s).1 = .ok d) :
    (parseDataItem s).2.length < s.length := parseDataItem_length h

/-- the item loop of `parse_data_block` makes progress -/
theorem C06_item_consumes {s : List Char} {i : Item} (h : (parseItem s).1 = .ok i) :
    (parseItem s).2.length < s.length := parseItem_length h

/-- trimming never lengthens the input (used by every loop above) -/
theorem C06_trim_shrinks (b : Bool) (s : List Char) : (trimCW b s).length ≤ s.length := trimCW_length b s

theorem breaking_fails (l : Strictness) : ErrorLevel.breaking.fails l = true := by cases l <;> rfl

/-- **always classifies**: for every text and every option set the reader returns either a structure with
diagnostics none of which fails the level, or a rejection list containing a diagnostic that fails the level
(in particular a non-empty one); it never answers anything else -/
theorem C06_classifies (o : ReadOpts) (text : List Char) :
    (∃ f ds, readCif o text = .ok f ds ∧ ds.any (fun e => e.level.fails o.level) = false) ∨
    (∃ ds, readCif o text = .err ds ∧ ds.any (fun e => e.level.fails o.level) = true) := by
  unfold readCif
  split
  · next e _ =>
    right
    exact ⟨_, rfl, by simp [breaking_fails]⟩
  · next b _ =>
    unfold readCifBlock
    simp only
    split
    · next h => right; exact ⟨_, rfl, h⟩
    · next h => left; exact ⟨_, _, rfl, by simpa using h⟩

/-- a lexer failure is always a single `BreakingError` -/
theorem C06_lexer_error_breaking (o : ReadOpts) (text : List Char) (e : String) (h : lexCif text = .error e) :
    readCif o text = .err [⟨.breaking, e, []⟩] := by
  unfold readCif; rw [h]

/-- non-vacuity of the progress hypotheses: a value that is accepted -/
example : parseValue [' ', '?', ' ', 'x'] = .ok (.unknown, [' ', 'x']) := by rfl

end PdbModel
