/-
C01 — only ATOM / HETATM records add atoms.  Every other record leaves the atoms read so far exactly as they are
(ANISOU only attaches a tensor and is treated separately): the list of all atoms — of the finished models and of the
model being read, in traversal order — is the same before and after.  MODEL and MASTER move the current model to
the finished ones without touching an atom.
-/
import PdbModel.PdbRead
namespace PdbModel

/-- all atoms read so far: finished models first, then the model being read -/
def PState.allAtoms (s : PState) : List Atom :=
  s.models.flatMap (·.atoms) ++ (chainsOfMap s.cur).flatMap (·.atoms)

theorem allAtoms_flush (s : PState) : (flushModel s).allAtoms = s.allAtoms := by
  unfold flushModel PState.allAtoms
  split
  · rfl
  · simp only [List.flatMap_append, List.flatMap_cons, List.flatMap_nil, List.append_nil, Model.atoms, chainsOfMap,
      List.map_nil]

/-- is the record one that can change an atom -/
def LexItem.touchesAtoms : LexItem → Bool
  | .atom .. => true
  | .anisou .. => true
  | _ => false

/-- **no other record adds, removes or changes an atom** -/
theorem C01_only_atom_records_touch_atoms (o : ReadOpts) (s : PState) (ctx : Nat × List Char) (item : LexItem)
    (h : item.touchesAtoms = false) : (stepItem o s ctx item).1.allAtoms = s.allAtoms := by
  cases item <;> simp only [LexItem.touchesAtoms, Bool.true_eq_false] at h
  all_goals (unfold stepItem; simp only)
  all_goals first
    | rfl
    | (repeat' split) <;> first | rfl | exact allAtoms_flush s | skip

/-! ### an accepted ATOM / HETATM record adds exactly its atom -/

theorem upsertC_atoms {C K : Type} [DecidableEq K] (key : C → K) (mk : K → C) (upd : C → C) (h : C → List Atom)
    (extra : List Atom) (hu : ∀ c, (h (upd c)).Perm (h c ++ extra)) (hm : ∀ k, h (mk k) = [])
    (cs : List C) (k : K) : ((upsertC key mk upd cs k).flatMap h).Perm (cs.flatMap h ++ extra) := by
  induction cs with
  | nil =>
    simp only [upsertC, List.flatMap_cons, List.flatMap_nil, List.append_nil, List.nil_append]
    have := hu (mk k)
    rw [hm k] at this
    simpa using this
  | cons c cs ih =>
    simp only [upsertC]
    split
    · simp only [List.flatMap_cons]
      exact ((hu c).append_right _).trans (by
        rw [List.append_assoc, List.append_assoc]
        exact List.Perm.append_left _ List.perm_append_comm)
    · simp only [List.flatMap_cons, List.append_assoc]
      exact List.Perm.append_left _ ih

theorem assocUpsert_atoms {K V : Type} [BEq K] (h : V → List Atom) (extra : List Atom) (g : Option V → V)
    (hs : ∀ v, (h (g (some v))).Perm (h v ++ extra)) (hn : (h (g none)).Perm extra)
    (l : List (K × V)) (k : K) :
    ((assocUpsert l k g).flatMap (fun p => h p.2)).Perm (l.flatMap (fun p => h p.2) ++ extra) := by
  induction l with
  | nil => simpa [assocUpsert] using hn
  | cons p r ih =>
    obtain ⟨a, v⟩ := p
    simp only [assocUpsert]
    split
    · simp only [List.flatMap_cons]
      exact ((hs v).append_right _).trans (by
        rw [List.append_assoc, List.append_assoc]
        exact List.Perm.append_left _ List.perm_append_comm)
    · simp only [List.flatMap_cons, List.append_assoc]
      exact List.Perm.append_left _ ih

theorem residue_addAtomRaw_atoms (r : Residue) (a : Atom) (name : String) (alt : Option String) :
    (r.addAtomRaw a name alt).atoms.Perm (r.atoms ++ [a]) := by
  unfold Residue.addAtomRaw Residue.addAtomN Residue.atoms
  simp only
  exact upsertC_atoms Conformer.cid Conformer.empty (Conformer.push a) (·.atoms) [a]
    (fun c => by simp [Conformer.push]) (fun k => rfl) r.conformers _

/-- atoms of a chain map, in traversal order -/
def mapAtoms (m : ChainMap) : List Atom := (chainsOfMap m).flatMap (·.atoms)

theorem mapAtoms_eq (m : ChainMap) : mapAtoms m = m.flatMap (fun p => p.2.flatMap (fun q => q.2.atoms)) := by
  unfold mapAtoms chainsOfMap
  rw [List.flatMap_map]
  congr 1
  funext p
  obtain ⟨id, rs⟩ := p
  simp only [Chain.atoms, List.flatMap_map]

/-- **a placed atom is added, nothing else changes**: up to order inside its residue's chain, the atoms of the
model being read after placing an atom are the atoms before plus that atom -/
theorem upsertChain_atoms (m : ChainMap) (cid : String) (key : ResId) (a : Atom) (name : String) (alt : Option String)
    (fresh : Residue) (hf : fresh.atoms = [a]) :
    (mapAtoms (upsertChain m cid key fun
      | some r => r.addAtomRaw a name alt
      | none => fresh)).Perm (mapAtoms m ++ [a]) := by
  rw [mapAtoms_eq, mapAtoms_eq]
  unfold upsertChain
  apply assocUpsert_atoms (fun (rs : List (ResId × Residue)) => rs.flatMap (fun q => q.2.atoms)) [a]
  · intro rs
    simp only [Option.getD_some]
    exact assocUpsert_atoms (fun (r : Residue) => r.atoms) [a] _ (fun r => residue_addAtomRaw_atoms r a name alt)
      (by simp [hf]) rs key
  · simp only [Option.getD_none]
    have := assocUpsert_atoms (K := ResId) (fun (r : Residue) => r.atoms) [a]
      (fun | some r => r.addAtomRaw a name alt | none => fresh)
      (fun r => residue_addAtomRaw_atoms r a name alt) (by simp [hf]) [] key
    simpa using this

/-- the parser state after an ATOM / HETATM record -/
def afterAtom (o : ReadOpts) (s : PState) (ctx : Nat × List Char)
    (het : Bool) (serial : Nat) (name : List Char) (alt : Option (List Char)) (resName chain : List Char)
    (resSeq : Int) (icode : Option (List Char)) (x y z occ b : Flt) (element : List Char) (charge : Int) : PState :=
  (stepItem o s ctx (.atom het serial name alt resName chain resSeq icode x y z occ b element charge)).1

/-- what an ATOM / HETATM record does to the hierarchy being built: nothing, or one placement -/
theorem afterAtom_cases (o : ReadOpts) (s : PState) (ctx : Nat × List Char)
    (het : Bool) (serial : Nat) (name : List Char) (alt : Option (List Char)) (resName chain : List Char)
    (resSeq : Int) (icode : Option (List Char)) (x y z occ b : Flt) (element : List Char) (charge : Int) :
    ((afterAtom o s ctx het serial name alt resName chain resSeq icode x y z occ b element charge).cur = s.cur ∧
     (afterAtom o s ctx het serial name alt resName chain resSeq icode x y z occ b element charge).models = s.models) ∨
    ∃ a ex cid key fresh, atomNew het (serial + wrapAddN 99999 s.lastAtom s.atomAdd serial) (toString s.nextId).toList name
        x y z occ b element charge = some (a, ex) ∧ fresh.atoms = [a] ∧
      (afterAtom o s ctx het serial name alt resName chain resSeq icode x y z occ b element charge).cur =
        upsertChain s.cur cid key (fun
          | some r => r.addAtomRaw a (String.ofList resName) (alt.map String.ofList)
          | none => fresh) ∧
      (afterAtom o s ctx het serial name alt resName chain resSeq icode x y z occ b element charge).models = s.models := by
  unfold afterAtom
  simp only [stepItem]
  repeat' split
  all_goals first
    | exact Or.inl ⟨rfl, rfl⟩
    | (rename_i a ex ha
       exact Or.inr ⟨a, ex, _, _, _, ha, by simp [Residue.atoms], rfl, rfl⟩)

/-- **an ATOM / HETATM record adds exactly its atom or nothing**: after the record either the atoms are what
they were (a discarded hydrogen, an identifier or a value the structs refuse — the latter with a diagnostic), or,
up to the order inside the model being read, they are the atoms before plus the one atom `Atom::new` builds from
the fields of the record (serial number offset by the wrap count) -/
theorem C01_atom_record_adds_its_atom (o : ReadOpts) (s : PState) (ctx : Nat × List Char)
    (het : Bool) (serial : Nat) (name : List Char) (alt : Option (List Char)) (resName chain : List Char)
    (resSeq : Int) (icode : Option (List Char)) (x y z occ b : Flt) (element : List Char) (charge : Int) :
    (afterAtom o s ctx het serial name alt resName chain resSeq icode x y z occ b element charge).allAtoms = s.allAtoms ∨
    ∃ a ex, atomNew het (serial + wrapAddN 99999 s.lastAtom s.atomAdd serial) (toString s.nextId).toList name
        x y z occ b element charge = some (a, ex) ∧
      (afterAtom o s ctx het serial name alt resName chain resSeq icode x y z occ b element charge).allAtoms.Perm
        (s.allAtoms ++ [a]) := by
  rcases afterAtom_cases o s ctx het serial name alt resName chain resSeq icode x y z occ b element charge with
    ⟨hc, hm⟩ | ⟨a, ex, cid, key, fresh, ha, hf, hc, hm⟩
  · left
    unfold PState.allAtoms
    rw [hc, hm]
  · right
    refine ⟨a, ex, ha, ?_⟩
    unfold PState.allAtoms
    rw [hc, hm, List.append_assoc]
    exact List.Perm.append_left _ (upsertChain_atoms _ _ _ a _ _ fresh hf)

end PdbModel
