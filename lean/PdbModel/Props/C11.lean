/-
C11 — sorting and renumbering give canonical order; binary lookup equals linear scan.
-/
import PdbModel.Lemmas.Sort
import PdbModel.Lemmas.Renumber
import PdbModel.Lemmas.BSearch
namespace PdbModel

/-! ## sorting: ordered by identifier, ties in their previous order, nothing added or lost -/

/-- at every level: the result is ordered, is a permutation of the input, and every already ordered
sub-sequence of the input (in particular every pair of tied elements) keeps its relative order -/
theorem C11_sort_atoms (c : Conformer) :
    c.sort.atoms.Pairwise (fun a b => atomLe a b = true) ∧ c.sort.atoms.Perm c.atoms ∧
    (∀ ys : List Atom, ys.Pairwise (fun a b => atomLe a b = true) → ys.Sublist c.atoms → ys.Sublist c.sort.atoms) ∧
    c.sort.name = c.name ∧ c.sort.alt = c.alt :=
  ⟨(sort_spec atomLe atomLe_trans atomLe_total _).1, (sort_spec atomLe atomLe_trans atomLe_total _).2.1,
   (sort_spec atomLe atomLe_trans atomLe_total _).2.2, rfl, rfl⟩

theorem C11_sort_conformers (r : Residue) :
    r.sort.conformers.Pairwise (fun a b => confLe a b = true) ∧ r.sort.conformers.Perm r.conformers ∧
    (∀ ys : List Conformer, ys.Pairwise (fun a b => confLe a b = true) → ys.Sublist r.conformers → ys.Sublist r.sort.conformers) :=
  sort_spec confLe confLe_trans confLe_total _

theorem C11_sort_residues (c : Chain) :
    c.sort.residues.Pairwise (fun a b => resLe a b = true) ∧ c.sort.residues.Perm c.residues ∧
    (∀ ys : List Residue, ys.Pairwise (fun a b => resLe a b = true) → ys.Sublist c.residues → ys.Sublist c.sort.residues) :=
  sort_spec resLe resLe_trans resLe_total _

theorem C11_sort_chains (m : Model) :
    m.sort.chains.Pairwise (fun a b => chainLe a b = true) ∧ m.sort.chains.Perm m.chains ∧
    (∀ ys : List Chain, ys.Pairwise (fun a b => chainLe a b = true) → ys.Sublist m.chains → ys.Sublist m.sort.chains) :=
  sort_spec chainLe chainLe_trans chainLe_total _

theorem C11_sort_models (p : PDB) :
    p.sort.models.Pairwise (fun a b => modelLe a b = true) ∧ p.sort.models.Perm p.models ∧
    (∀ ys : List Model, ys.Pairwise (fun a b => modelLe a b = true) → ys.Sublist p.models → ys.Sublist p.sort.models) :=
  sort_spec modelLe modelLe_trans modelLe_total _

theorem perm_flatMap_map {α β γ} (l₁ l₂ : List α) (hp : l₁.Perm l₂) (g : α → β) (f : α → List γ) (f' : β → List γ)
    (h : ∀ x ∈ l₂, (f' (g x)).Perm (f x)) : ((l₁.map g).flatMap f').Perm (l₂.flatMap f) := by
  have h1 : ((l₁.map g).flatMap f').Perm ((l₂.map g).flatMap f') := List.Perm.flatMap_right _ (hp.map g)
  refine h1.trans ?_
  clear h1 hp
  induction l₂ with
  | nil => exact List.Perm.refl _
  | cons x xs ih =>
    simp only [List.map_cons, List.flatMap_cons]
    exact List.Perm.append (h x (List.mem_cons_self ..)) (ih (fun y hy => h y (List.mem_cons_of_mem _ hy)))

/-- after a full sort every level is ordered and the atoms are a rearrangement of the original atoms -/
theorem C11_full_sort (p : PDB) :
    p.fullSort.models.Pairwise (fun a b => modelLe a b = true) ∧
    (∀ m ∈ p.fullSort.models, m.chains.Pairwise (fun a b => chainLe a b = true) ∧
      ∀ c ∈ m.chains, c.residues.Pairwise (fun a b => resLe a b = true) ∧
        ∀ r ∈ c.residues, r.conformers.Pairwise (fun a b => confLe a b = true) ∧
          ∀ f ∈ r.conformers, f.atoms.Pairwise (fun a b => atomLe a b = true)) ∧
    p.fullSort.atoms.Perm p.atoms := by
  refine ⟨?_, ?_, ?_⟩
  · unfold PDB.fullSort
    simp only
    rw [List.pairwise_map]
    exact (List.pairwise_mergeSort modelLe_trans modelLe_total p.models).imp (fun h => h)
  · intro m hm
    unfold PDB.fullSort at hm
    obtain ⟨m0, _, rfl⟩ := List.mem_map.mp hm
    refine ⟨?_, ?_⟩
    · simp only; rw [List.pairwise_map]
      exact (List.pairwise_mergeSort chainLe_trans chainLe_total _).imp (fun h => h)
    · intro c hc
      obtain ⟨c0, _, rfl⟩ := List.mem_map.mp hc
      refine ⟨?_, ?_⟩
      · simp only; rw [List.pairwise_map]
        exact (List.pairwise_mergeSort resLe_trans resLe_total _).imp (fun h => h)
      · intro r hr
        obtain ⟨r0, _, rfl⟩ := List.mem_map.mp hr
        refine ⟨?_, ?_⟩
        · simp only; rw [List.pairwise_map]
          exact (List.pairwise_mergeSort confLe_trans confLe_total _).imp (fun h => h)
        · intro f hf
          obtain ⟨f0, _, rfl⟩ := List.mem_map.mp hf
          exact List.pairwise_mergeSort atomLe_trans atomLe_total _
  · unfold PDB.fullSort PDB.atoms
    apply perm_flatMap_map _ _ (List.mergeSort_perm _ _)
    intro m _
    unfold Model.atoms
    apply perm_flatMap_map _ _ (List.mergeSort_perm _ _)
    intro c _
    unfold Chain.atoms
    apply perm_flatMap_map _ _ (List.mergeSort_perm _ _)
    intro r _
    unfold Residue.atoms
    apply perm_flatMap_map _ _ (List.mergeSort_perm _ _)
    intro f _
    exact List.mergeSort_perm _ _

/-! ## renumbering -/

/-- model numbers, per-model atom serials and residue numbers count up from one in traversal order,
insertion codes are cleared, alternate locations are cleared in single-conformer residues and letter
codes otherwise, chain ids are letter codes per model -/
theorem C11_renumber (p : PDB) :
    p.renumber.models.map (·.serial) = List.range' 1 p.models.length ∧
    ∀ m ∈ p.renumber.models,
      m.atoms.map (·.serial) = List.range' 1 m.atoms.length ∧
      m.residues.map (·.serial) = (List.range' 1 m.residues.length).map Int.ofNat ∧
      (∀ r ∈ m.residues, r.icode = none ∧
        (r.conformers.length ≤ 1 → ∀ c ∈ r.conformers, c.alt = none) ∧
        (r.conformers.length > 1 →
          r.conformers.map (·.alt) = (List.range' 0 r.conformers.length).map fun k => some (numberToBase26 k))) ∧
      m.chains.map (·.id) = (List.range' 0 m.chains.length).map numberToBase26 := by
  refine ⟨renumModels_serials 1 p.models, ?_⟩
  intro m hm
  obtain ⟨m0, _, hch⟩ := mem_renumModels 1 p.models m hm
  obtain ⟨h1, h2, h3⟩ := renumChains_serials 0 1 1 m0.chains
  have hlenA : m.atoms.length = (m0.chains.flatMap (·.atoms)).length := by
    have := congrArg List.length h1
    simp only [List.length_map, List.length_range'] at this
    unfold Model.atoms; rw [hch]; exact this
  have hlenR : m.residues.length = (m0.chains.flatMap (·.residues)).length := by
    have := congrArg List.length h2
    simp only [List.length_map, List.length_range'] at this
    unfold Model.residues; rw [hch]; exact this
  refine ⟨?_, ?_, ?_, ?_⟩
  · rw [hlenA]; unfold Model.atoms; rw [hch]; exact h1
  · rw [hlenR]; unfold Model.residues; rw [hch]; exact h2
  · intro r hr
    unfold Model.residues at hr; rw [hch] at hr
    refine ⟨h3 r hr, ?_⟩
    -- alternate locations: from the per-chain residue lemma
    have : ∀ (ci rn an : Nat) (cs : List Chain), ∀ r ∈ (renumChains ci rn an cs).flatMap (·.residues),
        (r.conformers.length ≤ 1 → ∀ c ∈ r.conformers, c.alt = none) ∧
        (r.conformers.length > 1 →
          r.conformers.map (·.alt) = (List.range' 0 r.conformers.length).map fun k => some (numberToBase26 k)) := by
      intro ci rn an cs
      induction cs generalizing ci rn an with
      | nil => intro r hr; simp [renumChains] at hr
      | cons c cs ih =>
        intro r hr
        simp only [renumChains, List.flatMap_cons, List.mem_append] at hr
        rcases hr with hr | hr
        · exact renumResidues_alts rn an c.residues r hr
        · exact ih _ _ _ r hr
    exact this 0 1 1 m0.chains r hr
  · rw [hch, renumChains_ids]
    have : (renumChains 0 1 1 m0.chains).length = m0.chains.length := by
      have := congrArg List.length (renumChains_ids 0 1 1 m0.chains); simpa using this
    rw [this]

/-- the letter codes handed out are pairwise distinct -/
theorem C11_letter_codes_distinct (n : Nat) : ((List.range' 0 n).map numberToBase26).Nodup := by
  have : ∀ (s : Nat), ((List.range' s n).map numberToBase26).Nodup := by
    induction n with
    | zero => intro s; simp
    | succ k ih =>
      intro s
      simp only [List.range'_succ, List.map_cons, List.nodup_cons]
      refine ⟨?_, ih (s + 1)⟩
      intro hm
      obtain ⟨j, hj, he⟩ := List.mem_map.mp hm
      have := numberToBase26_injective _ _ he
      simp only [List.mem_range'_1] at hj
      omega
  exact this 0

/-- renumbering twice changes nothing more -/
theorem C11_renumber_idem (p : PDB) : p.renumber.renumber = p.renumber := by
  unfold PDB.renumber; simp only [renumModels_idem]

/-! ## binary lookup -/

/-- generic: on a list partitioned by the probe, bisection returns what the linear scan returns -/
theorem C11_bsearch_eq_find {α} (probe : α → Ordering) (l : List α) (hg : Good probe l) :
    bsearch probe l.length l = l.find? (fun x => probe x == .eq) :=
  bsearch_eq_find probe l.length l hg (Nat.le_refl _)

/-- conformer level: with ascending serial numbers (what sorting / renumbering establishes) the
binary lookup is the linear scan for that serial number -/
theorem C11_conformer_binfind (c : Conformer) (serial : Nat)
    (h : c.atoms.Pairwise (fun a b => a.serial < b.serial)) :
    c.binaryFindAtom serial = c.atoms.find? (fun a => a.serial == serial) := by
  unfold Conformer.binaryFindAtom
  rw [C11_bsearch_eq_find]
  · congr 1; funext a
    simp only [compare, compareOfLessAndEq]
    by_cases h1 : a.serial < serial
    · simp [h1]; omega
    · by_cases h2 : a.serial = serial <;> simp [h1, h2]
  · unfold Good
    refine h.imp ?_
    intro a b hab
    simp only [compare, compareOfLessAndEq]
    by_cases a1 : a.serial < serial <;> by_cases a2 : a.serial = serial <;>
      by_cases b1 : b.serial < serial <;> by_cases b2 : b.serial = serial <;>
      simp [a1, a2, b1, b2, rank] <;> omega

/-- non-vacuity: a renumbered two-chain structure satisfies the ascending-serial hypothesis -/
example :
    let a : Atom := default
    let p : PDB := ⟨[⟨7, [⟨"x", [⟨5, some "A", [⟨"ALA", none, [a, a], none⟩, ⟨"ALA", some "Q", [a], none⟩]⟩]⟩, ⟨"y", [⟨5, none, [⟨"GLY", some "Z", [a], none⟩]⟩]⟩]⟩]⟩
    p.renumber.atoms.map (·.serial) = [1, 2, 3, 4] ∧ p.renumber.chains.map (·.id) = ["A", "B"] ∧
    p.renumber.conformers.map (·.alt) = [some "A", some "B", none] := by
  decide

end PdbModel

namespace PdbModel

/-! ### residue level: the range test per conformer + bisection = the linear scan -/

theorem pairwise_head_le (l : List Atom) (h : l.Pairwise (fun a b => a.serial < b.serial)) (f : Atom)
    (hf : l.head? = some f) : ∀ a ∈ l, f.serial ≤ a.serial := by
  cases l with
  | nil => cases hf
  | cons x xs =>
    simp only [List.head?_cons, Option.some.injEq] at hf
    subst hf
    intro a ha
    simp only [List.mem_cons] at ha
    rcases ha with rfl | ha
    · exact Nat.le_refl _
    · exact Nat.le_of_lt ((List.pairwise_cons.mp h).1 a ha)

theorem pairwise_le_last (l : List Atom) (h : l.Pairwise (fun a b => a.serial < b.serial)) (b : Atom)
    (hb : l.getLast? = some b) : ∀ a ∈ l, a.serial ≤ b.serial := by
  induction l with
  | nil => cases hb
  | cons x xs ih =>
    intro a ha
    cases xs with
    | nil =>
      simp only [List.getLast?_singleton, Option.some.injEq] at hb
      subst hb
      simp only [List.mem_singleton] at ha
      subst ha; exact Nat.le_refl _
    | cons y ys =>
      have hb' : (y :: ys).getLast? = some b := by simpa [List.getLast?_cons_cons] using hb
      have hp := List.pairwise_cons.mp h
      have hin := ih hp.2 hb'
      simp only [List.mem_cons] at ha
      rcases ha with rfl | ha
      · have hy := hp.1 y (by simp)
        have := hin y (by simp)
        omega
      · exact hin a (by simpa using ha)

/-- one conformer: the guarded bisection is the scan of that conformer's atoms -/
theorem conformer_probe_eq_scan (c : Conformer) (serial : Nat) (alt : Option String)
    (h : c.atoms.Pairwise (fun a b => a.serial < b.serial)) :
    c.probeFind serial alt = c.withH.find? (fun h => h.atom.serial = serial ∧ h.conformer.alt = alt) := by
  unfold Conformer.probeFind
  unfold Conformer.withH
  rw [List.find?_map]
  by_cases halt : c.alt = alt
  · simp only [halt, if_true]
    have hscan : (List.find? ((fun (h : HAC) => decide (h.atom.serial = serial ∧ h.conformer.alt = alt)) ∘ fun a => (⟨a, c⟩ : HAC)) c.atoms) =
        c.atoms.find? (fun a => a.serial == serial) := by
      congr 1; funext a
      apply Bool.eq_iff_iff.mpr; simp [halt]
    rw [hscan]
    cases hh : c.atoms.head? with
    | none =>
      have : c.atoms = [] := by cases hc : c.atoms with | nil => rfl | cons x xs => rw [hc] at hh; cases hh
      simp [this]
    | some f =>
      cases hl : c.atoms.getLast? with
      | none =>
        have : c.atoms = [] := by simpa using hl
        rw [this] at hh; cases hh
      | some b =>
        simp only
        by_cases hr : f.serial ≤ serial ∧ serial ≤ b.serial
        · rw [if_pos hr, C11_conformer_binfind c serial h]
        · rw [if_neg hr]
          have hnone : c.atoms.find? (fun a => a.serial == serial) = none := by
            rw [List.find?_eq_none]
            intro a ha
            have h1 := pairwise_head_le c.atoms h f hh a ha
            have h2 := pairwise_le_last c.atoms h b hl a ha
            simp only [beq_iff_eq]
            intro he; apply hr; omega
          rw [hnone]; rfl
  · simp only [halt, if_false]
    symm
    rw [Option.map_eq_none_iff, List.find?_eq_none]
    intro a _
    simp [halt]

/-- **residue level**: with ascending serial numbers inside every conformer, `Residue::binary_find_atom`
returns exactly what the linear scan over the residue's (atom, conformer) pairs returns -/
theorem C11_residue_binfind (r : Residue) (serial : Nat) (alt : Option String)
    (h : ∀ c ∈ r.conformers, c.atoms.Pairwise (fun a b => a.serial < b.serial)) :
    r.binaryFindAtom serial alt =
      r.withHAC.find? (fun h => h.atom.serial = serial ∧ h.conformer.alt = alt) := by
  unfold Residue.binaryFindAtom Residue.withHAC
  generalize r.conformers = cs at h
  induction cs with
  | nil => rfl
  | cons c cs ih =>
    have hc := h c (by simp)
    have ih' := ih (fun x hx => h x (by simp [hx]))
    rw [List.findSome?_cons, List.flatMap_cons, List.find?_append, conformer_probe_eq_scan c serial alt hc]
    cases c.withH.find? (fun h => h.atom.serial = serial ∧ h.conformer.alt = alt) with
    | some x => rfl
    | none => simpa using ih'

/-! ### chain and model level: bisection over the children's serial ranges, then the child's lookup -/

section Level
variable {α β : Type} (atomsOf : α → List Atom)

/-- probe of the child loop of `Chain::binary_find_atom` / `Model::binary_find_atom` -/
def probeL (serial : Nat) (c : α) : Ordering := (rangeProbe serial (atomsOf c)).getD .eq

theorem ends_of_sorted (l : List Atom) (hne : l ≠ []) (h : l.Pairwise (fun a b => a.serial < b.serial)) :
    ∃ lo hi, l.head? = some lo ∧ l.getLast? = some hi ∧ lo ∈ l ∧ hi ∈ l ∧
      ∀ a ∈ l, lo.serial ≤ a.serial ∧ a.serial ≤ hi.serial := by
  cases hh : l.head? with
  | none => cases l with | nil => exact absurd rfl hne | cons x xs => cases hh
  | some lo =>
    cases hl : l.getLast? with
    | none => exact absurd (by simpa using hl) hne
    | some hi =>
      refine ⟨lo, hi, rfl, rfl, List.mem_of_mem_head? hh, List.mem_of_mem_getLast? hl, ?_⟩
      intro a ha
      exact ⟨pairwise_head_le l h lo hh a ha, pairwise_le_last l h hi hl a ha⟩

theorem probeL_gt_of_below (serial : Nat) (r : α) (hne : atomsOf r ≠ [])
    (hs : (atomsOf r).Pairwise (fun a b => a.serial < b.serial)) (h : ∀ a ∈ atomsOf r, serial < a.serial) :
    probeL atomsOf serial r = .gt := by
  obtain ⟨lo, hi, hlo, hhi, mlo, _, _⟩ := ends_of_sorted (atomsOf r) hne hs
  have := h lo mlo
  unfold probeL rangeProbe
  simp only [hlo, hhi]
  rw [if_neg (by omega), if_pos this]; rfl

theorem probeL_cases (serial : Nat) (r : α) (hne : atomsOf r ≠ [])
    (hs : (atomsOf r).Pairwise (fun a b => a.serial < b.serial)) :
    (probeL atomsOf serial r = .gt ∧ ∀ a ∈ atomsOf r, serial < a.serial) ∨
    (probeL atomsOf serial r = .lt ∧ ∀ a ∈ atomsOf r, a.serial < serial) ∨
    (probeL atomsOf serial r = .eq ∧ ∃ hi ∈ atomsOf r, serial ≤ hi.serial) := by
  obtain ⟨lo, hi, hlo, hhi, _, mhi, hb⟩ := ends_of_sorted (atomsOf r) hne hs
  unfold probeL rangeProbe
  simp only [hlo, hhi]
  by_cases h1 : lo.serial ≤ serial ∧ serial ≤ hi.serial
  · right; right
    rw [if_pos h1]
    exact ⟨rfl, hi, mhi, h1.2⟩
  · rw [if_neg h1]
    by_cases h2 : serial < lo.serial
    · left
      rw [if_pos h2]
      exact ⟨rfl, fun a ha => by have := (hb a ha).1; omega⟩
    · right; left
      rw [if_neg h2]
      exact ⟨rfl, fun a ha => by have := (hb a ha).2; omega⟩

/-- children whose atoms ascend across the list are partitioned `lt* eq? gt*` by the range probe -/
theorem probeL_good (serial : Nat) (rs : List α) (hne : ∀ r ∈ rs, atomsOf r ≠ [])
    (hin : ∀ r ∈ rs, (atomsOf r).Pairwise (fun a b => a.serial < b.serial))
    (hcross : rs.Pairwise (fun r1 r2 => ∀ x ∈ atomsOf r1, ∀ y ∈ atomsOf r2, x.serial < y.serial)) :
    Good (probeL atomsOf serial) rs := by
  unfold Good
  refine hcross.imp_of_mem ?_
  intro r1 r2 m1 m2 hx
  have hgt2 : (∃ x ∈ atomsOf r1, serial ≤ x.serial) → probeL atomsOf serial r2 = .gt := by
    intro ⟨x, mx, hsx⟩
    exact probeL_gt_of_below atomsOf serial r2 (hne r2 m2) (hin r2 m2) (fun y my => by have := hx x mx y my; omega)
  rcases probeL_cases atomsOf serial r1 (hne r1 m1) (hin r1 m1) with ⟨h1, hb⟩ | ⟨h1, _⟩ | ⟨h1, hi, mhi, hle⟩
  · obtain ⟨lo, _, _, _, mlo, _, _⟩ := ends_of_sorted (atomsOf r1) (hne r1 m1) (hin r1 m1)
    have h2 := hgt2 ⟨lo, mlo, Nat.le_of_lt (hb lo mlo)⟩
    rw [h1, h2]; exact ⟨Nat.le_refl _, by simp⟩
  · rw [h1]; exact ⟨Nat.zero_le _, by simp⟩
  · have h2 := hgt2 ⟨hi, mhi, hle⟩
    rw [h1, h2]; exact ⟨by decide, by simp⟩

/-- **one level of the lookup**: bisecting for the child whose serial range contains the number and then
asking that child gives what asking every child in turn gives — provided a child without an atom of that
number answers `none` -/
theorem level_lookup (scan : α → Option β) (serial : Nat) (rs : List α)
    (hne : ∀ r ∈ rs, atomsOf r ≠ [])
    (hin : ∀ r ∈ rs, (atomsOf r).Pairwise (fun a b => a.serial < b.serial))
    (hcross : rs.Pairwise (fun r1 r2 => ∀ x ∈ atomsOf r1, ∀ y ∈ atomsOf r2, x.serial < y.serial))
    (hscan : ∀ r ∈ rs, (∀ a ∈ atomsOf r, a.serial ≠ serial) → scan r = none) :
    (bsearch (probeL atomsOf serial) rs.length rs).bind scan = rs.findSome? scan := by
  rw [C11_bsearch_eq_find (probeL atomsOf serial) rs (probeL_good atomsOf serial rs hne hin hcross)]
  induction rs with
  | nil => rfl
  | cons r rest ih =>
    have mr : r ∈ r :: rest := by simp
    have hc := List.pairwise_cons.mp hcross
    have ih' := ih (fun x hx => hne x (by simp [hx])) (fun x hx => hin x (by simp [hx])) hc.2
      (fun x hx => hscan x (by simp [hx]))
    rw [List.find?_cons, List.findSome?_cons]
    rcases probeL_cases atomsOf serial r (hne r mr) (hin r mr) with ⟨h1, hb1⟩ | ⟨h1, hb1⟩ | ⟨h1, hi, mhi, hle⟩
    · have hnone := hscan r mr (fun a ha => by have := hb1 a ha; omega)
      rw [h1, hnone]; simpa using ih'
    · have hnone := hscan r mr (fun a ha => by have := hb1 a ha; omega)
      rw [h1, hnone]; simpa using ih'
    · rw [h1]
      simp only [beq_self_eq_true, if_true, Option.bind_some]
      cases hfound : scan r with
      | some x => rfl
      | none =>
        symm
        rw [List.findSome?_eq_none_iff]
        intro r2 m2
        exact hscan r2 (by simp [m2]) (fun a ha => by have := hc.1 r2 m2 hi mhi a ha; omega)

end Level

theorem find_flatMap {α β : Type} (l : List α) (f : α → List β) (p : β → Bool) :
    (l.flatMap f).find? p = l.findSome? (fun a => (f a).find? p) := by
  induction l with
  | nil => rfl
  | cons a as ih =>
    rw [List.flatMap_cons, List.find?_append, List.findSome?_cons, ih]
    cases (f a).find? p <;> rfl

theorem findSome_congr {α β : Type} (l : List α) (f g : α → Option β) (h : ∀ a ∈ l, f a = g a) :
    l.findSome? f = l.findSome? g := by
  induction l with
  | nil => rfl
  | cons a as ih =>
    rw [List.findSome?_cons, List.findSome?_cons, h a (by simp), ih (fun x hx => h x (by simp [hx]))]

theorem hac_atom_mem (r : Residue) (h : HAC) (mh : h ∈ r.withHAC) : h.atom ∈ r.atoms := by
  unfold Residue.withHAC Conformer.withH at mh
  unfold Residue.atoms
  simp only [List.mem_flatMap, List.mem_map] at mh ⊢
  obtain ⟨cf, mcf, a, ma, rfl⟩ := mh
  exact ⟨cf, mcf, ma⟩

/-- **chain level**: on a chain whose atoms ascend in traversal order (what `renumber` establishes) and that
has no atom-less residue, `Chain::binary_find_atom` does not panic and returns exactly what the linear scan
over the chain's (atom, conformer, residue) tuples returns -/
theorem C11_chain_binfind (c : Chain) (serial : Nat) (alt : Option String)
    (hne : ∀ r ∈ c.residues, r.atoms ≠ [])
    (hs : c.atoms.Pairwise (fun a b => a.serial < b.serial)) :
    c.binaryFindAtom serial alt =
      some (c.withHACR.find? (fun h => h.atom.serial = serial ∧ h.conformer.alt = alt)) := by
  unfold Chain.atoms at hs
  rw [List.pairwise_flatMap] at hs
  obtain ⟨hin, hcross⟩ := hs
  have hconf : ∀ r ∈ c.residues, ∀ cf ∈ r.conformers, cf.atoms.Pairwise (fun a b => a.serial < b.serial) := by
    intro r mr cf mcf
    have := hin r mr
    unfold Residue.atoms at this
    rw [List.pairwise_flatMap] at this
    exact this.1 cf mcf
  unfold Chain.binaryFindAtom
  have hany : c.residues.any (fun r => r.atoms.isEmpty) = false := by
    rw [List.any_eq_false]
    intro r mr
    simpa using hne r mr
  rw [hany]
  simp only [Bool.false_eq_true, if_false, Option.some.injEq]
  have key := level_lookup Residue.atoms
    (fun r => (r.binaryFindAtom serial alt).map fun h => ({ toHAC := h, residue := r } : HACR))
    serial c.residues hne hin hcross (by
      intro r mr hno
      rw [Option.map_eq_none_iff, C11_residue_binfind r serial alt (hconf r mr), List.find?_eq_none]
      intro h mh
      have := hno _ (hac_atom_mem r h mh)
      simp [this])
  unfold probeL at key
  rw [key]
  unfold Chain.withHACR
  rw [find_flatMap]
  apply findSome_congr
  intro r mr
  rw [C11_residue_binfind r serial alt (hconf r mr), List.find?_map]
  rfl

theorem hacr_atom_mem (c : Chain) (h : HACR) (mh : h ∈ c.withHACR) : h.atom ∈ c.atoms := by
  unfold Chain.withHACR at mh
  unfold Chain.atoms
  simp only [List.mem_flatMap, List.mem_map] at mh ⊢
  obtain ⟨r, mr, x, mx, rfl⟩ := mh
  exact ⟨r, mr, hac_atom_mem r x mx⟩

/-- **model level** -/
theorem C11_model_binfind (m : Model) (serial : Nat) (alt : Option String)
    (hnec : ∀ c ∈ m.chains, c.atoms ≠ [])
    (hner : ∀ c ∈ m.chains, ∀ r ∈ c.residues, r.atoms ≠ [])
    (hs : m.atoms.Pairwise (fun a b => a.serial < b.serial)) :
    m.binaryFindAtom serial alt =
      some (m.withHACRC.find? (fun h => h.atom.serial = serial ∧ h.conformer.alt = alt)) := by
  unfold Model.atoms at hs
  rw [List.pairwise_flatMap] at hs
  obtain ⟨hin, hcross⟩ := hs
  have hchain : ∀ c ∈ m.chains, c.binaryFindAtom serial alt =
      some (c.withHACR.find? (fun h => h.atom.serial = serial ∧ h.conformer.alt = alt)) :=
    fun c mc => C11_chain_binfind c serial alt (hner c mc) (hin c mc)
  let scan : Chain → Option HACRC := fun c =>
    (c.withHACR.find? (fun h => h.atom.serial = serial ∧ h.conformer.alt = alt)).map
      fun h => ({ toHACR := h, chain := c } : HACRC)
  have key := level_lookup Chain.atoms scan serial m.chains hnec hin hcross (by
    intro c mc hno
    show Option.map _ _ = none
    rw [Option.map_eq_none_iff, List.find?_eq_none]
    intro h mh
    have := hno _ (hacr_atom_mem c h mh)
    simp [this])
  unfold Model.binaryFindAtom
  have hany : m.chains.any (fun c => c.atoms.isEmpty) = false := by
    rw [List.any_eq_false]
    intro c mc
    simpa using hnec c mc
  rw [hany]
  simp only [Bool.false_eq_true, if_false]
  have key' : (bsearch (fun c => (rangeProbe serial c.atoms).getD .eq) m.chains.length m.chains).bind scan =
      m.withHACRC.find? (fun h => h.atom.serial = serial ∧ h.conformer.alt = alt) := by
    unfold probeL at key
    rw [key]
    unfold Model.withHACRC
    rw [find_flatMap]
    apply findSome_congr
    intro c _
    rw [List.find?_map]
    rfl
  have hb := C11_bsearch_eq_find (probeL Chain.atoms serial) m.chains
    (probeL_good Chain.atoms serial m.chains hnec hin hcross)
  unfold probeL at hb
  split
  · next hf =>
    rw [hf] at key'
    rw [← key']; rfl
  · next c hf =>
    have mc : c ∈ m.chains := by
      rw [hf] at hb
      exact List.mem_of_find?_eq_some hb.symm
    rw [hf] at key'
    rw [hchain c mc, ← key']
    rfl

/-- **structure level**: `PDB::binary_find_atom` (first model) equals the linear scan, on every structure whose
first model has ascending serial numbers in traversal order and no atom-less chain or residue -/
theorem C11_pdb_binfind (p : PDB) (serial : Nat) (alt : Option String)
    (h : ∀ m, p.models.head? = some m →
      (∀ c ∈ m.chains, c.atoms ≠ []) ∧ (∀ c ∈ m.chains, ∀ r ∈ c.residues, r.atoms ≠ []) ∧
      m.atoms.Pairwise (fun a b => a.serial < b.serial)) :
    p.binaryFindAtom serial alt = some (p.linearFindAtom serial alt) := by
  unfold PDB.binaryFindAtom PDB.linearFindAtom
  cases hm : p.models with
  | nil => rfl
  | cons m rest =>
    obtain ⟨h1, h2, h3⟩ := h m (by rw [hm]; rfl)
    simp only [C11_model_binfind m serial alt h1 h2 h3, Option.map_some]

end PdbModel
