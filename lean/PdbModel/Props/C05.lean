/-
C05 — reading PDB-format input is total and every line-anchored diagnostic quotes the line that stands at
the reported line number. Totality of the model is by construction: after the repairs (see
known_findings.json) every slice of the code is `str::get` / `slice::get` or sits under a length guard, and
the model uses exactly those partial primitives (`getBytes`, `l[i]?`) — there is no panic constructor left
to reach. What remains to be PROVED is the line-number statement; the absence of panics in the real code is
decided by the fault enumeration of the tie.
-/
import PdbModel.PdbRead
namespace PdbModel

/-- a quoted (line number, text) pair is anchored in the input when that line stands at that number -/
def AnchoredQ (lines : List (List Char)) (q : Nat × List Char) : Prop := 1 ≤ q.1 ∧ lines[q.1 - 1]? = some q.2
def AnchoredD (lines : List (List Char)) (d : PDiag) : Prop := ∀ q ∈ d.quoted, AnchoredQ lines q

structure Inv (lines : List (List Char)) (s : PState) : Prop where
  errs : ∀ d ∈ s.errors, AnchoredD lines d
  mods : ∀ m ∈ s.modifications, AnchoredQ lines m.1
  bonds : ∀ b ∈ s.bonds, AnchoredQ lines b.1
  seqres : ∀ l ∈ s.seqresLines, AnchoredQ lines l

theorem flushModel_frame (s : PState) :
    (flushModel s).modifications = s.modifications ∧ (flushModel s).bonds = s.bonds ∧ (flushModel s).errors = s.errors ∧
    (flushModel s).seqresLines = s.seqresLines := by
  unfold flushModel; split <;> exact ⟨rfl, rfl, rfl, rfl⟩

theorem attachLine_anchored (lines : List (List Char)) (ln : Nat) (line : List Char) (ds : List LDiag)
    (h : AnchoredQ lines (ln, line)) : ∀ d ∈ attachLine ln line ds, AnchoredD lines d := by
  intro d hd
  unfold attachLine at hd
  obtain ⟨x, _, rfl⟩ := List.mem_map.mp hd
  intro q hq
  simp only [List.mem_singleton] at hq
  subst hq; exact h

theorem lexLine_anchored (lines : List (List Char)) (ln : Nat) (line : List Char) (lvl : Strictness) (oa : Bool)
    (h : AnchoredQ lines (ln, line)) :
    (∀ e, lexLine line ln lvl oa = .error e → AnchoredD lines e) ∧
    (∀ item ds, lexLine line ln lvl oa = .ok (item, ds) → ∀ d ∈ ds, AnchoredD lines d) := by
  unfold lexLine
  cases lexLineRaw line ln lvl oa with
  | error d =>
    refine ⟨?_, fun _ _ hc => (by cases hc)⟩
    intro e he
    simp only [Except.error.injEq] at he
    subst he
    intro q hq; simp only [List.mem_singleton] at hq; subst hq; exact h
  | ok p =>
    obtain ⟨item, ds⟩ := p
    refine ⟨fun _ hc => (by cases hc), ?_⟩
    intro item' ds' he
    simp only [Except.ok.injEq, Prod.mk.injEq] at he
    obtain ⟨_, rfl⟩ := he
    exact attachLine_anchored lines ln line ds h

/-- `stepItem` records a MODRES / SSBOND context only for the current line -/
theorem stepItem_frame (o : ReadOpts) (s : PState) (ctx : Nat × List Char) (item : LexItem) :
    (∀ m ∈ (stepItem o s ctx item).1.modifications, m ∈ s.modifications ∨ m.1 = ctx) ∧
    (∀ b ∈ (stepItem o s ctx item).1.bonds, b ∈ s.bonds ∨ b.1 = ctx) ∧
    (∀ l ∈ (stepItem o s ctx item).1.seqresLines, l ∈ s.seqresLines ∨ l = ctx) := by
  have hf := flushModel_frame s
  refine ⟨?_, ?_, ?_⟩ <;> intro m hm <;> cases item <;> simp only [stepItem] at hm <;> (repeat' split at hm) <;>
    simp_all [flushModel_frame] <;>
    (first
      | done
      | (rcases hm with hm | hm
         · exact Or.inl hm
         · exact Or.inr (by rw [hm])))

theorem stepLine_inv (lines : List (List Char)) (o : ReadOpts) (s : PState) (ln : Nat) (line : List Char)
    (h : AnchoredQ lines (ln, line)) (hi : Inv lines s) : Inv lines (stepLine o s ln line) := by
  unfold stepLine
  split
  · exact hi
  · obtain ⟨hle, hlo⟩ := lexLine_anchored lines ln line o.level o.onlyAtomicCoords h
    split
    · rename_i e he
      refine ⟨?_, hi.mods, hi.bonds, hi.seqres⟩
      intro d hd
      simp only [List.mem_append, List.mem_singleton] at hd
      rcases hd with hd | rfl
      · exact hi.errs d hd
      · exact hle _ he
    · rename_i item errs he
      obtain ⟨hm, hb, hsq⟩ := stepItem_frame o { s with errors := [] } (ln, line) item
      refine ⟨?_, ?_, ?_, ?_⟩
      · intro d hd
        simp only [List.mem_append] at hd
        rcases hd with (hd | hd) | hd
        · exact hi.errs d hd
        · exact hlo item errs he d hd
        · exact attachLine_anchored lines ln line _ h d hd
      · intro m hmm
        rcases hm m hmm with h1 | h1
        · exact hi.mods m h1
        · rw [h1]; exact h
      · intro b hbb
        rcases hb b hbb with h1 | h1
        · exact hi.bonds b h1
        · rw [h1]; exact h
      · intro l hl
        rcases hsq l hl with h1 | h1
        · exact hi.seqres l h1
        · rw [h1]; exact h

theorem foldl_inv {σ α} (P : σ → Prop) (f : σ → α → σ) (l : List α) (Q : α → Prop)
    (hl : ∀ x ∈ l, Q x) (hstep : ∀ s x, Q x → P s → P (f s x)) (init : σ) (h0 : P init) : P (l.foldl f init) := by
  induction l generalizing init with
  | nil => exact h0
  | cons x xs ih =>
    exact ih (fun y hy => hl y (List.mem_cons_of_mem _ hy)) _ (hstep _ _ (hl x (List.mem_cons_self ..)) h0)

theorem mem_zip_range' {α} (l : List α) (s i : Nat) (x : α) (h : (i, x) ∈ (List.range' s l.length).zip l) :
    s ≤ i ∧ l[i - s]? = some x := by
  induction l generalizing s with
  | nil => simp at h
  | cons a as ih =>
    simp only [List.length_cons, List.range'_succ, List.zip_cons_cons, List.mem_cons, Prod.mk.injEq] at h
    rcases h with ⟨rfl, rfl⟩ | h
    · simp
    · obtain ⟨h1, h2⟩ := ih (s + 1) h
      refine ⟨by omega, ?_⟩
      have : i - s = (i - (s + 1)) + 1 := by omega
      rw [this, List.getElem?_cons_succ]; exact h2

theorem mem_zip_range {α} (l : List α) (i : Nat) (x : α) (h : (i, x) ∈ (List.range l.length).zip l) :
    l[i]? = some x := by
  rw [List.range_eq_range'] at h
  have := (mem_zip_range' l 0 i x h).2
  simpa using this

theorem anchored_of_no_quote (lines : List (List Char)) (d : PDiag) (h : d.quoted = []) : AnchoredD lines d := by
  intro q hq; rw [h] at hq; cases hq

theorem mergeRemarkWarnings_anchored (lines : List (List Char)) (errs : List PDiag)
    (h : ∀ d ∈ errs, AnchoredD lines d) : ∀ d ∈ mergeRemarkWarnings errs, AnchoredD lines d := by
  intro d hd
  unfold mergeRemarkWarnings at hd
  simp only at hd
  split at hd
  · exact h d (List.mem_filter.mp hd).1
  · simp only [List.mem_append, List.mem_singleton] at hd
    rcases hd with hd | rfl
    · exact h d (List.mem_filter.mp hd).1
    · intro q hq
      simp only [List.mem_flatMap] at hq
      obtain ⟨e, he, hqe⟩ := hq
      exact h e (List.mem_filter.mp he).1 q hqe

theorem addModifications_anchored (lines : List (List Char)) (p : PDB) (mods : List ((Nat × List Char) × LexItem))
    (h : ∀ m ∈ mods, AnchoredQ lines m.1) : ∀ d ∈ (addModifications p mods).2, AnchoredD lines d := by
  unfold addModifications
  apply foldl_inv (fun acc : PDB × List PDiag => ∀ d ∈ acc.2, AnchoredD lines d) _ mods (fun m => AnchoredQ lines m.1) h
  · intro acc m hm hacc
    have one : ∀ (lvl : ErrorLevel) (sh : String), ∀ d ∈ acc.2 ++ [PDiag.mk lvl sh [m.1]], AnchoredD lines d := by
      intro lvl sh d hd
      simp only [List.mem_append, List.mem_singleton] at hd
      rcases hd with hd | rfl
      · exact hacc d hd
      · intro q hq; simp only [List.mem_singleton] at hq; subst hq; exact hm
    obtain ⟨p0, errs⟩ := acc
    simp only at hacc one ⊢
    repeat' split
    all_goals first | exact hacc | exact one _ _
  · intro d hd; cases hd

theorem addBonds_anchored (lines : List (List Char)) (p : PDB) (bonds : List ((Nat × List Char) × LexItem))
    (h : ∀ b ∈ bonds, AnchoredQ lines b.1) : ∀ d ∈ (addBonds p bonds).2, AnchoredD lines d := by
  unfold addBonds
  apply foldl_inv (fun acc : List (Nat × Nat) × List PDiag => ∀ d ∈ acc.2, AnchoredD lines d) _ bonds
    (fun b => AnchoredQ lines b.1) h
  · intro acc b hb hacc
    repeat' split
    all_goals first
      | exact hacc
      | (intro d hd
         simp only [List.mem_append, List.mem_singleton] at hd
         rcases hd with hd | rfl
         · exact hacc d hd
         · intro q hq; simp only [List.mem_singleton] at hq; subst hq; exact hb)
  · intro d hd; cases hd

theorem foldl_no_quote {α β} (f : β × List PDiag → α → β × List PDiag) (l : List α) (init : β × List PDiag)
    (h0 : ∀ d ∈ init.2, d.quoted = [])
    (hstep : ∀ acc x, (∀ d ∈ acc.2, d.quoted = []) → ∀ d ∈ (f acc x).2, d.quoted = []) :
    ∀ d ∈ (l.foldl f init).2, d.quoted = [] := by
  induction l generalizing init with
  | nil => exact h0
  | cons x xs ih => exact ih _ (hstep _ _ h0)

/-! ### the SEQRES checks -/

theorem seqStep_no_quote (st : SeqSt) (index : Int) (seq : List Char) (pos : Nat × Nat)
    (h : ∀ d ∈ st.errs, d.quoted = []) : ∀ d ∈ (seqStep st index seq pos).errs, d.quoted = [] := by
  unfold seqStep
  simp only
  intro d hd
  repeat' split at hd
  all_goals
    simp only [List.mem_append, List.mem_singleton] at hd
    first
      | exact h d hd
      | (rcases hd with hd | rfl
         · first | exact h d hd | (rcases hd with hd | rfl; exact h d hd; rfl)
         · rfl)

/-- what a mismatch diagnostic quotes are SEQRES lines under the numbers they were lexed from -/
theorem seqresQuoted_sub (ls : List (Nat × List Char)) (c : Char) (incons : List (Nat × Nat × String)) :
    ∀ q ∈ seqresQuoted ls c incons, q ∈ ls := by
  intro q hq
  unfold seqresQuoted at hq
  simp only at hq
  exact (List.mem_filter.mp (List.mem_of_mem_take (List.mem_of_mem_drop hq))).1

theorem mem_ite_nil_right {α} {c : Prop} [Decidable c] {x d : α} (h : d ∈ (if c then [x] else [])) : d = x := by
  split at h
  · simpa using h
  · cases h
theorem mem_ite_nil_left {α} {c : Prop} [Decidable c] {x d : α} (h : d ∈ (if c then [] else [x])) : d = x := by
  split at h
  · cases h
  · simpa using h

theorem seqresRecords_no_quote (data : List (Nat × Nat × List (List Char))) :
    ∀ d ∈ (seqresRecords data).1, d.quoted = [] := by
  unfold seqresRecords
  apply foldl_inv (fun acc : List PDiag × Nat × Nat => ∀ d ∈ acc.1, d.quoted = []) _ data (fun _ => True) (fun _ _ => trivial)
  · intro acc x _ hacc
    obtain ⟨errs, serial, residues⟩ := acc
    simp only at hacc ⊢
    intro d hd
    repeat' split at hd
    all_goals
      simp only [List.mem_append, List.mem_singleton] at hd
      first
        | exact hacc d hd
        | (rcases hd with hd | rfl
           · first | exact hacc d hd | (rcases hd with hd | rfl; exact hacc d hd; rfl)
           · rfl)
  · intro d hd; cases hd

theorem seqresWalk_no_quote (ch : Chain) (offset : Int) (names : List (List Char × Nat × Nat)) :
    ∀ d ∈ (seqresWalk ch offset names).errs, d.quoted = [] := by
  unfold seqresWalk
  apply foldl_inv (fun st : SeqSt => ∀ d ∈ st.errs, d.quoted = []) _ _ (fun _ => True) (fun _ _ => trivial)
  · intro st x _ hst
    exact seqStep_no_quote st _ _ _ hst
  · intro d hd; cases hd

theorem validateSeqresChain_anchored (lines : List (List Char)) (ch : Chain) (db : Option DbRef) (cid : Char)
    (data : List (Nat × Nat × List (List Char))) (ls : List (Nat × List Char)) (h : ∀ l ∈ ls, AnchoredQ lines l) :
    ∀ d ∈ (validateSeqresChain ch db cid data ls).2, AnchoredD lines d := by
  intro d hd
  unfold validateSeqresChain at hd
  simp only [List.mem_append] at hd
  rcases hd with ((((hd | hd) | hd) | hd) | hd) | hd
  · exact anchored_of_no_quote lines d (seqresRecords_no_quote data d hd)
  · exact anchored_of_no_quote lines d (by rw [mem_ite_nil_right hd])
  · refine anchored_of_no_quote lines d ?_
    unfold seqresDbTotal at hd
    split at hd
    · cases hd
    · rw [mem_ite_nil_right hd]
  · exact anchored_of_no_quote lines d (seqresWalk_no_quote _ _ _ d hd)
  · rw [mem_ite_nil_left hd]
    intro q hq
    exact h q (seqresQuoted_sub ls cid _ q hq)
  · exact anchored_of_no_quote lines d (by rw [mem_ite_nil_right hd])

theorem validateSeqres_anchored (lines : List (List Char)) (p : PDB) (dbrefs : List (Nat × DbRef))
    (seqres : List (Char × List (Nat × Nat × List (List Char)))) (ls : List (Nat × List Char))
    (h : ∀ l ∈ ls, AnchoredQ lines l) : ∀ d ∈ (validateSeqres p dbrefs seqres ls).2, AnchoredD lines d := by
  unfold validateSeqres
  apply foldl_inv (fun acc : PDB × List PDiag => ∀ d ∈ acc.2, AnchoredD lines d) _ _ (fun _ => True) (fun _ _ => trivial)
  · intro acc cd _ hacc
    split
    · exact hacc
    · split
      · exact hacc
      · intro d hd
        simp only [List.mem_append] at hd
        rcases hd with hd | hd
        · exact hacc d hd
        · exact validateSeqresChain_anchored lines _ _ _ _ ls h d hd
  · intro d hd; cases hd

/-- Every diagnostic the reader returns — with a structure or as a rejection list — that is anchored to lines
quotes, for each quoted line, the text that stands at the reported line number of the input. -/
theorem C05_context_lines (o : ReadOpts) (lines : List (List Char)) (f : PdbFile) (ds : List PDiag)
    (h : readPdbCore o lines = (f, ds)) : ∀ d ∈ ds, AnchoredD lines d := by
  unfold readPdbCore at h
  simp only at h
  · simp only [Prod.mk.injEq] at h
    obtain ⟨_, rfl⟩ := h
    -- the invariant after the fold over the lines
    have hinv : Inv lines (((List.range lines.length).zip lines).foldl
        (fun s (il : Nat × List Char) => stepLine o s (il.1 + 1) il.2) ({} : PState)) := by
      apply foldl_inv (Inv lines) _ _ (fun il => lines[il.1]? = some il.2)
      · intro il hil; exact mem_zip_range lines il.1 il.2 hil
      · intro s il hq hs
        exact stepLine_inv lines o s (il.1 + 1) il.2 ⟨by omega, by simpa using hq⟩ hs
      · exact ⟨fun d hd => (by cases hd), fun d hd => (by cases hd), fun d hd => (by cases hd), fun d hd => (by cases hd)⟩
    have hfl := flushModel_frame (((List.range lines.length).zip lines).foldl
        (fun s (il : Nat × List Char) => stepLine o s (il.1 + 1) il.2) ({} : PState))
    intro d hd
    simp only [List.mem_append] at hd
    rcases hd with (((hd | hd) | hd) | hd) | hd
    · -- merged reader diagnostics
      refine mergeRemarkWarnings_anchored lines _ ?_ d hd
      intro e he
      simp only [List.mem_append] at he
      rcases he with (((he | he) | he) | he) | he
      · rw [hfl.2.2.1] at he; exact hinv.errs e he
      · refine anchored_of_no_quote lines e (foldl_no_quote _ _ _ (fun _ hx => (by cases hx)) ?_ e he)
        intro acc x hacc d' hd'
        split at hd'
        · simp only [List.mem_append, List.mem_singleton] at hd'
          rcases hd' with hd' | rfl
          · exact hacc d' hd'
          · rfl
        · split at hd' <;> exact hacc d' hd'
      · refine anchored_of_no_quote lines e ?_
        split at he
        · cases he
        · split at he
          · simp only [List.mem_singleton] at he; subst he; rfl
          · cases he
      · refine anchored_of_no_quote lines e ?_
        split at he
        · cases he
        · split at he
          · simp only [List.mem_singleton] at he; subst he; rfl
          · cases he
      · refine anchored_of_no_quote lines e (foldl_no_quote _ _ _ (fun _ hx => (by cases hx)) ?_ e he)
        intro acc x hacc d' hd'
        split at hd'
        · exact hacc d' hd'
        · simp only [List.mem_append, List.mem_singleton] at hd'
          rcases hd' with hd' | rfl
          · exact hacc d' hd'
          · rfl
    · -- the SEQRES checks
      refine validateSeqres_anchored lines _ _ _ _ ?_ d hd
      intro l hl; rw [hfl.2.2.2] at hl; exact hinv.seqres l hl
    · refine addModifications_anchored lines _ _ ?_ d hd
      intro m hm; rw [hfl.1] at hm; exact hinv.mods m hm
    · refine addBonds_anchored lines _ _ ?_ d hd
      intro b hb; rw [hfl.2.1] at hb; exact hinv.bonds b hb
    · obtain ⟨x, _, rfl⟩ := List.mem_map.mp hd
      exact anchored_of_no_quote lines _ rfl

end PdbModel
