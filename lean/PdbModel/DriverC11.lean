import PdbModel.Sort
namespace PdbModel

def showTuple (h : HACRCM) : String :=
  s!"{encStr h.atom.id}/{encStr h.conformer.name}/{encOpt h.conformer.alt}/{h.residue.serial}/{encOpt h.residue.icode}/{encStr h.chain.id}/{h.model.serial}"

def mapConformers (p : PDB) (f : Conformer → Conformer) : PDB :=
  { models := p.models.map fun m => { m with chains := m.chains.map fun c =>
      { c with residues := c.residues.map fun r => { r with conformers := r.conformers.map f } } } }
def mapResidues (p : PDB) (f : Residue → Residue) : PDB :=
  { models := p.models.map fun m => { m with chains := m.chains.map fun c =>
      { c with residues := c.residues.map f } } }
def mapChains (p : PDB) (f : Chain → Chain) : PDB :=
  { models := p.models.map fun m => { m with chains := m.chains.map f } }

def handleC11 : List String → Option String
  | "sort" :: variant :: st => do
      let (p, _) ← parsePDB st
      let q ← match variant with
        | "full" => some p.fullSort
        | "models" => some p.sort
        | "chains" => some { models := p.models.map Model.sort }
        | "residues" => some (mapChains p Chain.sort)
        | "conformers" => some (mapResidues p Residue.sort)
        | "atoms" => some (mapConformers p Conformer.sort)
        | _ => none
      pure (unwords q.toks)
  | "renumber" :: st => do
      let (p, _) ← parsePDB st
      pure (unwords p.renumber.toks)
  | "find" :: serial :: alt :: st => do
      let (p, _) ← parsePDB st
      match p.binaryFindAtom (← serial.toNat?) (← decOpt alt) with
      | none => some "PANIC"
      | some none => some "none"
      | some (some h) => some (showTuple h)
  | "bond" :: s1 :: a1 :: s2 :: a2 :: st => do
      let (p, _) ← parsePDB st
      match p.binaryFindAtom (← s1.toNat?) (← decOpt a1), p.binaryFindAtom (← s2.toNat?) (← decOpt a2) with
      | some (some x), some (some y) => some s!"{encStr x.atom.id},{encStr y.atom.id}"
      | none, _ => some "PANIC"
      | _, none => some "PANIC"
      | _, _ => some "none"
  | _ => none

end PdbModel
