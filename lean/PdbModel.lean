import PdbModel.Basic
import PdbModel.Hier
import PdbModel.Level
import PdbModel.Props.C07
