import PdbModel.Basic
import PdbModel.Hier
import PdbModel.Level
import PdbModel.Props.C07
import PdbModel.Search
import PdbModel.Lemmas.Search
import PdbModel.Props.C12
