import PdbModel.Driver
open PdbModel

partial def loop (h : IO.FS.Stream) (out : IO.FS.Stream) : IO Unit := do
  let line ← h.getLine
  if line.isEmpty then return ()
  let l := if line.endsWith "\n" then (line.dropEnd 1).toString else line
  out.putStrLn (handle l)
  loop h out

def main : IO Unit := do
  let out ← IO.getStdout
  loop (← IO.getStdin) out
  out.flush
