#!/usr/bin/env python3
"""Confirm a seeded change (applies to /repo HEAD, compiles, the 130 pinned tests still pass), run the named
checks against it, and store it as /verif/seeded/<name>/ (patch.diff, demonstration, meta.json with what caught it).
usage: tools/keep_seed.py <name> <dir with patch.diff demo.rs demo.txt meta.json> <property id>...
/repo is restored afterwards; nothing is ever committed there."""
import subprocess, sys, os, json, shutil
ROOT = os.path.dirname(os.path.dirname(os.path.abspath(__file__)))

def main():
    name, src, ids = sys.argv[1], sys.argv[2], sys.argv[3:]
    patch = os.path.join(src, 'patch.diff')
    if subprocess.run(['git', '-C', '/repo', 'status', '--porcelain'], capture_output=True, text=True).stdout.strip():
        print('refusing: /repo has uncommitted changes'); sys.exit(2)
    if subprocess.run(['git', '-C', '/repo', 'apply', patch]).returncode != 0:
        print('patch does not apply'); sys.exit(2)
    res = {}
    try:
        b = subprocess.run([sys.executable, os.path.join(ROOT, 'tools', 'baseline.py')], capture_output=True, text=True)
        res['baseline_130_pass'] = b.returncode == 0
        res['baseline_line'] = b.stdout.strip().split('\n')[0] if b.stdout else ''
        res['checks'] = {}
        for pid in ids:
            p = subprocess.run([os.path.join(ROOT, 'check'), pid, '--quick'], capture_output=True, text=True, cwd=ROOT)
            lines = [l for l in (p.stdout + p.stderr).split('\n') if l.startswith('VIOLATION') or l.startswith(pid + ' ')]
            res['checks'][pid] = {'exit': p.returncode, 'output': lines}
            print(pid, 'exit', p.returncode)
    finally:
        subprocess.run(['git', '-C', '/repo', 'checkout', '--', '.'])
    dst = os.path.join(ROOT, 'seeded', name)
    os.makedirs(dst, exist_ok=True)
    for f in ('patch.diff', 'demo.rs', 'demo.txt', 'demo.md'):
        if os.path.exists(os.path.join(src, f)):
            shutil.copy(os.path.join(src, f), os.path.join(dst, f))
    meta = {}
    if os.path.exists(os.path.join(src, 'meta.json')):
        try:
            meta = json.load(open(os.path.join(src, 'meta.json')))
        except Exception:
            meta = {}
    meta['confirmed'] = res
    if name.startswith('R'):
        meta['kind'] = 'harmless'  # a behaviour-preserving refactoring: every check is expected to stay silent
        meta.setdefault('property', 'none (behaviour-preserving)')
        meta.setdefault('trigger', 'nothing: behaviour is unchanged')
    meta['caught_by'] = [k for k, v in res['checks'].items() if v['exit'] == 1]
    json.dump(meta, open(os.path.join(dst, 'meta.json'), 'w'), indent=1)
    print(name, 'baseline ok' if res['baseline_130_pass'] else 'BASELINE FAILS', 'caught by', meta['caught_by'])

if __name__ == '__main__':
    main()
