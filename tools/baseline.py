#!/usr/bin/env python3
"""Run the repository's test suite (guard off: no verification cfg is passed) and check that every
test of the pinned stable baseline (/root/.vp/BASELINE.json, 130 tests) passes.
Exit 0 iff all stable tests pass."""
import json, os, re, subprocess, sys
base = json.load(open('/root/.vp/BASELINE.json'))
stable = set(base['stable_pass'])
env = dict(os.environ, CARGO_NET_OFFLINE='true')
p = subprocess.run(['cargo', 'test', '--workspace', '--no-fail-fast', '--offline'], cwd='/repo',
                   env=env, stdout=subprocess.PIPE, stderr=subprocess.STDOUT, text=True)
out = p.stdout
passed = set()
failed = set()
current = None
for line in out.splitlines():
    m = re.match(r'\s*Running (?:unittests )?(\S+)', line)
    if m:
        f = m.group(1)
        if f.startswith('src/'):
            current = 'pdbtbx'
        else:
            current = 'pdbtbx::' + os.path.splitext(os.path.basename(f))[0]
        continue
    m = re.match(r'\s*Doc-tests', line)
    if m:
        current = None
        continue
    m = re.match(r'test (\S+) \.\.\. (ok|FAILED|ignored)', line)
    if m and current:
        name = current + '::' + m.group(1)
        (passed if m.group(2) == 'ok' else failed).add(name)
missing = sorted(stable - passed)
print(f'stable baseline: {len(stable)}  passed now: {len(stable & passed)}  missing/failing: {len(missing)}')
for m in missing:
    print('  NOT PASSING:', m)
sys.exit(0 if not missing else 1)
