#!/usr/bin/env python3
"""Regression over the stored seeded changes: apply every seeded/C*/patch.diff to /repo in turn (restored after each),
run the quick check of the property the change was written against and report the ones that are no longer caught.
A generator change shifts the random streams of everything generated after it, so a change that used to be caught by
chance can slip through afterwards; run this after touching a generator.   usage: tools/reseed_all.py [name-prefix]"""
import glob, json, os, subprocess, sys
ROOT = os.path.dirname(os.path.dirname(os.path.abspath(__file__)))
pre = sys.argv[1] if len(sys.argv) > 1 else 'C'
missed = []
for d in sorted(glob.glob(os.path.join(ROOT, 'seeded', pre + '*'))):
    name = os.path.basename(d)
    if not name.startswith('C'):
        continue
    pid = name[:3]
    p = subprocess.run([sys.executable, os.path.join(ROOT, 'tools', 'try_seed.py'), os.path.join(d, 'patch.diff'), pid],
                       capture_output=True, text=True)
    last = (p.stdout.strip().split('\n') or [''])[-1]
    try:
        ok = json.loads(last).get(pid) == 1
    except Exception:
        ok = False
    print(('caught ' if ok else 'MISSED ') + name, flush=True)
    if not ok:
        missed.append(name)
print(f'{len(missed)} missed: {missed}')
sys.exit(1 if missed else 0)
