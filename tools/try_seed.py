#!/usr/bin/env python3
"""Apply a seeded change to /repo, run the quick (or thorough) checks named on the command line, undo the change.
usage: tools/try_seed.py <patch.diff> [--thorough] <property id>...      (prints one line per check)
The change is never committed; /repo is restored with `git checkout -- .` even when a check crashes."""
import subprocess, sys, os, json
ROOT = os.path.dirname(os.path.dirname(os.path.abspath(__file__)))

def main():
    args = sys.argv[1:]
    patch = os.path.abspath(args[0])
    mode = '--quick'
    ids = []
    for a in args[1:]:
        if a == '--thorough':
            mode = '--thorough'
        else:
            ids.append(a)
    dirty = subprocess.run(['git', '-C', '/repo', 'status', '--porcelain'], capture_output=True, text=True).stdout.strip()
    if dirty:
        print('refusing: /repo has uncommitted changes'); sys.exit(2)
    r = subprocess.run(['git', '-C', '/repo', 'apply', patch], capture_output=True, text=True)
    if r.returncode != 0:
        print('patch does not apply:', r.stderr); sys.exit(2)
    results = {}
    try:
        for pid in ids:
            p = subprocess.run([os.path.join(ROOT, 'check'), pid, mode], capture_output=True, text=True, cwd=ROOT)
            lines = [l for l in (p.stdout + p.stderr).split('\n') if l.startswith('VIOLATION') or l.startswith(pid + ' ')]
            results[pid] = {'exit': p.returncode, 'lines': lines}
            print(pid, 'exit', p.returncode, '|', ' ; '.join(l[:160] for l in lines))
    finally:
        subprocess.run(['git', '-C', '/repo', 'checkout', '--', '.'])
        subprocess.run(['git', '-C', '/repo', 'clean', '-fdq', '--', 'src'])
    print(json.dumps({k: v['exit'] for k, v in results.items()}))

if __name__ == '__main__':
    main()
