#!/usr/bin/env python3
"""Rewrite the dispositions table of DESIGN.md §11.4 from known_findings.json."""
import json, os
ROOT = os.path.dirname(os.path.dirname(os.path.abspath(__file__)))
d = json.load(open(os.path.join(ROOT, 'known_findings.json')))
rows = []
for x in d:
    what = x['what'].replace('|', '\\|').replace('\n', ' ')
    st = 'fixed `' + x['commit'] + '`' if x['status'] == 'fixed' else '**open**'
    rows.append(f"| {x['property']} | {st} | `{x['id']}` | {what} |")
p = os.path.join(ROOT, 'DESIGN.md')
s = open(p).read()
head = '| property | status | id | what failed |\n|---|---|---|---|\n'
a = s.index(head) + len(head)
b = s.index('\nWhy the open ones are not repaired')
s = s[:a] + '\n'.join(rows) + '\n' + s[b:]
open(p, 'w').write(s)
print(len(rows), 'findings;', sum(1 for x in d if x['status'] == 'open'), 'open')
