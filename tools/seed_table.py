#!/usr/bin/env python3
"""Rewrite the catch matrix of DESIGN.md §11.6 (between the SEEDED-TABLE markers) from seeded/*/meta.json."""
import json, os, glob
ROOT = os.path.dirname(os.path.dirname(os.path.abspath(__file__)))
rows = []
for d in sorted(glob.glob(os.path.join(ROOT, 'seeded', '*'))):
    m = json.load(open(os.path.join(d, 'meta.json')))
    name = os.path.basename(d)
    checks = m.get('confirmed', {}).get('checks', {})
    how = []
    for k, v in checks.items():
        for l in v['output']:
            if l.startswith('VIOLATION'):
                how.append(l.split('replay=')[1].split('/')[-1].replace('.case', ''))
    silent = [k for k, v in checks.items() if v['exit'] != 1 and k not in m.get('caught_by', [])]
    cell = lambda t, n: str(t).replace('|', '/').replace('\n', ' ')[:n]
    rows.append(f"| `{name}` | {cell(m.get('summary', ''), 200)} | {cell(m.get('trigger', ''), 170)} | "
                f"{', '.join(m.get('caught_by', [])) or '—'} | {cell('; '.join(sorted(set(how))), 170)} | "
                f"{cell(m.get('note', ''), 260)}{(' Also run, silent: ' + ', '.join(silent)) if silent else ''} |")
table = ("| seeded change | what was changed | needs | caught by (quick) | replay(s) | note |\n|---|---|---|---|---|---|\n"
         + '\n'.join(rows))
p = os.path.join(ROOT, 'DESIGN.md')
s = open(p).read()
a = s.index('<!-- SEEDED-TABLE-BEGIN -->')
b = s.index('<!-- SEEDED-TABLE-END -->')
s = s[:a] + '<!-- SEEDED-TABLE-BEGIN -->\n' + table + '\n' + s[b:]
open(p, 'w').write(s)
print(len(rows), 'seeded changes')
