#!/usr/bin/env python3
"""Regenerate MANIFEST.json from the table below (kept in one place so it stays valid)."""
import json, os
ROOT = os.path.dirname(os.path.dirname(os.path.abspath(__file__)))
NOTE = ("Trusted: Lean 4.33 kernel and the axioms printed per theorem in the evidence (propext, Classical.choice, "
        "Quot.sound only unless stated); the hand-written Lean model is tied to /repo by a differential "
        "correspondence check (Rust harness running the real code in-process vs the compiled model driver) and by "
        "implementation-side oracles; harness generators, canonical dumps and oracles are trusted. ")
CHECKS = {
 'C07': dict(text="Theorems: the fails table (all 15 pairs), monotonicity, gate accepts iff no diagnostic fails / rejection lists non-empty, "
                  "acceptance monotone across levels, validating save refuses without touching the file store. Tie: exhaustive 15 pairs; every generated "
                  "PDB/mmCIF input read at the three levels with the model's gate applied to the diagnostics the reader returned; save entry points x levels x "
                  "{absent,present} target in a scratch directory.",
             note="Real file system and the readers' diagnostics production are exercised, not modelled; cross-level equality of hierarchy is an implementation-side oracle.",
             technique="Lean 4 theorems about the gate model + differential correspondence + cross-level oracle", ref="DESIGN §7 C07"),
 'C12': dict(text="Theorems (generic in term type and matchers, any expression depth, any structure): simplify preserves the Kleene value, add-info = evaluation with merged valuation, "
                  "complete = Kleene value, pruning on Known(false) is sound, and at each of the five entry points the pruned find equals the unpruned three-valued filter over atoms-with-hierarchy in traversal order. "
                  "Tie: exhaustive expression trees over a 12-term alphabet (depth 1 quick, 2 thorough) plus random trees to depth 8, at all five entry points, find and find_mut; oracle = independent Kleene evaluator in Rust.",
             note="B-factor/occupancy terms are compared on two-decimal values (the code compares with f64::EPSILON); reference tables AMINO_ACIDS/BACKBONE_NAMES are regenerated from the source.",
             technique="Lean 4 structural induction over expression trees and hierarchy lists + differential correspondence", ref="DESIGN §7 C12"),
 'C08': dict(text="Theorems: for every history of add-atom calls with valid identifiers on an empty residue/chain/model the result equals the declarative nested grouping of the normalised calls "
                  "(keys in order of first appearance, each child built from exactly the calls carrying its key, in order); identifiers pairwise distinct at every level (also as a one-step invariant from any duplicate-free state, "
                  "including Chain::add_atom's search from the back); the atoms under an identifier path are exactly the calls with that path in call order. Tie: all histories of length <= 4 over a 24-call alphabet with case/padding variants "
                  "(thorough; 1% of length 4 in quick), random histories to length 400, refused identifiers (panic in both).",
             note="Panics on invalid identifiers are the guard of the theorems (mapM normalise = some); state after a caught panic is not compared.",
             technique="Lean 4 induction over histories (fold = declarative grouping) + differential correspondence", ref="DESIGN §7 C08"),
 'C09': dict(text="Theorems (all structures incl. empty containers): every count accessor equals the length of its traversal at every level (plain structure counts = first model, total counts = all models); "
                  "flat iterators equal the nested traversal through any intermediate level; index accessors are the n-th element or nothing; reverse is the exact reverse; atoms of the hierarchy tuples are the flat atom list and every tuple names the atom's actual ancestors. "
                  "Tie: every count / iterator / index accessor / hierarchy accessor at every level, their _mut twins (tag through &mut, read back: each element exactly once) and par_ twins under pools of 1, 2, 3, 8, 16 threads, on ragged structures.",
             note="Thread schedules and raw-pointer aliasing of the *_mut tuples are not modelled: parallel/mutable variants are specified equal to the sequential ones and exercised by the tie only.",
             technique="Lean 4 list inductions (length/flatMap) + differential correspondence incl. thread pools", ref="DESIGN §7 C09"),
 'C11': dict(text="Theorems: at every level the sort result is ordered by the identifier, a permutation of the input, and stable (every ordered sub-sequence of the input survives in order); the full sort orders all five levels and permutes the atoms; "
                  "renumbering yields model numbers, per-model atom serials and residue numbers 1,2,... in traversal order, cleared insertion codes, cleared altlocs in single-conformer residues and letter codes otherwise, letter-code chain ids; letter codes are pairwise distinct (number_to_base26 injective); renumbering is idempotent; "
                  "bisection over a probe-partitioned list equals the linear scan (generic) and Conformer::binary_find_atom equals the linear scan on ascending serials. "
                  "Tie: sort variants (sequential and parallel, pools 1-16) on structures with duplicate/unordered identifiers and many ties; renumber; every present and sampled absent (serial, altloc) query on renumbered structures, binary_find_atom and _mut; add_bond + bonds().",
             note="PARTIAL: the four-level composition 'PDB::binary_find_atom = linear scan on every renumbered structure' is proved only in its generic bisection core and at conformer level; the chain/model/structure composition is decided by the correspondence and the oracle (exhaustive over present pairs). Parallel sorts are exercised, schedules not modelled.",
             technique="Lean 4 (core mergeSort stability/permutation lemmas, inductions for renumber, bisection = find) + differential correspondence", ref="DESIGN §7 C11"),
 'C10': dict(text="Theorems, one frame-and-effect statement per operation family: remove_*_by = filter of exactly the matching elements with every container keeping identifier and position; by-identifier/serial/name removal = eraseP (first match only) and reports existence; index removal/insertion exact in range, refused otherwise; "
                  "remove_empty leaves no empty container at any level, keeps all atoms in order; remove_models_except keeps exactly the listed models in original order and reports the number removed, or refuses without change; join/extend are concatenations keeping the receiver's own data; setters store the normalised value or leave the element unchanged. "
                  "Tie: after every step of histories over 73 operation kinds (result token + fingerprint per step, full snapshot at the end): all histories of length <= 2 (quick) / 3 (thorough) over a fixed 40-operation alphabet on three seed structures, random histories to length 200, out-of-range paths and indices, rejected texts and non-finite numbers; par_ twins under pools 1-16.",
             note="A Rust panic (Vec::remove / insert out of range) is modelled as `none` and the history stops there on both sides; state after a panic is not compared. Element inference inside Atom::new is outside this property (atoms enter the model as constructed).",
             technique="Lean 4 theorems over list functions (filter/eraseP/flatMap) + step-by-step differential correspondence of operation histories", ref="DESIGN §7 C10"),
 'C18': dict(text="Theorems: validate (mirrored push by push, incl. the index loop of validate_models) equals the declarative rule list in order and multiplicity; 'No Atoms' iff no atom; one correspondence diagnostic per differing position; Atom::corresponds is exactly equality on serial, name, element, charge and tensor presence; "
                  "validate_pdb = validate ++ column diagnostics; exactly one diagnostic per atom value outside its column; no column diagnostic iff every value lies in the documented range (both ends). "
                  "Tie: 0-4 models of equal or different shape, atoms differing in one field, every validated field at / inside / outside both ends; diagnostics compared in order with the model; oracle = independent transcription of the documented rules.",
             note="Ranges are in units of 1e-6 on decimal-exact values; the relation 'fits its column iff the C03 field round trip is the identity' is part of C03.",
             technique="Lean 4 theorems (loop = zip specification, nil-iff-in-range) + differential correspondence", ref="DESIGN §7 C18"),
 'C17': dict(text="Theorems, decided by the kernel (decide +kernel) over the whole finite domain on data REGENERATED from src/reference/*.txt on every run: table lengths 230; for every i in 1..230 from_index(i), new(hm i), new(hall i) give group i; indices 0 and 231 are refused; Z = number of operators with the identity first; "
                  "for every group the operators are pairwise distinct, have rotation entries -1/0/1, determinant +-1, translations in twelfths, and are closed under composition modulo whole-cell translations (230 per-group kernel checks, 284 089 products); bridging lemmas relate the residue arithmetic to integer matrices. "
                  "Tie: exhaustive over indices 0..=231 and every table symbol: from_index, index, both symbols, z, transformations (re-encoded from the f64 matrices), Symmetry::new; oracle additionally checks closure in integer arithmetic, transformations_absolute for three cells, and the CRYST1 / mmCIF round trip of every group at every writer level.",
             note="Translator trusted for: parsing the three literal arrays, mapping each float to the nearest twelfth / integer (refuses when further than 1e-7 / 1e-9). CRYST1 and mmCIF round trips are decided by the tie and oracle only (writer/reader models belong to C03/C04). Open finding: 10 groups whose symbols exceed the 11-column CRYST1 field.",
             technique="Lean 4 decide +kernel over regenerated tables (translator) + exhaustive differential correspondence", ref="DESIGN §7 C17"),
 'C13': dict(text="Theorems in every commutative ring: identity, combined transformation = parts applied in the stated order (hence associativity), axis rotations preserve squared distances and dot products of difference vectors for every (s, c) with s^2+c^2=1, translations shift, magnification scales squared distances by f^2, multiply_translation scales only the translation; "
                  "at every level applying a transformation maps each atom's position and changes nothing else. Tie (exact, bit for bit): integer rotation parts and 1/8-multiple translations/points, for which every product and sum (also through mul_add) is exact in f64, compared with the model instantiated at Int; compositions of 2-6 factors; constructor layouts (rotations symbolically through sin/cos stand-ins); "
                  "apply_transformation and par_apply_transformation at six levels under pools of 1-16 threads.",
             note="IEEE rounding on non-representable values and sin_cos are not modelled (rotation isometry is additionally checked numerically on the implementation with relative tolerance 1e-9); thread schedules not modelled.",
             technique="Lean 4 + Mathlib ring / linear_combination over an arbitrary commutative ring + exact differential correspondence at the Int instance", ref="DESIGN §7 C13"),
 'C14': dict(text="Theorems (exact decimals as Int): squared atom distance symmetric, non-negative, zero iff coincident; bounding box = none iff no atom, otherwise every atom inside and every face attained (tightest box); contact predicate symmetric and equal to 'some atom pair closer than the cut-off'; "
                  "wrapped squared distance in an orthogonal cell containing both atoms = minimum over the 27 neighbouring images (and is one of them); overlap predicates are none exactly when a radius is missing and otherwise d <= r_a + r_b with radii REGENERATED from elements.rs. "
                  "R*-tree clause (rstar's code; specification = brute force scan): DECIDED BY THE CORRESPONDENCE ALONE - tree size = atom count, every atom once, radius queries of the atom tree and the hierarchy tree (with actual ancestors) and nearest neighbour equal the brute-force scan. "
                  "Tie: k/8 coordinates (squares exact in f64), coincident atoms, cut-offs and radii on half-steps so that no query lies on a rounding tie.",
             note="sqrt is avoided by comparing squares; IEEE rounding on arbitrary coordinates not modelled; the map-building loop of chains_in_contact is tied by correspondence (its predicate is proved).",
             technique="Lean 4 + Mathlib (ring, nlinarith, omega) on Int-valued geometry + regenerated radii + differential correspondence; R*-tree by brute-force comparison", ref="DESIGN §7 C14"),
 'C16': dict(text="Theorems: for every schedule (any interleaving of any number of threads' atomic fetch-and-add steps) the identities handed out are pairwise distinct and not below the initial counter (hence distinct from all earlier atoms); a non-atomic counter is shown to duplicate (why atomicity is assumed); "
                  "on a structure whose bonds were created on its own atoms listing bonds never fails; the clone (fresh identities, remapped table) resolves to exactly the same atom positions, is again well bonded, and has the same position-wise bond view used by equality; add_bond records exactly the two atoms found or changes nothing. "
                  "Tie: structures with bonds from SSBOND records, add_bond and connect_atoms x {clone, serde value round trip, second read} x later edits: equality, full snapshot, bonds as position pairs (model computes the clone's resolved bonds from the identities and bond table seen through serde); 1-16 threads creating and cloning atoms concurrently.",
             note="Atomicity of fetch_add (std::sync::atomic) is assumed; real threads are exercised, schedules not enumerated. A deserialised copy keeps the stored identities (not 'created or cloned'): outside the statement. Hierarchy/field equality of copies is plain data equality.",
             technique="Lean 4 theorems over an identity/bond-table model (all schedules) + differential correspondence + concurrent stress", ref="DESIGN §7 C16"),
 'C01': dict(text="Model: the whole fixed-column reader (lexer of 20 record types with byte/char slicing and Rust's number grammars, parser state machine with serial wrap, ANISOU attachment, chain letters, MODEL/MASTER handling, database references, matrices, reshuffle of shared atoms, remark merging, modifications, SSBOND, validation, gate) in Lean. "
                  "Theorems: a field without diagnostic is exactly the parsed text of its columns; a missing/unparsable field yields an InvalidatingError anchored to its line; a returned structure carries no diagnostic that fails the level, hence no InvalidatingError, hence no defaulted numeric field. "
                  "Tie: generated well-formed documents (metadata in legal order, 1-3 models, interleaved/blank chain ids with TER, negative and inserted residue numbers, mixed case, partial and full altlocs, ANISOU, DBREF/SEQADV/MODRES, random justification, CRLF) x levels, compared on the full canonical dump (hierarchy, every atom field, metadata, bonds, diagnostics with line numbers); every single-field corruption (blank, garbage, truncation) of numeric ATOM fields; a 100 050-atom wrap document. Oracle: independent column-slicing reference reader.",
             note="PARTIAL: the grouping / wrap / occupancy-sum statements are decided by the correspondence and the independent reference reader, not yet by theorems. SEQRES validation is not modelled (inputs with SEQRES are compared on totality only). Float parsing of texts with more than 6 decimals is compared by outcome class only.",
             technique="Lean 4 model of the reader + theorems on field exactness and the gate + differential correspondence + independent reference reader", ref="DESIGN §7 C01"),
 'C05': dict(text="Theorem (C05_context_lines, by induction over the input lines with an invariant on the parser state and through every post-processing step): every diagnostic the reader returns, with a structure or as a rejection list, quotes for each line-anchored context the text that stands at the reported line number of the input. "
                  "Totality of the model is by construction (after the repairs every slice in the code is str::get / slice::get or under a length guard and the model uses exactly those partial primitives); absence of panics IN THE CODE is decided by fault enumeration: every prefix of a canonical line of each of 21 record types, every single-column substitution by 9 character classes (blank, digit, letter, signs, dot, 2-byte, NUL, U+2028), insertion and deletion, multi-fault mutations of generated files (line drop/duplicate/swap, control and non-ASCII characters, nan/inf/1e400, invalid UTF-8, CRLF), x option flags x levels; "
                  "outcome class, diagnostics multiset with line numbers and (when accepted) the full dump are compared with the Lean reader model; Display/Debug of every diagnostic is called; quoted lines are compared with the input.",
             note="level claimed = proof for the line-number statement, fault_enumeration for 'never panics' (recorded in the evidence); SEQRES validation is not modelled (those inputs are checked for totality and line quoting only); BufRead::lines and the Display text itself are not modelled.",
             technique="Lean 4 invariant proof over the reader model + fault enumeration with differential correspondence", ref="DESIGN §7 C05"),
 'C03': dict(text="Model: the PDB writer (get_line/print_line cells, every record emitter of save_pdb_raw, three writer levels) as a Lean function to bytes. Theorems on the cell writer the round trip rests on: every cell has exactly its width; a text that fits and is not a zero-led number is written verbatim, left aligned, and the reader's trim returns it (C03_cell_text_round_trip); an all-digit text that fits is written without its leading zeros and trim+parse::<usize> reads the same number (C03_cell_number_round_trip). "
                  "Tie: generated full structures (1-3 models, metadata present/absent, all 230 groups, values at/inside/just outside every column limit, negative and inserted residue numbers, altlocs, ANISOU, DBREF/SEQADV/MODRES, bonds) x three writer levels: the real writer's bytes are compared with the model's byte for byte; the file is re-read at three reader levels by the real reader and compared field by field (numbers rounded to column precision) with the original; the second write must be byte identical; files with SEQRES are also re-read with those lines removed; 'fits the documented ranges => validate_pdb silent' on every case generated in-range; a sequentially numbered structure of 100 500 atoms goes through the Loose round trip.",
             note="PARTIAL: the full write->read identity is not a theorem (only the cell-level lemmas are); it is decided per case by the implementation-side oracle on the real writer and reader, and the writer model is tied byte for byte. Open findings (known_findings.json): SEQRES written at Strict / with DBREF is not re-readable; Hermann-Mauguin symbols longer than 11 characters. f64 formatting is modelled on micro-unit decimals.",
             technique="Lean 4 model of the writer + cell round-trip theorems + byte-exact differential correspondence + write/read/write oracle on the real code", ref="DESIGN §7 C03"),
 'C06': dict(text="Model: the whole mmCIF reader - CIF lexer (comments, quoted strings, text fields, numbers with sign/decimal/exponent/uncertainty, reserved words, loops, save frames) and parser (cell, symmetry, scale/origx/NCS matrices, atom_site loop with 27 columns, option flags, reshuffle, validate, gate) - as total Lean functions on every character sequence. Theorems: every loop of the lexer consumes input (C06_value_consumes, C06_data_item_consumes, C06_item_consumes - these are the termination proofs Lean demanded of the definitions, so the model never loops); the reader always classifies: a structure whose diagnostics all pass the level, or a rejection list with a failing diagnostic (C06_classifies); a lexer failure is one BreakingError. "
                  "Absence of panics IN THE CODE is decided by fault enumeration: every prefix of a reference file and of generated files, every single-token replacement by 38 token classes (reserved words, quotes, semicolons, '.', '?', huge numbers, non-ASCII, form feed...), token deletion, 70 structural faults (loop without header, header without values, unterminated quote / text field / save frame, out-of-range cell, matrix and space-group items), multi-fault mutations of grammar-generated documents and invalid UTF-8, x 8 option sets x 3 levels, under catch_unwind; Display/Debug of every diagnostic is called; outcome class, diagnostics multiset and (when accepted) the full dump are compared with the Lean model.",
             note="level claimed = proof for termination/classification of the model, fault_enumeration for 'never panics' of the Rust code (recorded in the evidence); line/column positions of diagnostics are not modelled; f64 rounding noise of parse_numeric: values are compared in micro-units, numbers with more than 15 significant digits only by outcome class.",
             technique="Lean 4 termination + classification proofs over the reader model + fault enumeration with differential correspondence", ref="DESIGN §7 C06"),
}
NOT_APPLICABLE = {}
ALL = ['C%02d' % i for i in range(1, 19)]

def main():
    checks = []
    for pid in ALL:
        if pid in CHECKS:
            c = CHECKS[pid]
            checks.append({
                'property_id': pid,
                'quick_cmd': f'./check {pid} --quick',
                'thorough_cmd': f'./check {pid} --thorough',
                'evidence_file': f'evidence/{pid}.json',
                'replay_cmd_template': f'./check {pid} --replay {{path}}',
                'engine': 'lean-proof+correspondence',
                'level_claimed': {'category': 'proof', 'text': c['text'], 'design_ref': c['ref']},
                'level_note': NOTE + c['note'],
                'technique': c['technique'],
            })
    na = [{'property_id': p, 'reason': NOT_APPLICABLE.get(p, 'not yet claimed: machinery for this property is still being built (see DESIGN §10 order of work)')}
          for p in ALL if p not in CHECKS]
    m = {
        'version': 1,
        'setup_cmd': 'sh tools/setup.sh',
        'hooks': {'guard': 'pdbtbx_verif', 'enable': 'no hook is needed: the checks use the public API only (RUSTFLAGS="--cfg pdbtbx_verif" is reserved)',
                  'baseline_off_cmd': 'python3 tools/baseline.py', 'source_commits': [], 'add_only': True},
        'engines': [{'name': 'lean-proof+correspondence', 'path': 'check', 'serves_properties': sorted(CHECKS),
                     'kind_free_text': 'Lean 4 theorems about a hand-written model (lean/), compiled model driver, Rust differential harness (harness/), python driver (check)'}],
        'checks': checks,
        'notes': 'fix: commits in /repo and findings are listed in known_findings.json; see DESIGN.md',
        'not_applicable': na,
    }
    with open(os.path.join(ROOT, 'MANIFEST.json'), 'w') as f:
        json.dump(m, f, indent=1)
        f.write('\n')

if __name__ == '__main__':
    main()
