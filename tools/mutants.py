#!/usr/bin/env python3
"""mutants.py — mutation sweep: how many small, compiling, test-passing changes of /repo do the quick checks notice?

This is a self-assessment tool, not a registered check.  It never touches /repo: every worker owns a scratch
copy of the repository and of the harness under --scratch (default /root/mut, removed at the end), builds the
harness against the mutated copy, and runs the harness + compiled Lean driver + comparison of `check` for the
properties in turn until one of them reports a new oracle failure, a model disagreement or a killed run.
A mutant no property notices is then run through the repository's own tests; if they pass too it is a SURVIVOR
and is written to the result file for triage (equivalent / outside every property / a gap in the checks).

  tools/mutants.py list  [--seed N] [--per-file K]          print the sampled mutants as JSON lines
  tools/mutants.py run   <list.jsonl> <results.jsonl> [--workers 8]
  tools/mutants.py one   <file> <line> <operator-index>       (debug) show the mutated line
"""
import importlib.machinery, importlib.util, json, os, random, re, shutil, subprocess, sys, time, glob
from concurrent.futures import ThreadPoolExecutor

ROOT = os.path.dirname(os.path.dirname(os.path.abspath(__file__)))
REPO = '/repo'
ENV = dict(os.environ, CARGO_NET_OFFLINE='true')

OPS = [
    (r' < ', ' <= '), (r' <= ', ' < '), (r' > ', ' >= '), (r' >= ', ' > '), (r' == ', ' != '), (r' != ', ' == '),
    (r' && ', ' || '), (r' \|\| ', ' && '),
    (r' \+ ', ' - '), (r' - ', ' + '), (r' \* ', ' / '), (r' / ', ' * '), (r' % ', ' / '),
    (r' \+= ', ' -= '), (r' -= ', ' += '),
    (r'\btrue\b', 'false'), (r'\bfalse\b', 'true'),
    (r'\bif !', 'if '), (r'\.filter\(\|(\w+)\| !', r'.filter(|\1| '),
    (r'\.trim\(\)', ''), (r'\.trim_start\(\)', ''), (r'\.trim_end\(\)', ''),
    (r'\.to_uppercase\(\)', '.to_string()'), (r'\.to_ascii_uppercase\(\)', '.to_string()'),
    (r'\.min\(', '.max('), (r'\.max\(', '.min('),
    (r'\.skip\(1\)', '.skip(0)'), (r'\.rev\(\)', ''),
    (r'\.is_some\(\)', '.is_none()'), (r'\.is_none\(\)', '.is_some()'),
    (r'\.is_empty\(\)', '.len() == 1'),
    (r'\.any\(', '.all('), (r'\.all\(', '.any('),
    (r'\.first\(\)', '.last()'), (r'\.last\(\)', '.first()'),
    (r'\.floor\(\)', '.ceil()'), (r'\.ceil\(\)', '.floor()'), (r'\.round\(\)', '.floor()'), (r'\.abs\(\)', ''),
    (r'\.unwrap_or\(0\)', '.unwrap_or(1)'),
    (r'\bOrdering::Less\b', 'Ordering::Greater'), (r'\bOrdering::Greater\b', 'Ordering::Less'),
    (r'(?<![\w\.])(\d+)(?![\w\.\d])', 'INC'),          # integer literal n -> n + 1
    (r'(?<![\w\.])(\d+)\.\.(=?)(\d+)(?![\w\.])', 'RANGE'),  # a..b -> a..b+1
    (r'^(\s*)([A-Za-z_][\w\.]*(?:\(\))?)\.(push|push_str|insert|extend|remove|sort\w*|dedup\w*|retain|clear|truncate|set_\w+|reverse|swap)\((.*)\);\s*$', 'DELETE'),
    (r'^(\s*)(continue|break);\s*$', 'SWAPCB'),
    (r'^(\s*)return (Some|Ok|Err|None|true|false)\b', 'NORETURN'),
]

SKIP_FILES = ('reference_tables.rs',)


def code_lines(path):
    """yield (lineno, line) of lines that are code: outside #[cfg(test)] tail modules, not comments/attributes"""
    src = open(path).read().split('\n')
    out = []
    in_test = False
    for i, l in enumerate(src):
        st = l.strip()
        if st.startswith('#[cfg(test)]'):
            in_test = True
        if in_test:
            continue
        if not st or st.startswith('//') or st.startswith('#[') or st.startswith('#!') or st.startswith('use ') \
                or st.startswith('pub use ') or st.startswith('mod ') or st.startswith('pub mod '):
            continue
        out.append((i, l))
    return out


def in_string_or_comment(line, pos):
    q = 0
    j = 0
    while j < pos:
        c = line[j]
        if c == '\\':
            j += 2
            continue
        if c == '"':
            q ^= 1
        if not q and line[j:j + 2] == '//':
            return True
        j += 1
    return bool(q)


def sites():
    res = []
    for path in sorted(glob.glob(os.path.join(REPO, 'src', '**', '*.rs'), recursive=True)):
        if os.path.basename(path) in SKIP_FILES:
            continue
        rel = os.path.relpath(path, REPO)
        for (i, l) in code_lines(path):
            for k, (pat, rep) in enumerate(OPS):
                for m in re.finditer(pat, l):
                    if in_string_or_comment(l, m.start()):
                        continue
                    new = mutate_line(l, k, m)
                    if new is None or new == l:
                        continue
                    res.append({'file': rel, 'line': i + 1, 'op': k, 'col': m.start(), 'old': l.strip(), 'new': new.strip(),
                                '_new_raw': new})
    return res


def mutate_line(l, k, m):
    pat, rep = OPS[k]
    if rep == 'INC':
        n = int(m.group(1))
        # leave generic array sizes / tuple-field indices alone
        return l[:m.start()] + str(n + 1) + l[m.end():]
    if rep == 'RANGE':
        return l[:m.start()] + f'{m.group(1)}..{m.group(2)}{int(m.group(3)) + 1}' + l[m.end():]
    if rep == 'DELETE':
        return m.group(1) + '// (statement removed)'
    if rep == 'SWAPCB':
        return m.group(1) + ('break;' if m.group(2) == 'continue' else 'continue;')
    if rep == 'NORETURN':
        return None
    return l[:m.start()] + m.expand(rep) + l[m.end():]


def sample(seed, per_file):
    rnd = random.Random(seed)
    all_sites = sites()
    byfile = {}
    for s in all_sites:
        byfile.setdefault(s['file'], []).append(s)
    chosen = []
    for f, lst in sorted(byfile.items()):
        rnd.shuffle(lst)
        inc = [s for s in lst if OPS[s['op']][1] in ('INC', 'RANGE')]
        other = [s for s in lst if OPS[s['op']][1] not in ('INC', 'RANGE')]
        chosen.extend(other[:per_file] + inc[:max(2, per_file // 3)])
    return all_sites, chosen


# ----------------------------------------------------------------------------------------------

def load_check():
    loader = importlib.machinery.SourceFileLoader('vcheck', os.path.join(ROOT, 'check'))
    spec = importlib.util.spec_from_loader('vcheck', loader)
    mod = importlib.util.module_from_spec(spec)
    loader.exec_module(mod)
    return mod


PROPS = ['C%02d' % i for i in range(1, 19)]
# which properties to try first for a file (all the others follow)
FIRST = [
    ('src/read/pdb', ['C01', 'C05', 'C03', 'C07', 'C15']),
    ('src/read/mmcif', ['C02', 'C06', 'C04', 'C07', 'C15']),
    ('src/read/general', ['C15', 'C07']),
    ('src/save/pdb', ['C03', 'C15', 'C07', 'C17']),
    ('src/save/mmcif', ['C04', 'C15', 'C17']),
    ('src/save/general', ['C15', 'C07']),
    ('src/validate', ['C18', 'C03', 'C07']),
    ('src/transformation', ['C13', 'C17']),
    ('src/structs/search', ['C12']),
    ('src/structs/atom.rs', ['C14', 'C10', 'C16', 'C01', 'C18']),
    ('src/structs/conformer', ['C08', 'C10', 'C09', 'C11', 'C13']),
    ('src/structs/residue', ['C08', 'C10', 'C09', 'C11', 'C13']),
    ('src/structs/chain', ['C08', 'C10', 'C09', 'C11', 'C13']),
    ('src/structs/model', ['C08', 'C10', 'C09', 'C11', 'C13']),
    ('src/structs/pdb', ['C09', 'C10', 'C11', 'C14', 'C16', 'C13']),
    ('src/structs/symmetry', ['C17']),
    ('src/structs/unit_cell', ['C17', 'C14', 'C03']),
    ('src/structs/hierarchy', ['C09', 'C12', 'C14']),
    ('src/structs', ['C09', 'C10', 'C16', 'C03']),
    ('src/error', ['C05', 'C07', 'C06']),
    ('src/strictness', ['C07']),
]


def order_for(file):
    for pre, first in FIRST:
        if file.startswith(pre):
            return first + [p for p in PROPS if p not in first]
    return PROPS


def run_one(chk, wdir, mut, log):
    """returns a result dict"""
    repo = os.path.join(wdir, 'repo')
    harness = os.path.join(wdir, 'harness')
    path = os.path.join(repo, mut['file'])
    orig = open(path).read()
    lines = orig.split('\n')
    assert lines[mut['line'] - 1].strip() == mut['old'], (mut, lines[mut['line'] - 1])
    lines[mut['line'] - 1] = mut['_new_raw']
    res = dict((k, v) for k, v in mut.items() if not k.startswith('_'))
    t0 = time.time()
    try:
        open(path, 'w').write('\n'.join(lines))
        p = subprocess.run(['cargo', 'build', '--offline', '-j', '4'], cwd=harness, env=ENV, stdout=subprocess.PIPE,
                           stderr=subprocess.STDOUT, text=True)
        if p.returncode != 0:
            res['outcome'] = 'does-not-compile'
            return res
        vh = os.path.join(harness, 'target', 'debug', 'vharness')
        for prop in order_for(mut['file']):
            outdir = os.path.join(wdir, 'work', prop)
            os.makedirs(outdir, exist_ok=True)
            for f in glob.glob(os.path.join(outdir, '*')):
                if os.path.isfile(f):
                    os.remove(f)
            corpus = sorted(glob.glob(os.path.join(ROOT, 'corpus', prop, '*.case')))
            env = dict(ENV, VERIF_CASE_TIMEOUT_S='120')
            with open(os.path.join(outdir, 'harness.stderr'), 'w') as err:
                try:
                    hp = subprocess.run([vh, 'run', prop, 'quick', '1', outdir] + corpus, env=env, cwd=wdir,
                                        stdout=subprocess.PIPE, stderr=err, text=True, timeout=1800)
                    rc = hp.returncode
                except subprocess.TimeoutExpired:
                    rc = 99
            if rc != 0:
                res['outcome'] = 'caught'
                res['by'] = prop
                res['how'] = f'run killed (status {rc})'
                return res
            rc, _ = chk.run_model(prop, outdir)
            if rc != 0:
                res['outcome'] = 'caught'
                res['by'] = prop
                res['how'] = 'model driver failed'
                return res
            cases, reqs, dis, fails = chk.compare(prop, outdir)
            open_f = [f for f in chk.load_findings(prop) if f.get('status') == 'open']
            new_fails = [(i, c, fl) for (i, c, fl) in fails if not any(chk.finding_matches(f, fl) for f in open_f)]
            known_idx = {i for (i, c, fl) in fails if any(chk.finding_matches(f, fl) for f in open_f)}
            dis_new = [d for d in dis if d[0] not in known_idx]
            if new_fails or dis_new:
                res['outcome'] = 'caught'
                res['by'] = prop
                res['how'] = (new_fails[0][2]['kind'] if new_fails else 'model disagreement') + \
                    f' ({len(new_fails)} failures, {len(dis_new)} disagreements)'
                return res
        # nobody noticed: do the repository's tests?
        p = subprocess.run(['cargo', 'test', '--workspace', '--no-fail-fast', '--offline', '-j', '4'], cwd=repo, env=ENV,
                           stdout=subprocess.PIPE, stderr=subprocess.STDOUT, text=True)
        base = json.load(open('/root/.vp/BASELINE.json'))
        stable = set(base['stable_pass'])
        passed = set()
        current = None
        for line in p.stdout.splitlines():
            m = re.match(r'\s*Running (?:unittests )?(\S+)', line)
            if m:
                f = m.group(1)
                current = 'pdbtbx' if f.startswith('src/') else 'pdbtbx::' + os.path.splitext(os.path.basename(f))[0]
                continue
            if re.match(r'\s*Doc-tests', line):
                current = None
                continue
            m = re.match(r'test (\S+) \.\.\. (ok|FAILED|ignored)', line)
            if m and current and m.group(2) == 'ok':
                passed.add(current + '::' + m.group(1))
        missing = sorted(stable - passed)
        if missing:
            res['outcome'] = 'tests-fail'
            res['tests'] = missing[:3]
        else:
            res['outcome'] = 'SURVIVOR'
        return res
    finally:
        open(path, 'w').write(orig)
        res['wall_s'] = round(time.time() - t0, 1)


def setup_worker(scratch, k):
    wdir = os.path.join(scratch, f'w{k}')
    if os.path.exists(wdir):
        shutil.rmtree(wdir)
    os.makedirs(wdir)
    subprocess.run(['rsync', '-a', '--exclude', 'target', '--exclude', '.git', REPO + '/', os.path.join(wdir, 'repo') + '/'], check=True)
    subprocess.run(['rsync', '-a', '--exclude', 'target', os.path.join(ROOT, 'harness') + '/', os.path.join(wdir, 'harness') + '/'], check=True)
    ct = os.path.join(wdir, 'harness', 'Cargo.toml')
    s = open(ct).read().replace('path = "/repo"', f'path = "{wdir}/repo"')
    open(ct, 'w').write(s)
    return wdir


def main():
    if len(sys.argv) < 2:
        print(__doc__)
        sys.exit(2)
    cmd = sys.argv[1]
    args = sys.argv[2:]

    def opt(name, default):
        if name in args:
            return args[args.index(name) + 1]
        return default
    if cmd == 'list':
        all_sites, chosen = sample(int(opt('--seed', '1')), int(opt('--per-file', '12')))
        sys.stderr.write(f'{len(all_sites)} sites, {len(chosen)} sampled\n')
        for c in chosen:
            print(json.dumps(c))
        return
    if cmd == 'run':
        muts = [json.loads(l) for l in open(args[0])]
        out = args[1]
        workers = int(opt('--workers', '4'))
        scratch = opt('--scratch', '/root/mut')
        done = set()
        if os.path.exists(out):
            for l in open(out):
                d = json.loads(l)
                done.add((d['file'], d['line'], d['op'], d['col']))
        todo = [m for m in muts if (m['file'], m['line'], m['op'], m['col']) not in done]
        chk = load_check()
        import queue, threading
        q = queue.Queue()
        for m in todo:
            q.put(m)
        lock = threading.Lock()

        def work(k):
            wdir = setup_worker(scratch, k)
            while True:
                try:
                    m = q.get_nowait()
                except queue.Empty:
                    break
                try:
                    r = run_one(chk, wdir, m, None)
                except Exception as e:  # noqa
                    r = dict((kk, v) for kk, v in m.items() if not kk.startswith('_'))
                    r['outcome'] = 'tool-error'
                    r['error'] = repr(e)[:300]
                with lock:
                    with open(out, 'a') as f:
                        f.write(json.dumps(r) + '\n')
                    print(f"[w{k}] {r['outcome']:16} {r.get('by', ''):4} {r['file']}:{r['line']}  {r['old'][:50]}  =>  {r['new'][:50]}", flush=True)
            shutil.rmtree(wdir, ignore_errors=True)
        with ThreadPoolExecutor(workers) as ex:
            list(ex.map(work, range(workers)))
        return
    print(__doc__)
    sys.exit(2)


if __name__ == '__main__':
    main()
