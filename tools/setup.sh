#!/bin/sh
# Build the framework from files on disk only (offline): translator output, Lean library + theorems
# + model driver, Rust harness against /repo's working tree.
set -e
cd "$(dirname "$0")/.."
export CARGO_NET_OFFLINE=true
if [ -f tools/gen_tables.py ]; then python3 tools/gen_tables.py; fi
(cd lean && lake build)
(cd harness && cargo build --offline)
