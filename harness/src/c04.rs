//! C04 — mmCIF write -> read round trip is lossless (bare-word-safe identifiers, general validation passed).
use crate::enc::*;
use crate::full::*;
use crate::pdbio::*;
use crate::rng::Rng;
use crate::st::*;
use crate::{budget, guarded, Exec, Failure};
use pdbtbx::*;
use std::io::BufWriter;

pub fn gen(tier: &str, r: &mut Rng) -> Vec<String> {
    let mut out = Vec::new();
    let n = budget(tier, 500, 20_000);
    for i in 0..n {
        let o = FullOpts { target: Target::Cif, in_range: i % 4 == 0, metadata: i % 3 != 0, dbref: false, max_models: 3 };
        let mut pdb = match guarded(|| gen_full(r, &o)) { Ok(p) => p, Err(_) => continue };
        // mmCIF keeps five decimals; a share of the values carries a sixth one (off the rounding tie)
        if i % 5 == 0 { for a in pdb.atoms_mut() { let k = r.range(-4, 4) as f64; let _ = a.set_x(a.x() + k * 1e-6); let _ = a.set_b_factor((a.b_factor() + (k.abs()) * 1e-6).max(0.0)); } }
        // values a hair below / above an integer (rounding and truncation disagree there)
        if i % 4 == 1 { for a in pdb.atoms_mut() { if r.chance(1, 3) { let k = r.range(-4, 4) as f64; let _ = a.set_y(a.y().round() + k * 1e-6); } if r.chance(1, 6) { let _ = a.set_occupancy((1.0 - r.range(0, 4) as f64 * 1e-6).max(0.0)); } if r.chance(1, 6) { let _ = a.set_z(-(a.z().abs().round()) - r.range(0, 4) as f64 * 1e-6); } } }
        if i % 7 == 0 { pdb.remove_atoms_by(|_| true); pdb.remove_empty(); }
        let meta = match meta_toks(&pdb) { Some(m) => m, None => continue };
        out.push(format!("c04 rt {} {}", meta.join(" "), dump(&pdb)));
    }
    out
}

/// everything mmCIF carries, with the numbers rounded to five decimals and without what the format has no
/// place for (atom serial numbers, remarks, database references, modifications, bonds)
fn canon(p: &PDB) -> String {
    let mut s = SPdb::from_real(p);
    let r5 = |v: i64| -> i64 { let a = v.abs(); let q = (a + 5) / 10 * 10; if v < 0 { -q } else { q } };
    for m in s.models.iter_mut() { for c in m.chains.iter_mut() { for x in c.residues.iter_mut() { for f in x.confs.iter_mut() { f.modif = None; for a in f.atoms.iter_mut() {
        a.serial = 0; a.x = r5(a.x); a.y = r5(a.y); a.z = r5(a.z); a.occ = r5(a.occ); a.b = r5(a.b);
        if let Some(t) = a.atf.as_mut() { for v in t.iter_mut() { *v = r5(*v); } }
    } } } } }
    let mut q = PDB::new();
    q.identifier = p.identifier.clone();
    q.unit_cell = p.unit_cell.clone();
    q.symmetry = p.symmetry.clone();
    q.scale = p.scale.clone();
    q.origx = p.origx.clone();
    for m in p.mtrix() { q.add_mtrix(m.clone()); }
    format!("{} {}", meta_toks(&q).map_or("INEXACT".to_string(), |m| m.join(" ")), s.line())
}

pub fn exec(case: &str) -> Exec {
    let mut t = Toks::new(case);
    t.expect("c04").unwrap();
    let kind = t.next().unwrap().to_string();
    let mut ex = Exec::new("", "");
    ex.tags.push(format!("kind:{kind}"));
    let rest_line: String = t.v[t.i..].join(" ");
    let pdb = match guarded(|| crate::c03::build(&mut t)) { Ok(Some(p)) => p, _ => { ex.req = "-".into(); ex.resp = "-".into(); ex.failures.push(Failure::new("harness-could-not-rebuild-structure", "")); return ex; } };
    ex.req = format!("cif write {}", rest_line);
    let general = validate(&pdb);
    ex.tags.push(format!("validate:{}", if general.is_empty() { "clean" } else { "reports" }));
    ex.tags.push(format!("models:{}", pdb.model_count()));
    ex.tags.push(format!("metadata:{}{}{}{}{}", b(pdb.identifier.is_some()), b(pdb.unit_cell.is_some()), b(pdb.symmetry.is_some()), b(pdb.scale.is_some() || pdb.origx.is_some()), b(pdb.mtrix().count() > 0)));
    let bytes = match guarded(|| { let mut buf = Vec::new(); save_mmcif_raw(&pdb, BufWriter::new(&mut buf)); buf }) {
        Ok(b2) => b2,
        Err(m) => { ex.resp = "PANIC".into(); ex.failures.push(Failure::new("writer-panicked", m)); return ex; }
    };
    ex.resp = enc_bytes(&bytes);
    let worst = general.iter().map(|e| e.level()).max();
    let want = canon(&pdb);
    for rl in crate::c07::LEVELS {
        // the round trip is promised for structures that pass general validation (at the level of the reader)
        if general.iter().any(|e| e.fails(rl)) { continue; }
        let o = Opts { level: rl, discard_h: false, first_only: false, atomic_only: false };
        let feats = |f: Failure| f.feat("reader_level", crate::c07::level_name(rl)).feat("identifier", pdb.identifier.is_some()).feat("atoms", pdb.total_atom_count())
            .feat("cell_without_symmetry", pdb.unit_cell.is_some() && pdb.symmetry.is_none()).feat("sg_index", pdb.symmetry.as_ref().map_or(0, |s| s.index()))
            .feat("validation", worst.map_or("clean".to_string(), |w| w.descriptor().to_string()));
        match read("mmcif", &o, &bytes) {
            Read::Panic(m) => ex.failures.push(feats(Failure::new("re-read-panicked", m))),
            Read::Err(d) => ex.failures.push(feats(Failure::new("written-file-rejected-on-re-read", diags_tok(&d)))),
            Read::Ok(q, _) => {
                let got = canon(&q);
                if got != want {
                    // which part differs
                    let (wm, gm) = (want.split(" P ").next().unwrap_or(""), got.split(" P ").next().unwrap_or(""));
                    let part = if wm != gm { wm.split(' ').zip(gm.split(' ')).find(|(a, b2)| a != b2).map_or("metadata".to_string(), |(a, _)| a.split('=').next().unwrap_or("metadata").to_string()) } else { "hierarchy".to_string() };
                    ex.failures.push(feats(Failure::new("re-read-structure-differs", crate::c02::first_diff(&want, &got))).feat("part", part));
                } else {
                    let mut buf2 = Vec::new();
                    if guarded(|| save_mmcif_raw(&q, BufWriter::new(&mut buf2))).is_ok() && buf2 != bytes {
                        ex.failures.push(feats(Failure::new("second-write-not-byte-identical", String::from_utf8_lossy(&bytes).lines().zip(String::from_utf8_lossy(&buf2).lines()).find(|(a, b2)| a != b2).map_or(String::new(), |(a, b2)| format!("{:?} vs {:?}", a, b2)))));
                    }
                }
            }
        }
    }
    ex
}
