//! Structures with metadata (identifier, remarks, cell, symmetry, matrices, database references,
//! modifications) built through the public API; used by C03, C04, C15.
use crate::rng::Rng;
use crate::st::*;
use pdbtbx::*;

#[derive(Clone, Copy, PartialEq)]
pub enum Target { Pdb, Cif }

pub struct FullOpts {
    pub target: Target,
    /// values exactly at the column precision and inside the column ranges
    pub in_range: bool,
    pub metadata: bool,
    pub dbref: bool,
    pub max_models: usize,
}

const NAMES1: &[&str] = &["A", "B", "C", "x", "7"];
const RESN: &[&str] = &["ALA", "GLY", "SER", "HOH", "0AF", "MG", "LYS"];
const ATOMN: &[&str] = &["N", "CA", "C", "O", "CB", "OG", "0C1", "HA", "SG", "ZN"];

fn mat(r: &mut Rng) -> TransformationMatrix {
    let mut m = [[0.0f64; 4]; 3];
    for (i, row) in m.iter_mut().enumerate() {
        for (j, v) in row.iter_mut().enumerate() {
            *v = if j == 3 { r.range(-9999, 9999) as f64 * 10.0 / 1e6 * 1e3 / 1e3 } else if i == j { 1.0 } else { r.range(-999999, 999999) as f64 / 1e6 };
            if j == 3 { *v = r.range(-999999, 999999) as f64 / 1e5; }
        }
    }
    TransformationMatrix::from_matrix(m)
}

/// one model's hierarchy; the same shape is reused for further models (positions shifted)
fn gen_first_model(r: &mut Rng, o: &FullOpts, ids: &mut usize) -> SModel {
    let n_chains = 1 + r.below(3);
    let mut chains = Vec::new();
    let mut serial = if r.chance(1, 10) { 99_900 } else { 0 };
    let mut used: Vec<String> = Vec::new();
    let restart_serials = o.target == Target::Pdb && r.chance(1, 6);
    for _ in 0..n_chains {
        if restart_serials { serial = 0; }
        let id = loop { let c = r.pick(NAMES1).to_string(); if !used.contains(&c) { used.push(c.clone()); break c; } if used.len() >= NAMES1.len() { break "Z".to_string(); } };
        let mut residues = Vec::new();
        let mut num = if r.chance(1, 6) { *r.pick(&[-999i64, -5, 0, 9950]) } else { r.range(1, 40) };
        for _ in 0..1 + r.below(4) {
            num += 1 + if r.chance(1, 5) { r.range(1, 4) } else { 0 };
            let icode = if r.chance(1, 8) { Some(r.pick(&["A", "B"]).to_string()) } else { None };
            let name = r.pick(RESN).to_string();
            let modif = if o.metadata && o.target == Target::Pdb && r.chance(1, 8) { Some(("SER".to_string(), "MODIFIED RESIDUE".to_string())) } else { None };
            let alts: Vec<Option<String>> = match r.below(5) { 0 => vec![Some("A".into()), Some("B".into())], _ => vec![None] };
            let mut confs = Vec::new();
            for alt in alts {
                let mut atoms = Vec::new();
                for k in 0..1 + r.below(4) {
                    serial += 1;
                    *ids += 1;
                    // nucleic-acid style names are CIF bare words too (a quote inside a word is legal)
                    let nm = if o.target == Target::Cif && r.chance(1, 10) { r.pick(&["O5'", "C1*", "H5''", "N-1"]).to_string() } else { ATOMN[(k + r.below(3)) % ATOMN.len()].to_string() };
                    let step = |r: &mut Rng, lo: i64, hi: i64, unit: i64| r.range(lo, hi) * unit;
                    let (x, y, z) = if o.in_range {
                        let edge = |r: &mut Rng| if r.chance(1, 12) { *r.pick(&[-999_999_000i64, 9_999_999_000]) } else { r.range(-99_999, 99_999) * 1000 };
                        (edge(r), edge(r), edge(r))
                    } else if o.target == Target::Pdb && r.chance(1, 16) {
                        // values between the largest number a column can show and the next one it cannot: they would be
                        // rounded up into one digit more than the column holds
                        let just = |r: &mut Rng| *r.pick(&[9_999_999_600i64, 9_999_999_900, 9_999_999_001, -999_999_600, -999_999_900, 1_000]);
                        (just(r), just(r), just(r))
                    } else { (step(r, -1_000_000, 10_000_000, 1000), step(r, -99_999, 99_999, 1000), step(r, -99_999, 99_999, 1000)) };
                    let just2 = |r: &mut Rng| *r.pick(&[999_996_000i64, 999_999_000, 999_997_000, 999_990_001, -99_996_000, -99_999_000]);
                    let occ = if o.in_range { if r.chance(1, 12) { *r.pick(&[999_990_000i64, 0]) } else { r.range(0, 100) * 10_000 } } else if o.target == Target::Pdb && r.chance(1, 16) { just2(r) } else { r.range(0, 100_001) * 10_000 };
                    let bf = if o.in_range { r.range(0, 99_999) * 10_000 } else if o.target == Target::Pdb && r.chance(1, 16) { just2(r) } else { r.range(0, 100_001) * 10_000 };
                    let atf = if o.target == Target::Cif && r.chance(1, 10) {
                        // mmCIF has nine columns: the tensor need not be symmetric
                        let mut t = [0i64; 9]; for v in t.iter_mut() { *v = r.range(-9999, 9999) * 100; } Some(t)
                    } else if r.chance(1, 6) { let mut t = [0i64; 9]; let v: Vec<i64> = (0..6).map(|_| r.range(-9999, 9999) * 100).collect(); t[0] = v[0]; t[4] = v[1]; t[8] = v[2]; t[1] = v[3]; t[3] = v[3]; t[2] = v[4]; t[6] = v[4]; t[5] = v[5]; t[7] = v[5]; Some(t) } else { None };
                    atoms.push(SAtom { het: name == "HOH" || name == "MG", serial: if o.in_range { serial } else if r.chance(1, 30) { 100_000 } else { serial }, id: ids.to_string(), name: nm, x, y, z, occ, b: bf,
                        el: 0, charge: if r.chance(1, 8) { r.range(-9, 9) } else { 0 }, atf });
                }
                // alternates of one residue need not be the same kind of residue (SER as A, THR as B)
                let cname = if alt.as_deref() == Some("B") && r.chance(1, 3) { loop { let n2 = r.pick(RESN).to_string(); if n2 != name { break n2; } } } else { name.clone() };
                confs.push(SConf { name: cname, alt, modif: modif.clone(), atoms });
            }
            residues.push(SRes { serial: num, icode, confs });
        }
        chains.push(SChain { id, residues });
    }
    SModel { serial: 1, chains }
}

pub fn gen_full(r: &mut Rng, o: &FullOpts) -> PDB {
    let mut ids = 0usize;
    let first = gen_first_model(r, o, &mut ids);
    let n_models = if o.max_models <= 1 { 1 } else { match r.below(4) { 0 => 2, 1 => 3.min(o.max_models), _ => 1 } };
    let mut s = SPdb::default();
    for k in 0..n_models {
        let mut m = first.clone();
        m.serial = if n_models == 1 { 0 } else { k + 1 + if r.chance(1, 8) { 3 } else { 0 } };
        for c in m.chains.iter_mut() { for x in c.residues.iter_mut() { for f in x.confs.iter_mut() { for a in f.atoms.iter_mut() {
            if k > 0 { ids += 1; a.id = ids.to_string(); a.z = ((a.z / 1000 + k as i64) % 99_999) * 1000; }
        } } } }
        s.models.push(m);
    }
    let mut pdb = s.to_real().expect("structure builds");
    if o.metadata {
        if r.chance(2, 3) { pdb.identifier = Some(if o.target == Target::Cif && r.chance(1, 4) { r.pick(&["1E10", "0042", "2E23", "1e5"]) } else { r.pick(&["1ABC", "9XYZ", "4HHB"]) }.to_string()); }
        for _ in 0..r.below(3) { let _ = pdb.add_remark(*r.pick(&[1usize, 2, 3, 350, 465, 999]), r.pick(&["RESOLUTION. 1.50 ANGSTROMS.", "AUTHOR X", "THIS ENTRY"]).to_string()); }
        if r.chance(1, 2) {
            // edges from 1 to 1000 Å (every edge on its own: an edge is not an angle)
            let edge = |r: &mut Rng| if r.chance(1, 3) { r.range(100_000, 999_999) as f64 / 1e3 } else { r.range(1000, 99_999) as f64 / 1e3 };
            let (ea, eb, ec) = (edge(r), edge(r), edge(r));
            pdb.unit_cell = Some(UnitCell::new(ea, eb, ec, 90.0, r.range(6000, 12_000) as f64 / 100.0, 90.0));
            if r.chance(3, 4) { pdb.symmetry = Symmetry::from_index(1 + r.below(230)); }
        }
        if r.chance(1, 3) { pdb.scale = Some(mat(r)); }
        if r.chance(1, 3) { pdb.origx = Some(mat(r)); }
        for i in 0..r.below(3) { pdb.add_mtrix(MtriX::new(i + 1, mat(r), r.chance(1, 2))); }
        if o.dbref {
            let first_ids: Vec<(isize, isize)> = pdb.models().next().map(|m| m.chains().map(|c| (c.residues().next().map_or(1, |x| x.serial_number()), c.residues().last().map_or(1, |x| x.serial_number()))).collect()).unwrap_or_default();
            if let Some(m) = pdb.models_mut().next() {
                for (c, (lo, hi)) in m.chains_mut().zip(first_ids) {
                    if r.chance(1, 2) {
                        // accession / id lengths on both sides of the DBREF -> DBREF1/DBREF2 switch (8 and 12
                        // characters), database positions on both sides of 999999, insertion codes now and then;
                        // one draw in twelve goes beyond what even the long form has columns for (name > 6,
                        // id > 20 characters, database insertion codes in the long form)
                        let beyond = r.chance(1, 12);
                        // a quarter of the references sit right at the five-digit limit of the short form with nothing else asking for the long one
                        let at_limit = !beyond && r.chance(1, 4);
                        let acc = if at_limit { "P12345" } else { *r.pick(&["P12345", "P12345", "A0A024R1", "A0A024R1R8", "Q9Y6K9-2XYZ0"]) };
                        let id = if at_limit { "TEST_HUMAN" } else if beyond && r.chance(1, 2) { "LONGNAME_OF_PROTEIN_X" } else { *r.pick(&["TEST_HUMAN", "TEST_HUMAN", "TESTAB_HUMAN", "TESTABC_HUMAN", "LONGNAME_OF_PROTEINX"]) };
                        let name = if beyond && r.chance(1, 2) { "UNIPROT" } else { *r.pick(&["UNP", "UNP", "GB", "PDB", "TREMBL"]) };
                        let dlo = if at_limit { *r.pick(&[99_997isize, 99_998, 99_999, 100_000, 100_001]) } else if r.chance(1, 6) { *r.pick(&[99_990isize, 999_990]) + r.range(0, 20) as isize } else { 1 };
                        let long_form = acc.len() > 8 || id.len() > 12 || dlo > 99_999 - 40;
                        let ins = |r: &mut Rng| if r.chance(1, 6) { *r.pick(&['A', 'B', 'P']) } else { ' ' };
                        let (i1, i2) = (ins(r), ins(r));
                        let (i3, i4) = if long_form && !beyond { (' ', ' ') } else { (ins(r), ins(r)) };
                        let mut d = DatabaseReference::new((name.to_string(), acc.to_string(), id.to_string()), SequencePosition::new(lo, i1, hi, i2), SequencePosition::new(dlo, i3, dlo + if at_limit { (hi - lo).max(0).min(r.below(3) as isize) } else { (hi - lo).max(0) }, i4));
                        if r.chance(1, 2) { d.differences.push(SequenceDifference::new(("MET".to_string(), lo, None), Some(("ALA".to_string(), 12)), "ENGINEERED MUTATION".to_string())); }
                        c.set_database_reference(d);
                    }
                }
            }
        }
    }
    pdb
}
