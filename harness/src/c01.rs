//! C01 — PDB-format reading recovers exactly what the records state.
use crate::enc::*;
use crate::pdbio::*;
use crate::pdbtext::{self, AtomRec, Doc};
use crate::rng::Rng;
use crate::{budget, Exec, Failure};
use pdbtbx::*;

/// richer well-formed documents than `pdbtext::gen_doc`: interleaved / repeated chain ids, blank chain ids with
/// TER, negative and inserted residue numbers, mixed case, partial and full altlocs, DBREF/SEQADV/MODRES
pub fn gen_wf(r: &mut Rng) -> (Vec<String>, Doc) {
    let mut d = pdbtext::gen_doc(r, true);
    // interleave chains now and then: move a suffix of the first chain's atoms to the end
    if r.chance(1, 3) {
        for m in d.models.iter_mut() {
            let atoms = &mut m.1;
            if let Some(first) = atoms.first().map(|a| a.chain) {
                let n = atoms.iter().take_while(|a| a.chain == first).count();
                if n > 2 && n < atoms.len() {
                    // keep whole residues together
                    let cut_res = atoms[n / 2].resseq;
                    let (mut keep, mut moved): (Vec<AtomRec>, Vec<AtomRec>) = (Vec::new(), Vec::new());
                    for (i, a) in atoms.iter().enumerate() { if i < n && a.resseq >= cut_res && a.chain == first { moved.push(a.clone()) } else { keep.push(a.clone()) } }
                    keep.extend(moved);
                    *atoms = keep;
                }
            }
        }
    }
    // serial numbers that start again at 1 in every chain: an ANISOU record then belongs to the atom of that number
    // in the chain read last
    if r.chance(1, 8) {
        for m in d.models.iter_mut() {
            let (mut last, mut k) = (None, 0usize);
            for a in m.1.iter_mut() { if last != Some(a.chain) { last = Some(a.chain); k = 0; } k += 1; a.serial = k; }
        }
    }
    // lower-case residue names / insertion codes in a few places (consistently per residue)
    if r.chance(1, 4) {
        for m in d.models.iter_mut() { for a in m.1.iter_mut() { if a.resseq % 3 == 0 { a.resname = a.resname.to_lowercase(); } } }
    }
    let mut lines = pdbtext::render(&d, r, true);
    // chain ids left blank (the reader then names the chains A, B, … by counting TER records), with the TER records
    // spelled in every accepted way: bare, padded, with serial number and residue
    // trailing blanks removed from every record, as many programs write them (short MTRIX, CRYST1, ATOM … lines)
    // (records whose last columns are optional; an ATOM record needs its element columns)
    if r.chance(1, 5) { for l in lines.iter_mut() { if ["MTRIX", "SCALE", "ORIGX", "REMARK", "MODEL", "ENDMDL", "TER", "END", "CRYST1"].iter().any(|p| l.starts_with(p)) { *l = l.trim_end().to_string(); } } }
    let blank_chains = r.chance(1, 6);
    if blank_chains {
        for l in lines.iter_mut() {
            if (l.starts_with("ATOM") || l.starts_with("HETATM") || l.starts_with("ANISOU")) && l.len() > 22 && l.is_ascii() { l.replace_range(21..22, " "); }
        }
    }
    if r.chance(1, 3) {
        for l in lines.iter_mut() {
            if l == "TER" { *l = r.pick(&["TER", "TER   ", "TER     123      ALA A  12", "TER                                                                             "]).to_string(); }
        }
    }
    // optional metadata records that need a chain: DBREF + SEQADV (+ MODRES on an existing residue)
    if !blank_chains && r.chance(1, 3) {
        if let Some(a) = d.models.first().and_then(|m| m.1.first()).cloned() {
            let mut extra = vec![format!("DBREF  1ABC {} {:>4}  {:>4}  UNP    P12345   TEST_HUMAN   {:>5}  {:>5} ", a.chain, a.resseq, a.resseq + 50, 1, 51)];
            if r.chance(1, 2) { extra.push(format!("SEQADV 1ABC MET {} {:>4}  UNP  P12345    ALA    12 ENGINEERED MUTATION   ", a.chain, a.resseq)); }
            // a residue number that carries two different residue names is merged by the documented redistribution of
            // blank-altloc atoms; a MODRES naming the vanished conformer would then (rightly) not be found
            let one_name = d.models[0].1.iter().filter(|x| x.chain == a.chain && x.resseq == a.resseq && x.icode == a.icode).all(|x| x.resname.eq_ignore_ascii_case(&a.resname));
            if one_name && r.chance(1, 2) { extra.push(format!("MODRES 1ABC {:>3} {} {:>4}{} SER  PHOSPHOSERINE", a.resname.to_uppercase(), a.chain, a.resseq, a.icode)); }
            let at = lines.iter().position(|l| l.starts_with("CRYST1") || l.starts_with("ORIGX") || l.starts_with("SCALE") || l.starts_with("MTRIX") || l.starts_with("MODEL") || l.starts_with("ATOM") || l.starts_with("HETATM")).unwrap_or(lines.len());
            for (k, e) in extra.into_iter().enumerate() { lines.insert(at + k, e); }
            // the MASTER record does not count these, fine
        }
    }
    (lines, d)
}

pub fn gen(tier: &str, r: &mut Rng) -> Vec<String> {
    let mut out = Vec::new();
    let n = budget(tier, 400, 20000);
    for i in 0..n {
        let (lines, _) = gen_wf(r);
        let text = lines.join(if r.chance(1, 6) { "\r\n" } else { "\n" }) + "\n";
        let level = ["Strict", "Medium", "Loose"][i % 3];
        out.push(format!("c01 wf {} 000 {}", level, enc_bytes(text.as_bytes())));
        // single-field corruption of one numeric field of one ATOM/HETATM/ANISOU/CRYST1/MODEL record
        for _ in 0..budget(tier, 4, 6) {
            let cand: Vec<usize> = lines.iter().enumerate().filter(|(_, l)| l.starts_with("ATOM") || l.starts_with("HETATM")).map(|(i, _)| i).collect();
            if cand.is_empty() { break; }
            let li = *r.pick(&cand);
            let fields = [(6usize, 11usize, "serial"), (22, 26, "resseq"), (30, 38, "x"), (38, 46, "y"), (46, 54, "z"), (54, 60, "occupancy"), (60, 66, "bfactor")];
            let (a, b2, name) = *r.pick(&fields);
            let mut l: Vec<char> = lines[li].chars().collect();
            let how = r.below(3);
            match how {
                0 => for c in l[a..b2].iter_mut() { *c = ' '; },
                1 => { let g = *r.pick(&['x', '*', '-', 'e', ',']); l[a + r.below(b2 - a)] = g; if g == '-' || g == 'e' { l[b2 - 1] = 'q'; } }
                // at least one column of the record body stays, otherwise the line is no ATOM record any more
                _ => l.truncate((a + r.below(b2 - a)).max(7)),
            }
            let mut ls = lines.clone();
            ls[li] = l.into_iter().collect();
            let t = ls.join("\n") + "\n";
            out.push(format!("c01 corrupt {} {} {} {}", ["Strict", "Medium", "Loose"][r.below(3)], name, ["blank", "garbage", "truncate"][how], enc_bytes(t.as_bytes())));
        }
    }
    // disulfide bonds: cysteines that share a residue number and differ in the insertion code, SSBOND records
    // naming them with the right, a wrong or no insertion code, at several record lengths
    for k in 0..budget(tier, 150, 3000) {
        let mut rr = Rng::new(7000 + k as u64, "ssbond");
        let mut lines = Vec::new();
        let n = 2 + rr.below(4);
        let mut res: Vec<(char, i64, char)> = Vec::new();
        let mut atoms = Vec::new();
        let mut serial = 0;
        for i in 0..n {
            let chain = if rr.chance(1, 3) { 'B' } else { 'A' };
            let resseq = 1 + (i as i64) / 2;
            let icode = *rr.pick(&[' ', 'A', 'B']);
            if res.contains(&(chain, resseq, icode)) { continue; }
            res.push((chain, resseq, icode));
            let names: &[(&str, &str)] = if rr.chance(1, 6) { &[("N", "N"), ("CA", "C")] } else { &[("N", "N"), ("CA", "C"), ("SG", "S")] };
            for (nm, el) in names {
                serial += 1;
                atoms.push(AtomRec { het: false, serial, name: (*nm).into(), alt: ' ', resname: "CYS".into(), chain, resseq, icode,
                    x: rr.range(-50, 50) * 1000, y: rr.range(-50, 50) * 1000, z: rr.range(-50, 50) * 1000, occ: 1_000_000, b: 10_000_000, seg: String::new(), element: (*el).into(), charge: 0, aniso: None });
            }
        }
        atoms.sort_by_key(|a| (a.chain, a.resseq, a.icode, a.serial));
        // expectation, worked out from the generator's own data: a record is a bond when both ends name a
        // residue (chain, number, insertion code) that has an SG atom; one end that does not is an error
        let has_sg = |c: char, n: i64, i: char| atoms.iter().any(|a| a.chain == c && a.resseq == n && a.icode == i && a.name == "SG");
        let (mut bonds, mut missing, mut unknown) = (0usize, false, false);
        for k2 in 0..1 + rr.below(3) {
            let (a, b) = (*rr.pick(&res), *rr.pick(&res));
            let ic = |rr: &mut Rng, c: char| if rr.chance(1, 4) { *rr.pick(&[' ', 'A', 'B']) } else { c };
            let (ia, ib) = (ic(&mut rr, a.2), ic(&mut rr, b.2));
            let mut l = format!("SSBOND {:>3} CYS {} {:>4}{}   CYS {} {:>4}{}{}{:>6} {:>6} {:>5}", k2 + 1, a.0, a.1, ia, b.0, b.1, ib, " ".repeat(23), "1555", "1555", "2.03");
            if rr.chance(1, 10) { l.truncate(*rr.pick(&[35usize, 36, 59, 72, 77])); unknown = true; }
            // an unreadable symmetry operator or distance in a record of 77, 78 (complete) or more characters
            else if rr.chance(1, 6) {
                let mut cs: Vec<char> = l.chars().collect();
                let k = *rr.pick(&[60usize, 68, 75]);
                if k < cs.len() { cs[k] = *rr.pick(&['x', ' ', '-']); }
                l = cs.into_iter().collect();
                if rr.chance(1, 3) { l.truncate(77); }
                unknown = true;
            }
            if rr.chance(1, 5) { l.push_str("  "); }
            if has_sg(a.0, a.1, ia) && has_sg(b.0, b.1, ib) { bonds += 1; } else { missing = true; }
            lines.push(l);
        }
        for a in &atoms { lines.push(pdbtext::atom_line(a, &mut rr, false)); }
        lines.push("END".into());
        let expect = if unknown { "?".to_string() } else if missing { "R".to_string() } else { bonds.to_string() };
        out.push(format!("c01 ssbond {} {} {}", ["Strict", "Medium", "Loose"][k % 3], expect, enc_bytes((lines.join("\n") + "\n").as_bytes())));
    }
    // the same convention on short texts (compared with the Lean reader model as well): serials 99998, 99999, 0, 1 …
    for k in 0..budget(tier, 6, 60) {
        let mut rr = Rng::new(1000 + k as u64, "wrap-small");
        let mut lines = Vec::new();
        let n = 3 + rr.below(6);
        let start = 99_999 - rr.below(3);
        let rstart = 9_999 - rr.below(3) as i64;
        for i in 0..n {
            let a = AtomRec { het: false, serial: (start + i) % 100000, name: "CA".into(), alt: ' ', resname: "GLY".into(), chain: 'A', resseq: (rstart + i as i64) % 10000, icode: ' ',
                x: i as i64 * 1000, y: 0, z: 0, occ: 1_000_000, b: 0, seg: String::new(), element: "C".into(), charge: 0, aniso: None };
            lines.push(pdbtext::atom_line(&a, &mut rr, false));
            if rr.chance(1, 2) { lines.push(pdbtext::anisou_line(&a, &[10 + i as i64, 2, 3, -4, 5, -6])); }
        }
        lines.push("END".into());
        out.push(format!("c01 wf Loose 000 {}", enc_bytes((lines.join("\n") + "\n").as_bytes())));
    }
    // SEQRES records: chains the records describe completely (one name per residue, numbered from the position the
    // first name stands for, with or without a DBREF start) followed by hetero groups in any order - nothing may be
    // added, dropped or moved; and chains with gaps, wrong names or other numbering (compared with the model only)
    for k in 0..budget(tier, 60, 3000) {
        let names = ["ALA", "GLY", "SER", "LYS", "CYS", "MSE"];
        let complete = r.chance(1, 2);
        let nch = 1 + r.below(2);
        let mut head: Vec<String> = Vec::new();
        let mut body: Vec<String> = Vec::new();
        let mut serial = 0usize;
        let nmodels = if r.chance(1, 5) { 2 } else { 1 };
        let mut plan: Vec<(char, i64, Vec<&str>, Vec<(i64, bool)>, bool)> = Vec::new(); // chain, first number, names, hetero groups (number, water), dbref
        for ci in 0..nch {
            let ch = (b'A' + ci as u8) as char;
            let big = r.chance(1, 6); let n = 1 + r.below(if big { 30 } else { 7 });
            let with_db = r.chance(1, 3);
            let start: i64 = if with_db { r.range(-3, 40) } else if complete { 0 } else { r.range(-2, 3) };
            let seq: Vec<&str> = (0..n).map(|_| *r.pick(&names)).collect();
            let hets: Vec<(i64, bool)> = (0..r.below(5)).map(|_| (start + n as i64 + r.range(1, 900), r.chance(2, 3))).collect();
            plan.push((ch, start, seq, hets, with_db));
        }
        for (ch, start, seq, _, with_db) in &plan {
            if *with_db { head.push(format!("DBREF  1ABC {} {:>4}  {:>4}  UNP    P12345   TEST_HUMAN   {:>5}  {:>5} ", ch, start, start + seq.len() as i64 - 1, 1, seq.len())); }
        }
        for (ch, _, seq, _, _) in &plan {
            for (i, chunk) in seq.chunks(13).enumerate() { head.push(format!("SEQRES {:>3} {} {:>4}  {}", i + 1, ch, seq.len(), chunk.join(" "))); }
        }
        for mi in 0..nmodels {
            if nmodels > 1 { body.push(pdbtext::model_line(mi + 1)); }
            // the models of one document list the same atoms under the same serial numbers
            serial = 0;
            for (ch, start, seq, hets, _) in &plan {
                for (i, nm) in seq.iter().enumerate() {
                    // an incomplete chain: a residue left out, another name, or a number out of step
                    let (mut name, mut num) = (nm.to_string(), start + i as i64);
                    if !complete { match r.below(12) { 0 => continue, 1 => name = r.pick(&names).to_string(), 2 => num += r.range(1, 3), _ => {} } }
                    for an in ["N", "CA"].iter().take(1 + i % 2) {
                        serial += 1;
                        let a = AtomRec { het: false, serial, name: an.to_string(), alt: ' ', resname: name.clone(), chain: *ch, resseq: num, icode: ' ', x: serial as i64 * 1000, y: 0, z: 0, occ: 1_000_000, b: 0, seg: String::new(), element: an[..1].to_string(), charge: 0, aniso: None };
                        body.push(pdbtext::atom_line(&a, r, false));
                    }
                }
                for (num, water) in hets {
                    serial += 1;
                    let a = AtomRec { het: true, serial, name: if *water { "O".into() } else { "ZN".into() }, alt: ' ', resname: if *water { "HOH".into() } else { "ZN".into() }, chain: *ch, resseq: *num, icode: ' ', x: serial as i64 * 1000, y: 0, z: 0, occ: 1_000_000, b: 0, seg: String::new(), element: if *water { "O".into() } else { "ZN".into() }, charge: 0, aniso: None };
                    body.push(pdbtext::atom_line(&a, r, false));
                }
                body.push("TER".into());
            }
            if nmodels > 1 { body.push("ENDMDL".into()); }
        }
        body.push("END".into());
        head.extend(body);
        out.push(format!("c01 seqres {} {} {}", ["Loose", "Medium", "Strict"][k % 3], if complete { 1 } else { 0 }, enc_bytes((head.join("\n") + "\n").as_bytes())));
    }
    // ... and documents that walk the SEQRES checks through all of their branches (compared with the model)
    for k in 0..budget(tier, 60, 3000) {
        let lines = pdbtext::gen_seqres_doc(r);
        out.push(format!("c01 seqres {} 0 {}", ["Loose", "Medium", "Strict"][k % 3], enc_bytes((lines.join("\n") + "\n").as_bytes())));
    }
    // serial numbers wrapping past 99999 (atoms) and 9999 (residues)
    for k in 0..budget(tier, 1, 3) {
        let n_atoms = 100_050 + 7 * k;
        let mut lines = Vec::with_capacity(n_atoms + 2);
        let mut rr = Rng::new(k as u64, "wrap");
        for i in 0..n_atoms {
            let serial = i + 1;
            let res = i / 9 + 1; // > 9999 residues as well
            let a = AtomRec { het: false, serial: serial % 100000, name: "CA".into(), alt: ' ', resname: "GLY".into(), chain: 'A', resseq: (res % 10000) as i64, icode: ' ',
                x: (i % 1000) as i64 * 1000, y: 0, z: 0, occ: 1_000_000, b: 0, seg: String::new(), element: "C".into(), charge: 0, aniso: None };
            lines.push(pdbtext::atom_line(&a, &mut rr, false));
            // anisotropic records before and after the wrap (they name the atom by its column value)
            if i % 9973 == 0 || (i >= 99_990 && i % 4 == 0) {
                lines.push(pdbtext::anisou_line(&a, &[(i % 9000) as i64 + 1, 2, 3, -4, 5, -6]));
            }
        }
        lines.push("END".into());
        out.push(format!("c01 wrap Loose {} {}", n_atoms, enc_bytes((lines.join("\n") + "\n").as_bytes())));
    }
    // ... and a chain whose residue numbers wrap twice (one atom per residue, more than 20 000 residues)
    {
        let n_atoms = 20_030;
        let mut lines = Vec::with_capacity(n_atoms + 2);
        let mut rr = Rng::new(77, "wrap-twice");
        for i in 0..n_atoms {
            let a = AtomRec { het: true, serial: (i + 1) % 100000, name: "O".into(), alt: ' ', resname: "HOH".into(), chain: 'W', resseq: ((i + 1) % 10000) as i64, icode: ' ',
                x: (i % 1000) as i64 * 1000, y: 0, z: 0, occ: 1_000_000, b: 0, seg: String::new(), element: "O".into(), charge: 0, aniso: None };
            lines.push(pdbtext::atom_line(&a, &mut rr, false));
        }
        lines.push("END".into());
        out.push(format!("c01 wrap Loose {} {}", n_atoms, enc_bytes((lines.join("\n") + "\n").as_bytes())));
    }
    out
}

// ---------------------------------------------------------------------------------------------------------
// independent reference reader (from the wwPDB column definitions), used as the oracle

#[derive(Debug, Clone, PartialEq)]
struct RefAtom { het: bool, serial: usize, name: String, x: i64, y: i64, z: i64, occ: i64, b: i64, element: String, charge: i64, atf: Option<[i64; 6]> }
type RefConf = ((String, Option<String>), Vec<RefAtom>);
type RefRes = ((i64, Option<String>), Vec<RefConf>);
type RefChain = (String, Vec<RefRes>);
type RefModel = (usize, Vec<RefChain>);

fn col(l: &[char], a: usize, b2: usize) -> String { l.get(a..b2.min(l.len())).map_or(String::new(), |s| s.iter().collect::<String>().trim().to_string()) }
fn dec(s: &str, decimals: u32) -> Option<i64> {
    // plain decimal text -> micro-units
    let neg = s.starts_with('-');
    let t = s.trim_start_matches(['-', '+']);
    let (ip, fp) = t.split_once('.').unwrap_or((t, ""));
    if ip.is_empty() && fp.is_empty() { return None; }
    if !ip.chars().all(|c| c.is_ascii_digit()) || !fp.chars().all(|c| c.is_ascii_digit()) || fp.len() > 6 { return None; }
    let _ = decimals;
    let v = ip.parse::<i64>().unwrap_or(0) * 1_000_000 + format!("{:0<6}", fp).parse::<i64>().ok()?;
    Some(if neg { -v } else { v })
}

fn reference(text: &str) -> Option<Vec<RefModel>> {
    let mut models: Vec<RefModel> = Vec::new();
    let mut cur: Vec<RefChain> = Vec::new();
    let mut cur_no = 0usize;
    let mut letter = 0u8;
    let (mut atom_add, mut res_add, mut last_atom, mut last_res) = (0usize, 0i64, 0usize, 0i64);
    for line in text.lines() {
        let l: Vec<char> = line.chars().collect();
        let rec: String = l.iter().take(6).collect();
        match rec.as_str() {
            "MODEL " => { if !cur.is_empty() { models.push((cur_no, std::mem::take(&mut cur))); } cur_no = col(&l, 6, l.len()).parse().ok()?; }
            "ATOM  " | "HETATM" => {
                let raw_serial: usize = col(&l, 6, 11).parse().ok()?;
                let raw_res: i64 = col(&l, 22, 26).parse().ok()?;
                if raw_serial == 0 && last_atom == 99999 { atom_add += 100000; }
                if raw_res == 0 && last_res == 9999 { res_add += 10000; }
                last_atom = raw_serial; last_res = raw_res;
                let mut chain = col(&l, 21, 22);
                if chain.is_empty() { chain = ((b'A' + letter % 26) as char).to_string(); }
                let icode = col(&l, 26, 27);
                let alt = col(&l, 16, 17);
                let charge = { let c = col(&l, 78, 80); if c.len() == 2 { let d = c.chars().next()?.to_digit(10)? as i64; if c.ends_with('-') { -d } else { d } } else { 0 } };
                let a = RefAtom { het: rec == "HETATM", serial: raw_serial + atom_add, name: col(&l, 12, 16).to_uppercase(), x: dec(&col(&l, 30, 38), 3)?, y: dec(&col(&l, 38, 46), 3)?, z: dec(&col(&l, 46, 54), 3)?,
                    occ: dec(&col(&l, 54, 60), 2)?, b: dec(&col(&l, 60, 66), 2)?, element: col(&l, 76, 78).to_uppercase(), charge, atf: None };
                let rid = (raw_res + res_add, if icode.is_empty() { None } else { Some(icode.to_uppercase()) });
                let cid = (col(&l, 17, 20).to_uppercase(), if alt.is_empty() { None } else { Some(alt.to_uppercase()) });
                let ci = match cur.iter().position(|c| c.0 == chain) { Some(i) => i, None => { cur.push((chain, Vec::new())); cur.len() - 1 } };
                let rs = &mut cur[ci].1;
                let ri = match rs.iter().position(|x| x.0 == rid) { Some(i) => i, None => { rs.push((rid, Vec::new())); rs.len() - 1 } };
                let fs = &mut rs[ri].1;
                let fi = match fs.iter().position(|x| x.0 == cid) { Some(i) => i, None => { fs.push((cid, Vec::new())); fs.len() - 1 } };
                fs[fi].1.push(a);
            }
            "ANISOU" => {
                let serial: usize = col(&l, 6, 11).parse::<usize>().ok()? + atom_add;
                let u: Vec<i64> = [(28, 35), (35, 42), (42, 49), (49, 56), (56, 63), (63, 70)].iter().map(|(a, b2)| col(&l, *a, *b2).parse::<i64>().ok()).collect::<Option<_>>()?;
                'f: for c in cur.iter_mut().rev() { for x in c.1.iter_mut() { for f in x.1.iter_mut() { for a in f.1.iter_mut() { if a.serial == serial { a.atf = Some([u[0], u[1], u[2], u[3], u[4], u[5]]); break 'f; } } } } }
            }
            _ => { if line.starts_with("TER") { letter += 1; } }
        }
    }
    if !cur.is_empty() { models.push((cur_no, cur)); }
    // blank alternate location inside a residue that also has labelled alternates: copied into every labelled conformer
    for m in models.iter_mut() { for c in m.1.iter_mut() { for x in c.1.iter_mut() {
        if x.1.len() > 1 {
            if let Some(bi) = x.1.iter().rposition(|f| f.0 .1.is_none()) {
                let shared = x.1.remove(bi).1;
                let k = x.1.len() as i64;
                for f in x.1.iter_mut() { for a in &shared { let mut a = a.clone(); a.occ /= k; f.1.push(a); } }
            }
        }
    } } }
    Some(models)
}

fn from_impl(p: &PDB) -> Vec<RefModel> {
    p.models().map(|m| (m.serial_number(), m.chains().map(|c| (c.id().to_string(), c.residues().map(|x| ((x.serial_number() as i64, x.insertion_code().map(|s| s.to_string())),
        x.conformers().map(|f| ((f.name().to_string(), f.alternative_location().map(|s| s.to_string())), f.atoms().map(|a| RefAtom { het: a.hetero(), serial: a.serial_number(), name: a.name().to_string(),
            x: dec6(a.x()), y: dec6(a.y()), z: dec6(a.z()), occ: dec6(a.occupancy()), b: dec6(a.b_factor()), element: String::new(), charge: a.charge() as i64,
            atf: a.anisotropic_temperature_factors().map(|t| [(t[0][0] * 1e4).round() as i64, (t[1][1] * 1e4).round() as i64, (t[2][2] * 1e4).round() as i64, (t[0][1] * 1e4).round() as i64, (t[0][2] * 1e4).round() as i64, (t[1][2] * 1e4).round() as i64]) }).collect())).collect())).collect())).collect())).collect()
}

pub fn exec(case: &str) -> Exec {
    let mut t = crate::st::Toks::new(case);
    t.expect("c01").unwrap();
    let kind = t.next().unwrap().to_string();
    let mut ex = Exec::new("", "");
    ex.tags.push(format!("kind:{kind}"));
    match kind.as_str() {
        "wf" | "wrap" | "seqres" => {
            let level = t.next().unwrap().to_string();
            let arg = t.next().unwrap().to_string();
            let bytes = dec_bytes(t.next().unwrap()).unwrap();
            let o = Opts::parse(&level, if kind == "wf" { &arg } else { "000" });
            if kind == "seqres" { ex.tags.push(format!("seqres-complete:{arg}")); }
            let r = read("pdb", &o, &bytes);
            ex.resp = outcome_tok(&r);
            ex.req = if kind == "wrap" { "-".into() } else { format!("pdb read {} {} {}", level, o.flags(), enc_bytes(&bytes)) };
            if kind == "wrap" { ex.resp = "-".into(); }
            let text = String::from_utf8_lossy(&bytes).to_string();
            match &r {
                Read::Panic(m) => ex.failures.push(Failure::new("reader-panicked-on-well-formed-text", m.clone())),
                Read::Err(d) => {
                    // a well-formed text may still be refused at stricter levels for its warnings; at Loose only
                    // genuine errors remain, and the generator produces none
                    if level == "Loose" && (kind != "seqres" || arg == "1") { ex.failures.push(Failure::new("well-formed-text-rejected-at-loose", diags_tok(d))); }
                    ex.tags.push("wf:rejected".into());
                }
                Read::Ok(p, _) => {
                    ex.tags.push("wf:accepted".into());
                    // a chain the SEQRES records do not describe completely gets residues inserted: no expectation
                    match if kind == "seqres" && arg != "1" { None } else { reference(&text) } {
                        None => ex.tags.push("reference-reader-declined".into()),
                        Some(want) => {
                            let mut got = from_impl(p);
                            // element text is compared through the symbol only where the column states one
                            let mut want = want;
                            for m in want.iter_mut() { for c in m.1.iter_mut() { for x in c.1.iter_mut() { for f in x.1.iter_mut() { for a in f.1.iter_mut() { a.element.clear(); } } } } }
                            for m in got.iter_mut() { for c in m.1.iter_mut() { for x in c.1.iter_mut() { for f in x.1.iter_mut() { for a in f.1.iter_mut() { a.element.clear(); } } } } }
                            if got != want {
                                let what = if got.len() != want.len() { "model-count" } else if got.iter().zip(&want).any(|(a, b2)| a.1.iter().map(|c| &c.0).ne(b2.1.iter().map(|c| &c.0))) { "chains" } else { "residues-conformers-atoms" };
                                ex.failures.push(Failure::new("structure-differs-from-what-the-records-state", what).feat("what", what).feat("kind", &kind));
                            }
                            if kind == "wrap" {
                                let n: usize = arg.parse().unwrap();
                                let serials: Vec<usize> = p.atoms().map(|a| a.serial_number()).collect();
                                if serials != (1..=n).collect::<Vec<_>>() { ex.failures.push(Failure::new("wrapped-atom-serials-do-not-keep-counting", format!("{:?}", &serials[serials.len().saturating_sub(3)..]))); }
                                let res: Vec<isize> = p.residues().map(|x| x.serial_number()).collect();
                                if res != (1..=res.len() as isize).collect::<Vec<_>>() { ex.failures.push(Failure::new("wrapped-residue-numbers-do-not-keep-counting", format!("{:?}", &res[res.len().saturating_sub(3)..]))); }
                            }
                        }
                    }
                }
            }
        }
        "ssbond" => {
            let level = t.next().unwrap().to_string();
            let expect = t.next().unwrap().to_string();
            let bytes = dec_bytes(t.next().unwrap()).unwrap();
            let o = Opts::parse(&level, "000");
            let r = read("pdb", &o, &bytes);
            ex.resp = outcome_tok(&r);
            ex.req = format!("pdb read {} 000 {}", level, enc_bytes(&bytes));
            ex.tags.push(format!("ssbond-expect:{}", if expect == "?" { "unknown" } else if expect == "R" { "rejected" } else { "bonds" }));
            match &r {
                Read::Panic(m) => ex.failures.push(Failure::new("reader-panicked-on-well-formed-text", m.clone())),
                Read::Err(d) => {
                    let only_partner = d.iter().filter(|e| e.level().fails(o.level)).all(|e| e.short_description() == "Could not find a bond partner");
                    if expect != "R" && expect != "?" && only_partner { ex.failures.push(Failure::new("disulfide-bond-between-existing-residues-not-found", diags_tok(d))); }
                }
                Read::Ok(p, _) => {
                    let n = p.bonds().count();
                    if expect == "R" { ex.failures.push(Failure::new("disulfide-bond-to-a-missing-residue-accepted", format!("{n} bonds"))); }
                    else if expect != "?" && expect != n.to_string() { ex.failures.push(Failure::new("disulfide-bond-count-differs-from-the-records", format!("{n} bonds, {expect} records"))); }
                }
            }
        }
        "corrupt" => {
            let level = t.next().unwrap().to_string();
            let field = t.next().unwrap().to_string();
            let how = t.next().unwrap().to_string();
            let bytes = dec_bytes(t.next().unwrap()).unwrap();
            let o = Opts::parse(&level, "000");
            let r = read("pdb", &o, &bytes);
            ex.resp = outcome_tok(&r);
            ex.req = format!("pdb read {} 000 {}", level, enc_bytes(&bytes));
            ex.tags.push(format!("corrupt:{field}:{how}"));
            match &r {
                Read::Panic(m) => ex.failures.push(Failure::new("reader-panicked-on-corrupted-field", m.clone()).feat("field", &field).feat("how", &how)),
                Read::Ok(..) => ex.failures.push(Failure::new("corrupted-numeric-field-accepted-with-a-made-up-value", format!("{field} {how}")).feat("field", &field).feat("how", &how)),
                Read::Err(_) => ex.tags.push("corrupt:rejected".into()),
            }
        }
        _ => panic!("unknown c01 kind"),
    }
    ex
}
