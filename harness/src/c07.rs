//! C07 — strictness level alone decides accept/reject, monotonically, for read and save.
use crate::enc::*;
use crate::pdbtext;
use crate::rng::Rng;
use crate::st::*;
use crate::{guarded, Exec, Failure};
use pdbtbx::*;
use std::io::BufReader;

pub const LEVELS: [StrictnessLevel; 3] = [StrictnessLevel::Strict, StrictnessLevel::Medium, StrictnessLevel::Loose];
pub const ELEVELS: [ErrorLevel; 5] = [
    ErrorLevel::BreakingError,
    ErrorLevel::InvalidatingError,
    ErrorLevel::StrictWarning,
    ErrorLevel::LooseWarning,
    ErrorLevel::GeneralWarning,
];

pub fn level_name(l: StrictnessLevel) -> &'static str {
    match l {
        StrictnessLevel::Strict => "Strict",
        StrictnessLevel::Medium => "Medium",
        StrictnessLevel::Loose => "Loose",
    }
}
pub fn parse_level(s: &str) -> Option<StrictnessLevel> {
    LEVELS.iter().copied().find(|l| level_name(*l) == s)
}
pub fn parse_elevel(s: &str) -> Option<ErrorLevel> {
    ELEVELS.iter().copied().find(|l| l.descriptor() == s)
}

pub fn read_bytes(fmt: &str, level: StrictnessLevel, bytes: &[u8]) -> Result<Result<(PDB, Vec<PDBError>), Vec<PDBError>>, String> {
    let format = if fmt == "pdb" { Format::Pdb } else { Format::Mmcif };
    guarded(|| ReadOptions::default().set_format(format).set_level(level).read_raw(BufReader::new(bytes)))
}

pub fn diag_levels(d: &[PDBError]) -> String {
    if d.is_empty() {
        "-".to_string()
    } else {
        d.iter().map(|e| e.level().descriptor().to_string()).collect::<Vec<_>>().join(",")
    }
}

pub fn gen(tier: &str, r: &mut Rng) -> Vec<String> {
    let mut out = Vec::new();
    // exhaustive table
    for e in ELEVELS {
        for l in LEVELS {
            out.push(format!("c07 fails {} {}", e.descriptor(), level_name(l)));
        }
    }
    let n_docs = crate::budget(tier, 250, 3000);
    for i in 0..n_docs {
        let d = pdbtext::gen_doc(r, true);
        let mut lines = pdbtext::render(&d, r, true);
        let nmut = match r.below(5) { 0 => 0, 1 | 2 => 1, 3 => 2, _ => 3 };
        for _ in 0..nmut {
            pdbtext::mutate_for_diag(&mut lines, r);
        }
        let text = lines.join("\n") + "\n";
        out.push(format!("c07 read pdb {}", enc_bytes(text.as_bytes())));
        // the same document through the mmCIF writer of the library, as an mmCIF input
        if i % 2 == 0 {
            if let Ok(Ok((pdb, _))) = read_bytes("pdb", StrictnessLevel::Loose, text.as_bytes()) {
                let mut buf = Vec::new();
                if guarded(|| save_mmcif_raw(&pdb, std::io::BufWriter::new(&mut buf))).is_ok() {
                    let mut t = String::from_utf8_lossy(&buf).to_string();
                    match r.below(5) {
                        0 => t = t.replacen("ATOM", "HETATM", 1),
                        1 => { if let Some(p) = t.rfind("\nATOM") { t.truncate(p + 1); } }
                        2 => t.push_str("_cell.angle_alpha_esd 3\n"),
                        _ => {}
                    }
                    out.push(format!("c07 read cif {}", enc_bytes(t.as_bytes())));
                }
            }
        }
    }
    // SEQRES records (their check adds residues to the structure: it must do so at every level alike)
    for _ in 0..crate::budget(tier, 40, 800) {
        let lines = pdbtext::gen_seqres_doc(r);
        out.push(format!("c07 read pdb {}", enc_bytes((lines.join("\n") + "\n").as_bytes())));
    }
    // save: structures with validation diagnostics of every class
    let n_save = crate::budget(tier, 60, 600);
    for k in 0..n_save {
        let o = GenOpts { max_models: 3, allow_empty: r.chance(1, 3), ..GenOpts::default() };
        let mut s = gen_pdb(r, &o);
        // every third structure carries diagnostics of several levels at once, in both orders: a model with another
        // atom count (LooseWarning), a model whose atom does not correspond (StrictWarning), a value outside its
        // PDB column (validate_pdb, LooseWarning) — a gate that looks at one diagnostic only gets the level wrong
        if k % 3 == 0 {
            let o1 = GenOpts { max_models: 1, allow_empty: false, ..GenOpts::default() };
            let base = gen_pdb(r, &o1);
            if let Some(m0) = base.models.first().cloned() {
                fn on_first_conf(m: &mut crate::st::SModel, f: impl FnOnce(&mut crate::st::SConf)) {
                    if let Some(c) = m.chains.iter_mut().flat_map(|c| c.residues.iter_mut()).flat_map(|x| x.confs.iter_mut()).find(|c| !c.atoms.is_empty()) { f(c); }
                }
                let mut fewer = m0.clone();
                on_first_conf(&mut fewer, |c| { c.atoms.pop(); });
                let mut other = m0.clone();
                on_first_conf(&mut other, |c| { if let Some(a) = c.atoms.first_mut() { a.charge = if a.charge == 2 { 1 } else { 2 }; } });
                let mut wide = m0.clone();
                on_first_conf(&mut wide, |c| { if let Some(a) = c.atoms.first_mut() { a.b = 1_000_000_000; } });
                let mut ms = vec![if r.chance(1, 3) { wide } else { m0 }];
                let mut rest = vec![fewer, other];
                if r.chance(1, 2) { rest.reverse(); }
                if r.chance(1, 4) { rest.truncate(1); }
                ms.extend(rest);
                for (i, m) in ms.iter_mut().enumerate() { m.serial = i + 1; }
                s = crate::st::SPdb { models: ms };
            }
        }
        let (_, back) = realise(&s);
        let func = *r.pick(&["save_pdb", "save_mmcif", "save", "save_gz", "save_pdb_gz", "save_mmcif_gz"]);
        let ext = match func {
            "save_pdb" | "save_pdb_gz" => "pdb",
            "save_mmcif" | "save_mmcif_gz" => "cif",
            _ => *r.pick(&["pdb", "cif", "PDB", "txt"]),
        };
        for l in LEVELS {
            for present in [false, true] {
                out.push(format!("c07 save {} {} {} {} {}", func, ext, level_name(l), b(present), back.line()));
            }
        }
    }
    out
}

fn scratch_dir() -> std::path::PathBuf {
    let d = std::env::temp_dir().join(format!("pdbtbx-verif-{}", std::process::id()));
    std::fs::create_dir_all(&d).expect("scratch dir");
    d
}

pub fn exec(case: &str) -> Exec {
    let mut t = Toks::new(case);
    t.expect("c07").expect("c07 case");
    match t.next().expect("op") {
        "fails" => {
            let e = parse_elevel(t.next().unwrap()).expect("elevel");
            let l = parse_level(t.next().unwrap()).expect("level");
            Exec::new(case, b(e.fails(l))).tag("fails")
        }
        "read" => {
            let fmt = t.next().unwrap();
            let bytes = dec_bytes(t.next().unwrap()).expect("bytes");
            // read at the three levels
            let mut reqs = Vec::new();
            let mut resps = Vec::new();
            let mut ex = Exec::new("", "");
            let mut outcomes: Vec<Option<(bool, Option<String>, Vec<PDBError>)>> = Vec::new();
            for l in LEVELS {
                match read_bytes(fmt, l, &bytes) {
                    Err(_) => {
                        // totality is C05/C06's business; here the level is simply skipped
                        outcomes.push(None);
                        ex.tags.push("panic-skipped".into());
                    }
                    Ok(Ok((pdb, d))) => {
                        reqs.push(format!("{} {}", level_name(l), diag_levels(&d)));
                        resps.push("OK".to_string());
                        outcomes.push(Some((true, Some(dump(&pdb)), d)));
                    }
                    Ok(Err(d)) => {
                        reqs.push(format!("{} {}", level_name(l), diag_levels(&d)));
                        resps.push("ERR".to_string());
                        outcomes.push(Some((false, None, d)));
                    }
                }
            }
            ex.req = format!("c07 gate {}", reqs.join(" "));
            ex.resp = resps.join(" ");
            // oracle, straight from the property's sentences
            for (i, o) in outcomes.iter().enumerate() {
                if let Some((ok, _, d)) = o {
                    let l = LEVELS[i];
                    let any_fail = d.iter().any(|e| e.level().fails(l));
                    for e in d {
                        ex.tags.push(format!("diag:{}:{}", e.level().descriptor(), e.short_description()));
                    }
                    if *ok && any_fail {
                        ex.failures.push(Failure::new("accepted-with-failing-diagnostic", format!("level {}", level_name(l))).feat("format", fmt));
                    }
                    if !*ok && !any_fail {
                        ex.failures.push(Failure::new("rejected-without-failing-diagnostic", format!("level {}", level_name(l))).feat("format", fmt));
                    }
                    if !*ok && d.is_empty() {
                        ex.failures.push(Failure::new("empty-rejection-list", format!("level {}", level_name(l))).feat("format", fmt));
                    }
                    ex.tags.push(format!("{}:{}:{}", fmt, level_name(l), if *ok { "accept" } else { "reject" }));
                }
            }
            // the path entry points (format and gzip decoding taken from the file name) gate exactly like the
            // in-memory reader: same verdict, same diagnostic levels, at every level
            if std::str::from_utf8(&bytes).is_ok() {
                let dir = format!("{}/c07-read-{}", std::env::var("VERIF_SCRATCH").unwrap_or_else(|_| "/verif/work".into()), std::process::id());
                let _ = std::fs::create_dir_all(&dir);
                for gz in [false, true] {
                    let path = format!("{}/in.{}{}", dir, if fmt == "pdb" { "pdb" } else { "cif" }, if gz { ".gz" } else { "" });
                    let data = if gz { use std::io::Write as _; let mut e = flate2::write::GzEncoder::new(Vec::new(), flate2::Compression::fast()); e.write_all(&bytes).unwrap(); e.finish().unwrap() } else { bytes.clone() };
                    if std::fs::write(&path, &data).is_err() { continue; }
                    for (i, l) in LEVELS.iter().enumerate() {
                        let by_path = guarded(|| ReadOptions::default().set_level(*l).read(&path));
                        let (ok, lv) = match &by_path { Ok(Ok((_, d))) => (true, diag_levels(d)), Ok(Err(d)) => (false, diag_levels(d)), Err(_) => continue };
                        if let Some((ok0, _, d0)) = &outcomes[i] {
                            if ok != *ok0 || lv != diag_levels(d0) {
                                ex.failures.push(Failure::new("path-read-gates-differently-from-the-in-memory-read", format!("level {}: {} {} vs {} {}", level_name(*l), ok, lv, ok0, diag_levels(d0))).feat("format", fmt).feat("gz", gz));
                            }
                        }
                        ex.tags.push(format!("path-read:{}", if gz { "gz" } else { "plain" }));
                    }
                    let _ = std::fs::remove_file(&path);
                }
                let _ = std::fs::remove_dir(&dir);
            }
            // monotone: accepted at stricter => accepted at looser with identical hierarchy and atoms
            for i in 0..3 {
                for j in (i + 1)..3 {
                    if let (Some((true, Some(di), _)), Some((okj, dj, _))) = (&outcomes[i], &outcomes[j]) {
                        if !*okj {
                            ex.failures.push(
                                Failure::new("non-monotone-accept", format!("accepted at {} but rejected at {}", level_name(LEVELS[i]), level_name(LEVELS[j])))
                                    .feat("format", fmt)
                                    .feat("strict_level", level_name(LEVELS[i]))
                                    .feat("loose_level", level_name(LEVELS[j]))
                                    .feat("has_long_remark", has_long_remark(&bytes)),
                            );
                        } else if dj.as_ref() != Some(di) {
                            ex.failures.push(Failure::new("hierarchy-differs-across-levels", format!("{} vs {}", level_name(LEVELS[i]), level_name(LEVELS[j]))).feat("format", fmt));
                        }
                    }
                }
            }
            ex
        }
        "save" => {
            let func = t.next().unwrap().to_string();
            let ext = t.next().unwrap().to_string();
            let l = parse_level(t.next().unwrap()).expect("level");
            let present = t.bool().unwrap();
            let s = SPdb::parse(&mut t).expect("structure");
            let pdb = s.to_real().expect("structure builds");
            // validation diagnostics the entry point is documented to gate on
            let mut diags = validate(&pdb);
            let is_pdb_writer = match func.as_str() {
                "save_pdb" | "save_pdb_gz" => true,
                "save_mmcif" | "save_mmcif_gz" => false,
                _ => ext.eq_ignore_ascii_case("pdb"),
            };
            let known_ext = ext.eq_ignore_ascii_case("pdb") || ext.eq_ignore_ascii_case("cif");
            if is_pdb_writer {
                diags.extend(validate_pdb(&pdb));
            }
            let gz = func.ends_with("_gz");
            let dir = scratch_dir().join(format!("save-{}", present));
            let _ = std::fs::remove_dir_all(&dir);
            std::fs::create_dir_all(&dir).unwrap();
            let fname = if gz { format!("out.{}.gz", ext) } else { format!("out.{}", ext) };
            let path = dir.join(&fname);
            let sentinel = b"SENTINEL-CONTENT\n";
            if present {
                std::fs::write(&path, sentinel).unwrap();
            }
            let p = path.to_str().unwrap().to_string();
            let res = guarded(|| match func.as_str() {
                "save_pdb" => save_pdb(&pdb, &p, l),
                "save_mmcif" => save_mmcif(&pdb, &p, l),
                "save" => save(&pdb, &p, l),
                "save_gz" => save_gz(&pdb, &p, l, None),
                "save_pdb_gz" => save_pdb_gz(&pdb, &p, l, None),
                "save_mmcif_gz" => save_mmcif_gz(&pdb, &p, l, None),
                _ => panic!("unknown save function"),
            });
            let listing: Vec<String> = std::fs::read_dir(&dir).unwrap().map(|e| e.unwrap().file_name().to_string_lossy().to_string()).collect();
            let content = std::fs::read(&path).ok();
            let _ = std::fs::remove_dir_all(&dir);
            let unknown_ext_dispatch = (func == "save" || func == "save_gz") && !known_ext;
            let req = if unknown_ext_dispatch {
                "-".to_string()
            } else {
                format!("c07 save {} {}", level_name(l), diag_levels(&diags))
            };
            let mut ex = Exec::new(req, "");
            ex.tags.push(format!("save:{}:{}", func, level_name(l)));
            match res {
                Err(m) => {
                    ex.resp = "PANIC".into();
                    ex.failures.push(Failure::new("save-panicked", m).feat("func", &func));
                }
                Ok(Ok(())) => {
                    ex.resp = "WROTE".into();
                    ex.tags.push("save:wrote".into());
                    if diags.iter().any(|e| e.level().fails(l)) {
                        ex.failures.push(Failure::new("saved-despite-failing-validation", format!("{} {}", func, level_name(l))).feat("func", &func));
                    }
                    if content.is_none() || content.as_deref() == Some(sentinel) {
                        ex.failures.push(Failure::new("save-ok-but-no-file-written", &func).feat("func", &func));
                    }
                }
                Ok(Err(_)) => {
                    ex.resp = "REFUSED".into();
                    ex.tags.push("save:refused".into());
                    if unknown_ext_dispatch {
                        ex.resp = "REFUSED-EXT".into();
                    } else if !diags.iter().any(|e| e.level().fails(l)) {
                        ex.failures.push(Failure::new("refused-without-failing-validation", format!("{} {}", func, level_name(l))).feat("func", &func));
                    }
                    let expected: Vec<String> = if present { vec![fname.clone()] } else { vec![] };
                    if listing != expected {
                        ex.failures.push(Failure::new("refusal-created-file", format!("{:?}", listing)).feat("func", &func));
                    }
                    if present && content.as_deref() != Some(sentinel) {
                        ex.failures.push(Failure::new("refusal-truncated-file", &func).feat("func", &func));
                    }
                }
            }
            ex
        }
        _ => panic!("unknown c07 op"),
    }
}

fn has_long_remark(bytes: &[u8]) -> bool {
    String::from_utf8_lossy(bytes).lines().any(|l| l.starts_with("REMARK") && l.trim_end().len() >= 80)
}
