//! C18 — validation reports exactly the documented inconsistencies.
use crate::rng::Rng;
use crate::st::*;
use crate::{budget, guarded, Exec, Failure};
use pdbtbx::*;

fn show(ds: &[PDBError]) -> String {
    if ds.is_empty() { "-".into() } else { ds.iter().map(|d| format!("{}:{}", d.level().descriptor(), d.short_description().replace(' ', "_"))).collect::<Vec<_>>().join(" ") }
}

fn base_model(r: &mut Rng, serial: usize) -> SModel {
    let o = GenOpts { max_models: 1, max_chains: 2, max_res: 3, max_conf: 2, max_atoms: 3, allow_empty: r.chance(1, 6), dup_ids: false, ..GenOpts::default() };
    let mut cnt = Counter { serial: 0, id: 0 };
    gen_model(r, &o, &mut cnt, serial)
}

fn atoms_mut(m: &mut SModel) -> Vec<&mut SAtom> {
    m.chains.iter_mut().flat_map(|c| c.residues.iter_mut()).flat_map(|x| x.confs.iter_mut()).flat_map(|f| f.atoms.iter_mut()).collect()
}

/// one single-field difference (or none) relative to the first model
fn vary(r: &mut Rng, m: &mut SModel) -> &'static str {
    let n = atoms_mut(m).len();
    if n == 0 { return "no-atoms"; }
    let i = r.below(n);
    match r.below(14) {
        0 => "same",
        1 => { atoms_mut(m)[i].serial += 1; "serial" }
        2 => { atoms_mut(m)[i].name = "XX".into(); atoms_mut(m)[i].el = 6; "name" }
        3 => { let a = &mut atoms_mut(m)[i]; a.el = if a.el == 8 { 7 } else { 8 }; "element" }
        4 => { atoms_mut(m)[i].charge += 1; "charge" }
        5 => { let a = &mut atoms_mut(m)[i]; a.atf = if a.atf.is_some() { None } else { Some([1000; 9]) }; "atf-presence" }
        6 => { let a = &mut atoms_mut(m)[i]; if let Some(t) = a.atf.as_mut() { t[0] += 1000; } ; "atf-value" }
        7 => { atoms_mut(m)[i].x += 1000; "position" }
        8 => { atoms_mut(m)[i].occ = 500_000; "occupancy" }
        9 => { let a = &mut atoms_mut(m)[i]; a.het = !a.het; "hetero" }
        10 => { // drop the atom
            for c in m.chains.iter_mut() { for x in c.residues.iter_mut() { for f in x.confs.iter_mut() { if !f.atoms.is_empty() { f.atoms.remove(0); return "atom-removed"; } } } }
            "atom-removed"
        }
        11 => { for c in m.chains.iter_mut() { for x in c.residues.iter_mut() { for f in x.confs.iter_mut() { if let Some(a) = f.atoms.first().cloned() { f.atoms.push(a); return "atom-added"; } } } } "atom-added" }
        12 => { let a = &mut atoms_mut(m)[i]; a.het = !a.het; let j = (i + 1) % n; let b = &mut atoms_mut(m)[j]; b.het = !b.het; "two-hetero-flips" }
        _ => { atoms_mut(m)[i].id = "zz".into(); "id" }
    }
}

const EDGE_F2: &[i64] = &[999_990_000, 1_000_000_000, -99_990_000, -100_000_000, 0, 999_980_000, -99_980_000, 999_995_000, 999_999_000, 999_990_001, -99_995_000, -99_990_001];
const EDGE_F3: &[i64] = &[9_999_999_000, 10_000_000_000, -999_999_000, -1_000_000_000, 0, 9_999_998_000, -999_998_000, 9_999_999_500, 9_999_999_001, -999_999_500, -999_999_001];

fn edge(r: &mut Rng, s: &mut SPdb) -> &'static str {
    if s.models.is_empty() { return "edge:none"; }
    let mi = r.below(s.models.len());
    let m = &mut s.models[mi];
    let pick_res = |m: &mut SModel, r: &mut Rng| -> Option<(usize, usize)> {
        let v: Vec<(usize, usize)> = m.chains.iter().enumerate().flat_map(|(i, c)| (0..c.residues.len()).map(move |j| (i, j))).collect();
        if v.is_empty() { None } else { Some(v[r.below(v.len())]) }
    };
    match r.below(16) {
        0 => { m.serial = *r.pick(&[9999usize, 10000]); "edge:model-serial" }
        1 => { if let Some(c) = m.chains.first_mut() { c.id = r.pick(&["A", "AB"]).to_string(); } "edge:chain-id" }
        2 => { if let Some((i, j)) = pick_res(m, r) { m.chains[i].residues[j].serial = *r.pick(&[9999i64, 10000, -999, -1000]); } "edge:residue-serial" }
        3 => { if let Some((i, j)) = pick_res(m, r) { m.chains[i].residues[j].icode = Some(r.pick(&["A", "AB"]).to_string()); } "edge:icode" }
        4 => { if let Some((i, j)) = pick_res(m, r) { if let Some(f) = m.chains[i].residues[j].confs.first_mut() { f.name = r.pick(&["ALA", "ALAN"]).to_string(); } } "edge:conformer-name" }
        5 => { if let Some((i, j)) = pick_res(m, r) { if let Some(f) = m.chains[i].residues[j].confs.first_mut() { f.alt = Some(r.pick(&["A", "AB"]).to_string()); } } "edge:altloc" }
        6 => { if let Some((i, j)) = pick_res(m, r) { if let Some(f) = m.chains[i].residues[j].confs.first_mut() { f.modif = Some((r.pick(&["SER", "SERX"]).to_string(), r.pick(&["x".repeat(41), "x".repeat(42)]).clone())); } } "edge:modification" }
        k => {
            let n = atoms_mut(m).len();
            if n == 0 { return "edge:none"; }
            let i = r.below(n);
            let a = &mut atoms_mut(m)[i];
            match k {
                7 => { a.name = r.pick(&["ABCD", "ABCDE"]).to_string(); a.el = 6; "edge:atom-name" }
                8 => { a.serial = *r.pick(&[99999usize, 100000]); "edge:atom-serial" }
                9 => { a.charge = *r.pick(&[9i64, 10, -9, -10]); "edge:charge" }
                10 => { a.occ = *r.pick(EDGE_F2); "edge:occupancy" }
                11 => { a.b = *r.pick(EDGE_F2); "edge:b-factor" }
                12 => { a.x = *r.pick(EDGE_F3); "edge:x" }
                13 => { a.y = *r.pick(EDGE_F3); "edge:y" }
                14 => { a.z = *r.pick(EDGE_F3); "edge:z" }
                _ => "edge:none",
            }
        }
    }
}

pub fn gen(tier: &str, r: &mut Rng) -> Vec<String> {
    let mut out = vec!["c18 validate P 0".to_string(), "c18 validate_pdb P 0".to_string(), "c18 validate P 1 M 1 0".to_string()];
    let n = budget(tier, 2000, 100_000);
    for _ in 0..n {
        let nm = match r.below(8) { 0 => 0, 1 | 2 | 3 => 1, 4 | 5 => 2, 6 => 3, _ => 4 };
        let mut s = SPdb::default();
        if nm > 0 {
            let first = base_model(r, 1);
            s.models.push(first.clone());
            for k in 1..nm {
                let mut m = if r.chance(1, 8) { base_model(r, k + 1) } else { let mut c = first.clone(); c.serial = k + 1; c };
                vary(r, &mut m);
                s.models.push(m);
            }
        }
        for _ in 0..r.below(3) { edge(r, &mut s); }
        let back = match guarded(|| realise(&s).1) { Ok(b) => b, Err(_) => continue };
        let which = if r.chance(1, 2) { "validate" } else { "validate_pdb" };
        out.push(format!("c18 {} {}", which, back.line()));
    }
    out
}

/// the documented rules, transcribed independently (multiset of `level:description`)
fn expected(s: &SPdb, pdb_specific: bool) -> Vec<String> {
    let mut d = Vec::new();
    let atoms = |m: &SModel| -> Vec<SAtom> { m.chains.iter().flat_map(|c| &c.residues).flat_map(|x| &x.confs).flat_map(|f| &f.atoms).cloned().collect() };
    if s.models.len() > 1 {
        let first = atoms(&s.models[0]);
        for m in &s.models[1..] {
            let cur = atoms(m);
            if cur.len() != first.len() { d.push("LooseWarning:Invalid_Model".to_string()); continue; }
            if cur.iter().filter(|a| !a.het).count() != first.iter().filter(|a| !a.het).count() { d.push("StrictWarning:Invalid_Model".to_string()); continue; }
            for (a, b) in first.iter().zip(cur.iter()) {
                if a.serial != b.serial || a.name != b.name || a.el != b.el || a.charge != b.charge || a.atf.is_some() != b.atf.is_some() {
                    d.push("StrictWarning:Atoms_in_Models_not_corresponding".to_string());
                }
            }
        }
    }
    if s.atom_count() == 0 { d.push("BreakingError:No_Atoms".to_string()); }
    if pdb_specific {
        let mut n = 0usize; // number of values that do not fit their column
        for m in &s.models {
            if m.serial > 9999 { n += 1; }
            for c in &m.chains {
                if c.id.len() > 1 { n += 1; }
                for x in &c.residues {
                    if x.serial > 9999 || x.serial < -999 { n += 1; }
                    if x.icode.as_ref().map_or(false, |i| i.len() > 1) { n += 1; }
                    for f in &x.confs {
                        if f.name.len() > 3 { n += 1; }
                        if f.alt.as_ref().map_or(false, |i| i.len() > 1) { n += 1; }
                        if let Some((a, b)) = &f.modif { if a.len() > 3 { n += 1; } if b.len() > 41 { n += 1; } }
                        for a in &f.atoms {
                            if a.name.len() > 4 { n += 1; }
                            if a.serial > 99999 { n += 1; }
                            if a.charge > 9 || a.charge < -9 { n += 1; }
                            if a.occ > 999_990_000 || a.occ < -99_990_000 { n += 1; }
                            if a.b > 999_990_000 || a.b < -99_990_000 { n += 1; }
                            for v in [a.x, a.y, a.z] { if v > 9_999_999_000 || v < -999_999_000 { n += 1; } }
                        }
                    }
                }
            }
        }
        for _ in 0..n { d.push("column".to_string()); }
    }
    d.sort();
    d
}

pub fn exec(case: &str) -> Exec {
    let mut t = Toks::new(case);
    t.expect("c18").unwrap();
    let which = t.next().unwrap().to_string();
    let s = SPdb::parse(&mut t).expect("structure");
    let mut ex = Exec::new(case, "");
    ex.tags.push(format!("fn:{which}"));
    ex.tags.push(format!("models:{}", s.models.len()));
    let res = guarded(|| {
        let pdb = s.to_real().expect("builds");
        if which == "validate" { validate(&pdb) } else { validate_pdb(&pdb) }
    });
    match res {
        Err(m) => { ex.resp = "PANIC".into(); ex.failures.push(Failure::new("validate-panicked", m)); }
        Ok(ds) => {
            ex.resp = show(&ds);
            for d in &ds { ex.tags.push(format!("diag:{}", d.short_description())); }
            // general diagnostics by name; PDB column diagnostics by count (all are LooseWarnings)
            let general = ["Invalid Model", "Atoms in Models not corresponding", "No Atoms"];
            let mut got: Vec<String> = ds.iter().map(|d| {
                if general.contains(&d.short_description()) { format!("{}:{}", d.level().descriptor(), d.short_description().replace(' ', "_")) } else { "column".to_string() }
            }).collect();
            got.sort();
            let want = expected(&s, which == "validate_pdb");
            if got != want {
                let (gc, wc) = (got.iter().filter(|x| *x == "column").count(), want.iter().filter(|x| *x == "column").count());
                let mut f = Failure::new(if gc != wc { "column-diagnostics-differ-from-documented-ranges" } else { "general-diagnostics-differ-from-documented-rules" },
                    format!("got {:?} want {:?}", got, want)).feat("fn", &which);
                if gc < wc { f = f.feat("direction", "missing"); } else if gc > wc { f = f.feat("direction", "extra"); }
                ex.failures.push(f);
            }
            if ds.iter().any(|d| !general.contains(&d.short_description()) && d.level() != ErrorLevel::LooseWarning) {
                ex.failures.push(Failure::new("column-diagnostic-with-unexpected-level", ""));
            }
        }
    }
    ex
}
