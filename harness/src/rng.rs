//! One PRNG state per run: splitmix64. Every random choice of the harness comes from here.
#[derive(Clone)]
pub struct Rng(pub u64);

impl Rng {
    pub fn new(seed: u64, salt: &str) -> Rng {
        let mut s = seed ^ 0x9E37_79B9_7F4A_7C15;
        for b in salt.bytes() {
            s = s.wrapping_mul(0x100_0000_01B3) ^ (b as u64);
        }
        let mut r = Rng(s);
        r.next();
        r
    }
    pub fn next(&mut self) -> u64 {
        self.0 = self.0.wrapping_add(0x9E37_79B9_7F4A_7C15);
        let mut z = self.0;
        z = (z ^ (z >> 30)).wrapping_mul(0xBF58_476D_1CE4_E5B9);
        z = (z ^ (z >> 27)).wrapping_mul(0x94D0_49BB_1331_11EB);
        z ^ (z >> 31)
    }
    /// uniform in 0..n (n > 0)
    pub fn below(&mut self, n: usize) -> usize {
        (self.next() % (n as u64)) as usize
    }
    pub fn range(&mut self, lo: i64, hi: i64) -> i64 {
        lo + (self.next() % ((hi - lo + 1) as u64)) as i64
    }
    pub fn chance(&mut self, num: usize, den: usize) -> bool {
        self.below(den) < num
    }
    pub fn pick<'a, T>(&mut self, xs: &'a [T]) -> &'a T {
        &xs[self.below(xs.len())]
    }
    /// small sizes mostly, with a long tail
    pub fn size(&mut self, max: usize) -> usize {
        if max == 0 {
            return 0;
        }
        match self.below(10) {
            0 => 0,
            1..=5 => 1 + self.below(max.min(2)),
            6..=8 => 1 + self.below(max.min(4)),
            _ => 1 + self.below(max),
        }
    }
    pub fn shuffle<T>(&mut self, xs: &mut [T]) {
        for i in (1..xs.len()).rev() {
            let j = self.below(i + 1);
            xs.swap(i, j);
        }
    }
}
