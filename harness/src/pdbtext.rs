//! Independent renderer of PDB-format text from an abstract document (never uses the library's
//! writer), plus the mutation operators used to trigger each diagnostic class.
use crate::rng::Rng;

/// fixed point text of `v` (units 10^-6) with `dec` decimals (value must be a multiple of 10^(6-dec))
pub fn fixed(v: i64, dec: u32) -> String {
    let scale = 10i64.pow(6 - dec);
    let q = v / scale; // generators only build exact multiples
    let neg = q < 0;
    let a = q.unsigned_abs();
    let p = 10u64.pow(dec);
    let s = if dec == 0 { format!("{}", a) } else { format!("{}.{:0width$}", a / p, a % p, width = dec as usize) };
    if neg { format!("-{}", s) } else { s }
}

#[derive(Clone, Copy, PartialEq)]
pub enum Just { Right, Left }

pub fn pad(s: &str, w: usize, j: Just) -> String {
    match j {
        Just::Right => format!("{:>w$}", s, w = w),
        Just::Left => format!("{:<w$}", s, w = w),
    }
}

#[derive(Clone, Debug)]
pub struct AtomRec {
    pub het: bool,
    pub serial: usize,
    pub name: String,
    pub alt: char,
    pub resname: String,
    pub chain: char,
    pub resseq: i64,
    pub icode: char,
    pub x: i64,
    pub y: i64,
    pub z: i64,
    pub occ: i64,
    pub b: i64,
    pub seg: String,
    pub element: String,
    pub charge: i64,
    pub aniso: Option<[i64; 6]>, // u11 u22 u33 u12 u13 u23 in units of 10^-4
}

pub fn charge_txt(c: i64) -> String {
    if c == 0 { "  ".to_string() } else { format!("{}{}", c.abs(), if c < 0 { '-' } else { '+' }) }
}

pub fn atom_line(a: &AtomRec, r: &mut Rng, random_just: bool) -> String {
    let j = |r: &mut Rng| if random_just && r.chance(1, 3) { Just::Left } else { Just::Right };
    let name = if random_just {
        match r.below(3) {
            0 => pad(&a.name, 4, Just::Left),
            1 => pad(&a.name, 4, Just::Right),
            _ => if a.name.len() < 4 { pad(&format!(" {}", a.name), 4, Just::Left) } else { a.name.clone() },
        }
    } else if a.name.len() < 4 { pad(&format!(" {}", a.name), 4, Just::Left) } else { a.name.clone() };
    format!(
        "{}{} {}{}{} {}{}{}   {}{}{}{}{}      {}{}{}",
        if a.het { "HETATM" } else { "ATOM  " },
        pad(&(a.serial % 100000).to_string(), 5, j(r)),
        name,
        a.alt,
        pad(&a.resname, 3, j(r)),
        a.chain,
        pad(&a.resseq.to_string(), 4, j(r)),
        a.icode,
        pad(&fixed(a.x, 3), 8, j(r)),
        pad(&fixed(a.y, 3), 8, j(r)),
        pad(&fixed(a.z, 3), 8, j(r)),
        pad(&fixed(a.occ, 2), 6, j(r)),
        pad(&fixed(a.b, 2), 6, j(r)),
        pad(&a.seg, 4, Just::Left),
        pad(&a.element, 2, j(r)),
        charge_txt(a.charge),
    )
}

pub fn anisou_line(a: &AtomRec, u: &[i64; 6]) -> String {
    let name = if a.name.len() < 4 { pad(&format!(" {}", a.name), 4, Just::Left) } else { a.name.clone() };
    format!(
        "ANISOU{:>5} {}{}{:>3} {}{:>4}{} {:>7}{:>7}{:>7}{:>7}{:>7}{:>7}      {:>2}{}",
        a.serial % 100000, name, a.alt, a.resname, a.chain, a.resseq, a.icode,
        u[0], u[1], u[2], u[3], u[4], u[5], a.element, charge_txt(a.charge)
    )
}

pub fn matrix_row_line(rec: &str, n: usize, ser: Option<usize>, row: &[i64; 4], given: bool) -> String {
    // SCALEn/ORIGXn/MTRIXn: 10..20, 20..30, 30..40, 45..55; MTRIX serial 7..10, given flag col 59
    let head = match ser {
        Some(s) => format!("{}{} {:>3}", rec, n, s),
        None => format!("{}{}    ", rec, n),
    };
    let mut l = format!(
        "{}{:>10}{:>10}{:>10}     {:>10}",
        head, fixed(row[0], 6), fixed(row[1], 6), fixed(row[2], 6), fixed(row[3], 5)
    );
    if ser.is_some() {
        l = format!("{:<59}{}", l, if given { '1' } else { ' ' });
    }
    l
}

pub fn cryst1_line(a: i64, b: i64, c: i64, al: i64, be: i64, ga: i64, sg: &str, z: usize) -> String {
    format!(
        "CRYST1{:>9}{:>9}{:>9}{:>7}{:>7}{:>7} {:<11}{:>4}",
        fixed(a, 3), fixed(b, 3), fixed(c, 3), fixed(al, 2), fixed(be, 2), fixed(ga, 2), sg, z
    )
}

pub fn header_line(class: &str, date: &str, id: &str) -> String {
    format!("HEADER    {:<40}{:<9}   {:<4}", class, date, id)
}

pub fn remark_line(num: usize, text: &str) -> String {
    format!("REMARK {:>3} {}", num, text)
}

pub fn model_line(n: usize) -> String {
    format!("MODEL     {:>4}", n)
}

pub fn master_line(remark: usize, empty: usize, xform: usize, coord: usize, ter: usize) -> String {
    format!(
        "MASTER    {:>5}{:>5}{:>5}{:>5}{:>5}{:>5}{:>5}{:>5}{:>5}{:>5}{:>5}{:>5}",
        remark, empty, 0, 0, 0, 0, 0, xform, coord, ter, 0, 0
    )
}

#[derive(Clone, Debug, Default)]
pub struct Doc {
    pub header: Option<(String, String, String)>,
    pub remarks: Vec<(usize, String)>,
    pub cryst1: Option<(i64, i64, i64, i64, i64, i64, String, usize)>,
    pub origx: Option<[[i64; 4]; 3]>,
    pub scale: Option<[[i64; 4]; 3]>,
    pub mtrix: Vec<(usize, [[i64; 4]; 3], bool)>,
    /// models: (Some(number) when MODEL/ENDMDL records are written, atoms, TER after which atom indexes)
    pub models: Vec<(Option<usize>, Vec<AtomRec>)>,
    pub master: bool,
    pub end: bool,
}

pub const SPACE_GROUPS: &[&str] = &["P 1", "P 21 21 21", "C 1 2 1", "P 43 21 2", "F m -3 m", "P 1 21 1", "I 4"];

pub fn gen_atoms(r: &mut Rng, n_chains: usize, max_res: usize, with_h: bool) -> Vec<AtomRec> {
    let names = ["N", "CA", "C", "O", "CB", "OG", "SG", "CG"];
    let hnames = ["H", "HA", "HB2"];
    let resn = ["ALA", "GLY", "SER", "CYS", "LYS", "HOH", "ala"];
    let chains = ['A', 'B', 'C', 'a', '1'];
    let mut out = Vec::new();
    let mut serial = 0usize;
    for ci in 0..n_chains {
        let chain = chains[(ci + r.below(2)) % chains.len()];
        let nres = 1 + r.below(max_res.max(1));
        let mut resseq = r.range(-5, 30);
        for _ in 0..nres {
            resseq += 1 + if r.chance(1, 6) { r.range(1, 5) } else { 0 };
            let icode = if r.chance(1, 8) { *r.pick(&['A', 'B']) } else { ' ' };
            let rn = r.pick(&resn).to_string();
            let het = rn == "HOH";
            let altmode = r.below(6); // 0: partial altlocs, 1: full altlocs, else none
            let natoms = 1 + r.below(5);
            for ai in 0..natoms {
                let (nm, el) = if with_h && r.chance(1, 4) {
                    (r.pick(&hnames).to_string(), "H".to_string())
                } else {
                    let n = names[ai % names.len()];
                    (n.to_string(), n[..1].to_string())
                };
                let alts: Vec<char> = match altmode {
                    0 if ai >= 1 => vec!['A', 'B'],
                    1 => vec!['A', 'B'],
                    _ => vec![' '],
                };
                for alt in alts {
                    serial += 1;
                    out.push(AtomRec {
                        het,
                        serial,
                        name: nm.clone(),
                        alt,
                        resname: rn.clone(),
                        chain,
                        resseq,
                        icode,
                        x: r.range(-999999, 9999999) * 1000,
                        y: r.range(-999999, 9999999) * 1000,
                        z: r.range(-99999, 99999) * 1000,
                        occ: if alt == ' ' { 1_000_000 } else { r.range(1, 9) * 100_000 },
                        b: r.range(0, 9999) * 10_000,
                        seg: String::new(),
                        element: el.clone(),
                        charge: if r.chance(1, 10) { r.range(-3, 3) } else { 0 },
                        aniso: if r.chance(1, 8) {
                            Some([r.range(0, 9999), r.range(0, 9999), r.range(0, 9999), r.range(-999, 999), r.range(-999, 999), r.range(-999, 999)])
                        } else { None },
                    });
                }
            }
        }
    }
    out
}

pub fn gen_matrix(r: &mut Rng) -> [[i64; 4]; 3] {
    let mut m = [[0i64; 4]; 3];
    for (i, row) in m.iter_mut().enumerate() {
        for (j, v) in row.iter_mut().enumerate() {
            *v = if j == 3 { r.range(-99999, 99999) * 10 } else if i == j { 1_000_000 } else { r.range(-999999, 999999) };
        }
    }
    m
}

pub fn gen_doc(r: &mut Rng, with_h: bool) -> Doc {
    let mut d = Doc::default();
    if r.chance(1, 2) {
        d.header = Some(("HYDROLASE".into(), "01-JAN-20".into(), r.pick(&["1ABC", "9XYZ", "2def"]).to_string()));
    }
    for _ in 0..r.below(4) {
        let n = *r.pick(&[1usize, 2, 3, 4, 350, 465, 999]);
        d.remarks.push((n, r.pick(&["RESOLUTION. 1.50 ANGSTROMS.", "THIS ENTRY", "", "AUTHOR X"]).to_string()));
    }
    if r.chance(1, 2) {
        let sg = r.pick(SPACE_GROUPS).to_string();
        d.cryst1 = Some((r.range(1000, 99999) * 1000, r.range(1000, 99999) * 1000, r.range(1000, 99999) * 1000, 90_000_000, r.range(6000, 12000) * 10_000, 90_000_000, sg, 4));
    }
    if r.chance(1, 4) { d.origx = Some(gen_matrix(r)); }
    if r.chance(1, 4) { d.scale = Some(gen_matrix(r)); }
    for i in 0..r.below(3) { if r.chance(1, 3) { d.mtrix.push((i + 1, gen_matrix(r), r.chance(1, 2))); } }
    let nmodels = match r.below(6) { 0 => 2, 1 => 3, _ => 1 };
    let nch = 1 + r.below(3);
    let base = gen_atoms(r, nch, 4, with_h);
    for mi in 0..nmodels {
        let mut atoms = base.clone();
        if mi > 0 {
            for a in atoms.iter_mut() { a.x += 1000 * mi as i64; }
        }
        let num = if nmodels > 1 || r.chance(1, 5) { Some(mi + 1) } else { None };
        d.models.push((num, atoms));
    }
    d.master = r.chance(1, 3);
    d.end = r.chance(2, 3);
    d
}

pub fn render(d: &Doc, r: &mut Rng, random_just: bool) -> Vec<String> {
    let mut l = Vec::new();
    if let Some((c, dt, id)) = &d.header { l.push(header_line(c, dt, id)); }
    for (n, t) in &d.remarks { l.push(remark_line(*n, t)); }
    if let Some((a, b, c, al, be, ga, sg, z)) = &d.cryst1 { l.push(cryst1_line(*a, *b, *c, *al, *be, *ga, sg, *z)); }
    if let Some(m) = &d.origx { for i in 0..3 { l.push(matrix_row_line("ORIGX", i + 1, None, &m[i], false)); } }
    if let Some(m) = &d.scale { for i in 0..3 { l.push(matrix_row_line("SCALE", i + 1, None, &m[i], false)); } }
    for (ser, m, given) in &d.mtrix { for i in 0..3 { l.push(matrix_row_line("MTRIX", i + 1, Some(*ser), &m[i], *given)); } }
    let mut ters = 0;
    for (num, atoms) in &d.models {
        if let Some(n) = num { l.push(model_line(*n)); }
        let mut last_chain = None;
        for a in atoms {
            if let Some(c) = last_chain { if c != a.chain { l.push("TER".to_string()); ters += 1; } }
            last_chain = Some(a.chain);
            l.push(atom_line(a, r, random_just));
            if let Some(u) = &a.aniso { l.push(anisou_line(a, u)); }
        }
        if !atoms.is_empty() { l.push("TER".to_string()); ters += 1; }
        if num.is_some() { l.push("ENDMDL".to_string()); }
    }
    if d.master {
        let xform = 3 * (d.origx.is_some() as usize + d.scale.is_some() as usize + d.mtrix.len());
        let coord: usize = d.models.iter().map(|m| m.1.len()).sum();
        l.push(master_line(d.remarks.len(), 0, xform, coord, ters));
    }
    if d.end { l.push("END".to_string()); }
    l
}

/// Mutations that trigger particular diagnostic classes (returns a label)
pub fn mutate_for_diag(lines: &mut Vec<String>, r: &mut Rng) -> &'static str {
    match r.below(15) {
        0 => { lines.insert(0, format!("REMARK   1 {}", "X".repeat(75))); "remark-too-long" }
        12 => {
            // REMARK lines around the 80-column limit, alone, in a run (merged into one context) or apart
            // ... also with a two-byte character inside (80 bytes need not be 80 characters) and with a character remark
            // texts refuse (a tab): the length check and the text check are separate
            let mk = |r: &mut Rng| { let n = *r.pick(&[66usize, 67, 68, 69, 70, 75]); let odd = r.below(6); format!("REMARK   1 {}{}{}", if odd == 0 { "\u{c5}" } else if odd == 1 { "\t" } else { "" }, "X".repeat(n), if r.chance(1, 4) { "   " } else { "" }) };
            let n = 1 + r.below(3);
            let at = r.below(lines.len() + 1);
            for k in 0..n { let l = mk(r); lines.insert(at + k, l); }
            if r.chance(1, 2) { let l = mk(r); let at2 = r.below(lines.len() + 1); lines.insert(at2, l); }
            "remark-length-boundary"
        }
        13 | 14 => {
            // a disulfide bond between two residues of the file (insertion codes included), preferably on SG atoms
            let atoms: Vec<usize> = lines.iter().enumerate().filter(|(_, l)| (l.starts_with("ATOM") || l.starts_with("HETATM")) && l.len() >= 27 && l.is_ascii()).map(|(i, _)| i).collect();
            if atoms.is_empty() { return "ssbond-none"; }
            let sg: Vec<usize> = atoms.iter().copied().filter(|i| lines[*i][12..16].trim() == "SG").collect();
            let pool = if !sg.is_empty() && r.chance(3, 4) { &sg } else { &atoms };
            let (a, b) = (lines[*r.pick(pool)].clone(), lines[*r.pick(pool)].clone());
            let part = |l: &str, r: &mut Rng| {
                let ic = if r.chance(1, 8) { "A" } else { &l[26..27] };
                format!("{:>3} {} {:>4}{}", &l[17..20], &l[21..22], l[22..26].trim(), ic)
            };
            let (pa, pb) = (part(&a, r), part(&b, r));
            let mut l = format!("SSBOND   1 {}   {}{}{:>6} {:>6} {:>5}", pa, pb, " ".repeat(23), "1555", "1555", "2.03");
            if r.chance(1, 4) { l.truncate(*r.pick(&[36usize, 59, 72, 77])); }
            let at = lines.iter().position(|x| x.starts_with("ATOM") || x.starts_with("HETATM") || x.starts_with("MODEL")).unwrap_or(0);
            lines.insert(at, l);
            "ssbond"
        }
        1 => { lines.insert(0, "REMARK  17 ODD NUMBER".to_string()); "remark-type-invalid" }
        2 => { lines.insert(0, "HEADER    SHORT".to_string()); "header-short" }
        3 => {
            if let Some(i) = lines.iter().position(|l| l.starts_with("ATOM") || l.starts_with("HETATM")) {
                let mut cs: Vec<char> = lines[i].chars().collect();
                if cs.len() > 35 { cs[33] = 'x'; }
                lines[i] = cs.into_iter().collect();
            }
            "bad-number"
        }
        4 => { lines.push(master_line(77, 0, 0, 0, 0)); "master-remark-mismatch" }
        5 => { lines.push(master_line(0, 3, 0, 1, 0)); "master-empty-nonzero" }
        6 => {
            if let Some(i) = lines.iter().rposition(|l| l.starts_with("ATOM")) { lines.remove(i); }
            "drop-atom-line"
        }
        7 => { lines.insert(0, "SEQADV 1ABC MET A   -1  UNP  P12345              EXPRESSION TAG".to_string()); "seqadv-no-dbref" }
        8 => {
            if let Some(i) = lines.iter().position(|l| l.starts_with("ATOM")) { let t: String = lines[i].chars().take(60).collect(); lines[i] = t; }
            "truncated-atom"
        }
        9 => { lines.insert(0, "DBREF2 1ABC A     P12345                             1         100".to_string()); "dbref2-solitary" }
        10 => { lines.insert(0, "SCALE1      0.010000  0.000000  0.000000        0.00000".to_string()); "scale-partial" }
        _ => { lines.insert(0, format!("REMARK 999 {}", "Y".repeat(60))); "remark-long-ok" }
    }
}

/// Documents that walk `validate_seqres` through all of its branches: one to three chains with SEQRES records
/// (serial numbers and totals right or wrong, names in any case, with blanks inside, with characters the structs
/// refuse), a database reference with or without sequence differences in front of its start, chains numbered from the
/// position the first name stands for or out of step, residues missing, out of order, repeated, with two residue
/// names under one number, hetero groups between them, SEQRES for a chain that has no atoms, a second model.
pub fn gen_seqres_doc(r: &mut Rng) -> Vec<String> {
    let names = ["ALA", "GLY", "SER", "LYS", "CYS", "MSE", "ala", " MG", "ZN ", "A\tB", "  A"];
    let plain = ["ALA", "GLY", "SER", "LYS", "CYS"];
    let nch = 1 + r.below(3);
    let mut head: Vec<String> = Vec::new();
    let mut body: Vec<String> = Vec::new();
    for _ in 0..r.below(2) { head.push("REMARK   2 RESOLUTION.    1.74 ANGSTROMS.".to_string()); }
    let mut plan: Vec<(char, i64, Vec<String>)> = Vec::new();
    for ci in 0..nch {
        let ch = if r.chance(1, 12) { *r.pick(&['a', ' ', '1']) } else { (b'A' + ci as u8) as char };
        let big = r.chance(1, 5); let n = 1 + r.below(if big { 30 } else { 6 });
        let odd = r.chance(1, 4);
        let seq: Vec<String> = (0..n).map(|_| if odd { r.pick(&names).to_string() } else { r.pick(&plain).to_string() }).collect();
        // database reference: start, end (right, or off by a few), sequence differences in front of the start
        let mut start = 0i64;
        if r.chance(1, 2) {
            start = r.range(-3, 30);
            let n_front = if r.chance(1, 3) { 1 + r.below(2) as i64 } else { 0 };
            let end = start + n as i64 - 1 - n_front + if r.chance(1, 5) { r.range(-2, 2) } else { 0 };
            head.push(format!("DBREF  1ABC {} {:>4}  {:>4}  UNP    P12345   TEST_HUMAN   {:>5}  {:>5} ", ch, start, end, 1, n));
            for k in 0..n_front {
                // an expression tag in front of the database sequence: no database residue
                head.push(format!("SEQADV 1ABC {} {} {:>4}  UNP  P12345              EXPRESSION TAG", r.pick(&plain), ch, start - 1 - k));
            }
            if r.chance(1, 4) { head.push(format!("SEQADV 1ABC {} {} {:>4}  UNP  P12345    ALA    12 ENGINEERED MUTATION   ", r.pick(&plain), ch, start + 1)); }
            // differences that must NOT move the first position: one with a database residue in front of the start,
            // one without a database residue at the start itself or behind it
            if r.chance(1, 5) { head.push(format!("SEQADV 1ABC {} {} {:>4}  UNP  P12345    GLY     1 CONFLICT              ", r.pick(&plain), ch, start - 1 - r.below(2) as i64)); }
            if r.chance(1, 5) { head.push(format!("SEQADV 1ABC {} {} {:>4}  UNP  P12345              INSERTION", r.pick(&plain), ch, start + r.below(2) as i64)); }
            start -= n_front;
        }
        plan.push((ch, start, seq));
    }
    for (ch, _, seq) in &plan {
        let wrong_total = r.chance(1, 8);
        for (i, chunk) in seq.chunks(13).enumerate() {
            let ser = if r.chance(1, 15) { i + 2 } else { i + 1 };
            let total = if wrong_total || (i > 0 && r.chance(1, 15)) { seq.len() + 1 + r.below(2) } else { seq.len() };
            let mut l = format!("SEQRES {:>3} {} {:>4}  {}", ser, ch, total, chunk.join(" "));
            if r.chance(1, 20) { let k = 12 + r.below(l.len().saturating_sub(12).max(1)); l = l.chars().take(k).collect(); }
            head.push(l);
        }
    }
    if r.chance(1, 8) { head.push("SEQRES   1 Q    2  ALA GLY".to_string()); } // a chain without atoms
    if r.chance(1, 4) { let at = r.below(head.len() + 1); head.insert(at, "REMARK 300 BETWEEN".to_string()); }
    let nmodels = if r.chance(1, 5) { 2 } else { 1 };
    let mut serial = 0usize;
    for mi in 0..nmodels {
        if nmodels > 1 { body.push(model_line(mi + 1)); }
        for (ch, start, seq) in &plan {
            let shift = if r.chance(1, 6) { r.range(-2, 3) } else { 0 };
            let mut order: Vec<usize> = (0..seq.len()).collect();
            if r.chance(1, 8) && order.len() > 2 { let i = r.below(order.len() - 1); order.swap(i, i + 1); }
            if r.chance(1, 10) && !order.is_empty() { let i = r.below(order.len()); let v = order[i]; order.push(v); }
            // residues as groups of lines, so that whole residues can change places
            let mut groups: Vec<Vec<String>> = Vec::new();
            for i in order {
                let mut body: Vec<String> = Vec::new();
                if r.chance(1, 10) { continue; }
                let num = start + i as i64 + shift;
                let nm = if r.chance(1, 8) { r.pick(&plain).to_string() } else { seq[i].trim().replace('\t', "X") };
                let nm = if nm.is_empty() { "ALA".to_string() } else { nm };
                let two_names = r.chance(1, 12);
                let het = r.chance(1, 12);
                for (k, an) in ["N", "CA"].iter().enumerate().take(1 + r.below(2)) {
                    serial += 1;
                    let (alt, resname) = if two_names { (['A', 'B'][k % 2], [nm.clone(), "GLY".to_string()][k % 2].clone()) } else { (' ', nm.clone()) };
                    let a = AtomRec { het, serial, name: an.to_string(), alt, resname, chain: if *ch == ' ' { 'A' } else { *ch }, resseq: num, icode: ' ', x: serial as i64 * 1000, y: 0, z: 0, occ: 1_000_000, b: 0, seg: String::new(), element: an[..1].to_string(), charge: 0, aniso: None };
                    body.push(atom_line(&a, r, false));
                }
                groups.push(body);
            }
            for _ in 0..r.below(3) {
                serial += 1;
                let a = AtomRec { het: true, serial, name: "O".into(), alt: ' ', resname: "HOH".into(), chain: if *ch == ' ' { 'A' } else { *ch }, resseq: start + seq.len() as i64 + r.range(1, 500), icode: ' ', x: serial as i64 * 1000, y: 0, z: 0, occ: 1_000_000, b: 0, seg: String::new(), element: "O".into(), charge: 0, aniso: None };
                groups.push(vec![atom_line(&a, r, false)]);
            }
            // a residue (a water with a large number, or one of the chain's own) somewhere else in the chain: the walk
            // then meets numbers that go down, skips over residues and comes to the end of the chain early
            if r.chance(1, 4) && groups.len() > 2 {
                for _ in 0..1 + r.below(2) {
                    let from = r.below(groups.len());
                    let g = groups.remove(from);
                    let to = r.below(groups.len() + 1);
                    groups.insert(to, g);
                }
            }
            // ... on purpose: two neighbours swapped, a far-away water right behind them, and the last residue left out, so
            // that the walk skips over the water, runs out of residues and appends the missing name behind it
            if r.chance(1, 8) && groups.len() >= 4 {
                let i = r.below(groups.len() - 3);
                groups.swap(i, i + 1);
                serial += 1;
                let a = AtomRec { het: true, serial, name: "O".into(), alt: ' ', resname: "HOH".into(), chain: if *ch == ' ' { 'A' } else { *ch }, resseq: start + seq.len() as i64 + 700, icode: ' ', x: serial as i64 * 1000, y: 0, z: 0, occ: 1_000_000, b: 0, seg: String::new(), element: "O".into(), charge: 0, aniso: None };
                groups.insert(i + 2, vec![atom_line(&a, r, false)]);
                groups.pop();
            }
            for g in groups { body.extend(g); }
            body.push("TER".into());
        }
        if nmodels > 1 { body.push("ENDMDL".into()); }
    }
    body.push("END".into());
    head.extend(body);
    head
}

