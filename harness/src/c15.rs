//! C15 — read options act as pure filters; path-based open/save equal the in-memory API.
use crate::cifdoc;
use crate::enc::*;
use crate::full::*;
use crate::pdbio::*;
use crate::pdbtext;
use crate::rng::Rng;
use crate::st::*;
use crate::{budget, guarded, Exec, Failure};
use pdbtbx::*;
use std::io::{BufWriter, Read as _, Write as _};

const STEMS: &[&str] = &["model", "1abc", "two.dots", "UPPER", "sp ace", "x.pdb", "a.cif", ".hidden", "", "trailing.", "naïve"];
const EXTS: &[&str] = &["pdb", "pdb1", "cif", "mmcif", "PDB", "Cif", "ent", "txt", "gz", "pdb2", "mmCIF", "pd", ""];

fn names(r: &mut Rng) -> String {
    let stem = r.pick(STEMS).to_string();
    // two names in three carry one of the documented extensions
    let ext = if r.chance(2, 3) { r.pick(&["pdb", "pdb1", "cif", "mmcif", "pdb", "cif"]).to_string() } else { r.pick(EXTS).to_string() };
    let gz = r.pick(&["", "", ".gz", ".gz", ".GZ", ".gzip"]).to_string();
    match r.below(10) { 0 => stem, 1 => ext, 2 => format!("{}{}", ext, gz), _ => format!("{}.{}{}", stem, ext, gz) }
}

pub fn gen(tier: &str, r: &mut Rng) -> Vec<String> {
    let mut out = Vec::new();
    // (a) option filters on generated documents of both formats
    for _ in 0..budget(tier, 200, 8_000) {
        let lvl = *r.pick(&["Strict", "Medium", "Loose", "Loose"]);
        let flags = format!("{}{}{}", r.below(2), r.below(2), r.below(2));
        if r.chance(1, 2) {
            let mut d = pdbtext::gen_doc(r, true);
            d.master = false;
            // hydrogens anywhere, including first
            if r.chance(1, 2) { for (_, atoms) in d.models.iter_mut() { if let Some(a) = atoms.first_mut() { a.element = "H".into(); a.name = "H1".into(); } } }
            let lines = pdbtext::render(&d, r, false);
            out.push(format!("c15 filter pdb {} {} {}", lvl, flags, enc_bytes((lines.join("\n") + "\n").as_bytes())));
        } else {
            let mut d = cifdoc::gen_doc(r, true, false);
            if r.chance(1, 2) { let first_model = d.rows.first().map(|x| x.model); for x in d.rows.iter_mut() { if Some(x.model) != first_model { continue; } x.element = "H".into(); x.name = "H1".into(); break; } }
            if r.chance(1, 8) { let m1 = d.rows.first().map(|x| x.model); for x in d.rows.iter_mut().filter(|x| Some(x.model) == m1) { x.element = "H".into(); x.name = "H".into(); } }
            let text = cifdoc::render(&d, r, true);
            let mut nh = d.clone();
            nh.rows.retain(|x| x.element != "H");
            let text_nh = cifdoc::render(&nh, r, true);
            out.push(format!("c15 filter mmcif {} {} {} {}", lvl, flags, enc_bytes(text.as_bytes()), enc_bytes(text_nh.as_bytes())));
        }
    }
    // (a') serial numbers and residue numbers that wrap (99999 -> 0, 9999 -> 0) exactly on a hydrogen record, on the
    // record after it, or nowhere near one: the discarded record must not take part in the wrap bookkeeping
    for k in 0..budget(tier, 48, 600) {
        let mut rr = Rng::new(7000 + k as u64, "c15-wrap");
        let n = 4 + rr.below(6);
        let start = 99_999 - rr.below(3);
        let rstart = 9_999 - rr.below(3) as i64;
        let h_at = rr.below(n);
        let nmodels = 1 + rr.below(2);
        let mut lines = Vec::new();
        for mi in 0..nmodels {
            if nmodels > 1 { lines.push(pdbtext::model_line(mi + 1)); }
            for i in 0..n {
                let is_h = i == h_at || rr.chance(1, 5);
                let a = pdbtext::AtomRec { het: false, serial: (start + i) % 100000, name: if is_h { "H".into() } else { "CA".into() }, alt: ' ', resname: "GLY".into(), chain: 'A', resseq: (rstart + i as i64) % 10000, icode: ' ',
                    x: i as i64 * 1000, y: mi as i64 * 1000, z: 0, occ: 1_000_000, b: 0, seg: String::new(), element: if is_h { "H".into() } else { "C".into() }, charge: 0, aniso: None };
                lines.push(pdbtext::atom_line(&a, &mut rr, false));
            }
            if nmodels > 1 { lines.push("ENDMDL".into()); }
        }
        lines.push("END".into());
        let flags = format!("1{}{}", rr.below(2), rr.below(2));
        out.push(format!("c15 filter pdb Loose {} {}", flags, enc_bytes((lines.join("\n") + "\n").as_bytes())));
    }
    // (a'') SEQRES records: the full read checks them (and inserts atom-less residues for names without coordinates),
    // the only-atomic read does not look at them
    for k in 0..budget(tier, 40, 800) {
        let lines = pdbtext::gen_seqres_doc(r);
        let flags = if k % 2 == 0 { "001".to_string() } else { format!("{}{}{}", r.below(2), r.below(2), r.below(2)) };
        out.push(format!("c15 filter pdb Loose {} {}", flags, enc_bytes((lines.join("\n") + "\n").as_bytes())));
    }
    // (b) opening by path
    for _ in 0..budget(tier, 300, 6_000) {
        let name = names(r);
        let content = *r.pick(&["pdb", "mmcif"]);
        let text = if content == "pdb" { let mut d = pdbtext::gen_doc(r, false); d.master = false; let mut l = pdbtext::render(&d, r, false); if r.chance(1, 2) { pdbtext::mutate_for_diag(&mut l, r); } l.join("\n") + "\n" } else { let d = cifdoc::gen_doc(r, false, false); cifdoc::render(&d, r, true) };
        out.push(format!("c15 open {} {} {} {}", enc_str(&name), content, b(r.chance(1, 2)), enc_bytes(text.as_bytes())));
    }
    for n in ["does-not-exist.pdb", "does-not-exist.cif", "does-not-exist.pdb.gz", "no-such-dir/x.cif.gz", "does-not-exist", "does-not-exist.xyz"] { out.push(format!("c15 missing {}", enc_str(n))); }
    // (c) saving by path
    for i in 0..budget(tier, 100, 2_000) {
        let name = names(r);
        let o = FullOpts { target: if i % 2 == 0 { Target::Pdb } else { Target::Cif }, in_range: true, metadata: i % 3 != 0, dbref: false, max_models: 2 };
        let pdb = match guarded(|| gen_full(r, &o)) { Ok(p) => p, Err(_) => continue };
        let meta = match meta_toks(&pdb) { Some(m) => m, None => continue };
        let gz = if r.chance(3, 4) { name.to_ascii_lowercase().ends_with(".gz") } else { r.chance(1, 2) };
        out.push(format!("c15 save {} {} {} {}", enc_str(&name), b(gz), meta.join(" "), dump(&pdb)));
    }
    out
}

/// what the documentation promises for a file name: the format and whether it is gzip (None: no usable extension)
fn spec_open(name: &str) -> Option<(&'static str, bool)> {
    let f = |e: &str| match e { "pdb" | "pdb1" => Some("pdb"), "cif" | "mmcif" => Some("mmcif"), _ => None };
    let (stem, ext) = name.rsplit_once('.')?;
    if stem.is_empty() { return None; }
    if ext == "gz" { let (s2, e2) = stem.rsplit_once('.')?; if s2.is_empty() { return None; } return f(e2).map(|x| (x, true)); }
    f(ext).map(|x| (x, false))
}
fn spec_save(name: &str, gz: bool) -> Option<&'static str> {
    let f = |e: &str| if e.eq_ignore_ascii_case("pdb") { Some("pdb") } else if e.eq_ignore_ascii_case("cif") { Some("mmcif") } else { None };
    let (stem, ext) = name.rsplit_once('.')?;
    if gz { if !ext.eq_ignore_ascii_case("gz") { return None; } let (_, e2) = stem.rsplit_once('.')?; return f(e2); }
    f(ext)
}

fn hier(p: &PDB, keep_atf: bool) -> String {
    let mut s = SPdb::from_real(p);
    for m in s.models.iter_mut() { for c in m.chains.iter_mut() { for x in c.residues.iter_mut() { for f in x.confs.iter_mut() { f.modif = None; if !keep_atf { for a in f.atoms.iter_mut() { a.atf = None; } } } } } }
    s.line()
}
fn meta_only(p: &PDB) -> String {
    let mut q = p.clone();
    q.remove_atoms_by(|_| true);
    meta_toks(&q).map_or("INEXACT".into(), |m| m.join(" "))
}
fn no_metadata(p: &PDB) -> bool {
    p.identifier.is_none() && p.remark_count() == 0 && p.unit_cell.is_none() && p.symmetry.is_none() && p.scale.is_none() && p.origx.is_none() && p.mtrix().count() == 0
        && p.chains().all(|c| c.database_reference().is_none()) && p.conformers().all(|c| c.modification().is_none())
}

fn workdir() -> String {
    let d = format!("{}/c15-files-{}", std::env::var("VERIF_SCRATCH").unwrap_or_else(|_| "/verif/work".into()), std::process::id());
    std::fs::create_dir_all(&d).ok();
    d
}

pub fn exec(case: &str) -> Exec {
    let mut t = Toks::new(case);
    t.expect("c15").unwrap();
    let kind = t.next().unwrap().to_string();
    let mut ex = Exec::new("-", "-");
    ex.tags.push(format!("kind:{kind}"));
    match kind.as_str() {
        "filter" => {
            let fmt = t.next().unwrap().to_string();
            let level = t.next().unwrap().to_string();
            let flags = t.next().unwrap().to_string();
            let bytes = dec_bytes(t.next().unwrap()).unwrap();
            let o = Opts::parse(&level, &flags);
            ex.tags.push(format!("format:{fmt}"));
            ex.tags.push(format!("flags:{flags}"));
            // the tie with the reader models
            let r = read(&fmt, &o, &bytes);
            ex.req = format!("{} read {} {} {}", if fmt == "pdb" { "pdb" } else { "cif" }, level, flags, enc_bytes(&bytes));
            ex.resp = if fmt == "pdb" { outcome_tok(&r) } else { strip_lines(&outcome_tok(&r)) };
            if let Read::Panic(m) = &r { ex.failures.push(Failure::new("reader-panicked", m.clone())); return ex; }
            let feats = |f: Failure| f.feat("format", &fmt).feat("flags", &flags).feat("level", &level);
            // discard_hydrogens == reading the text with its hydrogen records deleted
            if o.discard_h {
                let without: Vec<u8> = if fmt == "pdb" {
                    let text = String::from_utf8_lossy(&bytes).to_string();
                    let kept: Vec<&str> = text.lines().filter(|l| !((l.starts_with("ATOM  ") || l.starts_with("HETATM")) && l.get(76..78).map_or(false, |e| e.trim() == "H"))).collect();
                    (kept.join("\n") + "\n").into_bytes()
                } else { dec_bytes(t.next().unwrap()).unwrap() };
                let o2 = Opts { discard_h: false, ..o };
                let r2 = read(&fmt, &o2, &without);
                match (&r, &r2) {
                    (Read::Ok(p, _), Read::Ok(q, _)) => if dump(p) != dump(q) || meta_only(p) != meta_only(q) { ex.failures.push(feats(Failure::new("discard-hydrogens-differs-from-deleting-the-hydrogen-records", crate::c02::first_diff(&dump(q), &dump(p))))); },
                    (Read::Err(_), Read::Err(_)) => {}
                    (a, b2) => ex.failures.push(feats(Failure::new("discard-hydrogens-differs-from-deleting-the-hydrogen-records", format!("{} vs {}", strip_lines(&outcome_tok(a)).chars().take(120).collect::<String>(), strip_lines(&outcome_tok(b2)).chars().take(120).collect::<String>())))),
                }
                ex.tags.push(format!("hydrogens-first:{}", String::from_utf8_lossy(&bytes) != String::from_utf8_lossy(&without)));
            }
            // only_first_model == the first model of the read without that option
            if o.first_only {
                let r2 = read(&fmt, &Opts { first_only: false, ..o }, &bytes);
                if let (Read::Ok(p, _), Read::Ok(q, _)) = (&r, &r2) {
                    let mut q1 = q.clone();
                    while q1.model_count() > 1 { let n = q1.model_count(); q1.remove_model(n - 1); }
                    if dump(p) != dump(&q1) || meta_only(p) != meta_only(q) { ex.failures.push(feats(Failure::new("only-first-model-is-not-the-first-model-of-the-full-read", crate::c02::first_diff(&dump(&q1), &dump(p))))); }
                    ex.tags.push(format!("models-in-full-read:{}", q.model_count().min(3)));
                }
            }
            // only_atomic_coords == same atoms and hierarchy, no metadata
            if o.atomic_only {
                let r2 = read(&fmt, &Opts { atomic_only: false, ..o }, &bytes);
                if let (Read::Ok(p, _), Read::Ok(q, _)) = (&r, &r2) {
                    // ANISOU records are not ATOM records: the PDB reader documents that only ATOM/HETATM are parsed
                    let keep_atf = fmt != "pdb";
                    if hier(p, keep_atf) != hier(q, keep_atf) {
                        // is the difference nothing but what the SEQRES checks of the full read did: atom-less residues put in
                        // for names without coordinates, and the chain re-sorted when one was put in?
                        let canon = |x: &PDB| { let mut y = x.clone(); y.remove_residues_by(|r| r.atom_count() == 0); y.full_sort(); hier(&y, keep_atf) };
                        let seqres_only = q.residues().any(|r| r.atom_count() == 0) && canon(p) == canon(q);
                        ex.failures.push(feats(Failure::new("only-atomic-coords-changes-the-hierarchy", crate::c02::first_diff(&hier(q, keep_atf), &hier(p, keep_atf)))).feat("only_seqres_placeholders_differ", seqres_only));
                    }
                    if !no_metadata(p) { ex.failures.push(feats(Failure::new("only-atomic-coords-keeps-metadata", meta_only(p)))); }
                }
            }
        }
        "open" => {
            let name = t.str().unwrap();
            let content = t.next().unwrap().to_string();
            let decompress_flag = t.bool().unwrap();
            let bytes = dec_bytes(t.next().unwrap()).unwrap();
            let spec = spec_open(&name);
            ex.tags.push(format!("spec:{}", spec.map_or("none".to_string(), |(f, g)| format!("{}{}", f, if g { "+gz" } else { "" }))));
            if name.is_empty() || name.contains('/') { return ex; }
            let dir = workdir();
            // half of the cases use the bare file name relative to the current directory
            let relative = name.len() % 2 == 0;
            let cwd = std::env::current_dir().ok();
            if relative { let _ = std::env::set_current_dir(&dir); }
            let path = if relative { name.clone() } else { format!("{}/{}", dir, name) };
            let gz = spec.map_or(name.to_ascii_lowercase().ends_with(".gz"), |s| s.1);
            let data = if gz { let mut e = flate2::write::GzEncoder::new(Vec::new(), flate2::Compression::fast()); e.write_all(&bytes).unwrap(); e.finish().unwrap() } else { bytes.clone() };
            if std::fs::write(&path, &data).is_err() { return ex; }
            // the option set is derived from the content so that a case replays the same way
            let fl = bytes.len() % 8;
            let (dh, fm, ac) = (fl & 1 != 0, fl & 2 != 0, fl & 4 != 0);
            ex.tags.push(format!("open-flags:{}{}{}", b(dh), b(fm), b(ac)));
            let lvl = [StrictnessLevel::Loose, StrictnessLevel::Medium, StrictnessLevel::Strict][(bytes.len() / 8) % 3];
            ex.tags.push(format!("open-level:{}", crate::c07::level_name(lvl)));
            let by_path = guarded(|| { let mut o = ReadOptions::default(); o.set_level(lvl).set_discard_hydrogens(dh).set_only_first_model(fm).set_only_atomic_coords(ac); if decompress_flag { o.set_decompress(true); } o.read(&path) });
            let _ = std::fs::remove_file(&path);
            if let Some(c) = &cwd { let _ = std::env::set_current_dir(c); }
            let _ = std::fs::remove_dir(&dir);
            let feats = |f: Failure| f.feat("name", &name).feat("content", &content).feat("relative", relative);
            let o = Opts { level: lvl, discard_h: dh, first_only: fm, atomic_only: ac };
            ex.req = format!("c15 guess {}", enc_str(&name));
            match by_path {
                Err(m) => { ex.resp = "PANIC".into(); ex.failures.push(feats(Failure::new("open-by-path-panicked", m))); }
                Ok(res) => {
                    // which decision did the library take?
                    let observed = match &res { Err(d) if d.iter().any(|e| e.short_description() == "Missing extension" || e.short_description() == "Incorrect extension") => None, _ => Some(()) };
                    ex.resp = match (observed, spec) { (None, _) => "NONE".into(), (Some(()), Some((f, g))) => format!("{} {}", f, if g { "gz" } else { "plain" }), (Some(()), None) => "ACCEPTED-WITHOUT-KNOWN-EXTENSION".into() };
                    match spec {
                        None => if observed.is_some() { ex.failures.push(feats(Failure::new("file-name-without-known-extension-accepted", ""))); },
                        Some((f, _)) => {
                            if observed.is_none() { ex.failures.push(feats(Failure::new("known-extension-refused", ""))); }
                            else {
                                let direct = read(f, &o, &bytes);
                                let a = match &res { Ok((p, d)) => outcome_tok(&Read::Ok(p.clone(), d.clone())), Err(d) => outcome_tok(&Read::Err(d.clone())) };
                                let (a, b2) = (strip_lines(&a), strip_lines(&outcome_tok(&direct)));
                                if a != b2 { ex.failures.push(feats(Failure::new("open-by-path-differs-from-reading-the-bytes", crate::c02::first_diff(&b2, &a)))); }
                                ex.tags.push(format!("content-matches-extension:{}", f == content));
                            }
                        }
                    }
                }
            }
        }
        "missing" => {
            let name = t.str().unwrap();
            let path = format!("{}/{}", workdir(), name);
            match guarded(|| ReadOptions::default().read(&path)) {
                Err(m) => ex.failures.push(Failure::new("open-by-path-panicked", m).feat("name", &name)),
                Ok(Ok(_)) => ex.failures.push(Failure::new("missing-file-read-successfully", "").feat("name", &name)),
                Ok(Err(d)) => if d.is_empty() { ex.failures.push(Failure::new("empty-rejection-list", "")); } else { for e in &d { let _ = format!("{e}"); } },
            }
            let _ = std::fs::remove_dir(workdir());
        }
        "save" => {
            let name = t.str().unwrap();
            let gz = t.bool().unwrap();
            let pdb = match guarded(|| crate::c03::build(&mut t)) { Ok(Some(p)) => p, _ => { ex.failures.push(Failure::new("harness-could-not-rebuild-structure", "")); return ex; } };
            let spec = spec_save(&name, gz);
            ex.tags.push(format!("spec:{}{}", spec.unwrap_or("none"), if gz { "+gz" } else { "" }));
            if name.is_empty() || name.contains('/') { return ex; }
            ex.req = format!("c15 ext {} {}", b(gz), enc_str(&name));
            let dir = workdir();
            let relative = name.len() % 2 == 1;
            let cwd = std::env::current_dir().ok();
            if relative { let _ = std::env::set_current_dir(&dir); }
            let path = if relative { name.clone() } else { format!("{}/{}", dir, name) };
            // two cases in three the target already exists and is longer than anything that will be written: saving
            // replaces a file, it does not write over its beginning
            let preexisting = name.len() % 3 != 0;
            if preexisting { let _ = std::fs::write(&path, vec![b'#'; 400_000]); }
            ex.tags.push(format!("save-target-exists:{preexisting}"));
            let res = guarded(|| if gz { save_gz(&pdb, &path, StrictnessLevel::Loose, None) } else { save(&pdb, &path, StrictnessLevel::Loose) });
            let written = std::fs::read(&path).ok();
            let _ = std::fs::remove_file(&path);
            if let Some(c) = &cwd { let _ = std::env::set_current_dir(c); }
            let _ = std::fs::remove_dir(&dir);
            let feats = |f: Failure| f.feat("name", &name).feat("gz", gz).feat("relative", relative);
            match res {
                Err(m) => { ex.resp = "PANIC".into(); ex.failures.push(feats(Failure::new("save-by-path-panicked", m))); }
                Ok(r) => {
                    let refused_ext = matches!(&r, Err(d) if d.iter().any(|e| e.short_description() == "Incorrect extension" || e.short_description() == "Filename too short"));
                    ex.resp = if refused_ext { "NONE".into() } else { spec.map_or("ACCEPTED-WITHOUT-KNOWN-EXTENSION".to_string(), |s| s.to_string()) };
                    match spec {
                        None => if !refused_ext { ex.failures.push(feats(Failure::new("file-name-without-known-extension-accepted", ""))); },
                        Some(f) => {
                            if refused_ext { ex.failures.push(feats(Failure::new("known-extension-refused", ""))); }
                            else if r.is_ok() {
                                let mut want = Vec::new();
                                if f == "pdb" { save_pdb_raw(&pdb, BufWriter::new(&mut want), StrictnessLevel::Loose); } else { save_mmcif_raw(&pdb, BufWriter::new(&mut want)); }
                                let got = written.map(|w| if gz { let mut d = flate2::read::GzDecoder::new(&w[..]); let mut s = Vec::new(); let _ = d.read_to_end(&mut s); s } else { w });
                                if got.as_deref() != Some(&want[..]) { ex.failures.push(feats(Failure::new("saved-file-differs-from-the-in-memory-writer", format!("{} vs {} bytes", got.map_or(0, |g| g.len()), want.len())))); }
                                ex.tags.push("saved:compared".into());
                            } else { ex.tags.push("saved:refused-by-validation".into()); }
                        }
                    }
                }
            }
        }
        _ => panic!("unknown c15 case"),
    }
    ex
}
