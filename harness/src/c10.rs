//! C10 — editing operations do exactly what they say and nothing else.
use crate::c09::pools;
use crate::enc::*;
use crate::rng::Rng;
use crate::st::*;
use crate::{budget, guarded, Exec, Failure};
use pdbtbx::*;

fn fingerprint(p: &PDB) -> String {
    format!("{},{},{},{},{},{}", p.model_count(), p.total_chain_count(), p.total_residue_count(), p.total_conformer_count(), p.total_atom_count(),
        p.atoms().map(|a| a.serial_number()).sum::<usize>())
}

fn eval_pred(pred: &str, serial: i64, name: &str, het: bool) -> bool {
    if pred == "all" { true }
    else if pred == "het" { het }
    else if let Some(n) = pred.strip_prefix("s=") { n.parse::<i64>().map_or(false, |n| serial == n) }
    else if let Some(n) = pred.strip_prefix("s<") { n.parse::<i64>().map_or(false, |n| serial < n) }
    else if let Some(n) = pred.strip_prefix("n=") { dec_str(n).map_or(false, |n| name == n) }
    else { false }
}
fn p_a(pred: &str) -> impl Fn(&Atom) -> bool + '_ { move |a| eval_pred(pred, a.serial_number() as i64, a.name(), a.hetero()) }
fn p_f(pred: &str) -> impl Fn(&Conformer) -> bool + '_ { move |c| eval_pred(pred, 0, c.name(), false) }
fn p_r(pred: &str) -> impl Fn(&Residue) -> bool + '_ { move |r| eval_pred(pred, r.serial_number() as i64, "", false) }
fn p_c(pred: &str) -> impl Fn(&Chain) -> bool + '_ { move |c| eval_pred(pred, 0, c.id(), false) }
fn p_m(pred: &str) -> impl Fn(&Model) -> bool + '_ { move |m| eval_pred(pred, m.serial_number() as i64, "", false) }

fn num(t: &str) -> f64 {
    match t { "nan" => f64::NAN, "inf" => f64::INFINITY, "-inf" => f64::NEG_INFINITY, _ => undec6(t.parse().expect("num")) }
}

/// apply one op; Ok(result token) or Err(()) when the path does not exist (NOTARGET)
fn apply(pdb: &mut PDB, op: &[&str], par: Option<&rayon::ThreadPool>) -> String {
    let mut t = Toks { v: op.to_vec(), i: 0 };
    let name = t.next().unwrap();
    let unit = "-".to_string();
    let b = |x: bool| if x { "1".to_string() } else { "0".to_string() };
    macro_rules! model { () => {{ let im = t.usize().unwrap(); match pdb.model_mut(im) { Some(m) => m, None => return "NOTARGET".into() } }}; }
    macro_rules! chain { () => {{ let m = model!(); let ic = t.usize().unwrap(); match m.chain_mut(ic) { Some(c) => c, None => return "NOTARGET".into() } }}; }
    macro_rules! residue { () => {{ let c = chain!(); let ir = t.usize().unwrap(); match c.residue_mut(ir) { Some(r) => r, None => return "NOTARGET".into() } }}; }
    macro_rules! conformer { () => {{ let r = residue!(); let jf = t.usize().unwrap(); match r.conformer_mut(jf) { Some(f) => f, None => return "NOTARGET".into() } }}; }
    macro_rules! atom { () => {{ let f = conformer!(); let ia = t.usize().unwrap(); match f.atom_mut(ia) { Some(a) => a, None => return "NOTARGET".into() } }}; }
    match name {
        "p.add_model" => { pdb.add_model(SModel::parse(&mut t).unwrap().to_real().unwrap()); unit }
        "p.remove_model" => { let i = t.usize().unwrap(); pdb.remove_model(i); unit }
        "p.remove_models_by" => { let pr = t.next().unwrap(); pdb.remove_models_by(p_m(pr)); unit }
        "p.remove_models_except" => {
            let l = t.next().unwrap();
            let idx: Vec<usize> = if l == "-" { vec![] } else { l.split(',').map(|x| x.parse().unwrap()).collect() };
            match pdb.remove_models_except(&idx) { Some(k) => format!("S{k}"), None => "N".into() }
        }
        "p.remove_all_models_except_first" => match pdb.remove_all_models_except_first() { Some(k) => format!("S{k}"), None => "N".into() },
        "p.remove_model_serial_number" => { let n = t.usize().unwrap(); b(match par { Some(p) => p.install(|| pdb.par_remove_model_serial_number(n)), None => pdb.remove_model_serial_number(n) }) }
        "p.remove_chains_by" => { let pr = t.next().unwrap(); pdb.remove_chains_by(p_c(pr)); unit }
        "p.remove_residues_by" => { let pr = t.next().unwrap(); pdb.remove_residues_by(p_r(pr)); unit }
        "p.remove_conformers_by" => { let pr = t.next().unwrap(); pdb.remove_conformers_by(p_f(pr)); unit }
        "p.remove_atoms_by" => { let pr = t.next().unwrap(); pdb.remove_atoms_by(p_a(pr)); unit }
        "p.remove_empty" => { match par { Some(p) => p.install(|| pdb.par_remove_empty()), None => pdb.remove_empty() }; unit }
        "p.join" => { pdb.join(SPdb::parse(&mut t).unwrap().to_real().unwrap()); unit }
        "p.collect" => { let ms: Vec<Model> = pdb.models().cloned().collect(); let fresh: PDB = ms.into_iter().collect(); while pdb.model_count() > 0 { pdb.remove_model(0); } pdb.extend(fresh.models().cloned()); unit }
        "p.extend" => { let n = t.usize().unwrap(); let ms: Vec<Model> = (0..n).map(|_| SModel::parse(&mut t).unwrap().to_real().unwrap()).collect(); pdb.extend(ms); unit }
        "m.add_chain" => { let m = model!(); m.add_chain(SChain::parse(&mut t).unwrap().to_real().unwrap()); unit }
        "m.remove_chain" => { let m = model!(); let i = t.usize().unwrap(); m.remove_chain(i); unit }
        "m.remove_chain_by_id" => { let m = model!(); let s = t.str().unwrap(); b(match par { Some(p) => p.install(|| m.par_remove_chain_by_id(&s)), None => m.remove_chain_by_id(&s) }) }
        "m.remove_chains_by" => { let m = model!(); let pr = t.next().unwrap(); m.remove_chains_by(p_c(pr)); unit }
        "m.remove_residues_by" => { let m = model!(); let pr = t.next().unwrap(); m.remove_residues_by(p_r(pr)); unit }
        "m.remove_conformers_by" => { let m = model!(); let pr = t.next().unwrap(); m.remove_conformers_by(p_f(pr)); unit }
        "m.remove_atoms_by" => { let m = model!(); let pr = t.next().unwrap(); m.remove_atoms_by(p_a(pr)); unit }
        "m.remove_empty" => { let m = model!(); match par { Some(p) => p.install(|| m.par_remove_empty()), None => m.remove_empty() }; unit }
        "m.join" => { let m = model!(); m.join(SModel::parse(&mut t).unwrap().to_real().unwrap()); unit }
        "m.extend" => { let m = model!(); let n = t.usize().unwrap(); let cs: Vec<Chain> = (0..n).map(|_| SChain::parse(&mut t).unwrap().to_real().unwrap()).collect(); m.extend(cs); unit }
        "m.set_serial_number" => { let m = model!(); m.set_serial_number(t.usize().unwrap()); unit }
        "c.add_residue" => { let c = chain!(); c.add_residue(SRes::parse(&mut t).unwrap().to_real().unwrap()); unit }
        "c.insert_residue" => { let c = chain!(); let i = t.usize().unwrap(); c.insert_residue(i, SRes::parse(&mut t).unwrap().to_real().unwrap()); unit }
        "c.remove_residue" => { let c = chain!(); let i = t.usize().unwrap(); c.remove_residue(i); unit }
        "c.remove_residue_by_id" => { let c = chain!(); let n = t.i64().unwrap() as isize; let o = t.opt().unwrap(); b(match par { Some(p) => p.install(|| c.par_remove_residue_by_id((n, o.as_deref()))), None => c.remove_residue_by_id((n, o.as_deref())) }) }
        "c.remove_residues_by" => { let c = chain!(); let pr = t.next().unwrap(); c.remove_residues_by(p_r(pr)); unit }
        "c.remove_conformers_by" => { let c = chain!(); let pr = t.next().unwrap(); c.remove_conformers_by(p_f(pr)); unit }
        "c.remove_atoms_by" => { let c = chain!(); let pr = t.next().unwrap(); c.remove_atoms_by(p_a(pr)); unit }
        "c.remove_empty" => { let c = chain!(); c.remove_empty(); unit }
        "c.join" => { let c = chain!(); c.join(SChain::parse(&mut t).unwrap().to_real().unwrap()); unit }
        "c.extend" => { let c = chain!(); let n = t.usize().unwrap(); let rs: Vec<Residue> = (0..n).map(|_| SRes::parse(&mut t).unwrap().to_real().unwrap()).collect(); c.extend(rs); unit }
        "c.set_id" => { let c = chain!(); let raw = t.str().unwrap(); b(c.set_id(raw)) }
        "r.add_conformer" => { let r = residue!(); r.add_conformer(SConf::parse(&mut t).unwrap().to_real().unwrap()); unit }
        "r.remove_conformer" => { let r = residue!(); let i = t.usize().unwrap(); r.remove_conformer(i); unit }
        "r.remove_conformer_by_id" => { let r = residue!(); let s = t.str().unwrap(); let o = t.opt().unwrap(); b(match par { Some(p) => p.install(|| r.par_remove_conformer_by_id((&s, o.as_deref()))), None => r.remove_conformer_by_id((&s, o.as_deref())) }) }
        "r.remove_conformers_by" => { let r = residue!(); let pr = t.next().unwrap(); r.remove_conformers_by(p_f(pr)); unit }
        "r.remove_atoms_by" => { let r = residue!(); let pr = t.next().unwrap(); r.remove_atoms_by(p_a(pr)); unit }
        "r.remove_empty" => { let r = residue!(); r.remove_empty(); unit }
        "r.join" => { let r = residue!(); r.join(SRes::parse(&mut t).unwrap().to_real().unwrap()); unit }
        "r.extend" => { let r = residue!(); let n = t.usize().unwrap(); let fs: Vec<Conformer> = (0..n).map(|_| SConf::parse(&mut t).unwrap().to_real().unwrap()).collect(); r.extend(fs); unit }
        "r.set_serial_number" => { let r = residue!(); r.set_serial_number(t.i64().unwrap() as isize); unit }
        "r.set_insertion_code" => { let r = residue!(); let raw = t.str().unwrap(); b(r.set_insertion_code(raw)) }
        "r.remove_insertion_code" => { let r = residue!(); r.remove_insertion_code(); unit }
        "m.add_atom" => { let m = model!(); let ch = t.str().unwrap(); let n = t.i64().unwrap() as isize; let ic = t.opt().unwrap(); let nm = t.str().unwrap(); let alt = t.opt().unwrap(); let a = SAtom::parse(&mut t).unwrap().to_real().unwrap(); m.add_atom(a, ch, (n, ic.as_deref()), (nm, alt.as_deref())); unit }
        "c.add_atom" => { let c = chain!(); let n = t.i64().unwrap() as isize; let ic = t.opt().unwrap(); let nm = t.str().unwrap(); let alt = t.opt().unwrap(); let a = SAtom::parse(&mut t).unwrap().to_real().unwrap(); c.add_atom(a, (n, ic.as_deref()), (nm, alt.as_deref())); unit }
        "f.add_atom" => { let f = conformer!(); f.add_atom(SAtom::parse(&mut t).unwrap().to_real().unwrap()); unit }
        "f.remove_atom" => { let f = conformer!(); let i = t.usize().unwrap(); f.remove_atom(i); unit }
        "f.remove_atom_by_serial_number" => { let f = conformer!(); let n = t.usize().unwrap(); b(match par { Some(p) => p.install(|| f.par_remove_atom_by_serial_number(n)), None => f.remove_atom_by_serial_number(n) }) }
        "f.remove_atom_by_name" => { let f = conformer!(); let s = t.str().unwrap(); b(match par { Some(p) => p.install(|| f.par_remove_atom_by_name(&s)), None => f.remove_atom_by_name(&s) }) }
        "f.remove_atoms_by" => { let f = conformer!(); let pr = t.next().unwrap(); f.remove_atoms_by(p_a(pr)); unit }
        "f.join" => { let f = conformer!(); f.join(SConf::parse(&mut t).unwrap().to_real().unwrap()); unit }
        "f.extend" => { let f = conformer!(); let n = t.usize().unwrap(); let xs: Vec<Atom> = (0..n).map(|_| SAtom::parse(&mut t).unwrap().to_real().unwrap()).collect(); f.extend(xs); unit }
        "f.set_name" => { let f = conformer!(); let raw = t.str().unwrap(); b(f.set_name(raw)) }
        "f.set_alternative_location" => { let f = conformer!(); let raw = t.str().unwrap(); b(f.set_alternative_location(&raw)) }
        "f.remove_alternative_location" => { let f = conformer!(); f.remove_alternative_location(); unit }
        "f.set_modification" => { let f = conformer!(); let a = t.str().unwrap(); let c = t.str().unwrap(); if f.set_modification((a, c)).is_ok() { "ok".into() } else { "err".into() } }
        "a.set_hetero" => { let a = atom!(); a.set_hetero(t.bool().unwrap()); unit }
        "a.set_x" => { let a = atom!(); if a.set_x(num(t.next().unwrap())).is_ok() { "ok".into() } else { "err".into() } }
        "a.set_y" => { let a = atom!(); if a.set_y(num(t.next().unwrap())).is_ok() { "ok".into() } else { "err".into() } }
        "a.set_z" => { let a = atom!(); if a.set_z(num(t.next().unwrap())).is_ok() { "ok".into() } else { "err".into() } }
        "a.set_pos" => { let a = atom!(); let (x, y, z) = (num(t.next().unwrap()), num(t.next().unwrap()), num(t.next().unwrap())); if a.set_pos((x, y, z)).is_ok() { "ok".into() } else { "err".into() } }
        "a.set_serial_number" => { let a = atom!(); a.set_serial_number(t.usize().unwrap()); unit }
        "a.set_id" => { let a = atom!(); if a.set_id(t.str().unwrap()).is_ok() { "ok".into() } else { "err".into() } }
        "a.set_name" => { let a = atom!(); if a.set_name(t.str().unwrap()).is_ok() { "ok".into() } else { "err".into() } }
        "a.set_occupancy" => { let a = atom!(); if a.set_occupancy(num(t.next().unwrap())).is_ok() { "ok".into() } else { "err".into() } }
        "a.set_b_factor" => { let a = atom!(); if a.set_b_factor(num(t.next().unwrap())).is_ok() { "ok".into() } else { "err".into() } }
        "a.set_element" => { let a = atom!(); a.set_element(Element::new(t.usize().unwrap()).unwrap()); unit }
        "a.set_charge" => { let a = atom!(); a.set_charge(t.i64().unwrap() as isize); unit }
        "a.set_atf" => { let a = atom!(); let v: Vec<f64> = t.next().unwrap().split(',').map(|x| undec6(x.parse().unwrap())).collect(); a.set_anisotropic_temperature_factors([[v[0], v[1], v[2]], [v[3], v[4], v[5]], [v[6], v[7], v[8]]]); unit }
        _ => "BAD-OP".into(),
    }
}

const PAR_OPS: &[&str] = &["p.remove_model_serial_number", "p.remove_empty", "m.remove_chain_by_id", "m.remove_empty", "c.remove_residue_by_id", "r.remove_conformer_by_id", "f.remove_atom_by_serial_number", "f.remove_atom_by_name"];

// ------------------------------------------------------------------------------------------------
// generation

fn small(r: &mut Rng, o: &GenOpts) -> SPdb {
    let s = gen_pdb(r, o);
    realise(&s).1
}
fn tok<T>(x: &T, f: impl Fn(&T, &mut Vec<String>)) -> String { let mut v = Vec::new(); f(x, &mut v); v.join(" ") }

fn rand_path(r: &mut Rng, s: &SPdb, depth: usize) -> Vec<usize> {
    // mostly valid, sometimes one past the end
    let mut p = Vec::new();
    let oob = r.chance(1, 12);
    let pick = |r: &mut Rng, n: usize| if n == 0 { 0 } else { r.below(n) };
    let im = pick(r, s.models.len());
    p.push(im);
    let m = s.models.get(im);
    let ic = pick(r, m.map_or(0, |m| m.chains.len()));
    if depth >= 2 { p.push(ic); }
    let c = m.and_then(|m| m.chains.get(ic));
    let ir = pick(r, c.map_or(0, |c| c.residues.len()));
    if depth >= 3 { p.push(ir); }
    let x = c.and_then(|c| c.residues.get(ir));
    let jf = pick(r, x.map_or(0, |x| x.confs.len()));
    if depth >= 4 { p.push(jf); }
    let f = x.and_then(|x| x.confs.get(jf));
    let ia = pick(r, f.map_or(0, |f| f.atoms.len()));
    if depth >= 5 { p.push(ia); }
    if oob { let k = r.below(p.len()); p[k] += 7; }
    p
}
fn pk<'a>(r: &mut Rng, xs: &[&'a str]) -> &'a str { xs[r.below(xs.len())] }
fn ps(p: &[usize]) -> String { p.iter().map(|x| x.to_string()).collect::<Vec<_>>().join(" ") }

const RAW_IDS: &[&str] = &["A", "b", " C ", "", "  ", "x\u{e9}", "ALA", "gly", "0AF", "A\u{7}", "LONGNAME", "A\u{1f}", "A\u{7f}", "~A"];
const NUMS: &[&str] = &["0", "1500000", "-2250000", "999990000", "nan", "inf", "-inf", "-10000"];

fn rand_pred(r: &mut Rng, level: char) -> String {
    match level {
        'a' => match r.below(5) { 0 => "all".into(), 1 => "het".into(), 2 => format!("s={}", r.below(8)), 3 => format!("s<{}", r.below(8)), _ => format!("n={}", enc_str(pk(r, ATOM_NAMES))) },
        'f' => if r.chance(1, 6) { "all".into() } else { format!("n={}", enc_str(pk(r, CONF_NAMES))) },
        'r' => match r.below(4) { 0 => "all".into(), 1 => format!("s={}", r.range(-3, 22)), _ => format!("s<{}", r.range(-3, 22)) },
        'c' => if r.chance(1, 6) { "all".into() } else { format!("n={}", enc_str(pk(r, CHAIN_IDS))) },
        _ => if r.chance(1, 6) { "all".into() } else { format!("s={}", r.below(4)) },
    }
}

fn rand_op(r: &mut Rng, s: &SPdb) -> String {
    let tiny = GenOpts { max_models: 2, max_chains: 2, max_res: 2, max_conf: 2, max_atoms: 2, aniso: false, ..GenOpts::default() };
    let mut cnt = Counter { serial: 100, id: 1000 + r.below(1000) };
    let p1 = rand_path(r, s, 1);
    let p2 = rand_path(r, s, 2);
    let p3 = rand_path(r, s, 3);
    let p4 = rand_path(r, s, 4);
    let p5 = rand_path(r, s, 5);
    let rn = r.range(-3, 22);
    let real_atom = |a: &SAtom| SAtom::from_real(&a.to_real().unwrap());
    match r.below(74) {
        // `add_atom` on a model / chain that edits have shaped (duplicate chain ids after joins, residues in any order)
        70 | 71 => format!("m.add_atom {} {} {} {} {} {} {}", ps(&p1), enc_str(pk(r, CHAIN_IDS)), rn, enc_opt(*r.pick(&[None, None, Some("A")])), enc_str(*r.pick(&["ALA", "GLY", "HOH"])), enc_opt(*r.pick(&[None, None, Some("A"), Some("B")])), tok(&real_atom(&gen_atom(r, &tiny, &mut cnt)), SAtom::toks)),
        72 | 73 => format!("c.add_atom {} {} {} {} {} {}", ps(&p2), rn, enc_opt(*r.pick(&[None, None, Some("A")])), enc_str(*r.pick(&["ALA", "GLY", "HOH"])), enc_opt(*r.pick(&[None, None, Some("A"), Some("B")])), tok(&real_atom(&gen_atom(r, &tiny, &mut cnt)), SAtom::toks)),
        0 => format!("p.add_model {}", tok(&small(r, &GenOpts { max_models: 1, allow_empty: false, ..tiny }).models[0], SModel::toks)),
        1 => format!("p.remove_model {}", r.below(s.models.len() + 2)),
        2 => format!("p.remove_models_by {}", rand_pred(r, 'm')),
        3 => { let n = r.below(4); let l: Vec<String> = (0..n).map(|_| r.below(s.models.len() + 1).to_string()).collect(); format!("p.remove_models_except {}", if l.is_empty() { "-".into() } else { l.join(",") }) }
        4 => "p.remove_all_models_except_first".into(),
        5 => format!("p.remove_model_serial_number {}", r.below(5)),
        6 => format!("p.remove_chains_by {}", rand_pred(r, 'c')),
        7 => format!("p.remove_residues_by {}", rand_pred(r, 'r')),
        8 => format!("p.remove_conformers_by {}", rand_pred(r, 'f')),
        9 | 10 => format!("p.remove_atoms_by {}", rand_pred(r, 'a')),
        11 | 12 => "p.remove_empty".into(),
        13 => format!("p.join {}", small(r, &tiny).line()),
        14 if r.chance(1, 3) => "p.collect".into(),
        14 => { let x = small(r, &tiny); format!("p.extend {} {}", x.models.len(), x.models.iter().map(|m| tok(m, SModel::toks)).collect::<Vec<_>>().join(" ")) }
        15 => { let id = pk(r, CHAIN_IDS); format!("m.add_chain {} {}", ps(&p1), tok(&SChain::from_real(&gen_chain(r, &tiny, &mut cnt, id).to_real().unwrap()), SChain::toks)) }
        16 => format!("m.remove_chain {} {}", ps(&p1), r.below(4)),
        17 => format!("m.remove_chain_by_id {} {}", ps(&p1), enc_str(pk(r, CHAIN_IDS))),
        18 => format!("m.remove_chains_by {} {}", ps(&p1), rand_pred(r, 'c')),
        19 => format!("m.remove_residues_by {} {}", ps(&p1), rand_pred(r, 'r')),
        20 => format!("m.remove_conformers_by {} {}", ps(&p1), rand_pred(r, 'f')),
        21 => format!("m.remove_atoms_by {} {}", ps(&p1), rand_pred(r, 'a')),
        22 => format!("m.remove_empty {}", ps(&p1)),
        23 => format!("m.join {} {}", ps(&p1), tok(&SModel::from_real(&gen_model(r, &tiny, &mut cnt, 9).to_real().unwrap()), SModel::toks)),
        24 => { let m = SModel::from_real(&gen_model(r, &tiny, &mut cnt, 9).to_real().unwrap()); format!("m.extend {} {} {}", ps(&p1), m.chains.len(), m.chains.iter().map(|c| tok(c, SChain::toks)).collect::<Vec<_>>().join(" ")) }
        25 => format!("m.set_serial_number {} {}", ps(&p1), r.below(12)),
        26 => format!("c.add_residue {} {}", ps(&p2), tok(&SRes::from_real(&gen_res(r, &tiny, &mut cnt, rn).to_real().unwrap()), SRes::toks)),
        27 => format!("c.insert_residue {} {} {}", ps(&p2), r.below(5), tok(&SRes::from_real(&gen_res(r, &tiny, &mut cnt, rn).to_real().unwrap()), SRes::toks)),
        28 => format!("c.remove_residue {} {}", ps(&p2), r.below(5)),
        29 => format!("c.remove_residue_by_id {} {} {}", ps(&p2), r.range(-3, 22), enc_opt(*r.pick(ICODES))),
        30 => format!("c.remove_residues_by {} {}", ps(&p2), rand_pred(r, 'r')),
        31 => format!("c.remove_conformers_by {} {}", ps(&p2), rand_pred(r, 'f')),
        32 => format!("c.remove_atoms_by {} {}", ps(&p2), rand_pred(r, 'a')),
        33 => format!("c.remove_empty {}", ps(&p2)),
        34 => format!("c.join {} {}", ps(&p2), tok(&SChain::from_real(&gen_chain(r, &tiny, &mut cnt, "Q").to_real().unwrap()), SChain::toks)),
        35 => { let c = SChain::from_real(&gen_chain(r, &tiny, &mut cnt, "Q").to_real().unwrap()); format!("c.extend {} {} {}", ps(&p2), c.residues.len(), c.residues.iter().map(|x| tok(x, SRes::toks)).collect::<Vec<_>>().join(" ")) }
        36 | 37 => format!("c.set_id {} {}", ps(&p2), enc_str(pk(r, RAW_IDS))),
        38 => format!("r.add_conformer {} {}", ps(&p3), tok(&SConf::from_real(&gen_conf(r, &tiny, &mut cnt).to_real().unwrap()), SConf::toks)),
        39 => format!("r.remove_conformer {} {}", ps(&p3), r.below(4)),
        40 => format!("r.remove_conformer_by_id {} {} {}", ps(&p3), enc_str(pk(r, CONF_NAMES)), enc_opt(*r.pick(ALTS))),
        41 => format!("r.remove_conformers_by {} {}", ps(&p3), rand_pred(r, 'f')),
        42 => format!("r.remove_atoms_by {} {}", ps(&p3), rand_pred(r, 'a')),
        43 => format!("r.remove_empty {}", ps(&p3)),
        44 => format!("r.join {} {}", ps(&p3), tok(&SRes::from_real(&gen_res(r, &tiny, &mut cnt, 5).to_real().unwrap()), SRes::toks)),
        45 => { let x = SRes::from_real(&gen_res(r, &tiny, &mut cnt, 5).to_real().unwrap()); format!("r.extend {} {} {}", ps(&p3), x.confs.len(), x.confs.iter().map(|f| tok(f, SConf::toks)).collect::<Vec<_>>().join(" ")) }
        46 => format!("r.set_serial_number {} {}", ps(&p3), r.range(-1000, 10000)),
        47 | 48 => format!("r.set_insertion_code {} {}", ps(&p3), enc_str(pk(r, RAW_IDS))),
        49 => format!("r.remove_insertion_code {}", ps(&p3)),
        50 => format!("f.add_atom {} {}", ps(&p4), tok(&real_atom(&gen_atom(r, &tiny, &mut cnt)), SAtom::toks)),
        51 => format!("f.remove_atom {} {}", ps(&p4), r.below(5)),
        52 => format!("f.remove_atom_by_serial_number {} {}", ps(&p4), r.below(10)),
        53 => format!("f.remove_atom_by_name {} {}", ps(&p4), enc_str(pk(r, ATOM_NAMES))),
        54 => format!("f.remove_atoms_by {} {}", ps(&p4), rand_pred(r, 'a')),
        55 => format!("f.join {} {}", ps(&p4), tok(&SConf::from_real(&gen_conf(r, &tiny, &mut cnt).to_real().unwrap()), SConf::toks)),
        56 => { let f = gen_conf(r, &tiny, &mut cnt); format!("f.extend {} {} {}", ps(&p4), f.atoms.len(), f.atoms.iter().map(|a| tok(&real_atom(a), SAtom::toks)).collect::<Vec<_>>().join(" ")) }
        57 => format!("f.set_name {} {}", ps(&p4), enc_str(pk(r, RAW_IDS))),
        58 => format!("f.set_alternative_location {} {}", ps(&p4), enc_str(pk(r, RAW_IDS))),
        59 => format!("f.remove_alternative_location {}", ps(&p4)),
        60 => format!("f.set_modification {} {} {}", ps(&p4), enc_str(pk(r, RAW_IDS)), enc_str(pk(r, &["a comment", "bad\u{e9}", ""]))),
        61 => format!("a.set_hetero {} {}", ps(&p5), b(r.chance(1, 2))),
        62 => format!("a.set_{} {} {}", r.pick(&["x", "y", "z"]), ps(&p5), r.pick(NUMS)),
        63 => format!("a.set_pos {} {} {} {}", ps(&p5), r.pick(NUMS), r.pick(NUMS), r.pick(NUMS)),
        64 => format!("a.set_serial_number {} {}", ps(&p5), r.below(100)),
        65 => format!("a.set_id {} {}", ps(&p5), enc_str(pk(r, RAW_IDS))),
        66 => format!("a.set_name {} {}", ps(&p5), enc_str(pk(r, RAW_IDS))),
        67 => format!("a.set_occupancy {} {}", ps(&p5), r.pick(NUMS)),
        68 => format!("a.set_b_factor {} {}", ps(&p5), r.pick(NUMS)),
        _ => match r.below(3) {
            0 => format!("a.set_element {} {}", ps(&p5), 1 + r.below(118)),
            1 => format!("a.set_charge {} {}", ps(&p5), r.range(-12, 12)),
            _ => format!("a.set_atf {} {}", ps(&p5), (0..9).map(|_| (r.range(-999, 999) * 100).to_string()).collect::<Vec<_>>().join(",")),
        },
    }
}

/// fixed 40-operation alphabet for the exhaustive short histories
fn alphabet() -> Vec<String> {
    let c = "C s51 1 R 4 ~ 1 F s414c41 ~ ~ 1 A 0 9 s3939 s43 0 0 0 1000000 0 6 0 ~";
    let x = "R 4 ~ 1 F s414c41 ~ ~ 1 A 0 9 s3939 s43 0 0 0 1000000 0 6 0 ~";
    let f = "F s474c59 s42 ~ 1 A 1 8 s3938 s4e 0 0 0 1000000 0 7 0 ~";
    let a = "A 0 7 s3937 s4f 1000 2000 3000 500000 0 8 0 ~";
    vec![
        "p.remove_model 0".into(), "p.remove_model 5".into(), "p.remove_models_by s=1".into(), "p.remove_models_except 0".into(),
        "p.remove_models_except 1,0".into(), "p.remove_models_except 3".into(), "p.remove_all_models_except_first".into(),
        "p.remove_model_serial_number 2".into(), "p.remove_chains_by n=s41".into(), "p.remove_residues_by s<2".into(),
        "p.remove_conformers_by n=s414c41".into(), "p.remove_atoms_by s<3".into(), "p.remove_atoms_by het".into(), "p.remove_empty".into(),
        format!("p.join P 1 M 5 1 {c}"), format!("p.extend 1 M 6 1 {c}"),
        format!("m.add_chain 0 {c}"), "m.remove_chain 0 1".into(), "m.remove_chain_by_id 0 s41".into(), "m.remove_empty 0".into(),
        "m.set_serial_number 0 4".into(), format!("c.add_residue 0 0 {x}"), format!("c.insert_residue 0 0 1 {x}"), format!("c.insert_residue 0 0 9 {x}"),
        "c.remove_residue 0 0 0".into(), "c.remove_residue_by_id 0 0 1 ~".into(), "c.set_id 0 0 s207a20".into(), "c.set_id 0 0 s2020".into(),
        format!("r.add_conformer 0 0 0 {f}"), "r.remove_conformer 0 0 0 0".into(), "r.remove_conformer_by_id 0 0 0 s414c41 ~".into(),
        "r.set_insertion_code 0 0 0 s71".into(), "r.remove_empty 0 0 0".into(), format!("f.add_atom 0 0 0 0 {a}"), "f.remove_atom 0 0 0 0 0".into(),
        "f.remove_atom_by_name 0 0 0 0 s4341".into(), "f.set_alternative_location 0 0 0 0 s62".into(), "a.set_occupancy 0 0 0 0 0 -10000".into(),
        "a.set_name 0 0 0 0 0 s206f7874".into(), "a.set_x 0 0 0 0 0 nan".into(),
    ]
}

fn seeds() -> Vec<String> {
    vec![
        "P 2 M 1 2 C s41 2 R 1 ~ 2 F s414c41 ~ ~ 2 A 0 1 s31 s4e 0 0 0 1000000 0 7 0 ~ A 0 2 s32 s4341 1000 0 0 1000000 0 6 0 ~ F s414c41 s42 ~ 0 R 2 s41 1 F s474c59 ~ ~ 1 A 1 3 s33 s4f 0 0 0 500000 0 8 0 ~ C s42 0 M 2 1 C s41 1 R 1 ~ 1 F s414c41 ~ ~ 1 A 0 1 s34 s4e 0 0 0 1000000 0 7 0 ~".into(),
        "P 1 M 1 1 C s41 1 R 1 ~ 1 F s414c41 ~ ~ 1 A 0 1 s31 s4341 0 0 0 1000000 0 6 0 ~".into(),
        "P 0".into(),
    ]
}

pub fn gen(tier: &str, r: &mut Rng) -> Vec<String> {
    let mut out = Vec::new();
    let alpha = alphabet();
    let maxlen = if tier == "thorough" { 3 } else { 2 };
    for seed in seeds() {
        for len in 1..=maxlen {
            let total = alpha.len().pow(len as u32);
            for idx in 0..total {
                let mut x = idx;
                let mut ops = Vec::new();
                for _ in 0..len { ops.push(alpha[x % alpha.len()].clone()); x /= alpha.len(); }
                out.push(format!("c10 hist {} {}", seed, ops.join(" ; ")));
            }
        }
    }
    let n = budget(tier, 1200, 40000);
    for i in 0..n {
        let o = GenOpts { max_models: 3, max_chains: 3, max_res: 3, max_conf: 3, max_atoms: 4, aniso: false, ..GenOpts::default() };
        let s = small(r, &o);
        let len = if i % 25 == 0 { 50 + r.below(150) } else { 1 + r.below(12) };
        let ops: Vec<String> = (0..len).map(|_| rand_op(r, &s)).collect();
        out.push(format!("c10 hist {} {}", s.line(), ops.join(" ; ")));
    }
    // a model that holds the same chain id twice (as a join leaves it), the later one last: `add_atom` goes to the first
    for _ in 0..budget(tier, 40, 400) {
        let o = GenOpts { max_models: 1, max_chains: 3, max_res: 2, max_conf: 2, max_atoms: 2, aniso: false, allow_empty: false, ..GenOpts::default() };
        let s = small(r, &o);
        if let Some(id) = s.models.first().and_then(|m| m.chains.first()).map(|c| c.id.clone()) {
            let tiny = GenOpts { max_models: 1, max_chains: 1, max_res: 2, max_conf: 1, max_atoms: 2, aniso: false, ..GenOpts::default() };
            let mut cnt = Counter { serial: 500, id: 5000 + r.below(1000) };
            let dup = tok(&SChain::from_real(&gen_chain(r, &tiny, &mut cnt, &id).to_real().unwrap()), SChain::toks);
            let atom = |r: &mut Rng, cnt: &mut Counter| tok(&SAtom::from_real(&gen_atom(r, &tiny, cnt).to_real().unwrap()), SAtom::toks);
            let a1 = atom(r, &mut cnt); let a2 = atom(r, &mut cnt);
            let ops = vec![format!("m.add_chain 0 {}", dup), format!("m.add_atom 0 {} {} ~ {} ~ {}", enc_str(&id), r.range(-3, 22), enc_str("ALA"), a1), format!("m.add_atom 0 {} {} ~ {} ~ {}", enc_str(&id), 900, enc_str("GLY"), a2)];
            out.push(format!("c10 hist {} {}", s.line(), ops.join(" ; ")));
        }
    }
    // by-identifier removals of the parallel twins on containers large enough for the pool to split them, with the
    // identifier present twice: only the FIRST match may go, whatever worker finds a match first
    for level in ["conformer-serial", "conformer-name", "residue", "chain", "model", "pdb"] {
        for k in 0..budget(tier, 2, 8) {
            out.push(format!("c10 first {} {} {}", level, [60_000usize, 200_000, 20_000][k % 3], 3 + k));
        }
    }
    out
}

/// children of one container with the sought identifier at two places, the parallel by-identifier removal under pools of
/// several sizes, repeated: the survivor must be the second occurrence
fn exec_first(level: &str, n: usize, reps: usize) -> Exec {
    let mut ex = Exec::new("-", "-");
    ex.tags.push(format!("first:{level}"));
    let (i1, i2) = (n / 2 - 1, n / 2);
    let atom = |serial: usize, name: &str, tag: usize| Atom::new(false, serial, tag.to_string(), name, 0.0, 0.0, 0.0, 1.0, 0.0, "C", 0).unwrap();
    for pool in pools() {
        for _ in 0..reps {
            // the marker that tells the two occurrences apart sits in a field the identifier does not look at
            let verdict: Option<(bool, String)> = match level {
                "conformer-serial" | "conformer-name" => {
                    let mut f = Conformer::new("ALA", None, None).unwrap();
                    for i in 0..n { let dup = i == i1 || i == i2; f.add_atom(atom(if dup { 7_000_000 } else { i }, if dup { "DUP" } else { "CA" }, i)); }
                    let r = pool.install(|| if level == "conformer-serial" { f.par_remove_atom_by_serial_number(7_000_000) } else { f.par_remove_atom_by_name("DUP") });
                    let left: Vec<String> = f.atoms().filter(|a| a.name() == "DUP").map(|a| a.id().to_string()).collect();
                    Some((r, left.join(",")))
                }
                "residue" => {
                    let mut x = Residue::new(1, None, None).unwrap();
                    for i in 0..n { let dup = i == i1 || i == i2; let mut c = Conformer::new(if dup { "DUP" } else { "ALA" }, Some(if dup { "Z" } else { "A" }), None).unwrap(); c.add_atom(atom(i, "CA", i)); x.add_conformer(c); }
                    let r = pool.install(|| x.par_remove_conformer_by_id(("DUP", Some("Z"))));
                    let left: Vec<String> = x.conformers().filter(|c| c.name() == "DUP").flat_map(|c| c.atoms().map(|a| a.id().to_string())).collect();
                    Some((r, left.join(",")))
                }
                "chain" => {
                    let mut c = Chain::new("A").unwrap();
                    for i in 0..n { let dup = i == i1 || i == i2; let mut f = Conformer::new("ALA", None, None).unwrap(); f.add_atom(atom(i, "CA", i)); c.add_residue(Residue::new(if dup { -5 } else { i as isize }, None, Some(f)).unwrap()); }
                    let r = pool.install(|| c.par_remove_residue_by_id((-5, None)));
                    let left: Vec<String> = c.residues().filter(|x| x.serial_number() == -5).flat_map(|x| x.atoms().map(|a| a.id().to_string())).collect();
                    Some((r, left.join(",")))
                }
                "model" => {
                    let mut m = Model::new(1);
                    for i in 0..n { let dup = i == i1 || i == i2; let mut c = Chain::new(if dup { "DUP".to_string() } else { format!("C{}", i % 900) }).unwrap(); let mut f = Conformer::new("ALA", None, None).unwrap(); f.add_atom(atom(i, "CA", i)); c.add_residue(Residue::new(1, None, Some(f)).unwrap()); m.add_chain(c); }
                    let r = pool.install(|| m.par_remove_chain_by_id("DUP"));
                    let left: Vec<String> = m.chains().filter(|c| c.id() == "DUP").flat_map(|c| c.atoms().map(|a| a.id().to_string())).collect();
                    Some((r, left.join(",")))
                }
                _ => {
                    let mut p = PDB::new();
                    let small = n / 20;
                    let (j1, j2) = (small / 2 - 1, small / 2);
                    for i in 0..small { let dup = i == j1 || i == j2; let mut m = Model::new(if dup { 424_242 } else { i }); let mut c = Chain::new("A").unwrap(); let mut f = Conformer::new("ALA", None, None).unwrap(); f.add_atom(atom(i, "CA", i)); c.add_residue(Residue::new(1, None, Some(f)).unwrap()); m.add_chain(c); p.add_model(m); }
                    let r = pool.install(|| p.par_remove_model_serial_number(424_242));
                    let left: Vec<String> = p.models().filter(|m| m.serial_number() == 424_242).flat_map(|m| m.atoms().map(|a| a.id().to_string())).collect();
                    let want = j2.to_string();
                    if !r || left.join(",") != want { ex.failures.push(Failure::new("parallel-by-identifier-removal-did-not-remove-the-first-match", format!("left {:?}, wanted {:?}", left, want)).feat("level", level).feat("threads", pool.current_num_threads())); }
                    None
                }
            };
            if let Some((r, left)) = verdict {
                let want = i2.to_string();
                if !r || left != want { ex.failures.push(Failure::new("parallel-by-identifier-removal-did-not-remove-the-first-match", format!("left {:?}, wanted {:?}", left, want)).feat("level", level).feat("threads", pool.current_num_threads())); }
            }
            if !ex.failures.is_empty() { return ex; }
        }
    }
    ex
}

fn has_empty(s: &SPdb) -> bool {
    s.models.iter().any(|m| m.chains.is_empty() || m.chains.iter().any(|c| c.residues.is_empty() || c.residues.iter().any(|x| x.confs.is_empty() || x.confs.iter().any(|f| f.atoms.is_empty()))))
}
fn atom_ids(s: &SPdb) -> Vec<String> {
    s.models.iter().flat_map(|m| &m.chains).flat_map(|c| &c.residues).flat_map(|x| &x.confs).flat_map(|f| &f.atoms).map(|a| a.id.clone()).collect()
}

pub fn exec(case: &str) -> Exec {
    let mut t = Toks::new(case);
    t.expect("c10").unwrap();
    let family = t.next().unwrap().to_string();
    if family == "first" {
        let level = t.next().unwrap().to_string();
        let n = t.usize().unwrap();
        let reps = t.usize().unwrap();
        return exec_first(&level, n, reps);
    }
    assert_eq!(family, "hist");
    let s = SPdb::parse(&mut t).expect("structure");
    let rest: Vec<&str> = t.v[t.i..].to_vec();
    let ops: Vec<Vec<&str>> = rest.split(|x| *x == ";").filter(|o| !o.is_empty()).map(|o| o.to_vec()).collect();
    let mut ex = Exec::new(case, "");
    ex.tags.push(format!("len:{}", match ops.len() { 0..=3 => ops.len().to_string(), 4..=12 => "4-12".into(), _ => ">12".into() }));
    let mut pdb = s.to_real().expect("builds");
    let mut outs: Vec<String> = Vec::new();
    for (k, op) in ops.iter().enumerate() {
        ex.tags.push(format!("op:{}", op[0]));
        let before = SPdb::from_real(&pdb);
        // parallel twin on a copy, every pool
        let mut par_results = Vec::new();
        let mut seq_twin = None;
        if PAR_OPS.contains(&op[0]) {
            let mut q = before.to_real().unwrap();
            if let Ok(r) = guarded(|| apply(&mut q, op, None)) {
                seq_twin = Some((r, SPdb::from_real(&q)));
            }
            for p in pools() {
                let mut q = before.to_real().unwrap();
                if let Ok(r) = guarded(|| apply(&mut q, op, Some(p))) {
                    par_results.push((r, SPdb::from_real(&q)));
                }
            }
        }
        match guarded(|| apply(&mut pdb, op, None)) {
            Err(_) => {
                outs.push("PANIC".into());
                ex.tags.push("panic".into());
                break;
            }
            Ok(res) => {
                let after = SPdb::from_real(&pdb);
                outs.push(format!("{}:{}", res, fingerprint(&pdb)));
                ex.tags.push(format!("res:{}", res.chars().next().unwrap_or('?')));
                // oracles on the implementation alone
                let refused = matches!(res.as_str(), "0" | "err" | "N" | "NOTARGET");
                let by_first = op[0].contains("_by_id") || op[0].contains("by_serial_number") || op[0].contains("by_name") || op[0] == "p.remove_model_serial_number";
                if refused && after != before && !(by_first && false) {
                    ex.failures.push(Failure::new("refused-operation-changed-the-structure", format!("step {k}: {}", op[0])).feat("op", op[0]));
                }
                if by_first {
                    let count = |p: &SPdb| (p.models.len(), p.models.iter().map(|m| m.chains.len()).sum::<usize>(), p.models.iter().flat_map(|m| &m.chains).map(|c| c.residues.len()).sum::<usize>(),
                        p.models.iter().flat_map(|m| &m.chains).flat_map(|c| &c.residues).map(|x| x.confs.len()).sum::<usize>(), p.atom_count());
                    let (b0, a0) = (count(&before), count(&after));
                    let removed = (b0.0 - a0.0) + (b0.1 - a0.1).min(1) * 0 + 0;
                    let _ = removed;
                    let level_delta = match op[0].chars().next().unwrap() { 'p' => b0.0 - a0.0, 'm' => b0.1 - a0.1, 'c' => b0.2 - a0.2, 'r' => b0.3 - a0.3, _ => b0.4 - a0.4 };
                    if res == "1" && level_delta != 1 { ex.failures.push(Failure::new("by-identifier-removal-did-not-remove-exactly-one", format!("step {k}: {} removed {}", op[0], level_delta)).feat("op", op[0])); }
                }
                if op[0] == "p.remove_atoms_by" {
                    let pr = op[1];
                    let want: Vec<String> = before.models.iter().flat_map(|m| &m.chains).flat_map(|c| &c.residues).flat_map(|x| &x.confs).flat_map(|f| &f.atoms)
                        .filter(|a| !eval_pred(pr, a.serial as i64, &a.name, a.het)).map(|a| a.id.clone()).collect();
                    if atom_ids(&after) != want { ex.failures.push(Failure::new("remove-atoms-by-not-exactly-the-matching-atoms", format!("step {k}")).feat("op", op[0])); }
                }
                if op[0] == "p.remove_empty" {
                    if has_empty(&after) { ex.failures.push(Failure::new("remove-empty-left-an-empty-container", format!("step {k}")).feat("op", op[0])); }
                    if atom_ids(&after) != atom_ids(&before) { ex.failures.push(Failure::new("remove-empty-changed-atoms", format!("step {k}")).feat("op", op[0])); }
                }
                for (pr, ps) in &par_results {
                    let (sr, ss) = match &seq_twin { Some(x) => x, None => break };
                    if pr != sr || ps != ss {
                        ex.failures.push(Failure::new("parallel-variant-differs", format!("step {k}: {}", op[0])).feat("op", op[0]));
                        break;
                    }
                }
            }
        }
    }
    let fin = SPdb::from_real(&pdb);
    ex.resp = format!("{} | {}", outs.join(" "), fin.line()).trim_start().to_string();
    if outs.is_empty() { ex.resp = format!("| {}", fin.line()); }
    ex
}
